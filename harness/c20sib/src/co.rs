//! Builds of harness/c20sib for the feature configurations of retrofire-core other than `std`
//! (no fp feature, `libm`, `mm`) and their use as line-based co-processes.  Shared by
//! harness/src/bin/c20.rs and harness/src/bin/c12.rs through `#[path]`.
#![allow(dead_code)]
use std::io::{BufRead, BufReader, Write};
use std::path::PathBuf;
use std::process::{Child, ChildStdin, ChildStdout, Command, Stdio};
use std::sync::{Mutex, Once};


const SIBS: &[(&str, &str, &str)] = &[("fallback", "nofp", ""), ("libm", "libm", "libm"), ("mm", "mm", "mm")];

fn target_base() -> PathBuf {
    match std::env::var("VERIF_SCRATCH") {
        Ok(s) if !s.is_empty() => PathBuf::from(s),
        _ => PathBuf::from(env!("CARGO_MANIFEST_DIR")),
    }
}
fn sib_bin(dir: &str) -> PathBuf {
    target_base().join(format!("target-{dir}")).join("release").join("c20sib")
}

static BUILT: Once = Once::new();

/// Builds the three sibling configurations (in parallel; a no-op when fresh).  With VERIF_REPO set
/// (mutation self-tests) the scratch copy of retrofire-core is compiled instead of /repo/core.
pub fn ensure_siblings() {
    BUILT.call_once(|| {
        let crate_dir = PathBuf::from(env!("CARGO_MANIFEST_DIR")).join("c20sib");
        let repo = std::env::var("VERIF_REPO").ok().filter(|r| !r.is_empty() && r != "/repo");
        let handles: Vec<_> = SIBS
            .iter()
            .map(|&(_, dir, feat)| {
                let crate_dir = crate_dir.clone();
                let repo = repo.clone();
                std::thread::spawn(move || {
                    let mut cmd = Command::new("cargo");
                    cmd.current_dir(&crate_dir)
                        .env("CARGO_NET_OFFLINE", "true")
                        .args(["build", "--release", "--offline", "--target-dir"])
                        .arg(target_base().join(format!("target-{dir}")));
                    if !feat.is_empty() {
                        cmd.args(["--features", feat]);
                    }
                    if let Some(r) = &repo {
                        cmd.arg("--config").arg(format!("paths=[\"{r}/core\"]"));
                    }
                    let out = cmd.output().expect("cannot run cargo");
                    (dir, out)
                })
            })
            .collect();
        for h in handles {
            let (dir, out) = h.join().unwrap();
            if !out.status.success() {
                let err = String::from_utf8_lossy(&out.stderr);
                let tail: Vec<&str> = err.lines().rev().take(25).collect();
                eprintln!("c20: build of configuration `{dir}` failed:");
                for l in tail.iter().rev() {
                    eprintln!("  {l}");
                }
                std::process::exit(3);
            }
        }
    });
}

struct Co {
    _child: Child,
    inp: ChildStdin,
    out: BufReader<ChildStdout>,
}

static COS: Mutex<Vec<(String, Co)>> = Mutex::new(Vec::new());

/// One request to the co-process of back end `be`.
pub fn ask(be: &str, req: &str) -> String {
    ensure_siblings();
    let mut cos = COS.lock().unwrap_or_else(|e| e.into_inner());
    if !cos.iter().any(|(n, _)| n == be) {
        let dir = SIBS.iter().find(|s| s.0 == be).unwrap_or_else(|| panic!("unknown back end {be}")).1;
        let mut child = Command::new(sib_bin(dir))
            .stdin(Stdio::piped())
            .stdout(Stdio::piped())
            .spawn()
            .expect("cannot start sibling");
        let inp = child.stdin.take().unwrap();
        let out = BufReader::new(child.stdout.take().unwrap());
        let mut co = Co { _child: child, inp, out };
        // make sure the sibling really is the configuration we think it is
        writeln!(co.inp, "backend").unwrap();
        co.inp.flush().unwrap();
        let mut l = String::new();
        co.out.read_line(&mut l).unwrap();
        assert_eq!(l.trim(), be, "sibling in target-{dir} reports a different back end");
        cos.push((be.to_string(), co));
    }
    let co = &mut cos.iter_mut().find(|(n, _)| n == be).unwrap().1;
    writeln!(co.inp, "{req}").unwrap();
    co.inp.flush().unwrap();
    let mut l = String::new();
    co.out.read_line(&mut l).unwrap();
    l.trim().to_string()
}

