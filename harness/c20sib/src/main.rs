//! Sibling of harness/src/bin/c20.rs for one feature configuration of retrofire-core.
//! Reads one request per line on stdin, answers with one line on stdout (flushed), so that the
//! std-built `c20` can keep it open as a co-process.  A panic becomes "panic:<message>".
use std::io::{self, BufRead, Write};
use std::panic::{catch_unwind, AssertUnwindSafe};

mod ops;

fn main() {
    std::panic::set_hook(Box::new(|_| {}));
    let stdout = io::stdout();
    let mut out = stdout.lock();
    for line in io::stdin().lock().lines() {
        let line = line.unwrap();
        let toks: Vec<&str> = line.split_ascii_whitespace().collect();
        if toks.is_empty() {
            continue;
        }
        let res = match catch_unwind(AssertUnwindSafe(|| ops::serve(&toks))) {
            Ok(s) => s,
            Err(e) => {
                let msg = e
                    .downcast_ref::<String>()
                    .cloned()
                    .or_else(|| e.downcast_ref::<&str>().map(|s| s.to_string()))
                    .unwrap_or_default();
                let msg: String = msg.chars().map(|c| if c.is_ascii_whitespace() { '_' } else { c }).take(60).collect();
                format!("panic:{msg}")
            }
        };
        writeln!(out, "{res}").unwrap();
        out.flush().unwrap();
    }
}
