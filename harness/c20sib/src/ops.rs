//! Float-helper operations of C20, evaluated through `re::math::float::f32` — the alias that the
//! feature configuration of retrofire-core selects (std: the primitive type, libm, mm, or the
//! built-in fallback).  Shared between harness/src/bin/c20.rs (std build, in-process) and the
//! sibling binaries (one per other configuration), which answer the same one-line requests.
#![allow(dead_code)]

use re::math::float::f32 as backend;
use re::math::point::pt3;
use re::render::raster::{scan, ScreenPt};
use re::math::vec::{vec3, Vec3};
use re::render::tex::{uv, SamplerRepeatPot, Texture};
use re::util::buf::Buf2;

pub const BACKEND: &str = if cfg!(feature = "std") {
    "std"
} else if cfg!(feature = "libm") {
    "libm"
} else if cfg!(feature = "mm") {
    "mm"
} else {
    "fallback"
};

pub fn pf(s: &str) -> f32 {
    f32::from_bits(u32::from_str_radix(s, 16).expect("f32 bits"))
}
pub fn hf(x: f32) -> String {
    format!("{:08x}", x.to_bits())
}
pub fn fnv_step(mut h: u64, w: u32) -> u64 {
    for i in 0..4 {
        h ^= ((w >> (8 * i)) & 0xFF) as u64;
        h = h.wrapping_mul(0x100_0000_01b3);
    }
    h
}
pub const FNV_INIT: u64 = 0xcbf2_9ce4_8422_2325;

/// NaNs of any payload are one value for digests.
pub fn canon(x: f32) -> u32 {
    if x.is_nan() { 0x7fc0_0000 } else { x.to_bits() }
}

/// Harness-side oracle for the exact one-argument functions (f64 holds every f32; floor/abs are
/// exact there); `None` for NaN inputs.
pub fn oracle_exact(f: &str, a: f32) -> Option<u32> {
    if a.is_nan() {
        return None;
    }
    Some(match f {
        "floor" => ((a as f64).floor() as f32).to_bits(),
        "abs" => ((a as f64).abs() as f32).to_bits(),
        _ => return None,
    })
}
/// +0 and -0 are the same value.
pub fn same_value(a: u32, b: u32) -> bool {
    a == b || (a | b) == 0x8000_0000
}

/// One function of the selected back end; `None` when this back end does not offer it.
pub fn eval(f: &str, a: f32, b: f32) -> Option<f32> {
    Some(match f {
        "abs" => backend::abs(a),
        "floor" => backend::floor(a),
        "rem_euclid" => backend::rem_euclid(a, b),
        // float.rs:147-152: with std the (crate-private) RecipSqrt trait is `x.powf(-0.5)`
        #[cfg(feature = "std")]
        "recip_sqrt" => a.powf(-0.5),
        #[cfg(not(feature = "std"))]
        "recip_sqrt" => backend::recip_sqrt(a),
        #[cfg(any(feature = "std", feature = "libm", feature = "mm"))]
        "sqrt" => backend::sqrt(a),
        #[cfg(any(feature = "std", feature = "libm", feature = "mm"))]
        "powf" => backend::powf(a, b),
        #[cfg(any(feature = "std", feature = "libm", feature = "mm"))]
        "sin" => backend::sin(a),
        #[cfg(any(feature = "std", feature = "libm", feature = "mm"))]
        "cos" => backend::cos(a),
        #[cfg(any(feature = "std", feature = "libm", feature = "mm"))]
        "tan" => backend::tan(a),
        #[cfg(any(feature = "std", feature = "libm", feature = "mm"))]
        "asin" => backend::asin(a),
        #[cfg(any(feature = "std", feature = "libm", feature = "mm"))]
        "acos" => backend::acos(a),
        #[cfg(any(feature = "std", feature = "libm", feature = "mm"))]
        "atan2" => backend::atan2(a, b),
        #[cfg(any(feature = "std", feature = "libm"))]
        "exp" => backend::exp(a),
        _ => return None,
    })
}

/// `round_up_to_half` (private, raster.rs:228) observed through `scan`:
/// x-probe: a one-row rectangle with left edge `x`, right edge `x + 8`: `xs.start`, `xs.end`;
/// y-probe: a rectangle spanning rows `x .. x + 2`: first scanline's `y` and the number of scanlines.
pub fn rh(x: f32) -> String {
    type V = (ScreenPt, ());
    let p = |x: f32, y: f32| -> V { (pt3(x, y, 0.0), ()) };
    let (l0, l1, r0, r1) = (p(x, 0.0), p(x, 1.0), p(x + 8.0, 0.0), p(x + 8.0, 1.0));
    let mut it = scan(0.0..1.0, &l0..&l1, &r0..&r1);
    let xs = match it.next() {
        Some(sl) => format!("{} {}", sl.xs.start, sl.xs.end),
        None => "- -".to_string(),
    };
    let (l0, l1, r0, r1) = (p(0.0, x), p(0.0, x + 2.0), p(1.0, x), p(1.0, x + 2.0));
    let mut n = 0u64;
    let mut first = None;
    for sl in scan(x..x + 2.0, &l0..&l1, &r0..&r1) {
        if first.is_none() {
            first = Some(sl.y);
        }
        n += 1;
        if n > 16 {
            break;
        }
    }
    format!("{xs} {} {n}", first.map(|y| y.to_string()).unwrap_or("-".into()))
}

/// C12 through this configuration: `sample_abs` of the repeating / clamping sampler on an owned
/// texture whose texels hold their own coordinates; "u,v" of the texel read.  (`SamplerClamp` only
/// exists with an fp feature.)
pub fn tx(smp: &str, dw: u32, dh: u32, u: f32, v: f32) -> String {
    let tex = Texture::from(Buf2::new_with((dw, dh), |x, y| ((x as u64) << 32) | y as u64));
    let t: u64 = match smp {
        "rep" => SamplerRepeatPot::new(&tex).sample_abs(&tex, uv(u, v)),
        #[cfg(any(feature = "std", feature = "libm", feature = "mm"))]
        "cl" => re::render::tex::SamplerClamp.sample_abs(&tex, uv(u, v)),
        _ => return "na".into(),
    };
    format!("{},{}", t >> 32, t & 0xFFFF_FFFF)
}

/// Angle wrapping (math/angle.rs:262 `Angle::wrap`, built on the back end's `rem_euclid`; the method only
/// exists with an fp feature): bits of the wrapped angle in radians.
pub fn wrap(a: f32, min: f32, max: f32) -> String {
    #[cfg(any(feature = "std", feature = "libm", feature = "mm"))]
    {
        use re::math::angle::rads;
        hf(rads(a).wrap(rads(min), rads(max)).to_rads())
    }
    #[cfg(not(any(feature = "std", feature = "libm", feature = "mm")))]
    {
        let _ = (a, min, max);
        "na".into()
    }
}

/// Normalisation (math/vec.rs:139 `Vector::normalize`, built on the back end's `recip_sqrt`).
pub fn norm(x: f32, y: f32, z: f32) -> String {
    let v: Vec3 = vec3(x, y, z);
    let n = v.normalize();
    format!("{} {} {}", hf(n.0[0]), hf(n.0[1]), hf(n.0[2]))
}

/// Answers one request (tokens after the op's back-end name have been stripped by the caller):
///   v <fn> <a> [<b>]               -> bits of the result | "na"
///   d <fn> <start> <count> [<b>]   -> "<fnv> <nwrong> <first wrong>": digest of canon(result) over consecutive bit patterns of a
///   s <fn> <start> <count> <stride> [<b>] -> results for a strided sweep, space separated bits
///   rh <x>                          -> "<xs.start> <xs.end> <y> <n>"
///   tx <rep|cl> <dw> <dh> <u> <v>   -> "<u>,<v>" | "na"
///   wrap <a> <min> <max>            -> bits | "na";   norm <x> <y> <z> -> three bit patterns
pub fn serve(t: &[&str]) -> String {
    match t[0] {
        "v" => {
            let a = pf(t[2]);
            let b = t.get(3).map(|s| pf(s)).unwrap_or(0.0);
            eval(t[1], a, b).map(hf).unwrap_or("na".into())
        }
        "d" => {
            let start = u64::from_str_radix(t[2], 16).unwrap();
            let count: u64 = t[3].parse().unwrap();
            let b = t.get(4).map(|s| pf(s)).unwrap_or(0.0);
            if eval(t[1], 0.0, 1.0).is_none() {
                return "na".into();
            }
            let mut h = FNV_INIT;
            let (mut wrong, mut first) = (0u64, String::from("-"));
            for i in 0..count {
                let a = f32::from_bits((start + i) as u32);
                let r = eval(t[1], a, b).unwrap();
                h = fnv_step(h, canon(r));
                if let Some(w) = oracle_exact(t[1], a) {
                    if !same_value(r.to_bits(), w) {
                        wrong += 1;
                        if first == "-" {
                            first = hf(a);
                        }
                    }
                }
            }
            format!("{h:016x} {wrong} {first}")
        }
        "s" => {
            let start = u64::from_str_radix(t[2], 16).unwrap();
            let count: u64 = t[3].parse().unwrap();
            let stride: u64 = t[4].parse().unwrap();
            let b = t.get(5).map(|s| pf(s)).unwrap_or(0.0);
            if eval(t[1], 1.0, 1.0).is_none() {
                return "na".into();
            }
            let mut out = String::with_capacity(9 * count as usize);
            for i in 0..count {
                let a = f32::from_bits((start + i * stride) as u32);
                out.push_str(&hf(eval(t[1], a, b).unwrap()));
                out.push(' ');
            }
            out.trim_end().to_string()
        }
        "rh" => rh(pf(t[1])),
        "tx" => tx(t[1], t[2].parse().unwrap(), t[3].parse().unwrap(), pf(t[4]), pf(t[5])),
        "wrap" => wrap(pf(t[1]), pf(t[2]), pf(t[3])),
        "norm" => norm(pf(t[1]), pf(t[2]), pf(t[3])),
        "backend" => BACKEND.to_string(),
        other => format!("unknown-request:{other}"),
    }
}
