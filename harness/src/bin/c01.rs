//! C01: whole-pipeline image through render() and the Batch/Camera front doors.
use vharness::render_common::*;
use vharness::util::*;

pub fn run(t: &[&str]) -> String {
    run_default(t)
}

pub fn gen(rng: &mut Rng, tier: Tier, out: &mut Vec<String>) {
    let n = if tier == Tier::Quick { 500 } else { 20_000 };
    for i in 0..n {
        let door = ['r', 'B', 'b', 'c', 'C', 'M', 'b', 'c'][i % 8];
        let colour_only = i % 5 == 4;
        let k = 1 + (i / 2) % 4;
        let ntris = if colour_only { 1 } else { 1 + rng.below(if tier == Tier::Quick { 4 } else { 8 }) as usize };
        // a third of the framebuffer scenes: culling on, every triangle submitted in both windings
        // (exactly one of each pair must be drawn, so the ideal image is unchanged)
        let both_windings = !colour_only && i % 3 == 0;
        let cull = if both_windings { *rng.pick(&['b', 'f']) } else { 'n' };
        let flags = format!("cull={cull} sort={} test=l cw=1 dw=1 sh=0 proj=none zinit={}",
            *rng.pick(&['n', 'n', 'f', 'b']), h32(0.0));
        let (mut line, _w, _h) = header(rng, door, match (colour_only, i % 6 == 1) { (true, false) => "cb", (true, true) => "cs", (false, true) => "fs", _ => "fb" }, &flags, k);
        // independent triangles (3 vertices each) plus, sometimes, shared vertices
        let mut verts: Vec<Vec<f32>> = vec![];
        let mut tris: Vec<[usize; 3]> = vec![];
        // clip space is scale invariant: a fifth of the scenes have the whole homogeneous vectors scaled
        // by 1e3..1e8 (all depths huge, 1/w down to 1e-8) or by 1e-8..1e-3 (all w tiny)
        let scale = match i % 10 {
            3 => 10f32.powf(rng.f32_in(3.0, 8.0)),
            7 => 10f32.powf(rng.f32_in(-8.0, -3.0)),
            _ => 1.0,
        };
        for _ in 0..ntris {
            let inside_only = rng.chance(1, 3);
            let base = verts.len();
            for _ in 0..3 {
                let p = gen_clip_vertex(rng, !inside_only);
                let mut v: Vec<f32> = p.iter().map(|c| c * scale).collect();
                for _ in 0..k {
                    v.push(if rng.bool() { rng.range(-8, 9) as f32 } else { rng.f32_in(-50.0, 50.0) });
                }
                verts.push(v);
            }
            if base >= 3 && rng.chance(1, 4) {
                // share an edge with the previous triangle
                tris.push([base - 2, base - 1, base]);
            } else {
                tris.push([base, base + 1, base + 2]);
            }
        }
        if both_windings {
            let rev: Vec<[usize; 3]> = tris.iter().map(|t| [t[0], t[2], t[1]]).collect();
            tris.extend(rev);
        }
        push_verts(&mut line, &verts);
        line += &format!(" t {}", tris.len());
        for t in &tris {
            line += &format!(" {} {} {}", t[0], t[1], t[2]);
        }
        out.push(line);
    }
}

fn main() {
    vharness::harness_main(gen, run);
}
