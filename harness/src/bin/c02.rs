//! C02: rendering through the library's own projection and viewport matrices never panics,
//! never writes outside the viewport, never leaves NaN in the depth buffer.
use vharness::render_common::*;
use vharness::util::*;

pub fn run(t: &[&str]) -> String {
    let toks: Vec<&str> = t.iter().copied().filter(|x| !x.starts_with("needle=")).collect();
    run_default(&toks)
}

/// A view-space coordinate in an adversarial mode.
fn view_point(rng: &mut Rng, near: f32, far: f32, half_w: f32) -> [f32; 3] {
    let lim = 1000.0 * near;
    let z = match rng.below(10) {
        0 => near,                       // exactly on the near plane
        1 => far,                        // exactly on the far plane
        2 => 0.0,                        // on the eye plane
        3 => -rng.f32_in(0.0, far),      // behind the camera
        4 => near * (1.0 + f32::EPSILON),
        5 => rng.f32_in(0.0, near),      // between eye and near plane
        6 => rng.f32_in(far, (2.0 * far).min(lim)),
        _ => rng.f32_in(near, far),
    };
    let xy = |rng: &mut Rng| match rng.below(8) {
        0 => 0.0,
        1 => z * half_w,                 // exactly on a side plane (for focal ratio 1/half_w)
        2 => -z * half_w,
        3 => rng.f32_in(-lim, lim),      // huge
        4 => rng.f32_in(-1e-3, 1e-3) * near,
        _ => rng.f32_in(-1.5, 1.5) * z.abs().max(near) * half_w,
    };
    [xy(rng), xy(rng), z]
}

pub fn gen(rng: &mut Rng, tier: Tier, out: &mut Vec<String>) {
    let n = if tier == Tier::Quick { 1200 } else { 40_000 };
    for i in 0..n {
        let door = ['r', 'b', 'B', 'r'][i % 4];
        let tgt = match i % 14 { 6 => "cb", 13 => "cs", 3 | 10 => "fs", _ => "fb" };
        let k = 1;
        let near = *rng.pick(&[0.1f32, 1.0, 0.5, 2.0, 10.0, 0.001, 0.01, 1e4, 1e6, 1e-6]);
        let far = near * *rng.pick(&[2.0f32, 10.0, 100.0, 1000.0]);
        let ortho = rng.chance(1, 4);
        let focal = *rng.pick(&[0.5f32, 1.0, 2.0, 1.7320508]);
        let half_w = 1.0 / focal;
        let proj = if ortho {
            let s = rng.f32_in(0.5, 20.0) * near;
            format!("ortho,{},{},{},{},{},{}", h32(-s), h32(-s * 0.75), h32(near), h32(s), h32(s * 0.75), h32(far))
        } else {
            format!("persp,{},{},{}", h32(focal), h32(near), h32(far))
        };
        let cull = *rng.pick(&['n', 'f', 'b']);
        let sort = *rng.pick(&['n', 'f', 'b']);
        let test = *rng.pick(&['n', 'l', 'l', 'g', 'e']);
        let flags = format!(
            "cull={cull} sort={sort} test={test} cw={} dw={} sh={} proj={proj} zinit={}",
            rng.below(4).min(1), rng.below(4).min(1), rng.below(2), h32(0.0)
        );
        // buffer sizes from 1x1
        let (mut line, _, _) = if rng.chance(1, 6) {
            (format!("scene door={door} tgt={tgt} dims=1x1 vp=0,0,1,1 {flags} k={k} sel=0"), 1, 1)
        } else {
            header(rng, door, tgt, &flags, k)
        };
        let ntris = 1 + rng.below(4) as usize;
        let mut verts: Vec<Vec<f32>> = vec![];
        let mut tris = vec![];
        for _ in 0..ntris {
            let base = verts.len();
            let kind = rng.below(8);
            let p0 = view_point(rng, near, far, half_w);
            for j in 0..3 {
                let p = match (kind, j) {
                    (0, _) => p0,                                   // all three coincident
                    (1, 2) => [verts[base][0], verts[base][1], verts[base][2]], // two equal
                    (2, _) => {
                        // sub-pixel triangle around p0
                        let e = 1e-3 * p0[2].abs().max(near);
                        [p0[0] + rng.f32_in(-e, e), p0[1] + rng.f32_in(-e, e), p0[2]]
                    }
                    _ => view_point(rng, near, far, half_w),
                };
                verts.push(vec![p[0], p[1], p[2], 1.0, rng.f32_in(-10.0, 10.0)]);
            }
            if kind == 3 {
                // zero area: third vertex on the segment of the first two
                let (a, b) = (verts[base].clone(), verts[base + 1].clone());
                let t = rng.unit();
                for c in 0..3 {
                    verts[base + 2][c] = a[c] + (b[c] - a[c]) * t;
                }
            }
            tris.push([base, base + 1, base + 2]);
        }
        push_verts(&mut line, &verts);
        line += &format!(" t {}", tris.len());
        for t in &tris {
            line += &format!(" {} {} {}", t[0], t[1], t[2]);
        }
        out.push(line);
    }
}

/// Thin triangles whose bottom (or top) vertex sits a hair below (above) a pixel centre: with f32
/// edge stepping the two edges can cross by an ulp around that centre, so that the span's end falls
/// before its start (measured: about 3 in 1000 such triangles). Rendered through an identity
/// orthographic box and the full-buffer viewport; only the impl-only oracle judges them.
pub fn gen_needles(rng: &mut Rng, n: usize, out: &mut Vec<String>) {
    let one = h32(1.0);
    let m1 = h32(-1.0);
    for i in 0..n {
        let k = 1.0 + rng.below(14) as f32;
        let j = 4.0 + rng.below(11) as f32;
        let bx = k + 0.5 + *rng.pick(&[0.0f32, 1e-6, -1e-6]);
        let by = j + 0.5 + *rng.pick(&[1e-5f32, 1e-4, 1e-3, 3e-3]);
        let tx = rng.f32_in(0.0, 15.0);
        let ty = rng.f32_in(0.0, j - 2.0);
        let sep = *rng.pick(&[1e-2f32, 0.05, 0.1, 0.3]);
        let t = rng.f32_in(0.2, 0.8);
        let mx = tx + (bx - tx) * t + rng.f32_in(-sep, sep);
        let my = ty + (by - ty) * t;
        let mut pts = [(tx, ty), (mx, my), (bx, by)];
        if i % 2 == 1 {
            // mirrored: the needle points upwards
            for p in pts.iter_mut() {
                p.1 = 16.0 - p.1;
            }
        }
        let rot = rng.below(3) as usize;
        pts.rotate_left(rot);
        let test = *rng.pick(&['n', 'l']);
        let tgt = if i % 4 < 2 { "fb" } else { "cb" };
        let mut line = format!(
            "scene door=r tgt={tgt} dims=16x16 vp=0,0,16,16 cull=n sort=n test={test} cw=1 dw=1 sh=0 proj=ortho,{m1},{m1},{m1},{one},{one},{one} zinit={} k=1 sel=0 v 3",
            h32(-1.0)
        );
        for (x, y) in pts {
            line += &format!(" {} {} {} {} {}", h32(x / 8.0 - 1.0), h32(y / 8.0 - 1.0), h32(0.0), one, h32(1.0));
        }
        line += " t 1 0 1 2 needle=1";
        out.push(line);
    }
}

fn main() {
    vharness::harness_main(gen_all, run);
}

/// Tiny worlds (near = 1e-4 … 1e-2, everything scaled along): triangles mostly inside the frustum
/// with one or two vertices a few percent beyond a side plane. In clip space the overshoot is
/// minute in absolute terms (w is tiny) but amounts to several pixels on a wide buffer — the case
/// that breaks any absolute tolerance in the trivial-accept test.
pub fn gen_grazing(rng: &mut Rng, n: usize, out: &mut Vec<String>) {
    for i in 0..n {
        let near = *rng.pick(&[1e-4f32, 1e-3, 1e-5, 1e-2]);
        // receding triangles: the inside vertices hundreds of times deeper than the grazing ones, so
        // the crossing parameter on the side plane is ~1e-5 (breaks any snapping of t to 0 or 1)
        let deep = rng.chance(1, 2);
        let far = near * if deep { 1000.0 } else { *rng.pick(&[100.0f32, 1000.0]) };
        let focal = *rng.pick(&[1.0f32, 2.0, 0.5]);
        let w = if deep && rng.bool() { 150 + rng.below(250) as u32 } else { 40 + rng.below(40) as u32 };
        let h = 4 + rng.below(12) as u32;
        let (l, t, r, b) = if i % 2 == 0 { (0, 0, w, h) } else { (3, 1, w - 4, h - 1) };
        let aspect = (r - l) as f32 / (b - t) as f32;
        let tgt = if i % 3 == 0 { "cb" } else { "fb" };
        let mut line = format!(
            "scene door=r tgt={tgt} dims={w}x{h} vp={l},{t},{r},{b} cull=n sort=n test=l cw=1 dw=1 sh=0 proj=persp,{},{},{} zinit={} k=1 sel=0 v 3",
            h32(focal), h32(near), h32(far), h32(0.0)
        );
        for j in 0..3 {
            let outside = j < 1 + (i % 2);
            let z = if deep && !outside { far * rng.f32_in(0.5, 0.95) } else if deep { near * rng.f32_in(1.05, 3.0) } else { near * rng.f32_in(1.5, 8.0) };
            // inside, or beyond the left/right/top/bottom plane by delta (relative)
            let delta = if outside { *rng.pick(&[0.005f32, 0.02, 0.05, 0.1]) } else { -rng.f32_in(0.05, 0.9) };
            let side = if rng.bool() { 1.0 } else { -1.0 };
            let (mut x, mut y) = (rng.f32_in(-0.8, 0.8) * z / focal, rng.f32_in(-0.8, 0.8) * z / (focal * aspect));
            if rng.bool() {
                x = side * (1.0 + delta) * z / focal;
            } else {
                y = side * (1.0 + delta) * z / (focal * aspect);
            }
            line += &format!(" {} {} {} {} {}", h32(x), h32(y), h32(z), h32(1.0), h32(rng.f32_in(-5.0, 5.0)));
        }
        line += " t 1 0 1 2";
        out.push(line);
    }
}

/// Edge-on triangles: two vertices on one ray through the eye (clip-space (X·w, Y·w, z, w) for two
/// different w), so they project to the SAME screen point — chosen to be a pixel centre — with
/// different depths; the third vertex anywhere. In screen space the triangle has zero width along
/// that edge: the class of the fixed defect zero-width-trapezoid-nan (NaN depth with the test off).
pub fn gen_edge_on(rng: &mut Rng, n: usize, out: &mut Vec<String>) {
    for i in 0..n {
        let w = 4 + rng.below(12) as u32;
        let h = 3 + rng.below(8) as u32;
        let test = ['n', 'l', 'g', 'n'][i % 4];
        let tgt = if i % 5 == 4 { "cb" } else { "fb" };
        let mut line = format!(
            "scene door=r tgt={tgt} dims={w}x{h} vp=0,0,{w},{h} cull=n sort=n test={test} cw=1 dw=1 sh=0 proj=none zinit={} k=1 sel=0 v 3",
            h32(0.0)
        );
        // NDC of a pixel centre (or, sometimes, an arbitrary point)
        let (px, py) = (rng.below(w as u64) as f32 + 0.5, rng.below(h as u64) as f32 + 0.5);
        let (mut nx, mut ny) = (px / w as f32 * 2.0 - 1.0, py / h as f32 * 2.0 - 1.0);
        if rng.chance(1, 4) {
            nx = rng.f32_in(-0.9, 0.9);
            ny = rng.f32_in(-0.9, 0.9);
        }
        let w1 = rng.f32_in(0.5, 4.0);
        let w2 = if rng.chance(1, 3) { w1 * 2.0 } else { rng.f32_in(0.5, 4.0) };
        let third = if rng.bool() {
            // on the same ray too (the whole triangle is a point on screen) or anywhere inside
            let w3 = rng.f32_in(0.5, 4.0);
            if rng.chance(1, 3) { [nx * w3, ny * w3, rng.f32_in(-0.9, 0.9) * w3, w3] } else { [rng.f32_in(-0.9, 0.9) * w3, rng.f32_in(-0.9, 0.9) * w3, 0.0, w3] }
        } else {
            // at the eye plane: w = 0 (clipped by the near plane)
            [rng.f32_in(-1.0, 1.0), rng.f32_in(-1.0, 1.0), -1.0, 0.0]
        };
        let vs = [[nx * w1, ny * w1, rng.f32_in(-0.9, 0.9) * w1, w1], [nx * w2, ny * w2, rng.f32_in(-0.9, 0.9) * w2, w2], third];
        let order = [[0, 1, 2], [1, 2, 0], [2, 0, 1]][i % 3];
        for j in order {
            let v = vs[j];
            line += &format!(" {} {} {} {} {}", h32(v[0]), h32(v[1]), h32(v[2]), h32(v[3]), h32(rng.f32_in(-5.0, 5.0)));
        }
        line += " t 1 0 1 2";
        out.push(line);
    }
}

pub fn gen_all(rng: &mut Rng, tier: Tier, out: &mut Vec<String>) {
    gen(rng, tier, out);
    gen_edge_on(rng, if tier == Tier::Quick { 800 } else { 20_000 }, out);
    gen_grazing(rng, if tier == Tier::Quick { 600 } else { 20_000 }, out);
    gen_needles(rng, if tier == Tier::Quick { 16_000 } else { 100_000 }, out);
}
