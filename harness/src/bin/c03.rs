//! C03: frustum clipping through the public `view_frustum::clip`.
//!
//! case:  clip <k> <n> <n*3 vertices: 4 pos words + k attribute words, hex f32 bits>
//! out :  <m> <m*3 vertices ...> | <per-input single-call counts> <same: 1 if the batch output is
//!        bit-identical to the concatenation of the single-triangle calls>
use re::geom::{vertex, Tri};
use re::math::color::{rgb, rgba, Color3f, Color4f};
use re::math::{vec2, vec3, Lerp, Vec2, Vec3};
use re::render::clip::{view_frustum, ClipVec, ClipVert};

use vharness::util::*;

trait Attr: Lerp + Clone {
    fn from_words(w: &[f32]) -> Self;
    fn words(&self) -> Vec<f32>;
}
impl Attr for f32 {
    fn from_words(w: &[f32]) -> Self {
        w[0]
    }
    fn words(&self) -> Vec<f32> {
        vec![*self]
    }
}
impl Attr for Vec2 {
    fn from_words(w: &[f32]) -> Self {
        vec2(w[0], w[1])
    }
    fn words(&self) -> Vec<f32> {
        vec![self.x(), self.y()]
    }
}
impl Attr for Vec3 {
    fn from_words(w: &[f32]) -> Self {
        vec3(w[0], w[1], w[2])
    }
    fn words(&self) -> Vec<f32> {
        vec![self.x(), self.y(), self.z()]
    }
}
impl Attr for (Vec2, f32) {
    fn from_words(w: &[f32]) -> Self {
        (vec2(w[0], w[1]), w[2])
    }
    fn words(&self) -> Vec<f32> {
        vec![self.0.x(), self.0.y(), self.1]
    }
}

impl Attr for Color3f {
    fn from_words(w: &[f32]) -> Self {
        rgb(w[0], w[1], w[2])
    }
    fn words(&self) -> Vec<f32> {
        self.0.to_vec()
    }
}
impl Attr for Color4f {
    fn from_words(w: &[f32]) -> Self {
        rgba(w[0], w[1], w[2], w[3])
    }
    fn words(&self) -> Vec<f32> {
        self.0.to_vec()
    }
}

/// attribute words for the kind code `k` of a case: 1 f32, 2 Vec2, 3 Vec3, 4 (Vec2, f32), 5 Color3f, 6 Color4f
fn kind_words(k: usize) -> usize {
    match k {
        4 | 5 => 3,
        6 => 4,
        _ => k,
    }
}

fn fmt_tris<A: Attr>(ts: &[Tri<ClipVert<A>>]) -> String {
    let mut s = format!("{}", ts.len());
    for Tri(vs) in ts {
        for v in vs {
            for c in v.pos.0 {
                s += " ";
                s += &h32(c);
            }
            for c in v.attrib.words() {
                s += " ";
                s += &h32(c);
            }
        }
    }
    s
}

fn run_clip<A: Attr>(k: usize, n: usize, w: &[f32]) -> String {
    let stride = 4 + k;
    let tris: Vec<Tri<ClipVert<A>>> = (0..n)
        .map(|i| {
            let vs: [ClipVert<A>; 3] = core::array::from_fn(|j| {
                let o = (3 * i + j) * stride;
                let pos: ClipVec = [w[o], w[o + 1], w[o + 2], w[o + 3]].into();
                ClipVert::new(vertex(pos, A::from_words(&w[o + 4..o + stride])))
            });
            Tri(vs)
        })
        .collect();
    let mut out = vec![];
    view_frustum::clip(&tris[..], &mut out);
    // the same triangles one call each
    let mut counts = vec![];
    let mut concat = String::new();
    let mut total = 0;
    for t in &tris {
        let mut o1 = vec![];
        view_frustum::clip(core::slice::from_ref(t), &mut o1);
        counts.push(o1.len().to_string());
        total += o1.len();
        let f = fmt_tris(&o1);
        if let Some((_, body)) = f.split_once(' ') {
            if !concat.is_empty() {
                concat += " ";
            }
            concat += body;
        }
    }
    let batch = fmt_tris(&out);
    let batch_body = batch.split_once(' ').map(|x| x.1).unwrap_or("");
    let same = total == out.len() && batch_body == concat;
    format!("{} | {} {}", batch, counts.join(" "), same as u8)
}

pub fn run(t: &[&str]) -> String {
    match t[0] {
        "clip" => {
            let k: usize = t[1].parse().unwrap();
            let n: usize = t[2].parse().unwrap();
            let w: Vec<f32> = t[3..].iter().map(|s| pf32(s)).collect();
            assert_eq!(w.len(), n * 3 * (4 + kind_words(k)));
            match k {
                1 => run_clip::<f32>(k, n, &w),
                2 => run_clip::<Vec2>(k, n, &w),
                3 => run_clip::<Vec3>(k, n, &w),
                4 => run_clip::<(Vec2, f32)>(3, n, &w[..]).to_string(),
                5 => run_clip::<Color3f>(3, n, &w),
                6 => run_clip::<Color4f>(4, n, &w),
                _ => panic!("k"),
            }
        }
        _ => panic!("unknown op"),
    }
}

/// A clip-space vertex in one of the structural modes the property names.
fn gen_vertex(rng: &mut Rng, mode: u64) -> [f32; 4] {
    // dyadic grid values keep the exact model and f32 in lock-step for most cases;
    // "arbitrary" modes use full-precision floats.
    let dy = |rng: &mut Rng, lo: i64, hi: i64| rng.range(lo * 8, hi * 8 + 1) as f32 / 8.0;
    let w = match rng.below(6) {
        0 => 1.0,
        1 => 0.5,
        2 => 2.0,
        3 => dy(rng, 1, 4).max(0.125),
        _ => rng.f32_in(0.25, 4.0),
    };
    let arb = rng.chance(1, 3);
    let mut inside = |rng: &mut Rng| if arb { rng.f32_in(-1.0, 1.0) * w } else { (rng.range(-8, 9) as f32 / 8.0) * w };
    let mut v = [inside(rng), inside(rng), inside(rng), w];
    match mode {
        0 => {} // inside
        1 => {
            // exactly on one or two planes
            for _ in 0..1 + rng.below(2) {
                let ax = rng.below(3) as usize;
                v[ax] = if rng.bool() { w } else { -w };
            }
        }
        2 | 3 | 4 => {
            // outside 1, 2 or 3 planes
            let mut axes = [0usize, 1, 2];
            for i in 0..3 {
                axes.swap(i, rng.below(3) as usize);
            }
            for &ax in axes.iter().take((mode - 1) as usize) {
                let f = if arb { rng.f32_in(1.05, 4.0) } else { 1.0 + rng.range(1, 17) as f32 / 8.0 };
                v[ax] = if rng.bool() { w * f } else { -w * f };
            }
        }
        5 => {
            // w < 0 (behind the eye): everything scaled by a negative w
            let nw = -w;
            v = [inside(rng), inside(rng), inside(rng), nw];
            if rng.bool() {
                v[rng.below(3) as usize] *= 2.5;
            }
        }
        6 => {
            // w == 0
            v[3] = 0.0;
        }
        _ => {
            // far away in a few decades
            let s = *rng.pick(&[10.0f32, 4.0, 0.1]);
            v = [v[0] * s, v[1] * s, v[2] * s, v[3] * if rng.bool() { s } else { 1.0 }];
        }
    }
    v
}

pub fn gen(rng: &mut Rng, tier: Tier, out: &mut Vec<String>) {
    let n_cases = if tier == Tier::Quick { 4000 } else { 150_000 };
    for i in 0..n_cases {
        let k = 1 + (i % 6);
        let kw = kind_words(k);
        let n = match rng.below(10) {
            0..=5 => 1,
            6 | 7 => 2,
            8 => 3,
            _ => 4,
        };
        let mut line = format!("clip {k} {n}");
        // clip space is homogeneous: a sixth of the cases are scaled as a whole by a power of ten
        // (1e-7 .. 1e7), which must not change what is inside
        let gscale = if i % 6 == 5 { 10f32.powi(rng.range(-7, 8) as i32) } else { 1.0 };
        for _ in 0..n {
            // triangle flavour: mostly mixed modes; sometimes all inside / all outside one plane
            let flavour = rng.below(12);
            let mut vs = [[0f32; 4]; 3];
            for v in vs.iter_mut() {
                let mode = match flavour {
                    0 => 0,
                    1 => 1,
                    2 => 5,
                    _ => rng.below(8),
                };
                *v = gen_vertex(rng, mode);
            }
            if flavour == 3 {
                // all outside the same plane
                let ax = rng.below(3) as usize;
                let sgn = if rng.bool() { 1.0 } else { -1.0 };
                for v in vs.iter_mut() {
                    v[ax] = sgn * v[3].abs() * (1.25 + rng.below(4) as f32 * 0.25);
                }
            }
            if flavour == 4 {
                // degenerate: two equal vertices
                vs[1] = vs[0];
            }
            if flavour == 5 {
                // a RECEDING edge: one vertex close to the eye (w = 1) that is 0.2 %..2 % outside one side
                // plane, the other two far away (w = 1e3..1e4) and inside: the crossing parameter of the two
                // edges from the near vertex is ~1e-6, and an excess of 1 % of the near vertex's w is several
                // pixels on screen although it is nothing against the far coordinates
                let ax = rng.below(2) as usize;
                let sgn = if rng.bool() { 1.0 } else { -1.0 };
                vs[0] = [rng.f32_in(-0.5, 0.5), rng.f32_in(-0.5, 0.5), rng.f32_in(-0.5, 0.5), 1.0];
                vs[0][ax] = sgn * (1.0 + rng.f32_in(0.002, 0.02));
                for v in vs.iter_mut().skip(1) {
                    let w = 10f32.powf(rng.f32_in(3.0, 4.0));
                    *v = [rng.f32_in(-0.8, 0.8) * w, rng.f32_in(-0.8, 0.8) * w, rng.f32_in(-0.8, 0.8) * w, w];
                }
            }
            for v in vs {
                for c in v {
                    line += " ";
                    line += &h32(c * gscale);
                }
                for _ in 0..kw {
                    let a = if rng.bool() { rng.range(-16, 17) as f32 / 4.0 } else { rng.f32_in(-10.0, 10.0) };
                    line += " ";
                    line += &h32(a);
                }
            }
        }
        out.push(line);
    }
}

fn main() {
    vharness::harness_main(gen, run);
}
