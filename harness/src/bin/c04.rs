//! C04: which pixels `tri_fill` covers.
//!   case: fill <x y> ×3 (hex f32 bits; z = 0, no attribute)
//!   out : <nrows> { y x0 x1 nfrags }*
use vharness::raster_common::*;
use vharness::util::*;

pub fn run(t: &[&str]) -> String {
    match t[0] {
        "fill" => {
            let xy: Vec<f32> = t[1..].iter().map(|s| pf32(s)).collect();
            let w = [xy[0], xy[1], 0.0, xy[2], xy[3], 0.0, xy[4], xy[5], 0.0];
            fill_kind("u", &w, false)
        }
        _ => panic!("unknown op"),
    }
}

pub fn gen(rng: &mut Rng, tier: Tier, out: &mut Vec<String>) {
    let n = if tier == Tier::Quick { 1500 } else { 60_000 };
    for _ in 0..n {
        let (p, _) = gen_tri_xy(rng);
        // every vertex order for a third of the triangles, one random order otherwise
        let perms: Vec<usize> = if rng.chance(1, 3) { (0..6).collect() } else { vec![rng.below(6) as usize] };
        for pi in perms {
            let q = PERMS[pi];
            out.push(format!(
                "fill {} {} {} {} {} {}",
                h32(p[q[0]].0), h32(p[q[0]].1), h32(p[q[1]].0), h32(p[q[1]].1), h32(p[q[2]].0), h32(p[q[2]].1)
            ));
        }
        // a neighbour sharing the edge p0-p1 (no gap / no overdraw is judged per triangle by the oracle)
    }
    if tier == Tier::Thorough {
        // every triangle on the half-pixel lattice 0..3 (7^6 = 117649 ordered triples)
        let m = 7i64;
        for i in 0..m.pow(6) {
            let mut c = [0f32; 6];
            let mut r = i;
            for v in c.iter_mut() {
                *v = (r % m) as f32 / 2.0;
                r /= m;
            }
            out.push(format!("fill {} {} {} {} {} {}", h32(c[0]), h32(c[1]), h32(c[2]), h32(c[3]), h32(c[4]), h32(c[5])));
        }
    }
}

fn main() {
    vharness::harness_main(gen, run);
}
