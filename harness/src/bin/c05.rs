//! C05: the fragments `tri_fill` yields (position, depth, perspective-divided attributes).
//!   case: frags <kind> <3 vertices: x y z a1..ak> (hex f32 bits)
//!   out : <nrows> { y x0 x1 nfrags { px py pz v1..vk }* }*
use vharness::raster_common::*;
use vharness::util::*;

pub fn run(t: &[&str]) -> String {
    match t[0] {
        "frags" => {
            let w: Vec<f32> = t[2..].iter().map(|s| pf32(s)).collect();
            assert_eq!(w.len(), 3 * (3 + kind_words(t[1])));
            fill_kind(t[1], &w, true)
        }
        _ => panic!("unknown op"),
    }
}

pub fn gen(rng: &mut Rng, tier: Tier, out: &mut Vec<String>) {
    let n = if tier == Tier::Quick { 2500 } else { 100_000 };
    let kinds = ["s", "v2", "v3", "c3", "p3", "t", "c4", "u"];
    let mut i = 0;
    while i < n {
        let (p, tag) = gen_tri_xy(rng);
        if tag == "off-grid-negative" {
            continue;
        }
        // the very tall triangles of C04 (thousands of rows) would put tens of thousands of fragments through the
        // exact plane oracle: C05 keeps triangles up to 400 rows
        if p.iter().map(|q| q.1).fold(0.0f32, f32::max) > 400.0 {
            continue;
        }
        let kind = kinds[i % kinds.len()];
        let k = kind_words(kind);
        // reciprocal depths: w in [1, 10] (ratio up to 10:1), sometimes all equal
        let flat = rng.chance(1, 5);
        // distant geometry: w in [1e2, 1e8] with a ratio up to 1.5 across the triangle, so that the
        // per-pixel step of 1/w is below f32::EPSILON while 1/w still changes by tens of percent
        let distant = rng.chance(1, 6);
        let dratio = if rng.bool() { 1.5 } else { 8.0 };
        let w0 = if distant { 10f32.powf(rng.f32_in(2.0, 8.0)) } else { rng.f32_in(1.0, 10.0) };
        let mut line = format!("frags {kind}");
        for q in p {
            let w = if flat { w0 } else if distant { w0 * rng.f32_in(1.0, dratio) } else if rng.chance(1, 4) { *rng.pick(&[1.0f32, 2.0, 4.0, 8.0]) } else { rng.f32_in(1.0, 10.0) };
            let z = 1.0 / w;
            line += &format!(" {} {} {}", h32(q.0), h32(q.1), h32(z));
            for _ in 0..k {
                // attribute value a, passed to tri_fill already divided by w (as render() does)
                let a = if rng.bool() { rng.range(-8, 9) as f32 } else { rng.f32_in(-100.0, 100.0) };
                line += &format!(" {}", h32(a / w));
            }
        }
        out.push(line);
        i += 1;
    }
}

fn main() {
    vharness::harness_main(gen, run);
}
