//! C06: hidden-surface removal is independent of submission order, call partition and depth-sort
//! setting; painter's algorithm equals the z-buffer for disjoint depth ranges.
//!
//! The harness enumerates the histories of a scene itself (all permutations × all splits into
//! consecutive calls × depth_sort ∈ {n,f,b}) and compares the final buffers bit for bit.
//! extra output sections:  | <nhist> <ndiffer> <first differing pixel x y or -1 -1> <history desc>
//!                         | <painter applicable 0/1> <same 0/1> <first differing pixel>
use vharness::render_common::*;
use vharness::util::*;

fn perms(n: usize) -> Vec<Vec<usize>> {
    fn go(cur: &mut Vec<usize>, used: &mut Vec<bool>, n: usize, out: &mut Vec<Vec<usize>>) {
        if cur.len() == n {
            out.push(cur.clone());
            return;
        }
        for i in 0..n {
            if !used[i] {
                used[i] = true;
                cur.push(i);
                go(cur, used, n, out);
                cur.pop();
                used[i] = false;
            }
        }
    }
    let mut out = vec![];
    go(&mut vec![], &mut vec![false; n], n, &mut out);
    out
}

fn bits(o: &Output) -> (Vec<u32>, Vec<u32>) {
    (o.color.clone(), o.depth.as_ref().map(|d| d.iter().map(|x| x.to_bits()).collect()).unwrap_or_default())
}

fn first_diff(a: &(Vec<u32>, Vec<u32>), b: &(Vec<u32>, Vec<u32>), w: u32) -> Option<(u32, u32)> {
    for i in 0..a.0.len() {
        if a.0[i] != b.0[i] || a.1.get(i) != b.1.get(i) {
            return Some((i as u32 % w, i as u32 / w));
        }
    }
    None
}

/// `huge <seed> <n>`: a scene of `n` (> 65 536) triangles built from the seed — all but the last 200 are
/// sub-pixel triangles that cover no pixel centre, the last 200 are visible ones at distinct depths — rendered
/// in ONE call under each depth_sort setting with the z-buffer on. Output: `<3> <ndiffer> <x> <y>` (first
/// differing pixel between sort=n and the others). Implementation against itself only: the model is not run.
fn run_huge(seed: u64, n: usize) -> String {
    let mut rng = Rng::new(seed);
    let (w, h) = (32u32, 32u32);
    let mut line = format!(
        "scene door=r tgt=fb dims={w}x{h} vp=0,0,{w},{h} cull=n sort=n test=l cw=1 dw=1 sh=0 proj=none zinit={} k=1 sel=0",
        h32(0.0)
    );
    let mut verts: Vec<Vec<f32>> = Vec::with_capacity(3 * n);
    for i in 0..n {
        if i + 200 < n {
            // inside one pixel cell, away from its centre: no fragment
            let (px, py) = (rng.below(w as u64) as f32, rng.below(h as u64) as f32);
            let (ox, oy) = (rng.f32_in(0.05, 0.25), rng.f32_in(0.05, 0.25));
            for (dx, dy) in [(0.0f32, 0.0f32), (0.1, 0.0), (0.0, 0.1)] {
                let (sx, sy) = (px + ox + dx, py + oy + dy);
                verts.push(vec![sx / w as f32 * 2.0 - 1.0, sy / h as f32 * 2.0 - 1.0, 0.5, 1.0, 1.0]);
            }
        } else {
            let wc = 1.0 + 0.01 * (i + 200 - n) as f32;
            let (cx, cy) = (rng.f32_in(-0.8, 0.8), rng.f32_in(-0.8, 0.8));
            for _ in 0..3 {
                let (nx, ny) = (cx + rng.f32_in(-0.4, 0.4), cy + rng.f32_in(-0.4, 0.4));
                verts.push(vec![nx * wc, ny * wc, 0.9 * wc - 1.0, wc, (i % 97) as f32]);
            }
        }
    }
    push_verts(&mut line, &verts);
    line += &format!(" t {n}");
    for j in 0..n {
        line += &format!(" {} {} {}", 3 * j, 3 * j + 1, 3 * j + 2);
    }
    let toks: Vec<&str> = line.split(' ').collect();
    let s = parse_scene(&toks);
    let base = bits(&run_scene(&s, s.door));
    let mut nd = 0;
    let mut first = (-1i64, -1i64);
    for sort in ['f', 'b'] {
        let mut s2 = s.clone();
        s2.hist = vec![(sort, (0..n).collect())];
        if let Some((x, y)) = first_diff(&base, &bits(&run_scene(&s2, s.door)), s.w) {
            nd += 1;
            if first.0 < 0 {
                first = (x as i64, y as i64);
            }
        }
    }
    format!("3 {nd} {} {}", first.0, first.1)
}

pub fn run(t: &[&str]) -> String {
    if t[0] == "huge" {
        return run_huge(t[1].parse().unwrap(), t[2].parse().unwrap());
    }
    // the token "painter=1" (not a scene key) asks for the painter comparison
    let painter = t.iter().any(|x| *x == "painter=1");
    // "painter=2": a painter-configured scene (depth test off, back-to-front sort) whose depth buffer is
    // degenerate (orthographic-like, w = 1): only the permutation test applies
    let painter2 = t.iter().any(|x| *x == "painter=2");
    let toks: Vec<&str> = t.iter().copied().filter(|x| !x.starts_with("painter=")).collect();
    let s = parse_scene(&toks);
    let base = run_scene(&s, s.door);
    let mut out = fmt_output(&s, &base, true);
    let bb = bits(&base);
    let n = s.tris.len();
    let (mut nh, mut nd) = (0usize, 0usize);
    let mut first: Option<((u32, u32), String)> = None;
    if n <= 4 && !painter2 {
        for p in perms(n) {
            for split in 0..(1u32 << (n.max(1) - 1)) {
                for sort in ['n', 'f', 'b'] {
                    let mut hist = vec![];
                    let mut cur = vec![];
                    for (j, &ti) in p.iter().enumerate() {
                        cur.push(ti);
                        if j + 1 == n || split & (1 << j) != 0 {
                            hist.push((sort, std::mem::take(&mut cur)));
                        }
                    }
                    let mut s2 = s.clone();
                    s2.hist = hist.clone();
                    let o = run_scene(&s2, s.door);
                    nh += 1;
                    if let Some(px) = first_diff(&bb, &bits(&o), s.w) {
                        nd += 1;
                        if first.is_none() {
                            first = Some((px, format!("perm={:?},split={:b},sort={}", p, split, sort).replace(' ', "")));
                        }
                    }
                }
            }
        }
    }
    match &first {
        Some(((x, y), d)) => out += &format!(" | {nh} {nd} {x} {y} {d}"),
        None => out += &format!(" | {nh} {nd} -1 -1 -"),
    }
    if painter {
        // z-buffer image vs painter's algorithm (depth test off, back-to-front sort)
        let mut zb = s.clone();
        zb.test = 'l';
        zb.dw = true;
        zb.hist = vec![('n', (0..n).collect())];
        let a = run_scene(&zb, s.door);
        let mut pa = s.clone();
        pa.test = 'n';
        pa.hist = vec![('b', (0..n).collect())];
        let b = run_scene(&pa, s.door);
        let d = (0..a.color.len()).find(|&i| a.color[i] != b.color[i]);
        match d {
            Some(i) => out += &format!(" | 1 0 {} {}", i as u32 % s.w, i as u32 / s.w),
            None => out += " | 1 1 -1 -1",
        }
    } else if painter2 {
        out += " | 2 1 -1 -1";
    } else {
        out += " | 0 1 -1 -1";
    }
    if (painter || painter2) && n <= 4 {
        // back-to-front painting must not depend on the submission order (sort keys are distinct)
        let mut pa = s.clone();
        pa.test = 'n';
        pa.hist = vec![('b', (0..n).collect())];
        let refimg = bits(&run_scene(&pa, s.door));
        let (mut np, mut nd2) = (0usize, 0usize);
        let mut firstp: Option<(u32, u32)> = None;
        for p in perms(n) {
            let mut s2 = pa.clone();
            s2.hist = vec![('b', p.clone())];
            let o = run_scene(&s2, s.door);
            np += 1;
            if let Some(px) = first_diff(&refimg, &bits(&o), s.w) {
                nd2 += 1;
                if firstp.is_none() {
                    firstp = Some(px);
                }
            }
        }
        match firstp {
            Some((x, y)) => out += &format!(" {np} {nd2} {x} {y}"),
            None => out += &format!(" {np} {nd2} -1 -1"),
        }
    } else {
        out += " 0 0 -1 -1";
    }
    out
}

pub fn gen(rng: &mut Rng, tier: Tier, out: &mut Vec<String>) {
    let n = if tier == Tier::Quick { 600 } else { 12000 };
    for i in 0..n {
        let painter = i % 3 == 2;
        // every fourth painter scene is orthographic-like: w = 1, triangles in disjoint clip-z slabs
        let ortho = painter && (i / 3) % 4 == 3;
        let ntris = if tier == Tier::Quick { 1 + (i % 3) } else { 1 + (i % 4) };
        let flags = if ortho {
            format!("cull=n sort=b test=n cw=1 dw=1 sh=0 proj=none zinit={}", h32(0.0))
        } else {
            format!("cull=n sort=n test=l cw=1 dw=1 sh=0 proj=none zinit={}", h32(0.0))
        };
        let (mut line, _, _) = header(rng, 'r', "fb", &flags, 1);
        let mut verts: Vec<Vec<f32>> = vec![];
        let mut tris = vec![];
        let zslope = *rng.pick(&[0.5f32, 0.9, 1.0]);
        let zoff = *rng.pick(&[0.5f32, 1.2, 1.9]) * zslope;
        // distant scenes: the whole homogeneous vector scaled by 1e4..1e8, so reciprocal depths (and
        // their differences between surfaces) are far below f32::EPSILON while the image is the same
        // painter scenes too are scaled as a whole (up by 1e3..1e7 or down by 1e-6..1e-3): the depth ORDER and
        // the image do not change, but sort keys leave the unit range (fixed-point or truncated keys tie)
        let far = if !painter && rng.chance(1, 4) {
            10f32.powf(rng.f32_in(4.0, 8.0))
        } else if painter && rng.chance(1, 2) {
            if rng.bool() { 10f32.powf(rng.f32_in(3.0, 7.0)) } else { 10f32.powf(rng.f32_in(-6.0, -3.0)) }
        } else {
            1.0
        };
        for j in 0..ntris {
            for _ in 0..3 {
                let mut p = if ortho {
                    let z = -0.8 + 0.5 * j as f32 + rng.f32_in(0.0, 0.3);
                    vec![rng.f32_in(-1.4, 1.4), rng.f32_in(-1.4, 1.4), z, 1.0]
                } else if painter {
                    // triangle j lives in its own depth slab: w in [1+j, 1.8+j]; clip z = a*w - b is
                    // increasing in w (as under a perspective matrix) and, for the nearest slabs,
                    // NEGATIVE (geometry between the near plane and about twice the near distance)
                    let w = 1.0 + j as f32 + rng.f32_in(0.0, 0.8);
                    let nx = rng.f32_in(-1.4, 1.4);
                    let ny = rng.f32_in(-1.4, 1.4);
                    vec![nx * w, ny * w, zslope * w - zoff, w]
                } else {
                    { let o = rng.chance(1, 2); gen_clip_vertex(rng, o).to_vec() }
                };
                for c in p.iter_mut() {
                    *c *= far;
                }
                p.push(rng.f32_in(-10.0, 10.0));
                verts.push(p);
            }
            tris.push([3 * j, 3 * j + 1, 3 * j + 2]);
        }
        push_verts(&mut line, &verts);
        line += &format!(" t {}", tris.len());
        for t in &tris {
            line += &format!(" {} {} {}", t[0], t[1], t[2]);
        }
        if ortho {
            line += " painter=2";
        } else if painter {
            line += " painter=1";
        }
        out.push(line);
    }
    // occluder scenes: a wide far triangle whose spans are hidden at BOTH ends by two near triangles and
    // visible in the gap between them (whatever a rasterizer decides for a whole span from its end
    // pixels, or from its first pixel, shows here); the far triangle is submitted last
    for _ in 0..(if tier == Tier::Quick { 40 } else { 800 }) {
        // (one in five is 70..150 px wide: spans well beyond 64 / 128 px)
        let (w, h) = (if rng.chance(1, 5) { 70 + rng.below(81) as u32 } else { 20 + rng.below(50) as u32 }, 4 + rng.below(9) as u32);
        let mut line = format!(
            "scene door=r tgt=fb dims={w}x{h} vp=0,0,{w},{h} cull=n sort=n test=l cw=1 dw=1 sh=0 proj=none zinit={} k=1 sel=0",
            h32(0.0)
        );
        let mut verts: Vec<Vec<f32>> = vec![];
        let mut put = |rng: &mut Rng, x: f32, y: f32, wc: f32| {
            verts.push(vec![x * wc, y * wc, 0.9 * wc - 1.0, wc, rng.f32_in(-10.0, 10.0)]);
        };
        let gap_l = rng.f32_in(-0.5, -0.05);
        let gap_r = rng.f32_in(0.05, 0.5);
        let wn = rng.f32_in(1.2, 2.0);
        let wf = wn * rng.f32_in(1.5, 3.0);
        // near left, near right (both span the whole height), then the far one
        let (y1, y2, x3) = (rng.f32_in(-1.0, 1.0), rng.f32_in(-1.0, 1.0), rng.f32_in(-0.6, 0.6));
        put(rng, -1.0, -1.0, wn); put(rng, gap_l, y1, wn); put(rng, -1.0, 1.0, wn);
        put(rng, 1.0, -1.0, wn); put(rng, 1.0, 1.0, wn); put(rng, gap_r, y2, wn);
        let (ya, yb) = if rng.bool() { (-0.9, 0.9) } else { (0.9, -0.9) };
        put(rng, -0.98, ya, wf); put(rng, 0.98, ya, wf); put(rng, x3, yb, wf);
        drop(put);
        push_verts(&mut line, &verts);
        line += " t 3 0 1 2 3 4 5 6 7 8";
        out.push(line);
    }
    // near-tie scenes: two or three large overlapping triangles on parallel planes whose depths differ by
    // 0.12 %..0.4 % (outside the property's 0.1 % ambiguity band): any margin, bias or tolerance in the
    // depth comparison makes the winner depend on the submission order
    for _ in 0..(if tier == Tier::Quick { 40 } else { 800 }) {
        let flags = format!("cull=n sort=n test=l cw=1 dw=1 sh=0 proj=none zinit={}", h32(0.0));
        let (mut line, _, _) = header(rng, 'r', "fb", &flags, 1);
        let n = 2 + rng.below(2) as usize;
        let mut wc = 10f32.powf(rng.f32_in(0.0, 6.0));
        let mut verts: Vec<Vec<f32>> = vec![];
        for _ in 0..n {
            for _ in 0..3 {
                let (nx, ny) = (rng.f32_in(-1.3, 1.3), rng.f32_in(-1.3, 1.3));
                verts.push(vec![nx * wc, ny * wc, 0.9 * wc - 1.0, wc, rng.f32_in(-10.0, 10.0)]);
            }
            wc *= 1.0 + rng.f32_in(0.0012, 0.004);
        }
        push_verts(&mut line, &verts);
        line += &format!(" t {n}");
        for j in 0..n {
            line += &format!(" {} {} {}", 3 * j, 3 * j + 1, 3 * j + 2);
        }
        out.push(line);
    }
    // one scene with more than 65 536 triangles in a single call (two in the thorough tier): index or
    // counter types narrower than the primitive count show only here (implementation against itself)
    for _ in 0..(if tier == Tier::Quick { 1 } else { 2 }) {
        out.push(format!("huge {} {}", rng.below(1 << 30), 65_536 + 200 + rng.below(600)));
    }
    // crowded painter scenes: 65..110 small triangles, each in its own thin depth slab, submitted
    // NEAREST FIRST in one call (anything that sorts or batches only part of the list shows here)
    for _ in 0..(if tier == Tier::Quick { 6 } else { 120 }) {
        let flags = format!("cull=n sort=n test=l cw=1 dw=1 sh=0 proj=none zinit={}", h32(0.0));
        let (mut line, _, _) = header(rng, 'r', "fb", &flags, 1);
        let n = 65 + rng.below(46) as usize;
        let mut verts: Vec<Vec<f32>> = vec![];
        for j in 0..n {
            let (cx, cy) = (rng.f32_in(-0.8, 0.8), rng.f32_in(-0.8, 0.8));
            for _ in 0..3 {
                let w = 1.0 + 0.05 * j as f32 + rng.f32_in(0.0, 0.03);
                let (nx, ny) = (cx + rng.f32_in(-0.5, 0.5), cy + rng.f32_in(-0.5, 0.5));
                verts.push(vec![nx * w, ny * w, 0.9 * w - 1.0, w, rng.f32_in(-10.0, 10.0)]);
            }
        }
        push_verts(&mut line, &verts);
        line += &format!(" t {n}");
        for j in 0..n {
            line += &format!(" {} {} {}", 3 * j, 3 * j + 1, 3 * j + 2);
        }
        line += " painter=1";
        out.push(line);
    }
}

fn main() {
    vharness::harness_main(gen, run);
}
