//! C07: face culling, write masks, depth-test predicates, discarding shaders, statistics.
//!
//! Every scene is emitted once per flag combination (cull × test × cw × dw × shader × target).
//! For single-triangle scenes the harness additionally renders both vertex orders under
//! cull ∈ {b, f, n}:
//! extra section:  | <applicable 0/1> <written pixel counts: A/b A/f B/b B/f A/n B/n>
//!                   <number of pixels that differ between A/n and B/n> <up to 8 of them: x y>
//!                 | <prims.o of the same six renders>
use vharness::render_common::*;
use vharness::util::*;

fn written(o: &Output) -> usize {
    o.color.iter().filter(|&&c| c != SENTINEL_COLOR).count()
}

pub fn run(t: &[&str]) -> String {
    let s = parse_scene(t);
    let o = run_scene(&s, s.door);
    let mut out = fmt_output(&s, &o, true);
    if s.tris.len() == 1 && s.sh == 0 && s.cw {
        let mut counts = vec![];
        let mut prims_o = vec![];
        let mut imgs = vec![];
        for order in 0..2 {
            for cull in ['b', 'f', 'n'] {
                let mut s2 = s.clone();
                s2.cull = cull;
                if order == 1 {
                    let t0 = s2.tris[0];
                    s2.tris[0] = [t0[0], t0[2], t0[1]];
                }
                s2.hist = vec![(s.sort, vec![0])];
                let r = run_scene(&s2, s.door);
                counts.push(written(&r));
                prims_o.push(r.stats[2]);
                if cull == 'n' {
                    imgs.push(r.color.iter().map(|&c| c != SENTINEL_COLOR).collect::<Vec<bool>>());
                }
            }
        }
        // counts order: A/b A/f A/n B/b B/f B/n
        let diff: Vec<usize> = (0..imgs[0].len()).filter(|&i| imgs[0][i] != imgs[1][i]).collect();
        out += &format!(" | 1 {} {} {} {} {} {} {}", counts[0], counts[1], counts[3], counts[4], counts[2], counts[5], diff.len());
        for i in diff.iter().take(8) {
            out += &format!(" {} {}", *i as u32 % s.w, *i as u32 / s.w);
        }
        // the same two orders under back-face culling through the y-mirrored viewport: on screen the
        // winding is reversed, so the other order must be the one that survives
        let mut flipped = vec![];
        for order in 0..2 {
            let mut s2 = s.clone();
            s2.cull = 'b';
            s2.vp = [s.vp[0], s.vp[3], s.vp[2], s.vp[1]];
            if order == 1 {
                let t0 = s2.tris[0];
                s2.tris[0] = [t0[0], t0[2], t0[1]];
            }
            s2.hist = vec![(s.sort, vec![0])];
            flipped.push(written(&run_scene(&s2, s.door)));
        }
        out += &format!(" | {} {}", flipped[0], flipped[1]);
        // prims.o of the same six renders: A/b A/f B/b B/f A/n B/n
        out += &format!(" | {} {} {} {} {} {}", prims_o[0], prims_o[1], prims_o[3], prims_o[4], prims_o[2], prims_o[5]);
    } else {
        out += " | 0";
    }
    out
}

pub fn gen(rng: &mut Rng, tier: Tier, out: &mut Vec<String>) {
    let n_scenes = if tier == Tier::Quick { 16 } else { 300 };
    for i in 0..n_scenes {
        let ntris = [1usize, 2, 1, 3, 1][i % 5];
        // geometry first, flags substituted afterwards
        // front doors in rotation: render(), a fresh Batch, a REUSED Batch, Camera::render (statistics must equal what happened)
        let (hdr, _, _) = header(rng, ['r', 'B', 'b', 'c'][i % 4], "@TGT@", "@FLAGS@", 1);
        let mut verts: Vec<Vec<f32>> = vec![];
        let mut tris = vec![];
        for j in 0..ntris {
            for _ in 0..3 {
                // single-triangle scenes stay inside the frustum (culling is judged there)
                let outside = (ntris > 1 && rng.chance(1, 3)) || (ntris == 1 && i % 2 == 1);
                let mut p = gen_clip_vertex(rng, outside).to_vec();
                p.push(rng.f32_in(-10.0, 10.0));
                verts.push(p);
            }
            tris.push([3 * j, 3 * j + 1, 3 * j + 2]);
        }
        let mut body = String::new();
        push_verts(&mut body, &verts);
        body += &format!(" t {}", tris.len());
        for t in &tris {
            body += &format!(" {} {} {}", t[0], t[1], t[2]);
        }
        // a second call re-drawing triangle 0 makes depth-test predicates and stats accumulate
        // (all calls of a history share one Context). Every third scene starts with one or two calls
        // that submit NOTHING (the counters of the context are still all zero when real work arrives).
        let all = (0..ntris).map(|x| x.to_string()).collect::<Vec<_>>().join(" ");
        body += &match i % 3 {
            0 => format!(" h 2 n {ntris} {all} n 1 0"),
            1 => format!(" h 3 n 0 n {ntris} {all} n 1 0"),
            _ => format!(" h 4 n 0 n 0 n {ntris} {all} n 1 0"),
        };
        let zinit = *rng.pick(&[0.0f32, 0.4]);
        // a third of the scenes use a y-up (mirrored) viewport: viewport(pt2(l, b)..pt2(r, t))
        let hdr = if i % 3 == 2 {
            let vp = hdr.split(' ').find(|t| t.starts_with("vp=")).unwrap().to_string();
            let c: Vec<&str> = vp[3..].split(',').collect();
            hdr.replace(&vp, &format!("vp={},{},{},{}", c[0], c[3], c[2], c[1]))
        } else {
            hdr
        };
        for cull in ['n', 'f', 'b'] {
            for test in ['n', 'l', 'g', 'e'] {
                for cw in [0, 1] {
                    for dw in [0, 1] {
                        for sh in [0, 1] {
                            for tgt in ["fb", "cb"] {
                                if tgt == "cb" && (test != 'l' || dw != 1) {
                                    continue; // colour-only targets ignore depth settings
                                }
                                let flags = format!(
                                    "cull={cull} sort=n test={test} cw={cw} dw={dw} sh={sh} proj=none zinit={}",
                                    h32(zinit)
                                );
                                out.push(hdr.replace("@TGT@", tgt).replace("@FLAGS@", &flags) + &body);
                            }
                        }
                    }
                }
            }
        }
    }
}

fn main() {
    vharness::harness_main(gen, run);
}
