//! C08: projection / viewport matrices, Rect, Camera and the first-person view transform,
//! on the real retrofire code.
//!
//! Ops (floats as f32 bit patterns, integers decimal):
//!   persp f a near far P k <3k>            perspective(): matrix, clip images of the probes
//!   ortho lbn(3) rtf(3) P k <3k>           orthographic(): same
//!   vport l t r b P k <3k>                 viewport(): matrix, apply_pt of the probes (NDC)
//!   rect <h1> <v1> <h2> <v2> x y           Rect::from, intersect, contains, is_empty, width, height
//!   rect2 l t r b  l t r b  x y            the same through From<Range<Vec2u>> and RangeFull
//!   camvp W H <h> <v> [<h> <v>]            Camera::new((W,H)).viewport(..)[.viewport(..)]
//!   camproj W H f near far <h> <v> view(16) p(3) half   full camera: world point -> screen, tiny triangle
//!   fp pos(3) (look tx ty tz | rot az alt) probe(3) delta(3)   FirstPerson
//! Range forms: r:a:b (a..b)  ri:a:b (a..=b)  to:b (..b)  toi:b (..=b)  from:a (a..)  full (..)
//!              ex:a:b ((Excluded(a), Excluded(b)))  exu:a ((Excluded(a), Unbounded))
use std::ops::Bound;
use std::panic::{catch_unwind, AssertUnwindSafe};

use re::geom::{Tri, Vertex};
use re::math::mat::{Mat4x4, RealToProj};
use re::math::{
    orthographic, perspective, pt2, pt3, rads, vec2, vec3, viewport, Point3, Vec3,
};
use re::render::cam::{Camera, FirstPerson, Mode};
use re::render::raster::Frag;
use re::render::{Context, Framebuf, World, WorldToView};
use re::util::buf::Buf2;
use re::util::rect::Rect;

use vharness::util::*;

fn push_m4<M>(out: &mut Vec<String>, m: &Mat4x4<M>) {
    for r in 0..4 {
        for c in 0..4 {
            out.push(h32(m.0[r][c]));
        }
    }
}
fn p3(t: &[&str], i: &mut usize) -> [f32; 3] {
    let v = [pf32(t[*i]), pf32(t[*i + 1]), pf32(t[*i + 2])];
    *i += 3;
    v
}
fn probes(t: &[&str], i: &mut usize) -> Vec<[f32; 3]> {
    assert_eq!(t[*i], "P");
    let k: usize = t[*i + 1].parse().unwrap();
    *i += 2;
    (0..k).map(|_| p3(t, i)).collect()
}

#[derive(Clone, Copy)]
enum Form {
    R(u32, u32),
    Ri(u32, u32),
    To(u32),
    Toi(u32),
    From(u32),
    Full,
    Ex(u32, u32),
    Exu(u32),
}
fn form(s: &str) -> Form {
    let p: Vec<&str> = s.split(':').collect();
    let n = |i: usize| -> u32 { p[i].parse().unwrap() };
    match p[0] {
        "r" => Form::R(n(1), n(2)),
        "ri" => Form::Ri(n(1), n(2)),
        "to" => Form::To(n(1)),
        "toi" => Form::Toi(n(1)),
        "from" => Form::From(n(1)),
        "full" => Form::Full,
        "ex" => Form::Ex(n(1), n(2)),
        "exu" => Form::Exu(n(1)),
        _ => panic!("range form"),
    }
}
macro_rules! with_range {
    ($f:expr, $k:ident => $body:expr) => {
        match $f {
            Form::R(a, b) => {
                let $k = a..b;
                $body
            }
            Form::Ri(a, b) => {
                let $k = a..=b;
                $body
            }
            Form::To(b) => {
                let $k = ..b;
                $body
            }
            Form::Toi(b) => {
                let $k = ..=b;
                $body
            }
            Form::From(a) => {
                let $k = a..;
                $body
            }
            Form::Full => {
                let $k = ..;
                $body
            }
            Form::Ex(a, b) => {
                let $k = (Bound::Excluded(a), Bound::Excluded(b));
                $body
            }
            Form::Exu(a) => {
                let $k = (Bound::Excluded(a), Bound::<u32>::Unbounded);
                $body
            }
        }
    };
}
fn mk_rect(h: &str, v: &str) -> Rect<u32> {
    let (hf, vf) = (form(h), form(v));
    with_range!(hf, hr => with_range!(vf, vr => Rect::from((hr, vr))))
}
fn opt(o: Option<u32>) -> String {
    match o {
        Some(x) => x.to_string(),
        None => "-".into(),
    }
}
fn push_rect(out: &mut Vec<String>, r: &Rect<u32>) {
    out.push(opt(r.left));
    out.push(opt(r.top));
    out.push(opt(r.right));
    out.push(opt(r.bottom));
}
/// Probe coordinates around every bound of the rects: value-1, value, value+1.
fn around(vals: &[Option<u32>], extra: u32) -> Vec<u32> {
    let mut v = vec![0, extra];
    for x in vals.iter().flatten() {
        v.push(x.saturating_sub(1));
        v.push(*x);
        v.push(x.saturating_add(1));
    }
    v.sort();
    v.dedup();
    v
}
fn rect_report(out: &mut Vec<String>, a: Rect<u32>, b: Rect<u32>, x: u32, y: u32) {
    let i = a.intersect(&b);
    for r in [&a, &b, &i] {
        push_rect(out, r);
        out.push((r.is_empty() as u8).to_string());
        out.push(opt(r.width()));
        out.push(opt(r.height()));
        out.push((r.contains(x, y) as u8).to_string());
    }
    let xs = around(&[a.left, a.right, b.left, b.right], x);
    let ys = around(&[a.top, a.bottom, b.top, b.bottom], y);
    let (mut sa, mut sb, mut si) = (String::new(), String::new(), String::new());
    for &py in &ys {
        for &px in &xs {
            sa.push(if a.contains(px, py) { '1' } else { '0' });
            sb.push(if b.contains(px, py) { '1' } else { '0' });
            si.push(if i.contains(px, py) { '1' } else { '0' });
        }
    }
    out.push(sa);
    out.push(sb);
    out.push(si);
}

type Cam = Camera<Mat4x4<WorldToView>>;

fn vtx_shader(
    v: Vertex<Point3<World>, f32>,
    (mvp, _): (&Mat4x4<RealToProj<World>>, ()),
) -> Vertex<re::math::vec::ProjVec4, f32> {
    Vertex { pos: mvp.apply(&v.pos), attrib: v.attrib }
}
fn frag_shader(_f: Frag<f32>) -> re::math::color::Color4 {
    re::math::rgba(0xFF, 0xFF, 0xFF, 0xFF)
}

pub fn run(t: &[&str]) -> String {
    let mut out: Vec<String> = vec![];
    match t[0] {
        "persp" => {
            let (f, a, n, fa) = (pf32(t[1]), pf32(t[2]), pf32(t[3]), pf32(t[4]));
            let mut i = 5;
            let ps = probes(t, &mut i);
            let m = perspective(f, a, n..fa);
            push_m4(&mut out, &m);
            for p in ps {
                for c in m.apply(&pt3(p[0], p[1], p[2])).0 {
                    out.push(h32(c));
                }
            }
        }
        "ortho" => {
            let mut i = 1;
            let (l, r) = (p3(t, &mut i), p3(t, &mut i));
            let ps = probes(t, &mut i);
            let m = orthographic(pt3(l[0], l[1], l[2]), pt3(r[0], r[1], r[2]));
            push_m4(&mut out, &m);
            for p in ps {
                for c in m.apply(&pt3(p[0], p[1], p[2])).0 {
                    out.push(h32(c));
                }
            }
        }
        "vport" => {
            let n = |i: usize| -> u32 { t[i].parse().unwrap() };
            let mut i = 5;
            let ps = probes(t, &mut i);
            let m = viewport(pt2(n(1), n(2))..pt2(n(3), n(4)));
            push_m4(&mut out, &m);
            for p in ps {
                for c in m.apply_pt(&pt3(p[0], p[1], p[2])).0 {
                    out.push(h32(c));
                }
            }
        }
        "rect" => {
            let a = mk_rect(t[1], t[2]);
            let b = mk_rect(t[3], t[4]);
            let (x, y): (u32, u32) = (t[5].parse().unwrap(), t[6].parse().unwrap());
            rect_report(&mut out, a, b, x, y);
        }
        "rect2" => {
            let n = |i: usize| -> u32 { t[i].parse().unwrap() };
            let a: Rect<u32> = (vec2(n(1), n(2))..vec2(n(3), n(4))).into();
            let b: Rect<u32> = if t[5] == "full" {
                (..).into()
            } else {
                (vec2(n(5), n(6))..vec2(n(7), n(8))).into()
            };
            let k = if t[5] == "full" { 6 } else { 9 };
            rect_report(&mut out, a, b, n(k), n(k + 1));
        }
        "camvp" => {
            let (w, h): (u32, u32) = (t[1].parse().unwrap(), t[2].parse().unwrap());
            let mut cam = Camera::new((w, h)).viewport(mk_rect(t[3], t[4]));
            if t.len() > 5 {
                cam = cam.viewport(mk_rect(t[5], t[6]));
            }
            out.push(cam.dims.0.to_string());
            out.push(cam.dims.1.to_string());
            push_m4(&mut out, &cam.viewport);
            for p in [pt3(-1.0, -1.0, 0.5), pt3(1.0, 1.0, 0.25), pt3(0.0, 0.0, 1.0)] {
                for c in cam.viewport.apply_pt(&p).0 {
                    out.push(h32(c));
                }
            }
        }
        "camproj" => {
            let (w, h): (u32, u32) = (t[1].parse().unwrap(), t[2].parse().unwrap());
            let (f, near, far) = (pf32(t[3]), pf32(t[4]), pf32(t[5]));
            let rect = mk_rect(t[6], t[7]);
            let mut e = [[0.0f32; 4]; 4];
            for r in 0..4 {
                for c in 0..4 {
                    e[r][c] = pf32(t[8 + 4 * r + c]);
                }
            }
            let view: Mat4x4<WorldToView> = Mat4x4::new(e);
            let mut i = 24;
            let p = p3(t, &mut i);
            let half = pf32(t[i]);
            // Builder order: a permutation of m (mode), v (viewport) and p (perspective) or o (orthographic, box
            // (-1/f, -1/f, near)..(1/f, 1/f, far)); legacy tokens "pv" = "mpv", "vp" = "mvp".
            let order = match t[i + 1] {
                "pv" => "mpv",
                "vp" => "mvp",
                o => o,
            };
            let ortho = order.contains('o');
            let bx = 1.0 / f;
            macro_rules! pj {
                ($c:expr) => {
                    if ortho {
                        $c.orthographic(pt3(-bx, -bx, near)..pt3(bx, bx, far))
                    } else {
                        $c.perspective(f, near..far)
                    }
                };
            }
            let d = (w, h);
            let cam: Cam = match order.replace('o', "p").as_str() {
                "mpv" => pj!(Camera::new(d).mode(view)).viewport(rect),
                "mvp" => pj!(Camera::new(d).mode(view).viewport(rect)),
                "pmv" => pj!(Camera::new(d)).mode(view).viewport(rect),
                "pvm" => pj!(Camera::new(d)).viewport(rect).mode(view),
                "vmp" => pj!(Camera::new(d).viewport(rect).mode(view)),
                "vpm" => pj!(Camera::new(d).viewport(rect)).mode(view),
                _ => panic!("builder order"),
            };
            out.push(cam.dims.0.to_string());
            out.push(cam.dims.1.to_string());
            push_m4(&mut out, &cam.project);
            push_m4(&mut out, &cam.viewport);
            let w2p = cam.world_to_project();
            push_m4(&mut out, &w2p);
            let clip = w2p.apply(&pt3(p[0], p[1], p[2]));
            for c in clip.0 {
                out.push(h32(c));
            }
            // the vertex path of render(): perspective division, viewport transform
            let [x, y, _, cw] = clip.0;
            let ndc = vec3::<f32, re::render::Ndc>(x / cw, y / cw, 1.0 / cw);
            for c in cam.viewport.apply(&ndc).0 {
                out.push(h32(c));
            }
            // a tiny triangle around the world point, drawn into a frame-sized buffer
            let res = catch_unwind(AssertUnwindSafe(|| {
                let mut fb = Framebuf {
                    color_buf: Buf2::<u32>::new((w, h)),
                    depth_buf: Buf2::<f32>::new((w, h)),
                };
                let ctx = Context { face_cull: None, depth_test: None, ..Context::default() };
                // offsets along the view-space x / y axes = rows 0 and 1 of the (rigid) view matrix
                let ax = vec3(e[0][0], e[0][1], e[0][2]) * half;
                let ay = vec3(e[1][0], e[1][1], e[1][2]) * half;
                let c: Vec3 = vec3(p[0], p[1], p[2]);
                let mk = |v: Vec3| Vertex { pos: pt3::<f32, World>(v.x(), v.y(), v.z()), attrib: 0.0f32 };
                let verts = [mk(c - ax - ay), mk(c + ax - ay), mk(c + ay)];
                let shader = re::render::shader::Shader::new(vtx_shader, frag_shader);
                cam.render(
                    [Tri([0usize, 1, 2])],
                    verts,
                    &Mat4x4::identity(),
                    &shader,
                    (),
                    &mut fb,
                    &ctx,
                );
                let (mut n, mut sx, mut sy) = (0u64, 0u64, 0u64);
                let (mut x0, mut x1, mut y0, mut y1) = (u32::MAX, 0u32, u32::MAX, 0u32);
                let mut z = 0.0f32;
                for yy in 0..h {
                    for xx in 0..w {
                        if fb.color_buf[[xx, yy]] != 0 {
                            n += 1;
                            sx += xx as u64;
                            sy += yy as u64;
                            x0 = x0.min(xx);
                            x1 = x1.max(xx);
                            y0 = y0.min(yy);
                            y1 = y1.max(yy);
                            z = fb.depth_buf[[xx, yy]];
                        }
                    }
                }
                format!("{n} {x0} {x1} {y0} {y1} {sx} {sy} {}", h32(z))
            }));
            match res {
                Ok(s) => out.push(s),
                Err(e) => {
                    let msg = e
                        .downcast_ref::<String>()
                        .cloned()
                        .or_else(|| e.downcast_ref::<&str>().map(|s| s.to_string()))
                        .unwrap_or_default();
                    let cls: String =
                        msg.chars().map(|c| if c.is_ascii_whitespace() { '_' } else { c }).take(40).collect();
                    out.push(format!("panic:{cls}"));
                }
            }
        }
        "fp" => {
            let mut i = 1;
            let pos = p3(t, &mut i);
            let mut fp = FirstPerson::new();
            fp.pos = vec3(pos[0], pos[1], pos[2]);
            let kind = t[i];
            i += 1;
            let mut target = [0.0f32; 3];
            match kind {
                "look" => {
                    target = p3(t, &mut i);
                    fp.look_at(vec3(target[0], target[1], target[2]));
                }
                "rot" => {
                    let (az, alt) = (pf32(t[i]), pf32(t[i + 1]));
                    i += 2;
                    fp.rotate_to(rads(az), rads(alt));
                }
                "new" => {}
                _ => panic!("fp kind"),
            }
            let probe = p3(t, &mut i);
            let delta = p3(t, &mut i);
            let (saz, caz) = fp.heading.az().sin_cos();
            let (salt, calt) = fp.heading.alt().sin_cos();
            out.push(h32(fp.heading.r()));
            for x in [caz, saz, calt, salt] {
                out.push(h32(x));
            }
            let view = fp.world_to_view();
            push_m4(&mut out, &view);
            for q in [probe, pos, target] {
                for c in view.apply_pt(&pt3(q[0], q[1], q[2])).0 {
                    out.push(h32(c));
                }
            }
            fp.translate(vec3(delta[0], delta[1], delta[2]));
            for c in fp.pos.0 {
                out.push(h32(c));
            }
        }
        "fprot" => {
            // fprot <new|default> n (d_az d_alt)*n probe(3) delta(3): a fresh FirstPerson, then n relative rotations
            let mut fp = if t[1] == "default" { FirstPerson::default() } else { FirstPerson::new() };
            let n: usize = t[2].parse().unwrap();
            for c in fp.pos.0 {
                out.push(h32(c));
            }
            out.push(h32(fp.heading.r()));
            out.push(h32(fp.heading.az().to_rads()));
            out.push(h32(fp.heading.alt().to_rads()));
            let mut i = 3;
            for _ in 0..n {
                let (daz, dalt) = (pf32(t[i]), pf32(t[i + 1]));
                i += 2;
                // the same step through rotate_to on a copy
                let mut twin = fp;
                twin.rotate_to(twin.heading.az() + rads(daz), twin.heading.alt() + rads(dalt));
                fp.rotate(rads(daz), rads(dalt));
                out.push(h32(fp.heading.az().to_rads()));
                out.push(h32(fp.heading.alt().to_rads()));
                out.push(((twin.heading.0 == fp.heading.0 && twin.pos.0 == fp.pos.0) as u8).to_string());
            }
            let probe = p3(t, &mut i);
            let delta = p3(t, &mut i);
            let (saz, caz) = fp.heading.az().sin_cos();
            let (salt, calt) = fp.heading.alt().sin_cos();
            out.push(h32(fp.heading.r()));
            for x in [caz, saz, calt, salt] {
                out.push(h32(x));
            }
            let view = fp.world_to_view();
            push_m4(&mut out, &view);
            for q in [probe, [0.0; 3], [0.0; 3]] {
                for c in view.apply_pt(&pt3(q[0], q[1], q[2])).0 {
                    out.push(h32(c));
                }
            }
            fp.translate(vec3(delta[0], delta[1], delta[2]));
            for c in fp.pos.0 {
                out.push(h32(c));
            }
        }
        _ => panic!("unknown op"),
    }
    out.join(" ")
}

// ---------------------------------------------------------------------------------------
// generator
// ---------------------------------------------------------------------------------------

fn h3(v: [f32; 3]) -> String {
    format!("{} {} {}", h32(v[0]), h32(v[1]), h32(v[2]))
}
fn fl(rng: &mut Rng, lo: f32, hi: f32) -> f32 {
    match rng.below(4) {
        0 => ((rng.range((lo * 4.0) as i64, (hi * 4.0) as i64 + 1)) as f32) / 4.0,
        _ => rng.f32_in(lo, hi),
    }
}
fn log_uniform(rng: &mut Rng, lo: f32, hi: f32) -> f32 {
    (rng.f32_in(lo.ln(), hi.ln())).exp()
}

fn range_form(rng: &mut Rng, max: u32) -> String {
    let a = rng.below(max as u64 + 1) as u32;
    let b = rng.below(max as u64 + 1) as u32;
    let (lo, hi) = (a.min(b), a.max(b));
    match rng.below(12) {
        0 | 1 | 2 | 3 => format!("r:{lo}:{hi}"),
        4 => format!("r:{hi}:{lo}"), // reversed / empty
        5 => format!("ri:{lo}:{hi}"),
        6 => format!("to:{hi}"),
        7 => format!("toi:{hi}"),
        8 => format!("from:{lo}"),
        9 => "full".into(),
        10 => format!("ex:{lo}:{hi}"),
        _ => format!("exu:{lo}"),
    }
}

/// A rigid view matrix (rotation about y then x, then translation) in f32.
fn view_matrix(rng: &mut Rng) -> [[f32; 4]; 4] {
    let (a, b) = match rng.below(3) {
        0 => (0.0f32, 0.0f32),
        1 => (rng.f32_in(-3.1, 3.1), 0.0),
        _ => (rng.f32_in(-3.1, 3.1), rng.f32_in(-1.2, 1.2)),
    };
    let (sa, ca) = a.sin_cos();
    let (sb, cb) = b.sin_cos();
    // R = Rx(b) * Ry(a)
    let ry = [[ca, 0.0, -sa], [0.0, 1.0, 0.0], [sa, 0.0, ca]];
    let rx = [[1.0, 0.0, 0.0], [0.0, cb, sb], [0.0, -sb, cb]];
    let mut r = [[0.0f32; 3]; 3];
    for i in 0..3 {
        for j in 0..3 {
            for k in 0..3 {
                r[i][j] += rx[i][k] * ry[k][j];
            }
        }
    }
    let t = [fl(rng, -5.0, 5.0), fl(rng, -5.0, 5.0), fl(rng, -5.0, 5.0)];
    let mut m = [[0.0f32; 4]; 4];
    for i in 0..3 {
        for j in 0..3 {
            m[i][j] = r[i][j];
        }
        m[i][3] = t[i];
    }
    m[3][3] = 1.0;
    m
}

pub fn gen(rng: &mut Rng, tier: Tier, out: &mut Vec<String>) {
    let q = tier == Tier::Quick;
    // ---- perspective
    for i in 0..(if q { 1500 } else { 60_000 }) {
        let f = log_uniform(rng, 0.1, 10.0);
        let a = log_uniform(rng, 0.25, 4.0);
        // a quarter of the frusta live at an extreme scale (near from 1e-12 to 1e8): the projection is scale
        // invariant, an absolute epsilon in its parameter checks or formulas is not
        let near = if i % 4 == 3 { log_uniform(rng, 1e-12, 1e8) } else { log_uniform(rng, 0.01, 10.0) };
        let far = near * (1.0 + log_uniform(rng, 0.01, 1000.0));
        let k = 4;
        let mut s = format!("persp {} {} {} {} P {}", h32(f), h32(a), h32(near), h32(far), k + 2);
        // two probes exactly on the near and far planes
        let (hx, hy) = (rng.f32_in(-1.2, 1.2), rng.f32_in(-1.2, 1.2));
        s += &format!(" {}", h3([hx * near / f, hy * near / (f * a), near]));
        s += &format!(" {}", h3([hx * far / f, hy * far / (f * a), far]));
        for j in 0..k {
            // points spread inside and outside the frustum, including behind the eye
            let z = match (i + j) % 5 {
                0 => rng.f32_in(-far, 0.0),
                1 => rng.f32_in(0.0, near),
                2 => rng.f32_in(far, 2.0 * far),
                _ => rng.f32_in(near, far),
            };
            let za = z.abs().max(near * 0.1);
            let x = rng.f32_in(-1.5, 1.5) * za / f;
            let y = rng.f32_in(-1.5, 1.5) * za / (f * a);
            s += &format!(" {}", h3([x, y, z]));
        }
        out.push(s);
    }
    // invalid parameters: each assert
    for (f, a, n, fa) in [
        (0.0f32, 1.0f32, 0.1f32, 10.0f32),
        (-1.0, 1.0, 0.1, 10.0),
        (1.0, 0.0, 0.1, 10.0),
        (1.0, -2.0, 0.1, 10.0),
        (1.0, 1.0, 0.0, 10.0),
        (1.0, 1.0, -1.0, 10.0),
        (1.0, 1.0, 5.0, 5.0),
        (1.0, 1.0, 5.0, 1.0),
    ] {
        out.push(format!("persp {} {} {} {} P 0", h32(f), h32(a), h32(n), h32(fa)));
    }
    for _ in 0..(if q { 60 } else { 2000 }) {
        // random invalid combinations: one parameter nonpositive, or an empty / reversed depth range
        let mut v = [log_uniform(rng, 0.1, 10.0), log_uniform(rng, 0.25, 4.0), log_uniform(rng, 0.01, 10.0), 0.0];
        v[3] = v[2] * (1.0 + log_uniform(rng, 0.01, 100.0));
        match rng.below(5) {
            0 => v[0] = if rng.bool() { 0.0 } else { -v[0] },
            1 => v[1] = if rng.bool() { 0.0 } else { -v[1] },
            2 => v[2] = if rng.bool() { 0.0 } else { -v[2] },
            3 => v[3] = v[2],
            _ => v.swap(2, 3),
        }
        out.push(format!("persp {} {} {} {} P 0", h32(v[0]), h32(v[1]), h32(v[2]), h32(v[3])));
    }
    // ---- orthographic
    for i in 0..(if q { 1200 } else { 40_000 }) {
        let l = [fl(rng, -50.0, 50.0), fl(rng, -50.0, 50.0), fl(rng, -50.0, 50.0)];
        let d = [log_uniform(rng, 0.1, 100.0), log_uniform(rng, 0.1, 100.0), log_uniform(rng, 0.1, 100.0)];
        let mut r = [l[0] + d[0], l[1] + d[1], l[2] + d[2]];
        if i % 50 == 0 {
            r[(i / 50) % 3] = l[(i / 50) % 3]; // degenerate extent
        }
        let mut s = format!("ortho {} {} P 6", h3(l), h3(r));
        s += &format!(" {} {}", h3(l), h3(r));
        for _ in 0..4 {
            let p = [
                l[0] + d[0] * rng.f32_in(-0.5, 1.5),
                l[1] + d[1] * rng.f32_in(-0.5, 1.5),
                l[2] + d[2] * rng.f32_in(-0.5, 1.5),
            ];
            s += &format!(" {}", h3(p));
        }
        out.push(s);
    }
    // ---- viewport
    for _ in 0..(if q { 1000 } else { 30_000 }) {
        let (a, b) = (rng.below(2000) as u32, rng.below(2000) as u32);
        let (c, d) = (rng.below(2000) as u32, rng.below(2000) as u32);
        let (l, r, t, bt) = if rng.chance(1, 10) { (a, b, c, d) } else { (a.min(b), a.max(b), c.min(d), c.max(d)) };
        let mut s = format!("vport {l} {t} {r} {bt} P 5");
        s += &format!(" {} {}", h3([-1.0, -1.0, 0.2]), h3([1.0, 1.0, 0.6]));
        for _ in 0..3 {
            s += &format!(" {}", h3([rng.f32_in(-1.5, 1.5), rng.f32_in(-1.5, 1.5), rng.f32_in(0.0, 1.0)]));
        }
        out.push(s);
    }
    // ---- rect
    for _ in 0..(if q { 4000 } else { 150_000 }) {
        let m = if rng.chance(1, 20) { u32::MAX } else { 40 };
        let big = |rng: &mut Rng, m: u32| -> String {
            if m == u32::MAX {
                let v = u32::MAX - rng.below(3) as u32;
                match rng.below(4) {
                    0 => format!("toi:{v}"),
                    1 => format!("ri:0:{v}"),
                    2 => format!("exu:{v}"),
                    _ => format!("to:{v}"),
                }
            } else {
                range_form(rng, m)
            }
        };
        // half of the cases: ordered ranges that overlap (non-empty intersections), the rest arbitrary forms
        if rng.chance(1, 2) && m != u32::MAX {
            let ov = |rng: &mut Rng| -> (String, String) {
                let a = rng.below(20) as u32;
                let b = a + 1 + rng.below(20) as u32;
                let c = a + rng.below((b - a) as u64) as u32; // inside [a, b)
                let d = c + 1 + rng.below(20) as u32;
                let f1 = match rng.below(4) { 0 => format!("ri:{a}:{}", b - 1), 1 => format!("from:{a}"), _ => format!("r:{a}:{b}") };
                let f2 = match rng.below(4) { 0 => format!("to:{d}"), 1 => format!("ex:{}:{d}", c.saturating_sub(1)), _ => format!("r:{c}:{d}") };
                if rng.bool() { (f1, f2) } else { (f2, f1) }
            };
            let (h1, h2) = ov(rng);
            let (v1, v2) = ov(rng);
            out.push(format!("rect {h1} {v1} {h2} {v2} {} {}", rng.below(45), rng.below(45)));
            continue;
        }
        out.push(format!(
            "rect {} {} {} {} {} {}",
            big(rng, m),
            range_form(rng, 40),
            range_form(rng, 40),
            range_form(rng, 40),
            rng.below(45),
            rng.below(45)
        ));
    }
    for i in 0..(if q { 400 } else { 10_000 }) {
        let mut v: Vec<u32> = (0..10).map(|_| rng.below(30) as u32).collect();
        if i % 2 == 0 {
            out.push(format!("rect2 {} {} {} {} full {} {}", v[0], v[1], v[2], v[3], v[8], v[9]));
        } else {
            if rng.chance(3, 4) {
                v[..4].sort();
                v.swap(1, 2);
            }
            out.push(format!(
                "rect2 {} {} {} {} {} {} {} {} {} {}",
                v[0], v[1], v[2], v[3], v[4], v[5], v[6], v[7], v[8], v[9]
            ));
        }
    }
    // ---- Camera::viewport
    out.push("camvp 20 10 r:30:40 r:2:8".into()); // D16: wholly outside the frame
    out.push("camvp 100 100 r:50:100 full r:0:100 full".into()); // D17: second call
    for i in 0..(if q { 2500 } else { 80_000 }) {
        let (w, h) = (1 + rng.below(64) as u32, 1 + rng.below(64) as u32);
        let rf = |rng: &mut Rng, m: u32| -> String {
            // inside, partly outside, wholly outside the frame
            match rng.below(6) {
                0 => {
                    let a = m + rng.below(20) as u32;
                    format!("r:{}:{}", a, a + 1 + rng.below(20) as u32)
                }
                1 => {
                    let a = rng.below(m as u64) as u32;
                    format!("r:{}:{}", a, m + rng.below(20) as u32)
                }
                _ => range_form(rng, m),
            }
        };
        let mut s = format!("camvp {w} {h} {} {}", rf(rng, w), rf(rng, h));
        if i % 4 == 0 {
            s += &format!(" {} {}", rf(rng, w), rf(rng, h));
        }
        out.push(s);
    }
    // ---- full camera
    out.push({
        // D16 seen through render(): viewport wholly outside a 20x10 frame
        let id = [[1.0f32, 0.0, 0.0, 0.0], [0.0, 1.0, 0.0, 0.0], [0.0, 0.0, 1.0, 0.0], [0.0, 0.0, 0.0, 1.0]];
        let v: Vec<String> = id.iter().flatten().map(|x| h32(*x)).collect();
        format!(
            "camproj 20 10 {} {} {} r:30:40 r:2:8 {} {} {} pv",
            h32(1.0), h32(0.1), h32(100.0), v.join(" "), h3([0.0, 0.0, 5.0]), h32(1.5)
        )
    });
    for _ in 0..(if q { 2500 } else { 60_000 }) {
        let (w, h) = (8 + rng.below(56) as u32, 8 + rng.below(56) as u32);
        let f = log_uniform(rng, 0.5, 4.0);
        let near = log_uniform(rng, 0.05, 2.0);
        let far = near * (2.0 + log_uniform(rng, 1.0, 200.0));
        // (range form, clamped extent inside the frame)
        let sub = |rng: &mut Rng, m: u32| -> (String, u32, u32) {
            match rng.below(8) {
                0 => ("full".into(), 0, m),
                1 => {
                    // partly outside
                    let a = rng.below(m as u64 / 2) as u32;
                    (format!("r:{}:{}", a, m + 1 + rng.below(10) as u32), a, m)
                }
                2 => {
                    // wholly outside
                    let a = m + rng.below(5) as u32;
                    (format!("r:{}:{}", a, a + 2 + rng.below(10) as u32), 0, 0)
                }
                _ => {
                    let a = rng.below((m - 4) as u64) as u32;
                    let b = (a + 4 + rng.below((m - a - 3) as u64) as u32).min(m);
                    (format!("r:{a}:{b}"), a, b)
                }
            }
        };
        let ((hs, hl, hr), (vs, _vl, _vr)) = (sub(rng, w), sub(rng, h));
        let view = view_matrix(rng);
        // a world point given by its view-space coordinates q: p = R^T (q - t)
        let z = match rng.below(8) {
            0 => rng.f32_in(0.2 * near, near),
            1 => rng.f32_in(far, 1.5 * far),
            _ => rng.f32_in(1.2 * near, (far / 1.2).min(near * 50.0)),
        };
        let a = w as f32 / h as f32;
        let lat = if rng.chance(1, 4) { 1.2 } else { 0.7 };
        let qx = rng.f32_in(-lat, lat) * z / f;
        let qy = rng.f32_in(-lat, lat) * z / (f * a);
        let qt = [qx - view[0][3], qy - view[1][3], z - view[2][3]];
        let mut p = [0.0f32; 3];
        for j in 0..3 {
            for i in 0..3 {
                p[j] += view[i][j] * qt[i];
            }
        }
        // half-size of the triangle in world units: about 3 pixels of the (clamped) viewport width
        let vpw = (hr - hl).max(4) as f32;
        // builder order: every permutation of mode / viewport / projection; one case in five orthographic
        let ortho = rng.chance(1, 5);
        let perm = ["mpv", "mvp", "pmv", "pvm", "vmp", "vpm"][rng.below(6) as usize];
        let order = if ortho { perm.replace('p', "o") } else { perm.to_string() };
        let (p, half) = if ortho {
            // orthographic box (-1/f, -1/f, near)..(1/f, 1/f, far): pixel scale f * vpw / 2 whatever the depth
            let bx = 1.0 / f;
            let qt = [
                rng.f32_in(-lat, lat) * bx - view[0][3],
                rng.f32_in(-lat, lat) * bx - view[1][3],
                z - view[2][3],
            ];
            let mut p = [0.0f32; 3];
            for j in 0..3 {
                for i in 0..3 {
                    p[j] += view[i][j] * qt[i];
                }
            }
            (p, 3.0 / (f * vpw * 0.5))
        } else {
            (p, 3.0 * z / (f * vpw * 0.5))
        };
        let vt: Vec<String> = view.iter().flatten().map(|x| h32(*x)).collect();
        out.push(format!(
            "camproj {w} {h} {} {} {} {hs} {vs} {} {} {} {order}",
            h32(f), h32(near), h32(far), vt.join(" "), h3(p), h32(half)
        ));
    }
    // ---- first person
    for i in 0..(if q { 3000 } else { 100_000 }) {
        let pos = [fl(rng, -10.0, 10.0), fl(rng, -10.0, 10.0), fl(rng, -10.0, 10.0)];
        let kind = match i % 8 {
            0 => {
                // target straight up / down: the delicate basis construction
                let d = log_uniform(rng, 0.1, 50.0) * if rng.bool() { 1.0 } else { -1.0 };
                format!("look {}", h3([pos[0], pos[1] + d, pos[2]]))
            }
            1 => {
                // axis-aligned targets
                let mut tg = pos;
                tg[rng.below(3) as usize] += log_uniform(rng, 0.1, 50.0) * if rng.bool() { 1.0 } else { -1.0 };
                format!("look {}", h3(tg))
            }
            2 | 3 | 4 => format!(
                "look {}",
                h3([pos[0] + fl(rng, -20.0, 20.0), pos[1] + fl(rng, -20.0, 20.0), pos[2] + fl(rng, -20.0, 20.0)])
            ),
            5 => {
                use std::f32::consts::FRAC_PI_2;
                let az = (rng.range(-6, 7) as f32) * FRAC_PI_2;
                let alt = (rng.range(-2, 3) as f32) * FRAC_PI_2; // clamped to +-90 degrees
                format!("rot {} {}", h32(az), h32(alt))
            }
            6 => format!("rot {} {}", h32(rng.f32_in(-10.0, 10.0)), h32(rng.f32_in(-3.0, 3.0))),
            _ => "new".to_string(),
        };
        let probe = [fl(rng, -20.0, 20.0), fl(rng, -20.0, 20.0), fl(rng, -20.0, 20.0)];
        let delta = [fl(rng, -5.0, 5.0), fl(rng, -5.0, 5.0), fl(rng, -5.0, 5.0)];
        out.push(format!("fp {} {} {} {}", h3(pos), kind, h3(probe), h3(delta)));
    }
    // ---- first person: fresh state (new / default) and sequences of relative rotations
    for i in 0..(if q { 1500 } else { 50_000 }) {
        use std::f32::consts::{FRAC_PI_2, PI};
        let init = if i % 2 == 0 { "new" } else { "default" };
        let n = (i / 2) % 6; // 0 steps: the fresh state alone
        let mut s = format!("fprot {init} {n}");
        for k in 0..n {
            let (daz, dalt) = match (i / 12 + k) % 8 {
                0 => (3.0, 0.0),                                  // two of these cross the +half-turn seam
                1 => (-3.0, 0.3),                                 // ... and the -half-turn seam
                2 => (rng.f32_in(-0.5, 0.5), 1.0),                // altitude runs into the +quarter-turn clamp
                3 => (rng.f32_in(-0.5, 0.5), -1.2),               // ... and the -quarter-turn clamp
                4 => ((rng.range(-4, 5) as f32) * FRAC_PI_2, (rng.range(-2, 3) as f32) * FRAC_PI_2),
                5 => (PI + rng.f32_in(-0.01, 0.01), 0.0),         // lands right next to the seam
                6 => (rng.f32_in(-7.0, 7.0), rng.f32_in(-2.0, 2.0)),
                _ => (rng.f32_in(-0.3, 0.3), rng.f32_in(-0.3, 0.3)),
            };
            s += &format!(" {} {}", h32(daz), h32(dalt));
        }
        let probe = [fl(rng, -20.0, 20.0), fl(rng, -20.0, 20.0), fl(rng, -20.0, 20.0)];
        let delta = [fl(rng, -5.0, 5.0), fl(rng, -5.0, 5.0), fl(rng, -5.0, 5.0)];
        out.push(format!("{s} {} {}", h3(probe), h3(delta)));
    }
}

fn main() {
    vharness::harness_main(gen, run);
}
