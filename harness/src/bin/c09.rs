//! C09: transform algebra — compose / then / apply / apply_pt / transpose / determinant /
//! inverse and the 4x4 constructors, on the real retrofire code.
//!
//! A transform is described by a list of constructor *specs* (self-delimiting token groups):
//!   T x y z | S x y z | RX a | RY a | RZ a | B i(3) j(3) k(3) | OY newy(3) x(3) |
//!   OZ newz(3) x(3) | M e(16, row major)
//! all numbers as f32 bit patterns. Ops:
//!   chain n <spec>*n P k <3k floats>   product c1.then(c2)...then(cn), determinants, probes
//!   inv   n <spec>*n                   product, its inverse (or panic), both composites
//!   m3 A(9) B(9) v(2)                  3x3 compose/then/apply/apply_pt/transpose
//!   tr e(16)                           4x4 transpose (exact)
//! The output starts with the (sin, cos) pair `Angle::sin_cos` returned for every rotation
//! spec, in order: the model takes them from here and never recomputes trigonometry.
use std::panic::{catch_unwind, AssertUnwindSafe};

use re::math::mat::{Mat3x3, Mat4x4, RealToReal};
use re::math::{
    orient_y, orient_z, pt2, pt3, rads, rotate_x, rotate_y, rotate_z, scale, translate, vec2,
    vec3, Vec3,
};

use vharness::util::*;

type M4 = Mat4x4<RealToReal<3>>;
type M3 = Mat3x3<RealToReal<2>>;

fn v3(t: &[&str], i: &mut usize) -> Vec3 {
    let v = vec3(pf32(t[*i]), pf32(t[*i + 1]), pf32(t[*i + 2]));
    *i += 3;
    v
}

/// Parses one spec starting at t[*i]; pushes (sin, cos) for rotations.
fn spec(t: &[&str], i: &mut usize, trig: &mut Vec<f32>) -> M4 {
    let k = t[*i];
    *i += 1;
    match k {
        "T" => translate(v3(t, i)),
        "S" => scale(v3(t, i)),
        "RX" | "RY" | "RZ" => {
            let a = rads(pf32(t[*i]));
            *i += 1;
            let (s, c) = a.sin_cos();
            trig.push(s);
            trig.push(c);
            match k {
                "RX" => rotate_x(a),
                "RY" => rotate_y(a),
                _ => rotate_z(a),
            }
        }
        "B" => {
            let (a, b, c) = (v3(t, i), v3(t, i), v3(t, i));
            M4::from_basis(a, b, c)
        }
        "OY" => {
            let (a, b) = (v3(t, i), v3(t, i));
            orient_y(a, b)
        }
        "OZ" => {
            let (a, b) = (v3(t, i), v3(t, i));
            orient_z(a, b)
        }
        "M" => {
            let mut e = [[0.0f32; 4]; 4];
            for r in 0..4 {
                for c in 0..4 {
                    e[r][c] = pf32(t[*i + 4 * r + c]);
                }
            }
            *i += 16;
            M4::new(e)
        }
        _ => panic!("unknown spec {k}"),
    }
}

fn specs(t: &[&str], i: &mut usize, trig: &mut Vec<f32>) -> Vec<M4> {
    let n: usize = t[*i].parse().unwrap();
    *i += 1;
    (0..n).map(|_| spec(t, i, trig)).collect()
}

fn push_m4(out: &mut Vec<String>, m: &M4) {
    for r in 0..4 {
        for c in 0..4 {
            out.push(h32(m.0[r][c]));
        }
    }
}
fn push_v3(out: &mut Vec<String>, v: [f32; 3]) {
    for c in v {
        out.push(h32(c));
    }
}

fn product(parts: &[M4]) -> (M4, bool) {
    // acc = c1.then(c2).then(c3)...   and the same through compose()
    let mut a = parts[0];
    let mut b = parts[0];
    for p in &parts[1..] {
        a = a.then(p);
        b = p.compose(&b);
    }
    (a, a.0 == b.0)
}

pub fn run(t: &[&str]) -> String {
    let mut out: Vec<String> = vec![];
    match t[0] {
        "chain" => {
            let mut i = 1;
            let mut trig = vec![];
            let parts = specs(t, &mut i, &mut trig);
            for x in &trig {
                out.push(h32(*x));
            }
            let (m, same) = product(&parts);
            push_m4(&mut out, &m);
            out.push(h32(m.determinant()));
            for p in &parts {
                out.push(h32(p.determinant()));
            }
            out.push((same as u8).to_string());
            assert_eq!(t[i], "P");
            let k: usize = t[i + 1].parse().unwrap();
            i += 2;
            for _ in 0..k {
                let v = v3(t, &mut i);
                let p = pt3(v.x(), v.y(), v.z());
                push_v3(&mut out, m.apply_pt(&p).0);
                let mut q = p;
                for c in &parts {
                    q = c.apply_pt(&q);
                }
                push_v3(&mut out, q.0);
                push_v3(&mut out, m.apply(&v).0);
                let mut w = v;
                for c in &parts {
                    w = c.apply(&w);
                }
                push_v3(&mut out, w.0);
            }
        }
        "inv" => {
            let mut i = 1;
            let mut trig = vec![];
            let parts = specs(t, &mut i, &mut trig);
            for x in &trig {
                out.push(h32(*x));
            }
            let (m, _) = product(&parts);
            push_m4(&mut out, &m);
            out.push(h32(m.determinant()));
            match catch_unwind(AssertUnwindSafe(|| m.inverse())) {
                Ok(inv) => {
                    out.push("ok".into());
                    push_m4(&mut out, &inv);
                    push_m4(&mut out, &m.compose(&inv));
                    push_m4(&mut out, &inv.compose(&m));
                }
                Err(e) => {
                    let msg = e
                        .downcast_ref::<String>()
                        .cloned()
                        .or_else(|| e.downcast_ref::<&str>().map(|s| s.to_string()))
                        .unwrap_or_default();
                    let cls = if msg.starts_with("a singular") {
                        "singular"
                    } else if msg.contains("is_finite") {
                        "nonfinite"
                    } else {
                        "other"
                    };
                    out.push(format!("panic:{cls}"));
                }
            }
        }
        "m3" => {
            let f: Vec<f32> = t[1..].iter().map(|s| pf32(s)).collect();
            let a = M3::new([[f[0], f[1], f[2]], [f[3], f[4], f[5]], [f[6], f[7], f[8]]]);
            let b = M3::new([[f[9], f[10], f[11]], [f[12], f[13], f[14]], [f[15], f[16], f[17]]]);
            let v = vec2(f[18], f[19]);
            let p = pt2(f[18], f[19]);
            let ab = a.compose(&b);
            let th = a.then(&b);
            let tr = a.transpose();
            for m in [&ab, &th, &tr] {
                for r in 0..3 {
                    for c in 0..3 {
                        out.push(h32(m.0[r][c]));
                    }
                }
            }
            for x in ab.apply(&v).0 {
                out.push(h32(x));
            }
            for x in a.apply(&b.apply(&v)).0 {
                out.push(h32(x));
            }
            for x in ab.apply_pt(&p).0 {
                out.push(h32(x));
            }
            for x in a.apply_pt(&b.apply_pt(&p)).0 {
                out.push(h32(x));
            }
            out.push(((b.then(&a).0 == ab.0) as u8).to_string());
        }
        "tr" => {
            let mut i = 0;
            let mut trig = vec![];
            let mut tt = vec!["M"];
            tt.extend_from_slice(&t[1..]);
            let m = spec(&tt, &mut i, &mut trig);
            push_m4(&mut out, &m.transpose());
        }
        _ => panic!("unknown op"),
    }
    out.join(" ")
}

// ---------------------------------------------------------------------------------------
// generator
// ---------------------------------------------------------------------------------------

type D4 = [[f64; 4]; 4];

fn d_mul(a: &D4, b: &D4) -> D4 {
    let mut r = [[0.0; 4]; 4];
    for i in 0..4 {
        for j in 0..4 {
            for k in 0..4 {
                r[i][j] += a[i][k] * b[k][j];
            }
        }
    }
    r
}
fn d_inv(a: &D4) -> Option<D4> {
    let mut m = *a;
    let mut inv = [[0.0; 4]; 4];
    for i in 0..4 {
        inv[i][i] = 1.0;
    }
    for c in 0..4 {
        let mut p = c;
        for r in c..4 {
            if m[r][c].abs() > m[p][c].abs() {
                p = r;
            }
        }
        if m[p][c].abs() < 1e-300 {
            return None;
        }
        m.swap(c, p);
        inv.swap(c, p);
        let d = m[c][c];
        for j in 0..4 {
            m[c][j] /= d;
            inv[c][j] /= d;
        }
        for r in 0..4 {
            if r != c {
                let f = m[r][c];
                for j in 0..4 {
                    m[r][j] -= f * m[c][j];
                    inv[r][j] -= f * inv[c][j];
                }
            }
        }
    }
    Some(inv)
}
fn d_fro(a: &D4) -> f64 {
    a.iter().flatten().map(|x| x * x).sum::<f64>().sqrt()
}
/// Frobenius condition number of the 4x4 (infinite when singular).
fn d_cond(a: &D4) -> f64 {
    match d_inv(a) {
        Some(i) => d_fro(a) * d_fro(&i),
        None => f64::INFINITY,
    }
}

/// One generated constructor: its tokens and an f64 mirror used only to bound the condition number.
struct Part {
    toks: String,
    d: D4,
}

fn fl(rng: &mut Rng, lo: f32, hi: f32) -> f32 {
    // a mix of "round" and arbitrary values
    match rng.below(4) {
        0 => ((rng.range((lo * 4.0) as i64, (hi * 4.0) as i64 + 1)) as f32) / 4.0,
        _ => rng.f32_in(lo, hi),
    }
}
fn nz(rng: &mut Rng, lo: f32, hi: f32) -> f32 {
    // magnitude in [lo, hi], random sign
    let m = rng.f32_in(lo, hi);
    if rng.bool() {
        -m
    } else {
        m
    }
}
fn h3(v: [f32; 3]) -> String {
    format!("{} {} {}", h32(v[0]), h32(v[1]), h32(v[2]))
}
fn ident() -> D4 {
    let mut m = [[0.0; 4]; 4];
    for i in 0..4 {
        m[i][i] = 1.0;
    }
    m
}
fn basis_d(i: [f32; 3], j: [f32; 3], k: [f32; 3]) -> D4 {
    let mut m = ident();
    for r in 0..3 {
        m[r][0] = i[r] as f64;
        m[r][1] = j[r] as f64;
        m[r][2] = k[r] as f64;
    }
    m
}
fn cross(a: [f32; 3], b: [f32; 3]) -> [f32; 3] {
    [a[1] * b[2] - a[2] * b[1], a[2] * b[0] - a[0] * b[2], a[0] * b[1] - a[1] * b[0]]
}
fn norm(a: [f32; 3]) -> [f32; 3] {
    let l = (a[0] * a[0] + a[1] * a[1] + a[2] * a[2]).sqrt();
    [a[0] / l, a[1] / l, a[2] / l]
}

fn angle(rng: &mut Rng) -> f32 {
    use std::f32::consts::FRAC_PI_2;
    match rng.below(5) {
        0 => (rng.range(-8, 9) as f32) * FRAC_PI_2, // multiples of 90 degrees
        1 => (rng.range(-8, 9) as f32) * FRAC_PI_2 + rng.f32_in(-1e-3, 1e-3),
        2 => (rng.range(-24, 25) as f32) * (FRAC_PI_2 / 6.0), // multiples of 15 degrees
        _ => rng.f32_in(-7.0, 7.0),
    }
}

fn unit3(rng: &mut Rng) -> [f32; 3] {
    loop {
        let v = [rng.f32_in(-1.0, 1.0), rng.f32_in(-1.0, 1.0), rng.f32_in(-1.0, 1.0)];
        let l = v[0] * v[0] + v[1] * v[1] + v[2] * v[2];
        if l > 0.05 && l <= 1.0 {
            return match rng.below(4) {
                0 => {
                    // axis-aligned
                    let mut a = [0.0; 3];
                    a[rng.below(3) as usize] = if rng.bool() { 1.0 } else { -1.0 };
                    a
                }
                _ => norm(v),
            };
        }
    }
}

fn part(rng: &mut Rng, kind: u64) -> Part {
    match kind {
        0 => {
            let t = [fl(rng, -10.0, 10.0), fl(rng, -10.0, 10.0), fl(rng, -10.0, 10.0)];
            let mut d = ident();
            for r in 0..3 {
                d[r][3] = t[r] as f64;
            }
            Part { toks: format!("T {}", h3(t)), d }
        }
        1 => {
            // non-uniform scaling, negative allowed
            let s = [nz(rng, 0.2, 5.0), nz(rng, 0.2, 5.0), nz(rng, 0.2, 5.0)];
            let mut d = ident();
            for r in 0..3 {
                d[r][r] = s[r] as f64;
            }
            Part { toks: format!("S {}", h3(s)), d }
        }
        2 | 3 | 4 => {
            let a = angle(rng);
            let (s, c) = ((a as f64).sin(), (a as f64).cos());
            let mut d = ident();
            let name = match kind {
                2 => {
                    d[1][1] = c;
                    d[1][2] = s;
                    d[2][1] = -s;
                    d[2][2] = c;
                    "RX"
                }
                3 => {
                    d[0][0] = c;
                    d[0][2] = -s;
                    d[2][0] = s;
                    d[2][2] = c;
                    "RY"
                }
                _ => {
                    d[0][0] = c;
                    d[0][1] = s;
                    d[1][0] = -s;
                    d[1][1] = c;
                    "RZ"
                }
            };
            Part { toks: format!("{name} {}", h32(a)), d }
        }
        5 => {
            // basis change: permutation / signed permutation / sheared / arbitrary
            let (i, j, k) = match rng.below(4) {
                0 => {
                    let e = [[1.0, 0.0, 0.0], [0.0, 1.0, 0.0], [0.0, 0.0, 1.0]];
                    let p = [[0, 1, 2], [0, 2, 1], [1, 0, 2], [1, 2, 0], [2, 0, 1], [2, 1, 0]]
                        [rng.below(6) as usize];
                    let sg = |rng: &mut Rng, v: [f32; 3]| {
                        let s = if rng.bool() { -1.0 } else { 1.0 } * nz(rng, 0.5, 2.0).abs();
                        [v[0] * s, v[1] * s, v[2] * s]
                    };
                    (sg(rng, e[p[0]]), sg(rng, e[p[1]]), sg(rng, e[p[2]]))
                }
                1 => {
                    // shear: identity plus one off-diagonal entry
                    let mut c = [[1.0, 0.0, 0.0], [0.0, 1.0, 0.0], [0.0, 0.0, 1.0]];
                    let a = rng.below(3) as usize;
                    let b = (a + 1 + rng.below(2) as usize) % 3;
                    c[a][b] = fl(rng, -2.0, 2.0);
                    (c[0], c[1], c[2])
                }
                _ => (
                    [fl(rng, -2.0, 2.0), fl(rng, -2.0, 2.0), fl(rng, -2.0, 2.0)],
                    [fl(rng, -2.0, 2.0), fl(rng, -2.0, 2.0), fl(rng, -2.0, 2.0)],
                    [fl(rng, -2.0, 2.0), fl(rng, -2.0, 2.0), fl(rng, -2.0, 2.0)],
                ),
            };
            Part { toks: format!("B {} {} {}", h3(i), h3(j), h3(k)), d: basis_d(i, j, k) }
        }
        6 | 7 => {
            // orient_y / orient_z with unit (or nearly unit) vectors, x not parallel to the axis
            let a = unit3(rng);
            let mut x;
            loop {
                x = unit3(rng);
                let c = cross(a, x);
                if c[0] * c[0] + c[1] * c[1] + c[2] * c[2] > 0.05 {
                    break;
                }
            }
            if rng.chance(1, 2) {
                // make x exactly orthogonal-ish (the documented use)
                x = norm(cross(cross(a, x), a));
            }
            let d = if kind == 6 {
                let z = norm(cross(x, a));
                basis_d(cross(a, z), a, z)
            } else {
                let y = norm(cross(a, x));
                basis_d(cross(y, a), y, a)
            };
            Part { toks: format!("{} {} {}", if kind == 6 { "OY" } else { "OZ" }, h3(a), h3(x)), d }
        }
        _ => {
            // raw affine matrix (last row 0 0 0 1) or, rarely, a fully general 4x4
            let mut e = [[0.0f32; 4]; 4];
            let general = rng.chance(1, 4);
            for r in 0..4 {
                for c in 0..4 {
                    e[r][c] = if rng.chance(1, 3) { 0.0 } else { fl(rng, -3.0, 3.0) };
                }
            }
            if !general {
                e[3] = [0.0, 0.0, 0.0, 1.0];
            }
            let mut d = [[0.0; 4]; 4];
            let mut toks = String::from("M");
            for r in 0..4 {
                for c in 0..4 {
                    d[r][c] = e[r][c] as f64;
                    toks += &format!(" {}", h32(e[r][c]));
                }
            }
            Part { toks, d }
        }
    }
}

/// Bases that satisfy only *some* of the criteria of a rigid transform (unit columns, mutually orthogonal
/// columns, unit rows): a shortcut that inverts "rigid" matrices by transposition is wrong on every one of them
/// except mode 5.
fn near_rigid(rng: &mut Rng, mode: u64) -> ([f32; 3], [f32; 3], [f32; 3]) {
    let ortho = |rng: &mut Rng| -> ([f32; 3], [f32; 3], [f32; 3]) {
        let a = unit3(rng);
        let mut x;
        loop {
            x = unit3(rng);
            let c = cross(a, x);
            if c[0] * c[0] + c[1] * c[1] + c[2] * c[2] > 0.05 {
                break;
            }
        }
        let z = norm(cross(a, x));
        let y = norm(cross(z, a));
        (a, y, z)
    };
    match mode {
        0 => (unit3(rng), unit3(rng), unit3(rng)), // unit columns, not orthogonal
        1 => {
            // exact hexagonal-type bases: unit columns at 53.13 / 60 / 120 degrees
            let h: [[f32; 3]; 3] = match rng.below(3) {
                0 => [[1.0, 0.0, 0.0], [0.6, 0.8, 0.0], [0.0, 0.0, 1.0]],
                1 => [[1.0, 0.0, 0.0], [0.5, 0.75f32.sqrt(), 0.0], [0.0, 0.0, 1.0]],
                _ => [[1.0, 0.0, 0.0], [-0.5, 0.75f32.sqrt(), 0.0], [0.0, 0.6, 0.8]],
            };
            let p = [[0, 1, 2], [0, 2, 1], [1, 0, 2], [1, 2, 0], [2, 0, 1], [2, 1, 0]][rng.below(6) as usize];
            let q = [[0, 1, 2], [1, 2, 0], [2, 0, 1]][rng.below(3) as usize];
            let pick = |c: usize| -> [f32; 3] { [h[p[c]][q[0]], h[p[c]][q[1]], h[p[c]][q[2]]] };
            (pick(0), pick(1), pick(2))
        }
        2 => {
            // orthogonal columns of different lengths (one of them may be exactly 1)
            let (a, y, z) = ortho(rng);
            let sc = |v: [f32; 3], s: f32| [v[0] * s, v[1] * s, v[2] * s];
            let s1 = if rng.bool() { 1.0 } else { nz(rng, 0.3, 3.0) };
            (sc(a, s1), sc(y, nz(rng, 0.3, 3.0)), sc(z, nz(rng, 0.3, 3.0)))
        }
        3 => {
            // unit rows, columns in general not unit: the transpose of mode 0
            let (a, b, c) = (unit3(rng), unit3(rng), unit3(rng));
            ([a[0], b[0], c[0]], [a[1], b[1], c[1]], [a[2], b[2], c[2]])
        }
        4 => {
            // a rotation with one column replaced by another unit vector
            let (a, y, z) = ortho(rng);
            let u = unit3(rng);
            match rng.below(3) {
                0 => (u, y, z),
                1 => (a, u, z),
                _ => (a, y, u),
            }
        }
        _ => ortho(rng), // genuinely orthonormal (possibly a reflection)
    }
}

fn probes(rng: &mut Rng, k: usize) -> String {
    let mut s = format!("P {k}");
    for i in 0..k {
        let p: [f32; 3] = match (i, rng.below(6)) {
            (0, 0) => [0.0, 0.0, 0.0],
            (_, 1) => {
                let mut a = [0.0; 3];
                a[rng.below(3) as usize] = 1.0;
                a
            }
            _ => [fl(rng, -10.0, 10.0), fl(rng, -10.0, 10.0), fl(rng, -10.0, 10.0)],
        };
        s += &format!(" {}", h3(p));
    }
    s
}

/// A chain of 1..=max_n constructors whose product has Frobenius condition number <= limit.
fn chain(rng: &mut Rng, max_n: u64, limit: f64) -> (String, usize) {
    loop {
        let n = 1 + rng.below(max_n) as usize;
        let mut toks = format!("{n}");
        let mut d = ident();
        for _ in 0..n {
            let kind = match rng.below(16) {
                0 | 1 => 0,
                2 | 3 => 1,
                4 | 5 => 2,
                6 | 7 => 3,
                8 | 9 => 4,
                10 | 11 => 5,
                12 => 6,
                13 => 7,
                _ => 8,
            };
            let p = part(rng, kind);
            toks += &format!(" {}", p.toks);
            d = d_mul(&p.d, &d); // then(): the new part is applied after
        }
        if d_cond(&d) <= limit {
            return (toks, n);
        }
    }
}

pub fn gen(rng: &mut Rng, tier: Tier, out: &mut Vec<String>) {
    let q = tier == Tier::Quick;
    // single constructors: defining effect on points / vectors
    for kind in 0..9u64 {
        for _ in 0..(if q { 120 } else { 4000 }) {
            let p = loop {
                let p = part(rng, kind);
                if d_cond(&p.d) <= 1e3 || kind == 8 {
                    break p;
                }
            };
            out.push(format!("chain 1 {} {}", p.toks, probes(rng, 3)));
            if d_cond(&p.d) <= 1e3 {
                out.push(format!("inv 1 {}", p.toks));
            }
        }
    }
    // products
    for _ in 0..(if q { 2500 } else { 120_000 }) {
        let (c, _) = chain(rng, 6, 1e3);
        out.push(format!("chain {} {}", c, probes(rng, 2)));
    }
    for _ in 0..(if q { 3500 } else { 150_000 }) {
        let (c, _) = chain(rng, 6, 1e3);
        out.push(format!("inv {}", c));
    }
    // "almost rigid" transforms: only some of {unit columns, orthogonal columns, unit rows} hold; alone, with a
    // translation before or after, and turned by a rotation
    for i in 0..(if q { 1200 } else { 40_000 }) {
        let mode = (i % 6) as u64;
        let (toks, n) = loop {
            let (a, b, c) = near_rigid(rng, mode);
            let mut d = basis_d(a, b, c);
            let mut parts = vec![format!("B {} {} {}", h3(a), h3(b), h3(c))];
            match rng.below(4) {
                0 => {}
                1 => {
                    let t = part(rng, 0); // translation applied after
                    d = d_mul(&t.d, &d);
                    parts.push(t.toks);
                }
                2 => {
                    let t = part(rng, 0); // translation applied first
                    d = d_mul(&d, &t.d);
                    parts.insert(0, t.toks);
                }
                _ => {
                    let kind = 2 + rng.below(3);
                    let r = part(rng, kind); // rotation after: unit columns stay unit
                    d = d_mul(&r.d, &d);
                    parts.push(r.toks);
                    if rng.bool() {
                        let t = part(rng, 0);
                        d = d_mul(&t.d, &d);
                        parts.push(t.toks);
                    }
                }
            }
            if d_cond(&d) <= 1e3 {
                break (parts.join(" "), parts.len());
            }
        };
        out.push(format!("inv {n} {toks}"));
        if i % 4 == 0 {
            out.push(format!("chain {n} {toks} {}", probes(rng, 2)));
        }
    }
    // orient_y / orient_z under stress: axis lengths from 1e-6 to 1e3 (the functions normalise the cross product of
    // their arguments, so the auxiliary axis may have any length) and unit axes 5, 1, 0.1 and 0.03 degrees from parallel
    // (cross product as short as 5e-4)
    {
        let lens = [1.0e-6f32, 1.0e-4, 1.0e-3, 1.0e-2, 1.0, 1.0e3];
        let angles = [5.0f64, 1.0, 0.1, 0.03];
        let scale = |v: [f32; 3], l: f32| [v[0] * l, v[1] * l, v[2] * l];
        for i in 0..(if q { 900 } else { 30_000 }) {
            let name = if i % 2 == 0 { "OY" } else { "OZ" };
            let a = unit3(rng);
            let (la, lx, x) = match (i / 2) % 3 {
                0 => {
                    // every pair of lengths, directions well apart
                    let mut x;
                    loop {
                        x = unit3(rng);
                        let c = cross(a, x);
                        if c[0] * c[0] + c[1] * c[1] + c[2] * c[2] > 0.1 {
                            break;
                        }
                    }
                    let k = (i / 6) % 36;
                    (lens[k / 6], lens[k % 6], x)
                }
                m => {
                    // x = a cos(t) + b sin(t), b a unit vector orthogonal to a (computed in f64)
                    let t = angles[(i / 6) % 4].to_radians() * if rng.bool() { 1.0 } else { -1.0 };
                    let a64 = [a[0] as f64, a[1] as f64, a[2] as f64];
                    let mut b;
                    loop {
                        let u = unit3(rng);
                        let u64 = [u[0] as f64, u[1] as f64, u[2] as f64];
                        let d = u64[0] * a64[0] + u64[1] * a64[1] + u64[2] * a64[2];
                        b = [u64[0] - d * a64[0], u64[1] - d * a64[1], u64[2] - d * a64[2]];
                        let l = (b[0] * b[0] + b[1] * b[1] + b[2] * b[2]).sqrt();
                        if l > 0.3 {
                            b = [b[0] / l, b[1] / l, b[2] / l];
                            break;
                        }
                    }
                    let x: [f32; 3] = core::array::from_fn(|j| (a64[j] * t.cos() + b[j] * t.sin()) as f32);
                    // unit primary axis; the auxiliary one either unit as well or of any length
                    (1.0, if m == 1 { 1.0 } else { lens[(i / 24) % 6] }, x)
                }
            };
            let toks = format!("{name} {} {}", h3(scale(a, la)), h3(scale(x, lx)));
            out.push(format!("chain 1 {toks} {}", probes(rng, 2)));
            if la == 1.0 {
                out.push(format!("inv 1 {toks}"));
            }
        }
    }
    // small but perfectly conditioned linear parts (D18: the determinant guard of inverse() used to be absolute;
    // uniform scale s times rotations: 4x4 condition number about 1/s <= 1e3, det = s^3)
    for _ in 0..(if q { 80 } else { 3000 }) {
        // below eps/4 (refused) or above 4*eps (inverted): the band in between is the guard's rounding zone
        let s = if rng.bool() { rng.f32_in(1.8e-3, 3.0e-3) } else { rng.f32_in(8.0e-3, 2.0e-2) };
        let k = rng.below(3) as usize;
        let mut toks = format!("inv {} S {}", k + 1, h3([s, s, s]));
        for _ in 0..k {
            let kind = 2 + rng.below(3);
            let p = part(rng, kind);
            toks += &format!(" {}", p.toks);
        }
        out.push(toks);
    }
    // singular and nearly singular matrices: the guard must panic, never return garbage silently
    for i in 0..(if q { 60 } else { 2000 }) {
        let mut e = [[0.0f32; 4]; 4];
        for r in 0..4 {
            for c in 0..4 {
                e[r][c] = fl(rng, -2.0, 2.0);
            }
        }
        e[3] = [0.0, 0.0, 0.0, 1.0];
        match i % 3 {
            0 => e[2] = e[0],                                  // equal rows
            1 => e[1] = [0.0, 0.0, 0.0, 0.0],                  // zero row
            _ => {
                for c in 0..4 {
                    e[2][c] = e[0][c] + e[1][c] * (1.0 + 1e-6); // nearly dependent
                }
            }
        }
        let mut toks = String::from("inv 1 M");
        for r in 0..4 {
            for c in 0..4 {
                toks += &format!(" {}", h32(e[r][c]));
            }
        }
        out.push(toks);
    }
    // skewed affine maps with a sizeable translation: the three basis rows are far from orthogonal (a common
    // direction plus a small independent part), so det is small against the product of the row lengths
    // (Hadamard ratio 1e-7..1e-3) although the map is well conditioned — where a singularity guard that is
    // stricter than rounding requires rejects valid transforms
    for _ in 0..(if q { 600 } else { 20_000 }) {
        let d = [fl(rng, 0.5, 1.0), fl(rng, -0.3, 0.3), fl(rng, -0.3, 0.3)];
        let eps = 10f32.powf(rng.f32_in(-1.7, -0.5));
        let tt = 10f32.powf(rng.f32_in(0.0, 1.5));
        let par = rng.bool();
        let mut e = [[0f32; 4]; 4];
        for r in 0..3 {
            let k = fl(rng, 0.6, 1.0);
            for c in 0..3 {
                e[r][c] = k * d[c] + eps * fl(rng, -1.0, 1.0);
            }
            // half of them: the translation follows the common direction too (the whole 4-rows are nearly
            // parallel: one large singular value ~ tt, three of the size of the independent part)
            e[r][3] = if par { k * tt + eps * fl(rng, -1.0, 1.0) } else { tt * fl(rng, 0.7, 1.0) };
        }
        e[3] = [0.0, 0.0, 0.0, 1.0];
        let mut toks = String::from("inv 1 M");
        for r in 0..4 {
            for c in 0..4 {
                toks += &format!(" {}", h32(e[r][c]));
            }
        }
        out.push(toks);
    }
    // 3x3
    for i in 0..(if q { 1200 } else { 40_000 }) {
        let mut f = vec![];
        for m in 0..2 {
            let affine = (i + m) % 3 != 0;
            for r in 0..3 {
                for c in 0..3 {
                    f.push(if affine && r == 2 {
                        if c == 2 { 1.0 } else { 0.0 }
                    } else if rng.chance(1, 4) {
                        0.0
                    } else {
                        fl(rng, -4.0, 4.0)
                    });
                }
            }
        }
        f.push(fl(rng, -10.0, 10.0));
        f.push(fl(rng, -10.0, 10.0));
        let toks: Vec<String> = f.iter().map(|x| h32(*x)).collect();
        out.push(format!("m3 {}", toks.join(" ")));
    }
    // transpose
    for _ in 0..(if q { 200 } else { 5000 }) {
        let toks: Vec<String> = (0..16).map(|_| h32(fl(rng, -100.0, 100.0))).collect();
        out.push(format!("tr {}", toks.join(" ")));
    }
}

fn main() {
    vharness::harness_main(gen, run);
}
