//! C10: mixing spaces, bases or units is a compile-time error.
//!
//! Inverted direction: the Lean model *generates* the programs (`drv_c10 emit <tier> <seed>`,
//! one per line: `prog <id> <model-verdict> <class> <expr> <body with '~' for spaces>`) and the
//! implementation that judges them is rustc type-checking against the crate in $VERIF_REPO/core.
//!
//!   c10 gen <seed> <tier>   -> the program lines of the Lean driver
//!   c10 run                 -> writes every program read from stdin as `pub fn pK(PARAMS) { body }`
//!                              (one per line) into ONE crate, runs `cargo check` there, maps each
//!                              error back to its function by line number and prints
//!                              `<case> => ok` or `<case> => err E0308 E0277 …`
//!
//! `ok` is only reported for programs that are part of a final, completely error-free
//! `cargo check` pass (erroneous functions are removed and the rest is checked again), so an error
//! in one function can never hide the verdict on another.
use std::collections::{BTreeMap, BTreeSet};
use std::io::{self, BufRead, Write};
use std::path::{Path, PathBuf};
use std::process::Command;

use vharness::util::*;

fn driver() -> PathBuf {
    if let Ok(p) = std::env::var("VERIF_DRV_C10") {
        return PathBuf::from(p);
    }
    Path::new(env!("CARGO_MANIFEST_DIR")).join("../lean/.lake/build/bin/drv_c10")
}

fn repo() -> String {
    std::env::var("VERIF_REPO").unwrap_or_else(|_| "/repo".into())
}

fn corpus_dir() -> PathBuf {
    match std::env::var("VERIF_SCRATCH") {
        Ok(s) if !s.is_empty() => Path::new(&s).join("corpus10"),
        _ => Path::new(env!("CARGO_MANIFEST_DIR")).join("target/corpus10"),
    }
}

fn drv(args: &[&str]) -> Vec<String> {
    let out = Command::new(driver()).args(args).output().unwrap_or_else(|e| {
        eprintln!("cannot run the Lean driver {:?}: {e}", driver());
        std::process::exit(3)
    });
    if !out.status.success() {
        eprintln!("Lean driver failed: {}", String::from_utf8_lossy(&out.stderr));
        std::process::exit(3);
    }
    String::from_utf8_lossy(&out.stdout).lines().map(|s| s.to_string()).collect()
}

pub fn gen(_rng: &mut Rng, tier: Tier, out: &mut Vec<String>) {
    // the seed selects the stratified subset; it is passed through to the enumerator
    let seed = std::env::args().nth(2).unwrap_or_else(|| "1".into());
    let tier = if tier == Tier::Thorough { "thorough" } else { "quick" };
    out.extend(drv(&["emit", tier, &seed]));
}

fn unused_run(_t: &[&str]) -> String {
    unreachable!("c10 handles `run` itself (batch)")
}

/// One `cargo check`; returns for each source line the error codes reported there,
/// and the raw error lines that could not be attributed to a line of src/lib.rs.
fn cargo_check(dir: &Path, target: &Path) -> (BTreeMap<usize, BTreeSet<String>>, Vec<String>) {
    let out = Command::new("cargo")
        .args(["check", "--offline", "--quiet", "--message-format=short", "--target-dir"])
        .arg(target)
        .current_dir(dir)
        .env("CARGO_NET_OFFLINE", "true")
        .env_remove("RUSTFLAGS")
        .output()
        .unwrap_or_else(|e| {
            eprintln!("cannot run cargo: {e}");
            std::process::exit(3)
        });
    let text = String::from_utf8_lossy(&out.stderr).to_string() + &String::from_utf8_lossy(&out.stdout);
    let mut by_line: BTreeMap<usize, BTreeSet<String>> = BTreeMap::new();
    let mut stray = Vec::new();
    for l in text.lines() {
        // src/lib.rs:17:224: error[E0308]: mismatched types
        let Some(pos) = l.find(": error") else { continue };
        let (loc, rest) = l.split_at(pos);
        let rest = &rest[2..];
        let code = if rest.starts_with("error[") {
            rest[6..].split(']').next().unwrap_or("NOCODE").to_string()
        } else {
            "NOCODE".to_string()
        };
        let mut parts = loc.split(':');
        let file = parts.next().unwrap_or("");
        let line = parts.next().and_then(|s| s.parse::<usize>().ok());
        match line {
            Some(n) if file.ends_with("lib.rs") => {
                by_line.entry(n).or_default().insert(code);
            }
            _ => {
                if !l.contains("could not compile") && !l.contains("aborting due to") {
                    stray.push(l.to_string());
                }
            }
        }
    }
    if !out.status.success() && by_line.is_empty() {
        stray.push(format!("cargo check failed without a located error:\n{text}"));
    }
    (by_line, stray)
}

fn run_batch() {
    let cases: Vec<String> = io::stdin()
        .lock()
        .lines()
        .map(|l| l.unwrap().trim().to_string())
        .filter(|l| !l.is_empty() && !l.starts_with('#'))
        .collect();
    let stdout = io::stdout();
    let mut stdout = io::BufWriter::new(stdout.lock());
    if cases.is_empty() {
        return;
    }
    // bodies: last token of "prog <id> <verdict> <class> <expr> <body>"
    let bodies: Vec<Option<String>> = cases
        .iter()
        .map(|c| {
            let t: Vec<&str> = c.split_ascii_whitespace().collect();
            if t.len() >= 6 && t[0] == "prog" {
                Some(t[5].replace('~', " "))
            } else {
                None
            }
        })
        .collect();

    let prelude = drv(&["prelude"]);
    let (params, header): (Vec<&String>, Vec<&String>) = prelude.iter().partition(|l| l.starts_with("PARAMS "));
    let params = params.first().map(|l| l["PARAMS ".len()..].to_string()).unwrap_or_default();

    // one crate directory per process (two checks may run at the same time), one shared target
    // directory (so retrofire-core is compiled once; cargo's own lock serialises the builds)
    let base = corpus_dir();
    let dir = base.join(format!("run-{}", std::process::id()));
    let target = base.join("target");
    std::fs::create_dir_all(dir.join("src")).unwrap();
    let manifest = format!(
        "[package]\nname = \"corpus10\"\nversion = \"0.0.0\"\nedition = \"2021\"\n\n[workspace]\n\n[dependencies]\n\
         re = {{ path = \"{}/core\", package = \"retrofire-core\", features = [\"std\"] }}\n",
        repo()
    );
    std::fs::write(dir.join("Cargo.toml"), manifest).unwrap();
    let _ = std::fs::copy(Path::new(&repo()).join("Cargo.lock"), dir.join("Cargo.lock"));

    let mut errs: Vec<BTreeSet<String>> = vec![BTreeSet::new(); cases.len()];
    let mut active: Vec<usize> = (0..cases.len()).filter(|&i| bodies[i].is_some()).collect();
    let mut clean = false;
    for _round in 0..8 {
        let mut src = String::new();
        for h in &header {
            src.push_str(h);
            src.push('\n');
        }
        let first = header.len() + 1; // 1-based line of the first program
        for (k, &i) in active.iter().enumerate() {
            src.push_str(&format!("pub fn p{k}({params}) {{ {} }}\n", bodies[i].as_ref().unwrap()));
        }
        std::fs::write(dir.join("src/lib.rs"), &src).unwrap();
        let (by_line, stray) = cargo_check(&dir, &target);
        if !stray.is_empty() {
            eprintln!("c10: errors outside the generated programs (prelude / toolchain problem); crate left in {dir:?}:");
            for s in stray.iter().take(10) {
                eprintln!("  {s}");
            }
            std::process::exit(3);
        }
        if by_line.is_empty() {
            clean = true;
            break;
        }
        let mut bad = BTreeSet::new();
        for (line, codes) in by_line {
            if line < first || line >= first + active.len() {
                eprintln!("c10: error at line {line} outside the generated programs: {codes:?}");
                std::process::exit(3);
            }
            let i = active[line - first];
            errs[i].extend(codes);
            bad.insert(i);
        }
        active.retain(|i| !bad.contains(i));
        if active.is_empty() {
            clean = true;
            break;
        }
    }
    if !clean {
        eprintln!("c10: no error-free pass after 8 rounds");
        std::process::exit(3);
    }
    for (i, c) in cases.iter().enumerate() {
        let res = if bodies[i].is_none() {
            "malformed".to_string()
        } else if errs[i].is_empty() {
            "ok".to_string()
        } else {
            format!("err {}", errs[i].iter().cloned().collect::<Vec<_>>().join(" "))
        };
        writeln!(stdout, "{c} => {res}").unwrap();
    }
    let _ = std::fs::remove_dir_all(&dir);
}

fn main() {
    if std::env::args().nth(1).as_deref() == Some("run") {
        run_batch();
    } else {
        vharness::harness_main(gen, unused_run);
    }
}
