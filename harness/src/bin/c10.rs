//! C10: mixing spaces, bases or units is a compile-time error.
//!
//! Inverted direction: the Lean model *generates* the programs (`drv_c10 emit <tier> <seed>`,
//! one per line: `prog <id> <model-verdict> <class> <expr> <body with '~' for spaces>`) and the
//! implementation that judges them is rustc type-checking against the crate in $VERIF_REPO/core.
//!
//!   c10 gen <seed> <tier>   -> the program lines of the Lean driver
//!   c10 run                 -> writes every program read from stdin as `pub fn pK(PARAMS) { body }`
//!                              (one per line) into ONE package (a few crates side by side, so that cargo
//!                              works in parallel), runs `cargo check` and `cargo build` there, maps each
//!                              error back to its function by line number and prints
//!                              `<case> => ok` or `<case> => err E0308 E0277 …`
//!
//! `ok` is only reported for programs that are part of a final, completely error-free
//! `cargo check` pass AND a final error-free `cargo build` of the same crate (erroneous functions are
//! removed and the rest is compiled again), so an error in one function can never hide the verdict on
//! another, and rejections that only happen at monomorphisation (`const { assert!(..) }`, E0080) count.
use std::collections::{BTreeMap, BTreeSet};
use std::io::{self, BufRead, Write};
use std::path::{Path, PathBuf};
use std::process::Command;

use vharness::util::*;

fn driver() -> PathBuf {
    if let Ok(p) = std::env::var("VERIF_DRV_C10") {
        return PathBuf::from(p);
    }
    Path::new(env!("CARGO_MANIFEST_DIR")).join("../lean/.lake/build/bin/drv_c10")
}

fn repo() -> String {
    std::env::var("VERIF_REPO").unwrap_or_else(|_| "/repo".into())
}

fn corpus_dir() -> PathBuf {
    match std::env::var("VERIF_SCRATCH") {
        Ok(s) if !s.is_empty() => Path::new(&s).join("corpus10"),
        _ => Path::new(env!("CARGO_MANIFEST_DIR")).join("target/corpus10"),
    }
}

fn drv(args: &[&str]) -> Vec<String> {
    let out = Command::new(driver()).args(args).output().unwrap_or_else(|e| {
        eprintln!("cannot run the Lean driver {:?}: {e}", driver());
        std::process::exit(3)
    });
    if !out.status.success() {
        eprintln!("Lean driver failed: {}", String::from_utf8_lossy(&out.stderr));
        std::process::exit(3);
    }
    String::from_utf8_lossy(&out.stdout).lines().map(|s| s.to_string()).collect()
}

pub fn gen(_rng: &mut Rng, tier: Tier, out: &mut Vec<String>) {
    // the seed selects the stratified subset; it is passed through to the enumerator
    let seed = std::env::args().nth(2).unwrap_or_else(|| "1".into());
    let tier = if tier == Tier::Thorough { "thorough" } else { "quick" };
    out.extend(drv(&["emit", tier, &seed]));
    // liveness: `run` answers with the API entries that occur in at least one program rustc accepted
    out.push("live".to_string());
}

fn unused_run(_t: &[&str]) -> String {
    unreachable!("c10 handles `run` itself (batch)")
}

/// One `cargo check` (type checking) or `cargo build` (monomorphisation: evaluates the crate's
/// `const { assert!(..) }` guards); returns for each source line of src/lib.rs the error codes reported
/// there, and the raw error lines that could not be attributed to a line of src/lib.rs.
///
/// A post-monomorphisation error is located in the crate under test, followed by
/// `src/lib.rs:L:C: note: the above error was encountered while instantiating …`: it is attributed to L.
/// (rustc reports each failing instantiation once, at its first use; the caller removes the functions
/// found and repeats until a pass is clean, so later uses are found in later rounds.)
fn cargo(args: &[&str], dir: &Path, target: &Path) -> CargoOut {
    let t0 = std::time::Instant::now();
    let out = Command::new("cargo")
        .args(args)
        .args(["--offline", "--quiet", "--message-format=short", "--target-dir"])
        .arg(target)
        .current_dir(dir)
        .env("CARGO_NET_OFFLINE", "true")
        .env_remove("RUSTFLAGS")
        .output()
        .unwrap_or_else(|e| {
            eprintln!("cannot run cargo: {e}");
            std::process::exit(3)
        });
    if std::env::var("C10_TIMING").is_ok() {
        eprintln!("c10: cargo {args:?}: {:.1}s", t0.elapsed().as_secs_f32());
    }
    let text = String::from_utf8_lossy(&out.stderr).to_string() + &String::from_utf8_lossy(&out.stdout);
    let mut res = CargoOut::default();
    // an error located outside the generated sources, waiting for its "while instantiating" note
    let mut pending: Option<String> = None;
    let mut last_code = String::from("NOCODE");
    // the generated crate's files are printed relative to its directory, dependencies absolute
    let loc_of = |loc: &str| -> Option<(String, usize)> {
        let mut parts = loc.split(':');
        let file = parts.next().unwrap_or("");
        let line = parts.next().and_then(|s| s.parse::<usize>().ok());
        if file.starts_with("src/") { line.map(|n| (file.to_string(), n)) } else { None }
    };
    const NOTE: &str = ": note: the above error was encountered while instantiating";
    for l in text.lines() {
        if let Some(pos) = l.find(NOTE) {
            if let Some((file, n)) = loc_of(&l[..pos]) {
                res.located.push((file, n, last_code.clone()));
                pending = None;
                // `fn retrofire_core::math::Matrix::<…>::transpose` -> "transpose"
                let name = l[pos + NOTE.len()..].trim().trim_matches('`');
                let name = name.rsplit("::").next().unwrap_or("").trim_matches(|c: char| !c.is_alphanumeric() && c != '_');
                if !name.is_empty() {
                    res.entries.insert(name.to_string());
                }
            }
            continue;
        }
        // src/lib.rs:17:224: error[E0308]: mismatched types
        let Some(pos) = l.find(": error") else { continue };
        let (loc, rest) = l.split_at(pos);
        let rest = &rest[2..];
        let code = if rest.starts_with("error[") {
            rest[6..].split(']').next().unwrap_or("NOCODE").to_string()
        } else {
            "NOCODE".to_string()
        };
        if let Some(raw) = pending.take() {
            res.stray.push(raw);
        }
        last_code = code.clone();
        match loc_of(loc) {
            Some((file, n)) => res.located.push((file, n, code)),
            None => {
                if !l.contains("could not compile") && !l.contains("aborting due to") {
                    pending = Some(l.to_string());
                }
            }
        }
    }
    if let Some(raw) = pending.take() {
        res.stray.push(raw);
    }
    if !out.status.success() && res.located.is_empty() && res.stray.is_empty() {
        res.stray.push(format!("cargo {args:?} failed without a located error:\n{text}"));
    }
    res
}

#[derive(Default)]
struct CargoOut {
    /// (file relative to the generated crate, line, error code)
    located: Vec<(String, usize, String)>,
    /// names of the functions whose instantiation failed (post-monomorphisation errors)
    entries: BTreeSet<String>,
    /// error lines that could not be attributed to a generated source line
    stray: Vec<String>,
}

fn fatal(what: &str, dir: &Path, lines: &[String]) -> ! {
    eprintln!("c10: {what}; crate left in {dir:?}:");
    for s in lines.iter().take(10) {
        eprintln!("  {s}");
    }
    std::process::exit(3)
}

/// Does `body` call a function or method called `name`?
fn calls(body: &str, name: &str) -> bool {
    let pat = format!("{name}(");
    let mut from = 0;
    while let Some(p) = body[from..].find(&pat) {
        let at = from + p;
        let before = body[..at].chars().last();
        if !before.map_or(false, |c| c.is_alphanumeric() || c == '_') {
            return true;
        }
        from = at + 1;
    }
    false
}

fn run_batch() {
    let cases: Vec<String> = io::stdin()
        .lock()
        .lines()
        .map(|l| l.unwrap().trim().to_string())
        .filter(|l| !l.is_empty() && !l.starts_with('#'))
        .collect();
    let stdout = io::stdout();
    let mut stdout = io::BufWriter::new(stdout.lock());
    if cases.is_empty() {
        return;
    }
    // bodies: last token of "prog <id> <verdict> <class> <expr> <body>"
    let bodies: Vec<Option<String>> = cases
        .iter()
        .map(|c| {
            let t: Vec<&str> = c.split_ascii_whitespace().collect();
            if t.len() >= 6 && t[0] == "prog" {
                Some(t[5].replace('~', " "))
            } else {
                None
            }
        })
        .collect();

    let prelude = drv(&["prelude"]);
    let (params, header): (Vec<&String>, Vec<&String>) = prelude.iter().partition(|l| l.starts_with("PARAMS "));
    let params = params.first().map(|l| l["PARAMS ".len()..].to_string()).unwrap_or_default();

    // one crate directory per process (two checks may run at the same time), one shared target
    // directory (so retrofire-core is compiled once; cargo's own lock serialises the builds)
    let base = corpus_dir();
    let dir = base.join(format!("run-{}", std::process::id()));
    let target = base.join("target");
    std::fs::create_dir_all(dir.join("src")).unwrap();
    let manifest = format!(
        "[package]\nname = \"corpus10\"\nversion = \"0.0.0\"\nedition = \"2021\"\n\n[workspace]\n\n[dependencies]\n\
         re = {{ path = \"{}/core\", package = \"retrofire-core\", features = [\"std\"] }}\n\n\
         [profile.dev]\nopt-level = 0\ndebug = 0\nincremental = false\ncodegen-units = 16\n",
        repo()
    );
    std::fs::write(dir.join("Cargo.toml"), manifest).unwrap();
    let _ = std::fs::copy(Path::new(&repo()).join("Cargo.lock"), dir.join("Cargo.lock"));

    // every distinct body is compiled once (the corpus and the enumeration overlap)
    let mut rep_of: BTreeMap<&str, usize> = BTreeMap::new();
    let mut rep: Vec<usize> = (0..cases.len()).collect();
    for i in 0..cases.len() {
        if let Some(b) = &bodies[i] {
            rep[i] = *rep_of.entry(b.as_str()).or_insert(i);
        }
    }
    let mut errs: Vec<BTreeSet<String>> = vec![BTreeSet::new(); cases.len()];
    let mut active: Vec<usize> = (0..cases.len()).filter(|&i| bodies[i].is_some() && rep[i] == i).collect();
    let write_lib = |active: &[usize]| -> usize {
        let mut src = String::new();
        for h in &header {
            src.push_str(h);
            src.push('\n');
        }
        for (k, &i) in active.iter().enumerate() {
            src.push_str(&format!("pub fn p{k}({params}) {{ {} }}\n", bodies[i].as_ref().unwrap()));
        }
        std::fs::write(dir.join("src/lib.rs"), &src).unwrap();
        header.len() + 1 // 1-based line of the first program
    };
    // Attribute the located errors of one pass over src/lib.rs to programs; returns the failing ones.
    let attribute = |out: &CargoOut, active: &[usize], first: usize, errs: &mut Vec<BTreeSet<String>>, what: &str| {
        if !out.stray.is_empty() {
            fatal(&format!("{what}: errors outside the generated programs (prelude / toolchain problem)"), &dir, &out.stray);
        }
        let mut bad = BTreeSet::new();
        for (file, line, code) in &out.located {
            if file != "src/lib.rs" || *line < first || *line >= first + active.len() {
                fatal(&format!("{what}: error outside the generated programs"), &dir, &[format!("{file}:{line}: {code}")]);
            }
            let i = active[line - first];
            errs[i].insert(code.clone());
            bad.insert(i);
        }
        bad
    };

    // phase 1: type checking, until a pass is clean.  The programs are spread over several binary crates
    // (src/bin/cJ.rs, each: prelude + its share of the functions + an empty main) that cargo checks in
    // parallel; every function is on its own line.
    let mut clean = false;
    for _round in 0..8 {
        if active.is_empty() {
            clean = true;
            break;
        }
        write_lib(&[]);
        let _ = std::fs::remove_dir_all(dir.join("src/bin"));
        std::fs::create_dir_all(dir.join("src/bin")).unwrap();
        let nchunks = ((active.len() + 699) / 700).clamp(1, 256);
        let per = (active.len() + nchunks - 1) / nchunks;
        let chunks: Vec<&[usize]> = active.chunks(per).collect();
        for (j, ch) in chunks.iter().enumerate() {
            let mut src = String::new();
            for h in &header {
                src.push_str(h);
                src.push('\n');
            }
            for (k, &i) in ch.iter().enumerate() {
                src.push_str(&format!("pub fn p{k}({params}) {{ {} }}\n", bodies[i].as_ref().unwrap()));
            }
            src.push_str("fn main() {}\n");
            std::fs::write(dir.join(format!("src/bin/c{j}.rs")), src).unwrap();
        }
        let out = cargo(&["check", "--bins", "--keep-going"], &dir, &target);
        if !out.stray.is_empty() {
            fatal("cargo check: errors outside the generated programs (prelude / toolchain problem)", &dir, &out.stray);
        }
        let first = header.len() + 1;
        let mut bad = BTreeSet::new();
        for (file, line, code) in &out.located {
            let j = file
                .strip_prefix("src/bin/c")
                .and_then(|f| f.strip_suffix(".rs"))
                .and_then(|f| f.parse::<usize>().ok());
            match j {
                Some(j) if j < chunks.len() && *line >= first && *line < first + chunks[j].len() => {
                    let i = chunks[j][line - first];
                    errs[i].insert(code.clone());
                    bad.insert(i);
                }
                _ => fatal("cargo check: error outside the generated programs", &dir, &[format!("{file}:{line}: {code}")]),
            }
        }
        if bad.is_empty() {
            clean = true;
            break;
        }
        active.retain(|i| !bad.contains(i));
    }
    let _ = std::fs::remove_dir_all(dir.join("src/bin"));
    if !clean {
        fatal("cargo check: no error-free pass after 8 rounds", &dir, &[]);
    }

    // phase 2: a real build of what type-checks, so that the crate's post-monomorphisation
    // `const { assert!(..) }` guards are evaluated as well.  rustc reports a failing instantiation only
    // at its first use in a crate, so every program that calls a function whose instantiation failed is
    // set aside and compiled as a crate of its own (src/bin/qK.rs) in phase 3.
    let mut quarantine: Vec<usize> = Vec::new();
    let mut clean = false;
    for _round in 0..8 {
        if active.is_empty() {
            clean = true;
            break;
        }
        let first = write_lib(&active);
        let out = cargo(&["build", "--lib"], &dir, &target);
        let mut bad = attribute(&out, &active, first, &mut errs, "cargo build");
        if bad.is_empty() {
            clean = true;
            break;
        }
        for &i in &active {
            if out.entries.iter().any(|n| calls(bodies[i].as_ref().unwrap(), n)) {
                bad.insert(i);
            }
        }
        for &i in &bad {
            errs[i].clear(); // judged in phase 3
            quarantine.push(i);
        }
        active.retain(|i| !bad.contains(i));
    }
    if !clean {
        fatal("cargo build: no error-free pass after 8 rounds", &dir, &[]);
    }

    // phase 3: every quarantined program as its own binary crate
    if !quarantine.is_empty() {
        write_lib(&[]);
        std::fs::create_dir_all(dir.join("src/bin")).unwrap();
        for (k, &i) in quarantine.iter().enumerate() {
            let mut src = String::new();
            for h in &header {
                src.push_str(h);
                src.push('\n');
            }
            src.push_str(&format!("pub fn p({params}) {{ {} }}\n", bodies[i].as_ref().unwrap()));
            src.push_str("fn main() { std::hint::black_box(p as usize); }\n");
            std::fs::write(dir.join(format!("src/bin/q{k}.rs")), src).unwrap();
        }
        let out = cargo(&["build", "--bins", "--keep-going"], &dir, &target);
        if !out.stray.is_empty() {
            fatal("cargo build --bins: unattributed errors", &dir, &out.stray);
        }
        for (file, line, code) in &out.located {
            let k = file
                .strip_prefix("src/bin/q")
                .and_then(|f| f.strip_suffix(".rs"))
                .and_then(|f| f.parse::<usize>().ok());
            match k {
                Some(k) if k < quarantine.len() && *line == header.len() + 1 => {
                    errs[quarantine[k]].insert(code.clone());
                }
                _ => fatal("cargo build --bins: error outside the generated programs", &dir, &[format!("{file}:{line}: {code}")]),
            }
        }
        // the survivors must build cleanly together with nothing failing around them
        let ok: Vec<usize> = quarantine.iter().copied().filter(|&i| errs[i].is_empty()).collect();
        let _ = std::fs::remove_dir_all(dir.join("src/bin"));
        if !ok.is_empty() {
            let first = write_lib(&ok);
            let out = cargo(&["build", "--lib"], &dir, &target);
            let bad = attribute(&out, &ok, first, &mut errs, "cargo build (quarantine survivors)");
            if !bad.is_empty() {
                fatal("cargo build: a program built alone but not with the others", &dir, &[]);
            }
        }
    }
    for i in 0..cases.len() {
        if rep[i] != i {
            errs[i] = errs[rep[i]].clone();
        }
    }
    // API entries (tokens of the prefix-coded expression, `to:<tag>` as `to`) of the accepted programs
    let mut live: BTreeSet<String> = BTreeSet::new();
    for (i, c) in cases.iter().enumerate() {
        if bodies[i].is_some() && errs[i].is_empty() {
            if let Some(sx) = c.split_ascii_whitespace().nth(4) {
                for t in sx.split(',') {
                    let t = t.split(':').next().unwrap_or("");
                    let is_var = t.starts_with('v') && t.len() > 1 && t[1..].chars().all(|ch| ch.is_ascii_digit());
                    if !t.is_empty() && !is_var {
                        live.insert(t.to_string());
                    }
                }
            }
        }
    }
    for (i, c) in cases.iter().enumerate() {
        let res = if c == "live" {
            live.iter().cloned().collect::<Vec<_>>().join(" ")
        } else if bodies[i].is_none() {
            "malformed".to_string()
        } else if errs[i].is_empty() {
            "ok".to_string()
        } else {
            format!("err {}", errs[i].iter().cloned().collect::<Vec<_>>().join(" "))
        };
        writeln!(stdout, "{c} => {res}").unwrap();
    }
    let _ = std::fs::remove_dir_all(&dir);
}

fn main() {
    if std::env::args().nth(1).as_deref() == Some("run") {
        run_batch();
    } else {
        vharness::harness_main(gen, unused_run);
    }
}
