//! C11: Buf2 / Slice2 / MutSlice2 as windows onto a plain 2D array.
//!
//! One case = one *history*: a constructor followed by a sequence of operations, with
//! arbitrarily nested `sub … end` (slice_mut), `isub … end` (slice), `asm`/`asr`
//! (as_mut_slice2 / as_slice2) blocks. Every operation prints exactly one token; the first
//! panic ends the history (`panic:<class>`); the last token is always the root storage
//! (`data:v,v,…`), read after the views are gone.
//!
//!   seq new W H | newfrom W H N | newwith W H | ms W H S N | is W H S N   <op>…
//!   op  := get X Y | idx X Y | set X Y V | gset X Y V | row I | rset I J V | rows | iter
//!        | rowsm V | iterm V | fill V | fillw V | copys W H S N | copyb W H | dims
//!        | copybv W H | copym W H S N l t r b | dbg | dmut I V   (dmut: Buf2::data_mut(), owned root only)
//!        | sub RECT op… end | isub RECT op… end | asm op… end | asr op… end   (wrapper's AsMutSlice2 / AsSlice2 impl)
//!        | asmi op… end | asri op… end                                          (inherent Inner::as_mut_slice2 / as_slice2)
//!   RECT := A | P l t r b | T hk ha hb vk va vb      (k in F R RI FR TO TOI XE XI XU)
//!   unit ctor W H S N | unit new W H | unit newfrom W H N | unit slice W H RECT | unit row W H I | unit get W H X Y
//!    (zero-sized elements, huge dims)
use std::ops::{Bound, Deref, DerefMut, RangeBounds};
use std::panic::{catch_unwind, AssertUnwindSafe};

use re::math::vec2;
use re::util::buf::{inner::Inner, AsMutSlice2, AsSlice2, Buf2, MutSlice2, Slice2};
use re::util::rect::Rect;

use vharness::util::*;

// ---------------------------------------------------------------------------------------------
// running
// ---------------------------------------------------------------------------------------------

struct Cur<'a> {
    t: &'a [&'a str],
    p: usize,
}
impl<'a> Cur<'a> {
    fn more(&self) -> bool {
        self.p < self.t.len()
    }
    fn tok(&mut self) -> &'a str {
        let s = self.t.get(self.p).copied().unwrap_or_else(|| panic!("harness: case line ended early"));
        self.p += 1;
        s
    }
    fn u32(&mut self) -> u32 {
        self.tok().parse().unwrap_or_else(|_| panic!("harness: bad u32"))
    }
    fn usize(&mut self) -> usize {
        self.tok().parse().unwrap_or_else(|_| panic!("harness: bad usize"))
    }
}

fn class(msg: &str) -> String {
    const TBL: &[(&str, &str)] = &[
        ("harness:", "harness"),
        ("dimension mismatch", "dims-mismatch"),
        ("insufficient items", "insufficient-items"),
        ("w * h cannot exceed", "isize-overflow"),
        ("range left", "rect-left-gt-right"),
        ("range top", "rect-top-gt-bottom"),
        ("range right", "rect-right-gt-width"),
        ("range bottom", "rect-bottom-gt-height"),
        ("required size", "size-gt-len"),
        ("width (", "width-gt-stride"),
        ("stride (", "stride-gt-len"),
        ("height (", "height-gt-len"),
        ("position (x=", "position-oob"),
        ("range end index", "slice-end"),
        ("range start index", "slice-start"),
        ("slice index starts at", "slice-order"),
        ("index out of bounds", "index-oob"),
        ("attempt to multiply with overflow", "mul-overflow"),
        ("attempt to add with overflow", "add-overflow"),
        ("attempt to subtract with overflow", "sub-overflow"),
    ];
    // Only WHETHER an operation panics is compared with the model, never the wording of the message (the
    // table above is kept for the tags of a replay). A harness-internal panic stays visible.
    if msg.contains("harness:") {
        return "harness".to_string();
    }
    let _ = TBL;
    "any".to_string()
}

fn panic_msg(e: Box<dyn std::any::Any + Send>) -> String {
    e.downcast_ref::<String>()
        .cloned()
        .or_else(|| e.downcast_ref::<&str>().map(|s| s.to_string()))
        .unwrap_or_default()
}

fn join(v: &[u32]) -> String {
    v.iter().map(|x| x.to_string()).collect::<Vec<_>>().join(",")
}

fn range_v<H: RangeBounds<u32>>(h: H, k: &str, a: u32, b: u32) -> Rect {
    match k {
        "F" => (h, ..).into(),
        "R" => (h, a..b).into(),
        "RI" => (h, a..=b).into(),
        "FR" => (h, a..).into(),
        "TO" => (h, ..b).into(),
        "TOI" => (h, ..=b).into(),
        "XE" => (h, (Bound::Excluded(a), Bound::Excluded(b))).into(),
        "XI" => (h, (Bound::Excluded(a), Bound::Included(b))).into(),
        "XU" => (h, (Bound::Excluded(a), Bound::Unbounded)).into(),
        _ => panic!("harness: bad range kind"),
    }
}

fn rect(c: &mut Cur) -> Rect {
    match c.tok() {
        "A" => (..).into(),
        "P" => {
            let (l, t, r, b) = (c.u32(), c.u32(), c.u32(), c.u32());
            (vec2(l, t)..vec2(r, b)).into()
        }
        "T" => {
            let (hk, ha, hb) = (c.tok(), c.u32(), c.u32());
            let (vk, va, vb) = (c.tok(), c.u32(), c.u32());
            match hk {
                "F" => range_v(.., vk, va, vb),
                "R" => range_v(ha..hb, vk, va, vb),
                "RI" => range_v(ha..=hb, vk, va, vb),
                "FR" => range_v(ha.., vk, va, vb),
                "TO" => range_v(..hb, vk, va, vb),
                "TOI" => range_v(..=hb, vk, va, vb),
                "XE" => range_v((Bound::Excluded(ha), Bound::Excluded(hb)), vk, va, vb),
                "XI" => range_v((Bound::Excluded(ha), Bound::Included(hb)), vk, va, vb),
                "XU" => range_v((Bound::Excluded(ha), Bound::Unbounded), vk, va, vb),
                _ => panic!("harness: bad range kind"),
            }
        }
        _ => panic!("harness: bad rect form"),
    }
}

/// The three public wrapper types. The interpreter keeps the wrapper (not just the `Inner` it derefs
/// to) so that the `AsSlice2` / `AsMutSlice2` trait impls of each wrapper - the front doors
/// `write_ppm`, `copy_from(impl AsSlice2)` etc. go through - are called as such.
trait RoView {
    type D: Deref<Target = [u32]>;
    fn inner(&self) -> &Inner<u32, Self::D>;
    /// `<Wrapper as AsSlice2>::as_slice2`
    fn tr_as_slice2(&self) -> Slice2<'_, u32>;
    /// `format!("{:?}", wrapper)`
    fn dbg(&self) -> String;
}
trait RwView: RoView
where
    Self::D: DerefMut<Target = [u32]>,
{
    fn inner_mut(&mut self) -> &mut Inner<u32, Self::D>;
    /// `<Wrapper as AsMutSlice2>::as_mut_slice2`
    fn tr_as_mut_slice2(&mut self) -> MutSlice2<'_, u32>;
    /// `Buf2::data_mut()`; the borrowed views have no public access to their backing slice
    fn tr_data_mut(&mut self) -> Option<&mut [u32]> {
        None
    }
}
impl RoView for Buf2<u32> {
    type D = Vec<u32>;
    fn inner(&self) -> &Inner<u32, Vec<u32>> {
        self
    }
    fn tr_as_slice2(&self) -> Slice2<'_, u32> {
        <Buf2<u32> as AsSlice2<u32>>::as_slice2(self)
    }
    fn dbg(&self) -> String {
        format!("{self:?}")
    }
}
impl RwView for Buf2<u32> {
    fn inner_mut(&mut self) -> &mut Inner<u32, Vec<u32>> {
        self
    }
    fn tr_as_mut_slice2(&mut self) -> MutSlice2<'_, u32> {
        <Buf2<u32> as AsMutSlice2<u32>>::as_mut_slice2(self)
    }
    fn tr_data_mut(&mut self) -> Option<&mut [u32]> {
        Some(self.data_mut())
    }
}
impl<'a> RoView for Slice2<'a, u32> {
    type D = &'a [u32];
    fn inner(&self) -> &Inner<u32, &'a [u32]> {
        self
    }
    fn tr_as_slice2(&self) -> Slice2<'_, u32> {
        <Slice2<'a, u32> as AsSlice2<u32>>::as_slice2(self)
    }
    fn dbg(&self) -> String {
        format!("{self:?}")
    }
}
impl<'a> RoView for MutSlice2<'a, u32> {
    type D = &'a mut [u32];
    fn inner(&self) -> &Inner<u32, &'a mut [u32]> {
        self
    }
    fn tr_as_slice2(&self) -> Slice2<'_, u32> {
        <MutSlice2<'a, u32> as AsSlice2<u32>>::as_slice2(self)
    }
    fn dbg(&self) -> String {
        format!("{self:?}")
    }
}
impl<'a> RwView for MutSlice2<'a, u32> {
    fn inner_mut(&mut self) -> &mut Inner<u32, &'a mut [u32]> {
        self
    }
    fn tr_as_mut_slice2(&mut self) -> MutSlice2<'_, u32> {
        <MutSlice2<'a, u32> as AsMutSlice2<u32>>::as_mut_slice2(self)
    }
}

/// Operations available on every view. Returns false if `op` is not a read operation.
fn read_op<W: RoView>(wv: &W, op: &str, c: &mut Cur, out: &mut Vec<String>) -> bool {
    let v = wv.inner();
    match op {
        "get" => {
            let (x, y) = (c.u32(), c.u32());
            out.push(match v.get([x, y]) {
                Some(a) => format!("some:{a}"),
                None => "none".into(),
            });
        }
        "idx" => {
            let (x, y) = (c.u32(), c.u32());
            out.push(format!("{}", v[[x, y]]));
        }
        "row" => {
            let i = c.usize();
            out.push(format!("r:{}", join(&v[i])));
        }
        "rows" => {
            let rows: Vec<String> = v.rows().map(join).collect();
            out.push(format!("rows:{}={}", rows.len(), rows.join("/")));
        }
        "iter" => {
            let it: Vec<u32> = v.iter().copied().collect();
            out.push(format!("it:{}", join(&it)));
        }
        "dims" => {
            let (w, h) = v.dims();
            assert!(w == v.width() && h == v.height(), "harness: dims() disagrees with width()/height()");
            out.push(format!("d:{},{},{},{},{}", w, h, v.stride(), v.is_contiguous() as u8, v.is_empty() as u8));
        }
        "dbg" => {
            // Debug must not panic and must show the dimensions and the stride; then as `dims`
            let text = wv.dbg();
            let (w, h) = v.dims();
            let named = ["Buf2", "Slice2", "Slice2Mut"].iter().any(|n| text.starts_with(&format!("{n} {{")));
            assert!(
                named && text.contains(&format!("dims: ({w}, {h})")) && text.contains(&format!("stride: {}", v.stride())),
                "harness: Debug output {text:?} lacks name/dims/stride"
            );
            out.push(format!("d:{},{},{},{},{}", w, h, v.stride(), v.is_contiguous() as u8, v.is_empty() as u8));
        }
        "isub" => {
            let r = rect(c);
            let child = v.slice(r);
            out.push("[".into());
            run_ro(&child, c, out);
            out.push("]".into());
        }
        "asr" => {
            // through the wrapper's `AsSlice2` impl
            let child = wv.tr_as_slice2();
            out.push("[".into());
            run_ro(&child, c, out);
            out.push("]".into());
        }
        "asri" => {
            // the inherent `Inner::as_slice2`
            let child = v.as_slice2();
            out.push("[".into());
            run_ro(&child, c, out);
            out.push("]".into());
        }
        _ => return false,
    }
    true
}

fn run_ro<W: RoView>(v: &W, c: &mut Cur, out: &mut Vec<String>) {
    while c.more() {
        let op = c.tok();
        if op == "end" {
            return;
        }
        if !read_op(v, op, c, out) {
            panic!("harness: op {op} on a read-only view");
        }
    }
}

fn run_rw<W: RwView>(wv: &mut W, c: &mut Cur, out: &mut Vec<String>)
where
    W::D: DerefMut<Target = [u32]>,
{
    while c.more() {
        let op = c.tok();
        if op == "end" {
            return;
        }
        if read_op(&*wv, op, c, out) {
            continue;
        }
        let v = wv.inner_mut();
        match op {
            "set" => {
                let (x, y, a) = (c.u32(), c.u32(), c.u32());
                v[[x, y]] = a;
                out.push("ok".into());
            }
            "dmut" => {
                // Buf2::data_mut()[i] = a (owned root only)
                let (i, a) = (c.usize(), c.u32());
                let data = wv.tr_data_mut().unwrap_or_else(|| panic!("harness: dmut on a borrowed view"));
                data[i] = a;
                out.push("ok".into());
            }
            "gset" => {
                let (x, y, a) = (c.u32(), c.u32(), c.u32());
                out.push(match v.get_mut([x, y]) {
                    Some(p) => {
                        *p = a;
                        "some".into()
                    }
                    None => "none".into(),
                });
            }
            "rset" => {
                let (i, j, a) = (c.usize(), c.usize(), c.u32());
                v[i][j] = a;
                out.push("ok".into());
            }
            "rowsm" => {
                let a = c.u32();
                let mut k = 0u32;
                let mut lens = vec![];
                for row in v.rows_mut() {
                    lens.push(row.len() as u32);
                    for e in row {
                        *e = a.wrapping_add(k);
                        k += 1;
                    }
                }
                out.push(format!("rl:{}", join(&lens)));
            }
            "iterm" => {
                let a = c.u32();
                let mut k = 0u32;
                for e in v.iter_mut() {
                    *e = a.wrapping_add(k);
                    k += 1;
                }
                out.push(format!("n:{k}"));
            }
            "fill" => {
                let a = c.u32();
                v.fill(a);
                out.push("ok".into());
            }
            "fillw" => {
                let a = c.u32();
                v.fill_with(|x, y| a.wrapping_add(y.wrapping_mul(1000)).wrapping_add(x));
                out.push("ok".into());
            }
            "copys" => {
                let (w, h, s, n) = (c.u32(), c.u32(), c.u32(), c.u32());
                let src: Vec<u32> = (5000..5000 + n).collect();
                let src = Slice2::new((w, h), s, &src);
                v.copy_from(src);
                out.push("ok".into());
            }
            "copyb" => {
                // `impl AsSlice2 for &Buf2`
                let (w, h) = (c.u32(), c.u32());
                let src = Buf2::new_with((w, h), |x, y| 7000 + 100 * y + x);
                v.copy_from(&src);
                out.push("ok".into());
            }
            "copybv" => {
                // `impl AsSlice2 for Buf2` (by value)
                let (w, h) = (c.u32(), c.u32());
                let src = Buf2::new_with((w, h), |x, y| 7000 + 100 * y + x);
                v.copy_from(src);
                out.push("ok".into());
            }
            "copym" => {
                // `impl AsSlice2 for MutSlice2`: a (strided) mutable sub-view as the source
                let (w, h, s, n) = (c.u32(), c.u32(), c.u32(), c.u32());
                let (l, t, r, b) = (c.u32(), c.u32(), c.u32(), c.u32());
                let mut src: Vec<u32> = (5000..5000 + n).collect();
                let mut root = MutSlice2::new((w, h), s, &mut src);
                let sub = root.slice_mut((l..r, t..b));
                v.copy_from(sub);
                out.push("ok".into());
            }
            "sub" => {
                let r = rect(c);
                let mut child: MutSlice2<u32> = v.slice_mut(r);
                out.push("[".into());
                run_rw(&mut child, c, out);
                out.push("]".into());
            }
            "asm" => {
                // through the wrapper's `AsMutSlice2` impl
                let mut child: MutSlice2<u32> = wv.tr_as_mut_slice2();
                out.push("[".into());
                run_rw(&mut child, c, out);
                out.push("]".into());
            }
            "asmi" => {
                // the inherent `Inner::as_mut_slice2`
                let mut child: MutSlice2<u32> = v.as_mut_slice2();
                out.push("[".into());
                run_rw(&mut child, c, out);
                out.push("]".into());
            }
            _ => panic!("harness: unknown op {op}"),
        }
    }
}

fn run_seq(t: &[&str]) -> String {
    let mut c = Cur { t, p: 0 };
    let mut out: Vec<String> = vec![];
    let ctor = c.tok();
    // storage that outlives the views
    let mut vec_root: Vec<u32> = vec![];
    let mut buf_root: Option<Buf2<u32>> = None;
    let is_buf = matches!(ctor, "new" | "newfrom" | "newwith");
    let res = catch_unwind(AssertUnwindSafe(|| match ctor {
        "new" => {
            let (w, h) = (c.u32(), c.u32());
            let b = buf_root.insert(Buf2::<u32>::new((w, h)));
            out.push("ok".into());
            run_rw(b, &mut c, &mut out);
        }
        "newfrom" => {
            let (w, h, n) = (c.u32(), c.u32(), c.u32());
            let b = buf_root.insert(Buf2::<u32>::new_from((w, h), 1000..1000 + n));
            out.push("ok".into());
            run_rw(b, &mut c, &mut out);
        }
        "newwith" => {
            let (w, h) = (c.u32(), c.u32());
            // the init function is only ever asked for cells of the buffer (one that reads another buffer of the
            // same size would panic otherwise)
            let b = buf_root.insert(Buf2::<u32>::new_with((w, h), |x, y| {
                assert!(x < w && y < h, "init function called for ({x},{y}), outside the {w}x{h} buffer");
                100 * y + x + 1
            }));
            out.push("ok".into());
            run_rw(b, &mut c, &mut out);
        }
        "ms" => {
            let (w, h, s, n) = (c.u32(), c.u32(), c.u32(), c.u32());
            vec_root = (1000..1000 + n).collect();
            let mut v = MutSlice2::new((w, h), s, &mut vec_root);
            out.push("ok".into());
            run_rw(&mut v, &mut c, &mut out);
        }
        "is" => {
            let (w, h, s, n) = (c.u32(), c.u32(), c.u32(), c.u32());
            vec_root = (1000..1000 + n).collect();
            let v = Slice2::new((w, h), s, &vec_root);
            out.push("ok".into());
            run_ro(&v, &mut c, &mut out);
        }
        _ => panic!("harness: unknown constructor"),
    }));
    if let Err(e) = res {
        out.push(format!("panic:{}", class(&panic_msg(e))));
    }
    let data = if is_buf {
        match &buf_root {
            Some(b) => join(b.data()),
            None => "-".into(),
        }
    } else {
        join(&vec_root)
    };
    out.push(format!("data:{data}"));
    out.join(" ")
}

/// Zero-sized elements: dimensions near 2^32 cost nothing, so the u32 arithmetic of the
/// index computations and the `usize as u32` truncation of row indexing can be reached.
fn run_unit(t: &[&str]) -> String {
    let mut c = Cur { t, p: 1 };
    let res = catch_unwind(AssertUnwindSafe(|| match t[0] {
        "ctor" => {
            let (w, h, s, n) = (c.u32(), c.u32(), c.u32(), c.usize());
            let data = vec![(); n];
            let v = Slice2::new((w, h), s, &data);
            format!("d:{},{},{}", v.width(), v.height(), v.stride())
        }
        "new" => {
            let (w, h) = (c.u32(), c.u32());
            let b = Buf2::<()>::new((w, h));
            format!("d:{},{},{} n:{}", b.width(), b.height(), b.stride(), b.data().len())
        }
        "newfrom" => {
            let (w, h, n) = (c.u32(), c.u32(), c.usize());
            let b = Buf2::<()>::new_from((w, h), std::iter::repeat(()).take(n));
            format!("d:{},{},{} n:{}", b.width(), b.height(), b.stride(), b.data().len())
        }
        "slice" => {
            let (w, h) = (c.u32(), c.u32());
            let b = Buf2::<()>::new((w, h));
            let r = rect(&mut c);
            let v = b.slice(r);
            format!("d:{},{},{}", v.width(), v.height(), v.stride())
        }
        "row" => {
            let (w, h, i) = (c.u32(), c.u32(), c.usize());
            let b = Buf2::<()>::new((w, h));
            format!("r:{}", b[i].len())
        }
        "get" => {
            let (w, h, x, y) = (c.u32(), c.u32(), c.u32(), c.u32());
            let b = Buf2::<()>::new((w, h));
            match b.get([x, y]) {
                Some(_) => "some".into(),
                None => "none".into(),
            }
        }
        _ => panic!("harness: unknown unit op"),
    }));
    match res {
        Ok(s) => s,
        Err(e) => format!("panic:{}", class(&panic_msg(e))),
    }
}

pub fn run(t: &[&str]) -> String {
    match t[0] {
        "seq" => run_seq(&t[1..]),
        "unit" => run_unit(&t[1..]),
        _ => panic!("harness: unknown op"),
    }
}

// ---------------------------------------------------------------------------------------------
// generation
// ---------------------------------------------------------------------------------------------


/// One axis of a rectangle `[lo, hi)` inside a dimension `dim`, spelled with the `pick`-th
/// applicable range form.
fn axis(lo: u32, hi: u32, dim: u32, pick: u64) -> String {
    let mut forms = vec![format!("R {lo} {hi}")];
    if hi >= 1 {
        forms.push(format!("RI {lo} {}", hi - 1));
    }
    if hi == dim {
        forms.push(format!("FR {lo} 0"));
    }
    if lo == 0 {
        forms.push(format!("TO 0 {hi}"));
        if hi >= 1 {
            forms.push(format!("TOI 0 {}", hi - 1));
        }
        if hi == dim {
            forms.push("F 0 0".into());
        }
    } else {
        forms.push(format!("XE {} {hi}", lo - 1));
        if hi >= 1 {
            forms.push(format!("XI {} {}", lo - 1, hi - 1));
        }
        if hi == dim {
            forms.push(format!("XU {} 0", lo - 1));
        }
    }
    forms[(pick % forms.len() as u64) as usize].clone()
}

/// A rectangle token group; `pick` selects the spelling.
fn rect_tok(l: u32, t: u32, r: u32, b: u32, w: u32, h: u32, pick: u64) -> String {
    match pick % 4 {
        0 => format!("P {l} {t} {r} {b}"),
        1 if l == 0 && t == 0 && r == w && b == h => "A".into(),
        _ => format!("T {} {}", axis(l, r, w, pick / 4), axis(t, b, h, pick / 64)),
    }
}

/// Operations that are all in bounds on a `w x h` view, touching every kind of access.
fn probe(w: u32, h: u32, k: &mut u32, rw: bool, rng: &mut Rng) -> String {
    let mut v = |k: &mut u32| {
        *k += 17;
        10_000 + *k
    };
    let mut ops: Vec<String> = vec![if rng.chance(1, 3) { "dbg".into() } else { "dims".into() }, "rows".into()];
    if w > 0 && h > 0 {
        let (x, y) = (rng.below(w as u64) as u32, rng.below(h as u64) as u32);
        ops.push(format!("get {x} {y}"));
        ops.push(format!("idx {} {}", w - 1, h - 1));
        ops.push(format!("row {y}"));
        if rw {
            ops.push(format!("set {x} {y} {}", v(k)));
            ops.push(format!("gset {} {} {}", w - 1 - x, h - 1 - y, v(k)));
            ops.push(format!("rset {y} {x} {}", v(k)));
        }
    }
    ops.push(format!("get {w} 0"));
    ops.push(format!("get 0 {h}"));
    if rw {
        match rng.below(9) {
            6 => ops.push(format!("copybv {w} {h}")),
            7 | 8 => {
                // source: a mutable sub-view (l..l+w, t..t+h) of a strided MutSlice2
                let (l, t) = (rng.below(3) as u32, rng.below(3) as u32);
                let (sw, sh) = (l + w + rng.below(2) as u32, t + h + rng.below(2) as u32);
                let s = sw + rng.below(3) as u32;
                let n = if sh == 0 { 0 } else { (sh - 1) * s + sw } + rng.below(3) as u32;
                ops.push(format!("copym {sw} {sh} {s} {n} {l} {t} {} {}", l + w, t + h));
            }
            0 => ops.push(format!("fill {}", v(k))),
            1 => ops.push(format!("fillw {}", v(k))),
            2 => ops.push(format!("rowsm {}", v(k))),
            3 => ops.push(format!("iterm {}", v(k))),
            4 => ops.push(format!("copyb {w} {h}")),
            _ => {
                let s = w + rng.below(3) as u32;
                let n = if h == 0 { 0 } else { (h - 1) * s + w } + rng.below(3) as u32;
                ops.push(format!("copys {w} {h} {s} {n}"));
            }
        }
        *k += 4000;
    }
    ops.push("iter".into());
    ops.join(" ")
}

/// One out-of-bounds access or invalid rectangle on a `w x h` view (always ends the history).
fn bad_op(w: u32, h: u32, rw: bool, rng: &mut Rng) -> String {
    let big = [u32::MAX, u32::MAX - 1, 1 << 31, 65536];
    let far = |rng: &mut Rng, d: u32| if rng.chance(1, 4) { *rng.pick(&big) } else { d + rng.below(3) as u32 };
    loop {
        let c = rng.below(if rw { 12 } else { 8 });
        return match c {
            0 => format!("idx {} {}", far(rng, w), rng.below(h as u64 + 1)),
            1 => format!("idx {} {}", rng.below(w as u64 + 1), far(rng, h)),
            2 => {
                let i: u64 = match rng.below(5) {
                    0 => h as u64,
                    1 => (1 << 32) + rng.below(h as u64 + 1),
                    2 => u64::MAX - rng.below(3),
                    3 => u32::MAX as u64 + rng.below(2),
                    _ => h as u64 + rng.below(5),
                };
                format!("row {i}")
            }
            3 => format!("isub P {} 0 {} {h}", w.min(2), w + 1 + rng.below(2) as u32),
            4 => format!("isub P 0 {} {w} {}", h.min(1), h + 1 + rng.below(2) as u32),
            5 if w > 0 => format!("isub P {} 0 {} {h}", w, w - 1),
            6 if h > 0 => format!("isub P 0 {} {w} {}", h, h - 1),
            7 => {
                // overflowing range forms
                let k = *rng.pick(&["RI", "TOI", "XI", "XE", "XU"]);
                let (a, b) = if k == "XE" || k == "XU" { (u32::MAX, w) } else if k == "XI" && rng.bool() { (u32::MAX, 0) } else { (0, u32::MAX) };
                if rng.bool() {
                    format!("isub T {k} {a} {b} F 0 0")
                } else {
                    format!("isub T F 0 0 {k} {a} {b}")
                }
            }
            8 => format!("set {} {} 1", far(rng, w), rng.below(h as u64 + 1)),
            9 => format!("rset {} 0 1", h as u64 + if rng.bool() { 0 } else { 1 << 32 }),
            10 if h > 0 => format!("rset {} {} 1", rng.below(h as u64), far(rng, w)),
            11 => match rng.below(4) {
                0 => format!("copyb {} {}", w + 1, h),
                1 => format!("copyb {} {}", w, h + 1),
                2 if h > 0 => format!("copys {w} {} {w} {}", h - 1, (h - 1) * w),
                2 => format!("copym {} {} {} {} 0 0 {} {}", w + 2, h + 2, w + 3, (h + 1) * (w + 3) + w + 2, w + 1, h),
                _ => format!("copys {w} {} {} {}", h + 2, w + 1, (h + 1) * (w + 1) + w),
            },
            _ => continue,
        };
    }
}

fn random_history(rng: &mut Rng, max_dim: u64, bad_rate: u64) -> String {
    // constructor
    let (w, h) = (rng.below(max_dim + 1) as u32, rng.below(max_dim + 1) as u32);
    let (w, h) = match rng.below(12) {
        0 => (0, h),
        1 => (w, 0),
        _ => (w, h),
    };
    // one history in twenty works on a LONG buffer (a dimension of 64..400, the other one small): block sizes,
    // narrow counters and chunked fast paths of the bulk operations show only beyond a few dozen elements
    let (w, h) = match rng.below(40) {
        0 => (64 + rng.below(337) as u32, 1 + rng.below(4) as u32),
        1 => (1 + rng.below(4) as u32, 64 + rng.below(337) as u32),
        _ => (w, h),
    };
    let mut line;
    let mut rw = true;
    let kind = rng.below(10);
    let owned = kind < 4;
    if kind < 4 {
        let c = *rng.pick(&["new", "newwith", "newfrom"]);
        line = if c == "newfrom" {
            let n = if rng.chance(1, 12) { (w * h).saturating_sub(1 + rng.below(3) as u32) } else { w * h + rng.below(4) as u32 };
            format!("seq newfrom {w} {h} {n}")
        } else {
            format!("seq {c} {w} {h}")
        };
    } else {
        let s = if rng.chance(1, 15) && w > 0 { w - 1 } else { w + rng.below(4) as u32 };
        let need = if h == 0 { 0 } else { (h - 1) * s + w };
        let n = if rng.chance(1, 10) { need.saturating_sub(1 + rng.below(3) as u32) } else { need + rng.below(5) as u32 };
        rw = kind < 8;
        line = format!("seq {} {w} {h} {s} {n}", if rw { "ms" } else { "is" });
    }
    // nested operations; the generator tracks the dimensions of the open views
    let mut stack: Vec<(u32, u32, bool)> = vec![(w, h, rw)];
    let n_ops = 5 + rng.below(40);
    let mut k = 0u32;
    for _ in 0..n_ops {
        let (w, h, rw) = *stack.last().unwrap();
        if rng.below(1000) < bad_rate {
            line += " ";
            line += &bad_op(w, h, rw, rng);
            break;
        }
        match rng.below(10) {
            0 | 1 | 2 if stack.len() < 4 => {
                let l = rng.below(w as u64 + 1) as u32;
                let r = l + rng.below((w - l) as u64 + 1) as u32;
                let t = rng.below(h as u64 + 1) as u32;
                let b = t + rng.below((h - t) as u64 + 1) as u32;
                let m = rw && rng.chance(3, 4);
                line += &format!(" {} {}", if m { "sub" } else { "isub" }, rect_tok(l, t, r, b, w, h, rng.u64()));
                stack.push((r - l, b - t, m));
            }
            3 if stack.len() < 4 => {
                let m = rw && rng.bool();
                let inherent = rng.chance(1, 3);
                line += match (m, inherent) {
                    (true, false) => " asm",
                    (true, true) => " asmi",
                    (false, false) => " asr",
                    (false, true) => " asri",
                };
                stack.push((w, h, m));
            }
            4 | 5 if stack.len() > 1 => {
                line += " end";
                stack.pop();
            }
            6 if owned && stack.len() == 1 && w * h > 0 => {
                // a store through Buf2::data_mut(), later read through views
                k += 13;
                line += &format!(" dmut {} {}", rng.below((w * h) as u64), 20_000 + k);
            }
            _ => {
                line += " ";
                line += &probe(w, h, &mut k, rw, rng);
            }
        }
    }
    line
}

pub fn gen(rng: &mut Rng, tier: Tier, out: &mut Vec<String>) {
    let q = tier == Tier::Quick;
    // ---- exhaustive small worlds: every root shape, every rectangle, every nested rectangle
    let dmax: u32 = if q { 3 } else { 4 };
    let mut pick: u64 = 0;
    let mut k: u32 = 0;
    for w in 0..=dmax {
        for h in 0..=dmax {
            let mut roots: Vec<(String, bool)> = vec![(format!("seq newwith {w} {h}"), true)];
            let strides: Vec<u32> = if q { vec![w, w + 1] } else { vec![w, w + 1, w + 2] };
            let surplus: Vec<u32> = if q { vec![0, 2] } else { vec![0, 1, 2, 3] };
            for &s in &strides {
                for &extra in &surplus {
                    let need = if h == 0 { 0 } else { (h - 1) * s + w };
                    roots.push((format!("seq ms {w} {h} {s} {}", need + extra), true));
                }
            }
            roots.push((format!("seq is {w} {h} {} {}", w + 1, if h == 0 { 0 } else { (h - 1) * (w + 1) + w } + 1), false));
            for (root, rw) in &roots {
                for l in 0..=w {
                    for r in l..=w {
                        for t in 0..=h {
                            for b in t..=h {
                                let (w1, h1) = (r - l, b - t);
                                for l2 in 0..=w1 {
                                    for r2 in l2..=w1 {
                                        for t2 in 0..=h1 {
                                            for b2 in t2..=h1 {
                                                pick += 1;
                                                // quick: every level-1 rectangle, a third of the nested ones
                                                if q && pick % 3 != 0 && !(l2 == 0 && t2 == 0 && r2 == w1 && b2 == h1) {
                                                    continue;
                                                }
                                                let m1 = *rw && pick % 5 != 0;
                                                let m2 = m1 && pick % 7 != 0;
                                                let (w2, h2) = (r2 - l2, b2 - t2);
                                                out.push(format!(
                                                    "{root} {} {} {} {} {} end rows end rows",
                                                    if m1 { "sub" } else { "isub" },
                                                    rect_tok(l, t, r, b, w, h, pick),
                                                    if m2 { "sub" } else { "isub" },
                                                    rect_tok(l2, t2, r2, b2, w1, h1, pick / 3),
                                                    probe(w2, h2, &mut k, m2, rng),
                                                ));
                                            }
                                        }
                                    }
                                }
                            }
                        }
                    }
                }
            }
        }
    }
    // ---- every single cell written through a nested view, read back at every level
    for (w, h) in [(3u32, 3u32), (4, 2), (1, 4)] {
        for s in [w, w + 2] {
            for l in 0..w {
                for t in 0..h {
                    for x in 0..w - l {
                        for y in 0..h - t {
                            let need = (h - 1) * s + w + 1;
                            out.push(format!(
                                "seq ms {w} {h} {s} {need} sub P {l} {t} {w} {h} sub P {x} {y} {} {} set 0 0 77 idx 0 0 end idx {x} {y} iter end idx {} {} iter",
                                w - l, h - t, l + x, t + y
                            ));
                        }
                    }
                }
            }
        }
    }
    // ---- the AsSlice2 / AsMutSlice2 front doors of every wrapper on strided views: read through
    //      as_slice2() of a mutable sub-view, and use strided mutable views as copy_from sources
    for w in 1..=3u32 {
        for h in 1..=3u32 {
            for gap in 0..=2u32 {
                let s = w + gap;
                let n = (h - 1) * s + w + 1;
                // reads through <MutSlice2 as AsSlice2> / <Slice2 as AsSlice2> / <Buf2 as AsSlice2>
                out.push(format!("seq ms {w} {h} {s} {n} asr dims rows iter end asm asr rows iter end fill 9 end rows"));
                out.push(format!("seq is {w} {h} {s} {n} asr dims rows iter asr rows end end"));
                out.push(format!(
                    "seq newwith {} {} sub P 1 1 {} {} asr dims rows iter end asm rows asr iter end end end asr rows end",
                    w + 2, h + 1, w + 1, h + 1
                ));
                // copy_from with a strided MutSlice2 source, whole and sub-view, into dense and strided destinations
                out.push(format!("seq new {w} {h} copym {w} {h} {s} {n} 0 0 {w} {h} rows"));
                out.push(format!(
                    "seq ms {w} {h} {} {} copym {} {} {} {} 1 1 {} {} rows",
                    w + 1, (h - 1) * (w + 1) + w,
                    w + 2, h + 1, w + 2 + gap, h * (w + 2 + gap) + w + 2, w + 1, h + 1
                ));
                out.push(format!("seq new {w} {h} copybv {w} {h} rows copyb {w} {h} iter"));
            }
        }
    }
    // ---- Buf2::data_mut(): every element of a small buffer written, seen through every kind of view
    for (w, h) in [(3u32, 2u32), (2, 3), (1, 1), (4, 1)] {
        for i in 0..=w * h {
            out.push(format!(
                "seq newwith {w} {h} dmut {i} 777 rows dbg sub P 0 0 {w} {h} rows dbg sub P {} {} {w} {h} iter dbg end end asr rows dbg end isub A iter dbg end iter",
                w / 2, h / 2
            ));
        }
        out.push(format!("seq new {w} {h} dmut {} 5", (1u64 << 32) + 1));
    }
    out.push("seq new 0 3 dmut 0 1".into());
    out.push("seq is 2 2 3 5 dbg isub P 1 0 2 2 dbg end asr dbg end".into());
    // ---- constructors: every small (dims, stride, length) combination
    let cmax = if q { 3 } else { 5 };
    for w in 0..=cmax {
        for h in 0..=cmax {
            for s in 0..=cmax + 1 {
                for n in 0..=(cmax * (cmax + 1) + 2).min(if q { 14 } else { 40 }) {
                    out.push(format!("seq {} {w} {h} {s} {n} rows", if (w + h + s + n) % 2 == 0 { "ms" } else { "is" }));
                }
            }
            for n in 0..=w * h + 1 {
                out.push(format!("seq newfrom {w} {h} {n} rows"));
            }
            out.push(format!("seq new {w} {h} rows iter dims"));
        }
    }
    // ---- every range form against every position on one axis
    for kind in ["F", "R", "RI", "FR", "TO", "TOI", "XE", "XI", "XU"] {
        for a in 0..=4u32 {
            for b in 0..=4u32 {
                out.push(format!("seq newwith 3 2 isub T {kind} {a} {b} F 0 0 dims rows end"));
                out.push(format!("seq newwith 2 3 sub T FR 0 0 {kind} {a} {b} dims fill 5 end rows"));
            }
        }
        for (a, b) in [(u32::MAX, 0), (0, u32::MAX), (u32::MAX, u32::MAX), (u32::MAX - 1, u32::MAX - 1)] {
            out.push(format!("seq newwith 3 2 isub T {kind} {a} {b} F 0 0 dims end"));
            out.push(format!("seq newwith 3 2 isub T F 0 0 {kind} {a} {b} dims end"));
        }
    }
    // ---- LARGE strided views (16 000..40 000 elements spanned) copied between views of EQUAL stride that are
    // narrower than the stride: bulk-copy fast paths gated on a minimum size show only here
    for i in 0..(if q { 4 } else { 40 }) {
        let (rw, rh) = (130 + rng.below(80) as u32, 110 + rng.below(60) as u32);
        let (l, t) = (1 + rng.below(6) as u32, 1 + rng.below(4) as u32);
        let (w, h) = (rw - l - 1 - rng.below(6) as u32, rh - t - 1 - rng.below(4) as u32);
        let n = (h - 1) * rw + w;
        if i % 2 == 0 {
            out.push(format!("seq new {rw} {rh} sub P {l} {t} {} {} copys {w} {h} {rw} {n} end", l + w, t + h));
        } else {
            out.push(format!(
                "seq new {rw} {rh} sub P {l} {t} {} {} copym {} {} {rw} {} 1 1 {} {} end",
                l + w, t + h, w + 2, h + 2, (h + 1) * rw + w + 2, w + 1, h + 1
            ));
        }
    }
    // ---- random long histories on larger buffers; a separate mostly-malformed stream
    for _ in 0..(if q { 4000 } else { 60_000 }) {
        out.push(random_history(rng, 16, 15));
    }
    for _ in 0..(if q { 1500 } else { 20_000 }) {
        out.push(random_history(rng, 6, 250));
    }
    // ---- zero-sized elements: dimensions and indices around 2^32
    let big: [u64; 12] = [0, 1, 2, 65535, 65536, 65537, (1 << 31) - 1, 1 << 31, (1 << 32) - 2, (1 << 32) - 1, 3, 1 << 16];
    for _ in 0..(if q { 1500 } else { 20_000 }) {
        let b = |rng: &mut Rng| *rng.pick(&big);
        match rng.below(5) {
            0 => {
                let (w, h, s) = (b(rng), b(rng), b(rng));
                let need = if h == 0 { 0 } else { (h - 1) * s + w };
                let n = match rng.below(4) {
                    0 => need,
                    1 => need.saturating_sub(1),
                    2 => need + 1,
                    _ => rng.below(1 << 34),
                };
                out.push(format!("unit ctor {w} {h} {s} {}", n.min(1 << 40)));
            }
            1 if rng.bool() => {
                // new_from: w*h beyond isize::MAX, or too few items (never more than 2^16 items consumed)
                let (w, h, n): (u64, u64, u64) = *rng.pick(&[
                    ((1 << 32) - 1, (1 << 32) - 1, 0),
                    ((1 << 32) - 1, (1 << 31) + 1, 5),
                    ((1 << 32) - 1, 1 << 31, 7),
                    (1 << 31, (1 << 32) - 1, 0),
                    (256, 256, 65536),
                    (256, 256, 65535),
                    (256, 255, 65536),
                    (0, (1 << 32) - 1, 0),
                    ((1 << 32) - 1, 0, 3),
                ]);
                out.push(format!("unit newfrom {w} {h} {n}"));
            }
            1 => out.push(format!("unit new {} {}", b(rng), b(rng))),
            2 => {
                let (w, h) = *rng.pick(&[(65536u64, 65535u64), (65535, 65536), (3, 4), (1, (1 << 32) - 1), ((1 << 32) - 1, 1), (0, 7), (7, 0)]);
                let e = |rng: &mut Rng, d: u64| match rng.below(4) {
                    0 => d,
                    1 => d.saturating_sub(1),
                    2 => 0,
                    _ => rng.below(d + 2),
                };
                let (l, r, t, bb) = (e(rng, w), e(rng, w), e(rng, h), e(rng, h));
                out.push(format!("unit slice {w} {h} P {} {} {} {}", l.min(r), t.min(bb), l.max(r), t.max(bb)));
            }
            3 => {
                let (w, h) = *rng.pick(&[(2u64, 2u64), (65536, 65535), (1, 5), (0, 3), (3, 0)]);
                let i: u64 = match rng.below(6) {
                    0 => h.saturating_sub(1),
                    1 => h,
                    2 => (1 << 32) + rng.below(h + 1),
                    3 => (1 << 32) - 1,
                    4 => u64::MAX - rng.below(2),
                    _ => rng.below(h + 2),
                };
                out.push(format!("unit row {w} {h} {i}"));
            }
            _ => {
                let (w, h) = *rng.pick(&[(65536u64, 65535u64), (2, 2), (0, 3)]);
                let c = |rng: &mut Rng, d: u64| match rng.below(4) {
                    0 => d,
                    1 => d.saturating_sub(1),
                    2 => (1u64 << 32) - 1,
                    _ => rng.below(d + 1),
                };
                out.push(format!("unit get {w} {h} {} {}", c(rng, w), c(rng, h)));
            }
        }
    }
}

fn main() {
    vharness::harness_main(gen, run);
}
