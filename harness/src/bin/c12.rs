//! C12: texture samplers address the right texel and never go out of bounds.
//!
//! Every texel holds its own coordinates *in the backing buffer* (x << 32 | y), so the value a
//! sampler returns tells which texel it read; for sub-region textures the origin of the region is
//! subtracted, so that a read outside the region shows up as an out-of-range (or negative) index.
//!
//!   new <dw> <dh>                                  -> "<wmask> <hmask>" | panic   (via Debug of the sampler)
//!   abs <rep|cl|on> <b|s|n|v> <dw> <dh> <u> <v>        -> "<u>,<v>" | panic
//!   rel <rep|cl|on> <b|s|n|v> <dw> <dh> <u> <v>        -> R A, each "<u>,<v>" | panic:<msg>
//!   dig <rep|cl|on> <dw> <dh> <v> <start> <count>  -> "<fnv> <npanic> <noob> <nwrong>"
//!   sib <fallback|libm|mm> <rep|cl> <dw> <dh> <u> <v> -> "<u>,<v>" | panic   (sample_abs in that configuration)
use std::cell::RefCell;
use std::collections::HashMap;
use std::panic::{catch_unwind, AssertUnwindSafe};

use re::render::tex::{uv, SamplerClamp, SamplerOnce, SamplerRepeatPot, TexCoord, Texture};
use re::util::buf::{AsSlice2, Buf2, Slice2};

use vharness::util::*;

#[path = "../../c20sib/src/co.rs"]
mod co;

type Texel = u64;

enum Tex {
    Owned(Texture<Buf2<Texel>>),
    /// sub-region of a larger (leaked, hence 'static) buffer, with the region's origin
    Sliced(Texture<Slice2<'static, Texel>>, (u32, u32)),
}

thread_local! {
    static CACHE: RefCell<HashMap<(char, u32, u32), &'static Tex>> = RefCell::new(HashMap::new());
}

/// Texture of `dw` x `dh` texels of kind
///   b  owned `Buf2`
///   s  sub-region `buf.slice(r)` of a larger buffer (margins on every side)
///   n  nested sub-region `buf.slice(r1).slice(r2)` (atlas -> page -> sprite): the page is narrower
///      than its backing store, so the sprite must inherit the *stride*, not the page width
///   v  `Slice2::new(dims, stride, data)` over raw data with stride > width
/// Every texel holds its coordinates in the backing store; the region's origin is subtracted.
fn make_tex(kind: &str, dw: u32, dh: u32) -> &'static Tex {
    let kind = kind.chars().next().unwrap_or('b');
    CACHE.with(|c| {
        if let Some(t) = c.borrow().get(&(kind, dw, dh)) {
            return *t;
        }
        let enc = |x: u32, y: u32| ((x as u64) << 32) | y as u64;
        let t: Tex = match kind {
            'b' => Tex::Owned(Texture::from(Buf2::new_with((dw, dh), enc))),
            's' => {
                // region at (ox, oy) of a buffer with a margin on every side
                let (ox, oy) = (1 + dw % 3, 2 + dh % 2);
                let big: &'static Buf2<Texel> =
                    Box::leak(Box::new(Buf2::new_with((dw + ox + 3, dh + oy + 2), enc)));
                let s = big.slice((ox..ox + dw, oy..oy + dh));
                Tex::Sliced(Texture::from(s), (ox, oy))
            }
            'n' => {
                // atlas (wide) -> page at (px, py), narrower than the atlas -> sprite at (sx, sy) in the page
                let (px, py) = (2 + dh % 3, 1 + dw % 2);
                let (sx, sy) = (1 + dw % 2, 2);
                let (pw, ph) = (dw + sx + 2, dh + sy + 1);
                let atlas: &'static Buf2<Texel> =
                    Box::leak(Box::new(Buf2::new_with((pw + px + 4, ph + py + 2), enc)));
                let page: &'static Slice2<'static, Texel> =
                    Box::leak(Box::new(atlas.slice((px..px + pw, py..py + ph))));
                let sprite = page.slice((sx..sx + dw, sy..sy + dh));
                Tex::Sliced(Texture::from(sprite), (px + sx, py + sy))
            }
            'v' => {
                let stride = dw + 5;
                let data: &'static Vec<Texel> = Box::leak(Box::new(
                    (0..stride as u64 * dh.max(1) as u64).map(|i| enc((i % stride as u64) as u32, (i / stride as u64) as u32)).collect(),
                ));
                Tex::Sliced(Texture::from(Slice2::new((dw, dh), stride, data)), (0, 0))
            }
            other => panic!("unknown texture kind {other}"),
        };
        let t: &'static Tex = Box::leak(Box::new(t));
        c.borrow_mut().insert((kind, dw, dh), t);
        t
    })
}

fn decode(t: Texel, org: (u32, u32)) -> (i64, i64) {
    ((t >> 32) as i64 - org.0 as i64, (t & 0xFFFF_FFFF) as i64 - org.1 as i64)
}

fn sample_with<D: AsSlice2<Texel>>(
    smp: &str,
    tex: &Texture<D>,
    tc: TexCoord,
    rel: bool,
) -> Texel {
    match (smp, rel) {
        ("rep", false) => SamplerRepeatPot::new(tex).sample_abs(tex, tc),
        ("rep", true) => SamplerRepeatPot::new(tex).sample(tex, tc),
        ("cl", false) => SamplerClamp.sample_abs(tex, tc),
        ("cl", true) => SamplerClamp.sample(tex, tc),
        ("on", false) => SamplerOnce.sample_abs(tex, tc),
        ("on", true) => SamplerOnce.sample(tex, tc),
        _ => panic!("unknown sampler {smp}"),
    }
}

/// One sample: index relative to the texture's own origin.
fn sample(smp: &str, t: &Tex, tc: TexCoord, rel: bool) -> (i64, i64) {
    match t {
        Tex::Owned(tex) => decode(sample_with(smp, tex, tc, rel), (0, 0)),
        Tex::Sliced(tex, org) => decode(sample_with(smp, tex, tc, rel), *org),
    }
}

fn dims_f32(t: &Tex) -> (f32, f32) {
    match t {
        Tex::Owned(tex) => (tex.width(), tex.height()),
        Tex::Sliced(tex, _) => (tex.width(), tex.height()),
    }
}

fn caught(f: impl FnOnce() -> (i64, i64)) -> String {
    match catch_unwind(AssertUnwindSafe(f)) {
        Ok((u, v)) => format!("{u},{v}"),
        Err(e) => {
            let msg = e
                .downcast_ref::<String>()
                .cloned()
                .or_else(|| e.downcast_ref::<&str>().map(|s| s.to_string()))
                .unwrap_or_default();
            let msg: String = msg
                .chars()
                .map(|c| if c.is_ascii_whitespace() { '_' } else { c })
                .take(60)
                .collect();
            format!("panic:{msg}")
        }
    }
}

/// Harness-side integer oracle used only for the `nwrong` counter of digest blocks (f64 holds every
/// f32 exactly, and floor/rem_euclid on i64 are exact).
fn expect_axis(smp: &str, w: u32, x: f32) -> Option<i64> {
    if !x.is_finite() || w == 0 {
        return None;
    }
    let xd = x as f64;
    match smp {
        "rep" if xd.abs() < 2147483648.0 && w.is_power_of_two() => {
            Some((xd.floor() as i64).rem_euclid(w as i64))
        }
        "cl" => Some(xd.max(0.0).min(w as f64 - 1.0).floor() as i64),
        "on" if xd >= 0.0 && xd < w as f64 => Some(xd.floor() as i64),
        _ => None,
    }
}

fn run(t: &[&str]) -> String {
    match t[0] {
        "new" => {
            let (dw, dh) = (pint(t[1]) as u32, pint(t[2]) as u32);
            let tex = make_tex("b", dw, dh);
            let s = match tex {
                Tex::Owned(tex) => SamplerRepeatPot::new(tex),
                Tex::Sliced(tex, _) => SamplerRepeatPot::new(tex),
            };
            // fields are private: read them from the derived Debug output
            let d = format!("{s:?}");
            let nums: Vec<String> = d
                .split(|c: char| !c.is_ascii_digit())
                .filter(|s| !s.is_empty())
                .map(|s| s.to_string())
                .collect();
            nums.join(" ")
        }
        "abs" => {
            let tex = make_tex(t[2], pint(t[3]) as u32, pint(t[4]) as u32);
            let (u, v) = sample(t[1], tex, uv(pf32(t[5]), pf32(t[6])), false);
            format!("{u},{v}")
        }
        "rel" => {
            let tex = make_tex(t[2], pint(t[3]) as u32, pint(t[4]) as u32);
            let (u, v) = (pf32(t[5]), pf32(t[6]));
            let (w, h) = dims_f32(tex);
            let r = caught(|| sample(t[1], tex, uv(u, v), true));
            let a = caught(|| sample(t[1], tex, uv(w * u, h * v), false));
            format!("{r} {a}")
        }
        "dig" => {
            let (dw, dh) = (pint(t[2]) as u32, pint(t[3]) as u32);
            let tex = make_tex("b", dw, dh);
            let v = pf32(t[4]);
            let start = pu64h(t[5]);
            let count = pint(t[6]) as u64;
            let ev = expect_axis(t[1], dh, v);
            let (mut h, mut np, mut noob, mut nwrong) = (FNV_INIT, 0u64, 0u64, 0u64);
            for i in 0..count {
                let ub = (start + i) as u32;
                let u = f32::from_bits(ub);
                match catch_unwind(AssertUnwindSafe(|| sample(t[1], tex, uv(u, v), false))) {
                    Ok((iu, iv)) => {
                        h = fnv_step(fnv_step(h, iu as u32), iv as u32);
                        if iu < 0 || iv < 0 || iu >= dw as i64 || iv >= dh as i64 {
                            noob += 1;
                        } else if expect_axis(t[1], dw, u).is_some_and(|e| e != iu)
                            || (t[1] != "on" || expect_axis(t[1], dw, u).is_some())
                                && ev.is_some_and(|e| e != iv)
                        {
                            nwrong += 1;
                        }
                    }
                    Err(_) => {
                        h = fnv_step(h, 0xFFFF_FFFF);
                        np += 1;
                    }
                }
            }
            format!("{} {np} {noob} {nwrong}", h64(h))
        }
        // the same samplers in the other feature configurations of retrofire-core (co-processes built
        // from harness/c20sib): `math::float::f32::floor` is then fallback's, libm's or the mm adapter's
        "sib" => co::ask(t[1], &format!("tx {} {} {} {} {}", t[2], t[3], t[4], t[5], t[6])),
        // very wide one-row-high textures (beyond 2^24 the f32 width is not the integer width);
        // u8 texels holding x % 251 keep the allocation small
        "wide" => {
            let (dw, dh) = (pint(t[2]) as u32, pint(t[3]) as u32);
            let tex = Texture::from(Buf2::new_with((dw, dh), |x, y| ((x + 7 * y) % 251) as u8));
            let tc = uv(pf32(t[4]), pf32(t[5]));
            let c: u8 = match t[1] {
                "rep" => SamplerRepeatPot::new(&tex).sample_abs(&tex, tc),
                "cl" => SamplerClamp.sample_abs(&tex, tc),
                "on" => SamplerOnce.sample_abs(&tex, tc),
                _ => panic!("unknown sampler"),
            };
            format!("{c}")
        }
        other => panic!("unknown op {other}"),
    }
}

// ---------------------------------------------------------------------------------------------

fn ulp_up(x: f32) -> f32 {
    if x == 0.0 {
        return f32::from_bits(1);
    }
    let b = x.to_bits();
    f32::from_bits(if x > 0.0 { b + 1 } else { b - 1 })
}
fn ulp_dn(x: f32) -> f32 {
    if x == 0.0 {
        return f32::from_bits(0x8000_0001);
    }
    let b = x.to_bits();
    f32::from_bits(if x > 0.0 { b - 1 } else { b + 1 })
}

/// Adversarial absolute coordinates for a texture axis of size `w` (bit patterns).
fn coord_pool(rng: &mut Rng, w: u32, n_random: usize) -> Vec<u32> {
    let wf = w as f32;
    let mut v: Vec<f32> = vec![];
    let mut ints: Vec<f32> = vec![0.0, 1.0, 2.0, 3.0, -1.0, -2.0, -3.0, wf, wf - 1.0, wf + 1.0, -wf, -wf + 1.0,
        -wf - 1.0, 2.0 * wf, -2.0 * wf, 3.0 * wf + 1.0, 0.5 * wf, 8388608.0, 16777216.0, -8388608.0, -16777216.0,
        16777215.0, 255.0, 256.0, 65535.0, 65536.0, 1048576.0, -1048576.0];
    ints.extend([2147483648.0, -2147483648.0, 4294967296.0, -4294967296.0, 2147483520.0, -2147483520.0,
        9.223372e18, -9.223372e18, 1e30, -1e30, f32::MAX, f32::MIN]);
    for k in ints {
        v.push(k);
        v.push(ulp_up(k));
        v.push(ulp_dn(k));
    }
    v.extend([0.0, -0.0, 0.5, -0.5, 0.25, 0.75, 0.999, -0.999, 1.5, -1.5, wf - 0.5, wf - 0.25, wf + 0.5,
        f32::INFINITY, f32::NEG_INFINITY, f32::MIN_POSITIVE, -f32::MIN_POSITIVE]);
    let mut bits: Vec<u32> = v.iter().map(|x| x.to_bits()).collect();
    // NaN payloads (quiet, signalling, negative), subnormals
    bits.extend([0x7fc0_0000, 0x7f80_0001, 0xffc0_0001, 0x7fff_ffff, 0xffff_ffff, 0xff80_0001,
        0x0000_0001, 0x8000_0001, 0x007f_ffff, 0x807f_ffff, 0x0040_0000]);
    for _ in 0..n_random {
        let x = match rng.below(6) {
            0 => f32::from_bits(rng.u32()),
            1 => rng.f32_in(0.0, wf),
            2 => rng.f32_in(-2.0 * wf, 3.0 * wf),
            3 => (rng.range(-4 * w as i64, 4 * w as i64)) as f32,
            4 => rng.f32_in(-1e6, 1e6),
            _ => rng.range(-1 << 31, 1 << 31) as f32 + rng.unit(),
        };
        bits.push(x.to_bits());
    }
    bits
}

/// Relative coordinates (bit patterns) for an axis of size `w`.
fn rel_pool(rng: &mut Rng, w: u32, n_random: usize) -> Vec<u32> {
    let wf = w as f32;
    let mut v: Vec<f32> = vec![0.0, -0.0, 1.0, -1.0, 0.5, 0.25, 2.0, -2.0, 4.8, 0.2, -0.1, 1.5,
        1.0 / wf, (wf - 1.0) / wf, 0.5 / wf, -1.0 / wf, 1e30, -1e30, f32::MAX, 1e-40, -1e-40, 2147483648.0 / wf,
        f32::INFINITY, f32::NEG_INFINITY];
    for k in [1.0f32, 0.5, 0.0, -1.0, 2.0] {
        v.push(ulp_up(k));
        v.push(ulp_dn(k));
    }
    let mut bits: Vec<u32> = v.iter().map(|x| x.to_bits()).collect();
    bits.extend([0x7fc0_0000, 0xffc0_0001, 0x7f80_0001, 0x0000_0001, 0x8000_0001]);
    for _ in 0..n_random {
        let x = match rng.below(4) {
            0 => f32::from_bits(rng.u32()),
            1 => rng.unit(),
            2 => rng.f32_in(-3.0, 3.0),
            _ => rng.range(-4 * w as i64, 4 * w as i64) as f32 / wf,
        };
        bits.push(x.to_bits());
    }
    bits
}

const POT_DIMS: &[(u32, u32)] = &[(1, 1), (2, 2), (4, 4), (4, 2), (1, 8), (256, 256), (256, 4), (1024, 8), (65536, 2), (2, 32768)];
const ANY_DIMS: &[(u32, u32)] = &[(3, 5), (7, 1), (1, 9), (100, 37), (255, 257), (640, 480), (1000, 3), (5, 4)];

fn gen(rng: &mut Rng, tier: Tier, out: &mut Vec<String>) {
    let thorough = tier == Tier::Thorough;
    let nrand = if thorough { 400 } else { 60 };

    // SamplerRepeatPot::new on all small dims and a few large ones
    for dw in 0..=9u32 {
        for dh in 0..=9u32 {
            out.push(format!("new {dw} {dh}"));
        }
    }
    for &(dw, dh) in POT_DIMS.iter().chain(ANY_DIMS) {
        out.push(format!("new {dw} {dh}"));
    }

    let emit = |rng: &mut Rng, out: &mut Vec<String>, smp: &str, dw: u32, dh: u32| {
        for kind in ["b", "s", "n", "v"] {
            let pu = coord_pool(rng, dw, nrand);
            let pv = coord_pool(rng, dh, nrand);
            for (i, &u) in pu.iter().enumerate() {
                // every pool value appears as u; v alternates between benign and adversarial
                let v = if i % 3 == 0 { *rng.pick(&pv) } else { rng.f32_in(0.0, dh as f32).to_bits() };
                out.push(format!("abs {smp} {kind} {dw} {dh} {} {}", hu32(u), hu32(v)));
            }
            for (i, &v) in pv.iter().enumerate() {
                let u = if i % 3 == 0 { *rng.pick(&pu) } else { rng.f32_in(0.0, dw as f32).to_bits() };
                out.push(format!("abs {smp} {kind} {dw} {dh} {} {}", hu32(u), hu32(v)));
            }
            let ru = rel_pool(rng, dw, nrand / 2);
            let rv = rel_pool(rng, dh, nrand / 2);
            for (i, &u) in ru.iter().enumerate() {
                let v = if i % 3 == 0 { *rng.pick(&rv) } else { rng.unit().to_bits() };
                out.push(format!("rel {smp} {kind} {dw} {dh} {} {}", hu32(u), hu32(v)));
            }
            for (i, &v) in rv.iter().enumerate() {
                let u = if i % 3 == 0 { *rng.pick(&ru) } else { rng.unit().to_bits() };
                out.push(format!("rel {smp} {kind} {dw} {dh} {} {}", hu32(u), hu32(v)));
            }
        }
    };
    for &(dw, dh) in POT_DIMS {
        for smp in ["rep", "cl", "on"] {
            emit(rng, out, smp, dw, dh);
        }
    }
    for &(dw, dh) in ANY_DIMS {
        for smp in ["cl", "on"] {
            emit(rng, out, smp, dw, dh);
        }
    }
    // outside the property's quantifier (kept for the correspondence): non-power-of-two repeat,
    // empty textures
    for &(dw, dh) in &[(3u32, 4u32), (4, 3), (0, 4), (4, 0), (0, 0)] {
        for smp in ["rep", "cl", "on"] {
            for _ in 0..6 {
                let u = rng.f32_in(-2.0, 6.0).to_bits();
                let v = rng.f32_in(-2.0, 6.0).to_bits();
                out.push(format!("abs {smp} b {dw} {dh} {} {}", hu32(u), hu32(v)));
            }
        }
    }

    // the other feature configurations (texture addressing in no_std builds): every pool value as u
    // and as v on a few small textures
    co::ensure_siblings();
    for be in ["fallback", "libm", "mm"] {
        for (smp, dw, dh) in [("rep", 4u32, 4u32), ("rep", 256, 2), ("rep", 1, 8), ("cl", 4, 4), ("cl", 3, 5), ("cl", 100, 37)] {
            if smp == "cl" && be == "fallback" {
                continue; // SamplerClamp is #[cfg(feature = "fp")]
            }
            let pu = coord_pool(rng, dw, nrand);
            let pv = coord_pool(rng, dh, nrand);
            for &u in &pu {
                let v = rng.f32_in(-1.0, dh as f32 + 1.0).to_bits();
                out.push(format!("sib {be} {smp} {dw} {dh} {} {}", hu32(u), hu32(v)));
            }
            for &v in &pv {
                let u = rng.f32_in(-1.0, dw as f32 + 1.0).to_bits();
                out.push(format!("sib {be} {smp} {dw} {dh} {} {}", hu32(u), hu32(v)));
            }
        }
    }

    // textures wider than 2^24 (u8 texels, one or two rows): `width as f32` and `w - 1.0` round
    for &(dw, dh) in &[(16_777_216u32, 1u32), (16_777_217, 1), (16_777_219, 1), (33_554_431, 1), (33_554_432, 1), (2, 16_777_219)] {
        let wf = dw as f32;
        let hf = dh as f32;
        for smp in ["cl", "on", "rep"] {
            // (for `rep` on a non-power-of-two size, of any magnitude, `SamplerRepeatPot::new` must panic:
            // before 597c789 it tested the rounded f32 width and accepted 33554431 and 16777217)
            let us = [-1.0, 0.0, 1.5, wf - 2.0, ulp_dn(wf), wf, 1e9, -3.0, f32::NAN, f32::INFINITY, rng.f32_in(0.0, wf)];
            for (i, u) in us.iter().enumerate() {
                let v = if i % 2 == 0 { 0.0 } else if smp == "on" { (hf - 1.0).max(0.0) } else { 1e9 };
                out.push(format!("wide {smp} {dw} {dh} {} {}", h32(*u), h32(v)));
            }
        }
    }

    // digest blocks over the u bit patterns: a 4-wide and a 256-wide texture
    let v_bits = [0.0f32.to_bits(), 1.5f32.to_bits(), (-1.0f32).to_bits()];
    if thorough {
        // all 2^32 patterns of u, 2^20 per block, for the two samplers that never panic; the
        // unchecked sampler panics (≈ 1.5 µs each) for every x >= w, so it walks every pattern below
        // w and every negative pattern on the 256-wide texture and one block in 64 elsewhere
        for &(dw, dh) in &[(4u32, 4u32), (256, 4)] {
            for smp in ["rep", "cl", "on"] {
                let w_bits = (dw as f32).to_bits() as u64;
                for blk in 0..4096u64 {
                    let start = blk << 20;
                    if smp == "on" {
                        let panicking = start + (1 << 20) > w_bits && start < 0x7f80_0000;
                        if (panicking || dw == 4) && blk % 64 != 7 {
                            continue;
                        }
                    }
                    out.push(format!("dig {smp} {dw} {dh} {} {:08x} {}", hu32(v_bits[(blk % 3) as usize]), start, 1u64 << 20));
                }
            }
        }
    } else {
        let len: u64 = 1 << 15;
        let mut starts: Vec<u64> = vec![0, 0x3f80_0000 - len / 2, 0x4080_0000 - len / 2, 0x4380_0000 - len / 2,
            0x4b00_0000 - len / 2, 0x4f00_0000 - len / 2, 0x7f80_0000 - len / 2, 0x8000_0000 - len / 2,
            0xbf80_0000 - len / 2, 0xcf00_0000 - len / 2, 0xff80_0000 - len / 2, 0x1_0000_0000 - len];
        for _ in 0..20 {
            starts.push(rng.below((1u64 << 32) - len));
        }
        for &(dw, dh) in &[(4u32, 4u32), (256, 4)] {
            for smp in ["rep", "cl", "on"] {
                for (i, s) in starts.iter().enumerate() {
                    out.push(format!("dig {smp} {dw} {dh} {} {:08x} {len}", hu32(v_bits[i % 3]), s));
                }
            }
        }
    }
}

fn main() {
    vharness::harness_main(gen, run)
}
