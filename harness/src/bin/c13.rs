//! C13: PNM codec — parse_pnm / read_pnm on arbitrary bytes, write_ppm on owned buffers and
//! strided sub-views, and the std functions the model re-implements.
//!
//!   parse <hex> any | exp W H <pixhex>        -> ok W H <pixhex> | err:end | err:num | err:unsup:<aabb>   rd:same|rd:diff
//!   pair <hex text> <hex binary>              -> <result> | <result>
//!   write W H S N l t r b <pixhex N pixels>   -> w:<hex written> p:<result of parsing it back>
//!   writem W H S N l t r b <pixhex N pixels>  -> same, through MutSlice2::new + slice_mut (impl AsSlice2 for MutSlice2)
//!   save / savem / saveb …                     -> as write / writem / writeb, through save_ppm + load_pnm on a temp file
//!   loaderr missing|dir                        -> err:* (load_pnm must not panic)
//!   readshort K <hex> | readfail P <hex>       -> read_pnm from a reader with reads of <= K bytes / failing after P bytes
//!   writeb W H <pixhex W*H pixels>            -> w:<hex> p:<result>         (owned Buf2, by value and by reference)
//!   rsnum BITS <hex>                          -> ok:<v> | empty | invalid   (str::parse::<uBITS> of the Latin-1 string)
//!   rsws                                      -> 256 x 0/1                   (u8::is_ascii_whitespace)
//!   rsdec N                                   -> hex of format!("{}", N as u32)
use re::math::{rgb, Color3};
use re::util::buf::{Buf2, MutSlice2, Slice2};
use re::util::pnm::{load_pnm, parse_pnm, read_pnm, save_ppm, write_ppm, Error};

use vharness::util::*;

fn show(res: Result<Buf2<Color3>, Error>) -> String {
    match res {
        Ok(buf) => {
            let mut px = Vec::with_capacity(buf.data().len() * 3);
            for c in buf.data() {
                px.extend_from_slice(&c.0);
            }
            // dims() and the length of the backing vector are reported separately on purpose
            format!("ok {} {} {}", buf.width(), buf.height(), hex_bytes(&px))
        }
        Err(e) if format!("{e}").is_empty() => panic!("harness: empty Display for {e:?}"),
        Err(Error::Io(_)) => "err:io".into(),
        Err(Error::UnexpectedEnd) => "err:end".into(),
        Err(Error::InvalidNumber) => "err:num".into(),
        Err(Error::Unsupported(m)) => format!("err:unsup:{}", hex_bytes(&m)),
        Err(e) => format!("err:other:{e:?}").replace(' ', "_"),
    }
}

fn pixels(hex: &str) -> Vec<Color3> {
    parse_hex_bytes(hex).chunks(3).map(|c| rgb(c[0], c[1], c[2])).collect()
}

/// A fresh path under the system temp dir, unique per process and call.
fn temp_path(tag: &str) -> std::path::PathBuf {
    use std::sync::atomic::{AtomicU64, Ordering};
    static N: AtomicU64 = AtomicU64::new(0);
    let n = N.fetch_add(1, Ordering::Relaxed);
    std::env::temp_dir().join(format!("vharness_c13_{}_{n}_{tag}", std::process::id()))
}

/// save_ppm to a temp file, read the raw bytes back, load_pnm it, remove the file.
/// Prints the same two tokens as `write` (file bytes, decoded image).
fn via_file(save: impl FnOnce(&std::path::Path) -> std::io::Result<()>) -> String {
    let path = temp_path("img.ppm");
    let res = (|| -> Result<String, String> {
        save(&path).map_err(|e| format!("save_ppm failed: {e}"))?;
        let bytes = std::fs::read(&path).map_err(|e| format!("reading back failed: {e}"))?;
        Ok(format!("w:{} p:{}", hex_bytes(&bytes), show(load_pnm(&path))))
    })();
    let _ = std::fs::remove_file(&path);
    match res {
        Ok(s) => s,
        Err(e) => panic!("harness: {e}"),
    }
}

/// A reader that hands out at most `chunk` bytes per call and, after `fail_at` bytes, an io::Error.
struct Choppy<'a> {
    data: &'a [u8],
    pos: usize,
    chunk: usize,
    fail_at: Option<usize>,
}
impl std::io::Read for Choppy<'_> {
    fn read(&mut self, buf: &mut [u8]) -> std::io::Result<usize> {
        if let Some(f) = self.fail_at {
            if self.pos >= f {
                return Err(std::io::Error::new(std::io::ErrorKind::Other, "harness: injected failure"));
            }
        }
        let limit = self.fail_at.unwrap_or(self.data.len()).min(self.data.len());
        let n = buf.len().min(self.chunk).min(limit - self.pos);
        buf[..n].copy_from_slice(&self.data[self.pos..self.pos + n]);
        self.pos += n;
        Ok(n)
    }
}

pub fn run(t: &[&str]) -> String {
    match t[0] {
        "parse" => {
            let bytes = parse_hex_bytes(t[1]);
            let a = show(parse_pnm(bytes.iter().copied()));
            let b = show(read_pnm(&bytes[..]));
            format!("{a} {}", if a == b { "rd:same" } else { "rd:diff" })
        }
        "pair" => {
            let a = show(parse_pnm(parse_hex_bytes(t[1])));
            let b = show(parse_pnm(parse_hex_bytes(t[2])));
            format!("{a} | {b}")
        }
        "write" => {
            let n: Vec<u32> = t[1..9].iter().map(|s| s.parse().unwrap()).collect();
            let (w, h, s, _len, l, tp, r, b) = (n[0], n[1], n[2], n[3], n[4], n[5], n[6], n[7]);
            let root = pixels(t[9]);
            assert_eq!(root.len() as u32, n[3], "harness: pixel count");
            let view = Slice2::new((w, h), s, &root);
            let sub = view.slice((l..r, tp..b));
            let mut out = vec![];
            write_ppm(&mut out, sub).unwrap();
            format!("w:{} p:{}", hex_bytes(&out), show(parse_pnm(out.iter().copied())))
        }
        "writem" => {
            // the same view as a *mutable* strided sub-view: `impl AsSlice2 for MutSlice2`
            let n: Vec<u32> = t[1..9].iter().map(|s| s.parse().unwrap()).collect();
            let (w, h, s, _len, l, tp, r, b) = (n[0], n[1], n[2], n[3], n[4], n[5], n[6], n[7]);
            let mut root = pixels(t[9]);
            assert_eq!(root.len() as u32, n[3], "harness: pixel count");
            let mut view = MutSlice2::new((w, h), s, &mut root);
            let sub = view.slice_mut((l..r, tp..b));
            let mut out = vec![];
            write_ppm(&mut out, sub).unwrap();
            format!("w:{} p:{}", hex_bytes(&out), show(parse_pnm(out.iter().copied())))
        }
        "save" | "savem" => {
            // the file front doors: save_ppm + load_pnm, on a shared / mutable strided sub-view
            let n: Vec<u32> = t[1..9].iter().map(|s| s.parse().unwrap()).collect();
            let (w, h, s, _len, l, tp, r, b) = (n[0], n[1], n[2], n[3], n[4], n[5], n[6], n[7]);
            let mut root = pixels(t[9]);
            assert_eq!(root.len() as u32, n[3], "harness: pixel count");
            if t[0] == "save" {
                let view = Slice2::new((w, h), s, &root);
                let sub = view.slice((l..r, tp..b));
                via_file(|p| save_ppm(p, sub))
            } else {
                let mut view = MutSlice2::new((w, h), s, &mut root);
                let sub = view.slice_mut((l..r, tp..b));
                via_file(|p| save_ppm(p, sub))
            }
        }
        "saveb" => {
            let (w, h): (u32, u32) = (t[1].parse().unwrap(), t[2].parse().unwrap());
            let buf = Buf2::new_from((w, h), pixels(t[3]));
            let a = via_file(|p| save_ppm(p, &buf));
            let b = via_file(|p| save_ppm(p, buf));
            assert_eq!(a, b, "harness: by-value and by-reference files differ");
            a
        }
        "loaderr" => {
            // load_pnm of a path that does not exist / of a directory: an Err, never a panic
            let path = match t[1] {
                "missing" => temp_path("does_not_exist.ppm"),
                "dir" => std::env::temp_dir(),
                _ => panic!("harness: loaderr kind"),
            };
            show(load_pnm(&path))
        }
        "readshort" | "readfail" => {
            // read_pnm from a reader with short reads; `readfail` also fails with an io::Error after P bytes
            let k: usize = t[1].parse().unwrap();
            let bytes = parse_hex_bytes(t[2]);
            let rd = if t[0] == "readshort" {
                Choppy { data: &bytes, pos: 0, chunk: k.max(1), fail_at: None }
            } else {
                Choppy { data: &bytes, pos: 0, chunk: 1 + k % 7, fail_at: Some(k) }
            };
            let r = show(read_pnm(rd));
            if t[0] == "readshort" {
                // the reader only delivers the same bytes in smaller pieces: the result must be parse_pnm's
                let p = show(parse_pnm(bytes.iter().copied()));
                format!("{r} {}", if r == p { "rd:same" } else { "rd:diff" })
            } else {
                r
            }
        }
        "writeb" => {
            let (w, h): (u32, u32) = (t[1].parse().unwrap(), t[2].parse().unwrap());
            let buf = Buf2::new_from((w, h), pixels(t[3]));
            let (mut o1, mut o2) = (vec![], vec![]);
            write_ppm(&mut o1, &buf).unwrap();
            write_ppm(&mut o2, buf).unwrap();
            assert_eq!(o1, o2, "harness: by-value and by-reference output differ");
            format!("w:{} p:{}", hex_bytes(&o1), show(parse_pnm(o1.iter().copied())))
        }
        "rsnum" => {
            let s: String = parse_hex_bytes(t[2]).into_iter().map(char::from).collect();
            fn f<T: std::str::FromStr<Err = std::num::ParseIntError> + std::fmt::Display>(s: &str) -> String {
                match s.parse::<T>() {
                    Ok(v) => format!("ok:{v}"),
                    Err(e) if *e.kind() == std::num::IntErrorKind::Empty => "empty".into(),
                    Err(_) => "invalid".into(),
                }
            }
            match t[1] {
                "8" => f::<u8>(&s),
                "16" => f::<u16>(&s),
                "32" => f::<u32>(&s),
                _ => panic!("harness: bits"),
            }
        }
        "rsws" => (0..=255u8).map(|b| if b.is_ascii_whitespace() { '1' } else { '0' }).collect(),
        "rsdec" => {
            let n: u32 = t[1].parse().unwrap();
            hex_bytes(format!("{n}").as_bytes())
        }
        _ => panic!("harness: unknown op"),
    }
}

// ---------------------------------------------------------------------------------------------
// generation
// ---------------------------------------------------------------------------------------------

const WS: &[u8] = b" \t\n\x0c\r";

/// Bytes that are interesting right after a header: whitespace, '#', digits, '+', others.
fn nasty_byte(rng: &mut Rng) -> u8 {
    match rng.below(8) {
        0 => *rng.pick(WS),
        1 => b'#',
        2 => b'0' + rng.below(10) as u8,
        3 => *rng.pick(b"+-P\x0b\x00\xff\x80"),
        _ => rng.below(256) as u8,
    }
}

fn rand_pixels(rng: &mut Rng, n: usize) -> Vec<u8> {
    let mode = rng.below(4);
    (0..3 * n)
        .map(|_| match mode {
            0 => nasty_byte(rng),
            1 => *rng.pick(b" \n#09"),
            _ => rng.below(256) as u8,
        })
        .collect()
}

/// `(ws | comment)*`, possibly empty.
fn gap(rng: &mut Rng) -> Vec<u8> {
    let mut g = vec![];
    for _ in 0..rng.below(4) {
        if rng.chance(1, 3) {
            g.push(b'#');
            for _ in 0..rng.below(6) {
                let b = nasty_byte(rng);
                if b != b'\n' {
                    g.push(b);
                }
            }
            g.push(b'\n');
        } else {
            g.push(*rng.pick(WS));
        }
    }
    g
}

/// A spelling of `n` that `str::parse` accepts: optional '+', leading zeros.
fn spell(rng: &mut Rng, n: u64) -> Vec<u8> {
    let mut s = String::new();
    if rng.chance(1, 8) {
        s.push('+');
    }
    for _ in 0..(if rng.chance(1, 6) { rng.below(4) } else { 0 }) {
        s.push('0');
    }
    s += &n.to_string();
    s.into_bytes()
}

/// One number in valid layout: gap, spelling, one whitespace delimiter.
fn item(rng: &mut Rng, n: u64) -> Vec<u8> {
    let mut v = gap(rng);
    v.extend(spell(rng, n));
    v.push(*rng.pick(WS));
    v
}

fn valid_header(rng: &mut Rng, magic: &[u8], w: u64, h: u64, max: Option<u64>) -> Vec<u8> {
    let mut v = magic.to_vec();
    // at least one whitespace after the magic number
    v.push(*rng.pick(WS));
    v.extend(item(rng, w));
    v.extend(item(rng, h));
    if let Some(m) = max {
        v.extend(item(rng, m));
    }
    v
}

fn px_hex(px: &[u8]) -> String {
    hex_bytes(px)
}

fn gen_pair(rng: &mut Rng, out: &mut Vec<String>) {
    let (w, h) = (rng.below(6), rng.below(6));
    let n = (w * h) as usize;
    let gray = rng.bool();
    let px: Vec<u8> = if gray {
        (0..n).flat_map(|_| { let c = nasty_byte(rng); [c, c, c] }).collect()
    } else {
        rand_pixels(rng, n)
    };
    let m1 = 1 + rng.below(65535);
    let mut text = valid_header(rng, if gray { b"P2" } else { b"P3" }, w, h, Some(m1));
    let samples: Vec<u8> = if gray { px.chunks(3).map(|c| c[0]).collect() } else { px.clone() };
    for (i, s) in samples.iter().enumerate() {
        let mut it = item(rng, *s as u64);
        if i + 1 == samples.len() && rng.bool() {
            it.pop(); // last number may end at EOF
        }
        text.extend(it);
    }
    if rng.chance(1, 4) {
        text.extend(b" trailing # junk 1 2 3");
    }
    let m2 = 1 + rng.below(65535);
    let mut bin = valid_header(rng, if gray { b"P5" } else { b"P6" }, w, h, Some(m2));
    bin.extend(if gray { samples.clone() } else { px.clone() });
    if rng.chance(1, 4) {
        bin.extend(b"\n\n");
    }
    out.push(format!("pair {} {}", hex_bytes(&text), hex_bytes(&bin)));
    // each of them also with its expected image
    out.push(format!("parse {} exp {w} {h} {}", hex_bytes(&text), px_hex(&px)));
    out.push(format!("parse {} exp {w} {h} {}", hex_bytes(&bin), px_hex(&px)));
}

fn printer(w: u64, h: u64, px: &[u8]) -> Vec<u8> {
    let mut v = format!("P6 {w} {h} 255\n").into_bytes();
    v.extend_from_slice(px);
    v
}

fn mutate(rng: &mut Rng, mut v: Vec<u8>) -> Vec<u8> {
    for _ in 0..1 + rng.below(3) {
        let n = v.len() as u64;
        match rng.below(6) {
            0 if n > 0 => {
                let i = rng.below(n) as usize;
                v[i] = nasty_byte(rng);
            }
            1 => {
                let i = rng.below(n + 1) as usize;
                v.insert(i, nasty_byte(rng));
            }
            2 if n > 0 => {
                v.remove(rng.below(n) as usize);
            }
            3 if n > 0 => v.truncate(rng.below(n) as usize),
            4 if n > 0 => {
                // flip inside the header (first 12 bytes)
                let i = rng.below(n.min(12)) as usize;
                v[i] = nasty_byte(rng);
            }
            _ => v.push(nasty_byte(rng)),
        }
    }
    v
}

/// Header-grammar fuzz: plausible but often malformed headers.
fn fuzz_header(rng: &mut Rng) -> Vec<u8> {
    let mut v: Vec<u8> = match rng.below(10) {
        0 => b"P1".to_vec(),
        1 => b"P7".to_vec(),
        2 => vec![b'P'],
        3 => vec![nasty_byte(rng), nasty_byte(rng)],
        _ => format!("P{}", 2 + rng.below(5)).into_bytes(),
    };
    let fields = 2 + rng.below(2);
    for _ in 0..fields {
        // separator: valid gap, nothing, vertical tab, comment glued to the previous token …
        match rng.below(8) {
            0 => {}
            1 => v.push(0x0b),
            2 => v.extend(b"#glued comment\n"),
            3 => v.extend(b" # comment without newline"),
            _ => {
                v.push(*rng.pick(WS));
                v.extend(gap(rng));
            }
        }
        // number: valid small, zero, huge, signed, hex-ish, empty, non-ASCII
        let num: Vec<u8> = match rng.below(14) {
            0 => b"0".to_vec(),
            1 => b"4294967295".to_vec(),
            2 => b"4294967296".to_vec(),
            3 => b"65536".to_vec(),
            4 => b"65535".to_vec(),
            5 => b"-1".to_vec(),
            6 => b"+".to_vec(),
            7 => b"+3".to_vec(),
            8 => b"0x10".to_vec(),
            9 => b"99999999999999999999999".to_vec(),
            10 => vec![b'1', 0xb2],
            11 => b"00000000000000000000000002".to_vec(),
            12 => vec![],
            _ => rng.below(5).to_string().into_bytes(),
        };
        v.extend(num);
    }
    match rng.below(4) {
        0 => {}
        1 => v.push(b'#'),
        _ => v.push(*rng.pick(WS)),
    }
    // some data
    let n = rng.below(40);
    for _ in 0..n {
        let b = if rng.bool() { *rng.pick(b"0123456789 \n") } else { nasty_byte(rng) };
        v.push(b);
    }
    v
}

pub fn gen(rng: &mut Rng, tier: Tier, out: &mut Vec<String>) {
    let q = tier == Tier::Quick;
    let k = if q { 1 } else { 40 };
    out.push("rsws".into());
    // ---- std number grammar and printing
    for n in [0u64, 1, 9, 10, 99, 100, 255, 256, 65535, 65536, 4294967295, 1000000000, 4294967290] {
        out.push(format!("rsdec {n}"));
        for bits in [8, 16, 32] {
            for pre in ["", "+", "0", "+00", "-", " "] {
                out.push(format!("rsnum {bits} {}", hex_bytes(format!("{pre}{n}").as_bytes())));
            }
        }
    }
    for _ in 0..600 * k {
        out.push(format!("rsdec {}", rng.u32() >> rng.below(32)));
        let len = rng.below(13) as usize;
        let tok: Vec<u8> = (0..len)
            .map(|i| match rng.below(12) {
                0 => nasty_byte(rng),
                1 if i == 0 => b'+',
                _ => b'0' + rng.below(10) as u8,
            })
            .collect();
        out.push(format!("rsnum {} {}", [8, 16, 32][rng.below(3) as usize], hex_bytes(&tok)));
    }
    // ---- printer output, read back; every small size with adversarial pixel bytes
    for w in 0..=4u64 {
        for h in 0..=4u64 {
            for _ in 0..(if q { 4 } else { 40 }) {
                let px = rand_pixels(rng, (w * h) as usize);
                out.push(format!("parse {} exp {w} {h} {}", hex_bytes(&printer(w, h, &px)), px_hex(&px)));
            }
        }
    }
    for _ in 0..400 * k {
        let wmax = if rng.chance(1, 10) { 40 } else { 9 };
        let (w, h) = (rng.below(wmax), rng.below(9));
        // one image in forty is LONG in one dimension (257..700): row buffers, chunked readers and narrow
        // counters show only beyond a few hundred pixels
        let (w, h) = match rng.below(80) {
            0 => (257 + rng.below(444), 1 + rng.below(3)),
            1 => (1 + rng.below(3), 257 + rng.below(444)),
            _ => (w, h),
        };
        let px = rand_pixels(rng, (w * h) as usize);
        let p = printer(w, h, &px);
        out.push(format!("parse {} exp {w} {h} {}", hex_bytes(&p), px_hex(&px)));
        // with trailing bytes, and mutated
        let mut p2 = p.clone();
        p2.extend((0..rng.below(5)).map(|_| nasty_byte(rng)));
        out.push(format!("parse {} exp {w} {h} {}", hex_bytes(&p2), px_hex(&px)));
        for _ in 0..3 {
            out.push(format!("parse {} any", hex_bytes(&mutate(rng, p.clone()))));
        }
    }
    // ---- write_ppm on strided sub-views and owned buffers, parsed back
    for _ in 0..500 * k {
        let (w, h) = (rng.below(7), rng.below(7));
        let (w, h) = match rng.below(60) {
            0 => (257 + rng.below(300), 1 + rng.below(3)),
            1 => (1 + rng.below(3), 257 + rng.below(300)),
            // wider than 2048 / 4096 pixels (row staging buffers of a fixed size)
            2 => (2049 + rng.below(3000), 2),
            _ => (w, h),
        };
        let s = w + rng.below(4);
        let need = if h == 0 { 0 } else { (h - 1) * s + w };
        let n = need + rng.below(4);
        let l = rng.below(w + 1);
        let r = l + rng.below(w - l + 1);
        let t = rng.below(h + 1);
        let b = t + rng.below(h - t + 1);
        let px = rand_pixels(rng, n as usize);
        out.push(format!("write {w} {h} {s} {n} {l} {t} {r} {b} {}", px_hex(&px)));
        out.push(format!("writem {w} {h} {s} {n} {l} {t} {r} {b} {}", px_hex(&px)));
        // the file front doors (save_ppm + load_pnm on a temp file): a fifth of the views
        if rng.chance(1, 5) {
            let op = if rng.bool() { "save" } else { "savem" };
            out.push(format!("{op} {w} {h} {s} {n} {l} {t} {r} {b} {}", px_hex(&px)));
        }
        let px = rand_pixels(rng, (w * h) as usize);
        out.push(format!("writeb {w} {h} {}", px_hex(&px)));
        if rng.chance(1, 5) {
            out.push(format!("saveb {w} {h} {}", px_hex(&px)));
        }
    }
    // ---- load_pnm error paths; read_pnm from readers with short reads / an io::Error mid-way
    out.push("loaderr missing".into());
    out.push("loaderr dir".into());
    for _ in 0..150 * k {
        let (w, h) = (rng.below(5), rng.below(5));
        let px = rand_pixels(rng, (w * h) as usize);
        let file = if rng.chance(1, 4) { fuzz_header(rng) } else { printer(w, h, &px) };
        out.push(format!("readshort {} {}", 1 + rng.below(7), hex_bytes(&file)));
        out.push(format!("readfail {} {}", rng.below(file.len() as u64 + 2), hex_bytes(&file)));
    }
    // ---- text and binary encodings of the same image under random valid layouts
    for _ in 0..500 * k {
        gen_pair(rng, out);
    }
    // ---- P4 / P5 / P2 / P3 specifics
    for _ in 0..200 * k {
        let (w, h) = (rng.below(12), rng.below(6));
        let bytes: Vec<u8> = (0..rng.below(12)).map(|_| nasty_byte(rng)).collect();
        let mut v = valid_header(rng, b"P4", w, h, None);
        v.extend(&bytes);
        out.push(format!("parse {} any", hex_bytes(&v)));
        let mut v = valid_header(rng, b"P5", w, h, Some(255));
        v.extend((0..w * h + rng.below(3)).map(|_| nasty_byte(rng)));
        if rng.chance(1, 3) && !v.is_empty() {
            let k = rng.below(v.len() as u64) as usize;
            v.truncate(k);
        }
        out.push(format!("parse {} any", hex_bytes(&v)));
        // text samples out of range / malformed
        let magic: &[u8] = if rng.bool() { b"P3" } else { b"P2" };
        let mut v = valid_header(rng, magic, w.min(3), h.min(3), Some(255));
        for _ in 0..rng.below(30) {
            let s: u64 = match rng.below(8) {
                0 => 256,
                1 => 1000,
                2 => 255,
                _ => rng.below(256),
            };
            v.extend(item(rng, s));
        }
        if rng.chance(1, 4) {
            v.extend(b"12#34 5");
        }
        out.push(format!("parse {} any", hex_bytes(&v)));
    }
    // ---- P4 with widths that are multiples of 8 (no row-padding question): expected image known
    for _ in 0..60 * k {
        let (w, h) = (8 * (1 + rng.below(2)), rng.below(4));
        let bytes: Vec<u8> = (0..w * h / 8).map(|_| nasty_byte(rng)).collect();
        let mut px = vec![];
        for byte in &bytes {
            for i in (0..8).rev() {
                let c = if (byte >> i) & 1 == 1 { 0u8 } else { 255 };
                px.extend([c, c, c]);
            }
        }
        let mut v = valid_header(rng, b"P4", w, h, None);
        v.extend(&bytes);
        out.push(format!("parse {} exp {w} {h} {}", hex_bytes(&v), px_hex(&px)));
    }
    // ---- header grammar fuzz, huge and zero dimensions
    for _ in 0..3000 * k {
        out.push(format!("parse {} any", hex_bytes(&fuzz_header(rng))));
    }
    let fixed: &[&[u8]] = &[
        b"P6 0 5 255\n", b"P6 5 0 255\n", b"P6 0 0 255\n", b"P5 0 3 255\n", b"P4 0 3\n", b"P3 0 7 255\n", b"P2 7 0 255\n",
        b"P6 65536 65536 255\n", b"P6 65535 65537 255\n", b"P5 4294967295 4294967295 255\n", b"P5 4294967295 1 255\nabc",
        b"P4 4294967295 2\n\x00", b"P3 65536 65536 255\n1 2 3", b"P2 4294967295 4294967295 255 1", b"P6 4294967296 1 255\n",
        b"P6 1 1 65536\nabc", b"P6 1 1 65535\nabc", b"P6 1 1 0\nabc", b"P6 1 1\nabc", b"P6 1 1 255", b"P6 1 1 255\n", b"P6", b"P", b"",
        b"P6 2 2 255\nabcdefghijk", b"P6 2 2 255\nabcdefghijkl", b"P61 1 255 abc", b"P6#c\n1 1 255 abc", b"P6 1#c\n1 255 abc",
        b"P6 1 #c\n1 255 abc", b"P6\x0b1 1 255 abc", b"P3 1 1 255 1 2", b"P3 1 1 255 1 2 3", b"P3 1 1 255 1 2 256", b"P3 1 1 255 1 2 +3",
        b"P2 2 1 255 7 #c\n 8", b"P2 2 1 255 7#c\n 8", b"P1 1 1 0", b"P7 1 1 255\n", b"p6 1 1 255\nabc", b"P5 2 2 255\n\x01\x02\x03", b"P4 4 2\n\x69",
        b"P4 9 1\n\xff", b"P4 8 1\n\xff", b"P4 3 3\n\xaa\x55",
    ];
    for s in fixed {
        out.push(format!("parse {} any", hex_bytes(s)));
    }
    // ---- raw noise
    for _ in 0..1500 * k {
        let n = rng.below(24);
        let mut v: Vec<u8> = (0..n).map(|_| nasty_byte(rng)).collect();
        if rng.bool() && v.len() >= 2 {
            v[0] = b'P';
            v[1] = b'1' + rng.below(7) as u8;
        }
        out.push(format!("parse {} any", hex_bytes(&v)));
    }
}

fn main() {
    vharness::harness_main(gen, run);
}
