//! C14: OBJ parsing is total and faithful (geom/src/io.rs, core/src/geom/mesh.rs).
//!
//! ops
//!   obj  <mode> <hexbytes>                                  arbitrary bytes
//!   objw <mode> <hexbytes> <nv> <nf> <3nv f32 bits> <3nf zero-based indices>
//!                                                           generated well-formed file + what it lists
//!   objr <mode> <hexbytes>     read_obj from a slice          objs <seed> <hexbytes>  short reads 1..7
//!   objio <cut> <hexbytes>     reader failing after <cut> bytes  objf <mode> <hexbytes>  load_obj from a temp file
//!   objmiss <k>                load_obj of a missing path
//!        (errors of these ops are followed by `| <hex of Display> <source() is Some>`)
//!   f32  <hexbytes>      `str::parse::<f32>` on the Latin-1 decoding  -> some <bits> | none
//!   usz  <hexbytes>      `str::parse::<usize>`                         -> some <n> | none
//! output of obj/objw
//!   ok <nv> <nf> <3nv bits> <3nf indices> <bok|bpanic>   (bok: Builder::build() did not panic)
//!   err unsupported <code point> | err end | err invalid | err oob <vertex|texcoord|normal> <i>
use std::panic::{catch_unwind, AssertUnwindSafe};

use std::io::{BufReader, Read};

use rg::io::{load_obj, parse_obj, read_obj, Error};

use vharness::util::*;

// ---------------------------------------------------------------------------
// generator
// ---------------------------------------------------------------------------

struct GenMesh {
    verts: Vec<[f32; 3]>,
    faces: Vec<[usize; 3]>,
}

fn interesting_f32(rng: &mut Rng) -> f32 {
    match rng.below(16) {
        0 => 0.0,
        1 => -0.0,
        2 => 1.0,
        3 => -1.0,
        4 => f32::MAX,
        5 => f32::MIN_POSITIVE,
        6 => f32::from_bits(1 + rng.below(100) as u32), // subnormal
        7 => f32::from_bits(rng.u32() & 0x007f_ffff),   // subnormal
        8 => rng.range(-1000, 1000) as f32,
        9 => rng.range(-1000, 1000) as f32 / 8.0,
        10 | 11 => {
            // any finite bit pattern
            let b = rng.u32();
            let x = f32::from_bits(b);
            if x.is_finite() { x } else { 3.5 }
        }
        12 => 16_777_216.0 + rng.below(100) as f32 * 2.0,
        _ => rng.f32_in(-10.0, 10.0),
    }
}

fn gen_mesh(rng: &mut Rng, big: bool) -> GenMesh {
    let nv = if big { 50 + rng.below(700) } else { rng.below(9) } as usize; // big: crosses 255 vertices
    let nf = if nv == 0 { 0 } else if big { rng.below(300) } else { rng.below(8) } as usize;
    let verts = (0..nv)
        .map(|_| [interesting_f32(rng), interesting_f32(rng), interesting_f32(rng)])
        .collect();
    let faces = (0..nf)
        .map(|_| {
            let mut f = [0usize; 3];
            for k in &mut f {
                // the largest and smallest index are the interesting ones
                *k = match rng.below(6) {
                    0 => nv - 1,
                    1 => 0,
                    _ => rng.below(nv as u64) as usize,
                };
            }
            f
        })
        .collect();
    GenMesh { verts, faces }
}

/// A decimal text that `f32::from_str` must map back to exactly `x`: Rust's shortest
/// round-trip output in several notations, or at least 9 significant digits.
fn float_text(rng: &mut Rng, x: f32) -> String {
    let is_int = x.fract() == 0.0 && x.abs() < 1e7;
    match rng.below(12) {
        0 => format!("{x}"),
        1 => format!("{x:?}"),
        2 => format!("{x:e}"),
        3 => format!("{x:E}"),
        4 => format!("{x:+}"),
        5 => format!("{x:+e}"),
        6 => format!("{x:.12e}"),
        7 => format!("{:.*e}", 9 + rng.below(40) as usize, x),
        8 if is_int => format!("{}.", x), // "5."
        9 if x != 0.0 && x.abs() < 1.0 && x.abs() > 1e-6 => {
            // ".5" without the leading zero
            let s = format!("{x}");
            s.replacen("0.", ".", 1)
        }
        10 if is_int => format!("{}e0", x),
        11 => {
            // exponent with explicit plus and leading zeros: 1.5e+003
            let s = format!("{x:e}");
            match s.split_once('e') {
                Some((m, e)) if !e.starts_with('-') => format!("{m}e+00{e}"),
                Some((m, e)) => format!("{m}E-0{}", &e[1..]),
                None => s,
            }
        }
        _ => format!("{x}"),
    }
}

const HWS: &[u8] = b"  \t\r\x0c";

/// Set per file by `gen_wellformed`: one file in eight has very long lines (hundreds to thousands of
/// bytes of indentation, padding or comment text) — line-length assumptions of a reader show only there.
static LONG_LINES: std::sync::atomic::AtomicBool = std::sync::atomic::AtomicBool::new(false);

fn hws(rng: &mut Rng, min: usize) -> Vec<u8> {
    let long = LONG_LINES.load(std::sync::atomic::Ordering::Relaxed) && rng.chance(1, 6);
    let n = if long { 150 + rng.below(1400) as usize } else if rng.chance(3, 4) { min } else { min + rng.below(4) as usize };
    (0..n).map(|_| *rng.pick(HWS)).collect()
}

struct Layout {
    /// 0: plain `a`, 1: `a/b`, 2: `a//c`, 3: `a/b/c`, 4: mixed per corner
    form: u64,
    /// 0: vertices first, 1: faces first, 2: shuffled
    order: u64,
    crlf: bool,
    final_newline: bool,
    noise: bool, // blank lines, comments, indentation
    n_tex: usize,
    n_norm: usize,
}

fn index_text(rng: &mut Rng, lay: &Layout, pos: usize) -> String {
    let form = if lay.form == 4 { rng.below(4) } else { lay.form };
    let p = if rng.chance(1, 20) { format!("+{}", pos + 1) } else if rng.chance(1, 20) { format!("00{}", pos + 1) } else { format!("{}", pos + 1) };
    let t = 1 + rng.below(lay.n_tex.max(1) as u64);
    let n = 1 + rng.below(lay.n_norm.max(1) as u64);
    match form {
        0 => p,
        1 => format!("{p}/{t}"),
        2 => format!("{p}//{n}"),
        _ => {
            if rng.chance(1, 10) { format!("{p}/{t}/{n}/7/x") } else { format!("{p}/{t}/{n}") }
        }
    }
}

fn print_obj(rng: &mut Rng, m: &GenMesh, lay: &Layout) -> Vec<u8> {
    let mut vlines: Vec<Vec<u8>> = Vec::new();
    let mut flines: Vec<Vec<u8>> = Vec::new();
    let mut olines: Vec<Vec<u8>> = Vec::new();
    let line = |rng: &mut Rng, toks: &[String]| -> Vec<u8> {
        let mut l = Vec::new();
        if lay.noise {
            l.extend(hws(rng, 0));
        }
        for (i, t) in toks.iter().enumerate() {
            if i > 0 {
                if lay.noise { l.extend(hws(rng, 1)) } else { l.push(b' ') }
            }
            l.extend(t.bytes());
        }
        if lay.noise {
            l.extend(hws(rng, 0));
        }
        l
    };
    for v in &m.verts {
        let toks = vec!["v".to_string(), float_text(rng, v[0]), float_text(rng, v[1]), float_text(rng, v[2])];
        vlines.push(line(rng, &toks));
    }
    for f in &m.faces {
        let toks = vec![
            "f".to_string(),
            index_text(rng, lay, f[0]),
            index_text(rng, lay, f[1]),
            index_text(rng, lay, f[2]),
        ];
        flines.push(line(rng, &toks));
    }
    for _ in 0..lay.n_tex {
        let (a, b) = (rng.unit(), rng.unit());
        let toks = vec!["vt".to_string(), float_text(rng, a), float_text(rng, b)];
        olines.push(line(rng, &toks));
    }
    for _ in 0..lay.n_norm {
        let (a, b) = (rng.f32_in(-1.0, 1.0), rng.f32_in(-1.0, 1.0));
        let toks = vec!["vn".to_string(), float_text(rng, a), float_text(rng, b), float_text(rng, 1.0)];
        olines.push(line(rng, &toks));
    }
    // merge keeping the relative order inside each class
    let mut lines: Vec<Vec<u8>> = Vec::new();
    let (mut vi, mut fi, mut oi) = (0, 0, 0);
    loop {
        let rem = [vlines.len() - vi, flines.len() - fi, olines.len() - oi];
        if rem.iter().sum::<usize>() == 0 {
            break;
        }
        let class = match lay.order {
            0 => if rem[0] > 0 { 0 } else if rem[2] > 0 { 2 } else { 1 },
            1 => if rem[1] > 0 { 1 } else if rem[2] > 0 { 2 } else { 0 },
            _ => loop {
                let c = rng.below(3) as usize;
                if rem[c] > 0 { break c; }
            },
        };
        if lay.noise && rng.chance(1, 4) {
            let mut l = hws(rng, 0);
            if rng.bool() {
                l.push(b'#');
                let long = LONG_LINES.load(std::sync::atomic::Ordering::Relaxed) && rng.bool();
                let n = if long { 300 + rng.below(2500) } else { rng.below(12) };
                for _ in 0..n {
                    let b = match rng.below(4) { 0 => rng.below(256) as u8, 1 => b' ', _ => b'a' + rng.below(26) as u8 };
                    if b != b'\n' { l.push(b) }
                    // text that would be an item if the comment were cut: " v 9 9 9 ", " f 1 1 1 "
                    if long && rng.chance(1, 40) { l.extend(if rng.bool() { &b" v 9 9 9 "[..] } else { &b" f 1 1 1 "[..] }) }
                }
            }
            lines.push(l);
        }
        match class {
            0 => { lines.push(vlines[vi].clone()); vi += 1 }
            1 => { lines.push(flines[fi].clone()); fi += 1 }
            _ => { lines.push(olines[oi].clone()); oi += 1 }
        }
    }
    let mut out = Vec::new();
    let n = lines.len();
    for (i, l) in lines.into_iter().enumerate() {
        out.extend(l);
        if i + 1 < n || lay.final_newline {
            if lay.crlf { out.push(b'\r') }
            out.push(b'\n');
        }
    }
    out
}

fn gen_wellformed(rng: &mut Rng, big: bool) -> (String, Vec<u8>, GenMesh) {
    let m = gen_mesh(rng, big);
    let long = rng.chance(1, 8);
    LONG_LINES.store(long, std::sync::atomic::Ordering::Relaxed);
    let form = rng.below(5);
    let lay = Layout {
        form,
        order: rng.below(3),
        crlf: rng.chance(1, 5),
        final_newline: rng.bool(),
        noise: rng.chance(2, 3),
        n_tex: if form == 1 || form >= 3 { 1 + rng.below(4) as usize } else { rng.below(2) as usize },
        n_norm: if form >= 2 { 1 + rng.below(4) as usize } else { rng.below(2) as usize },
    };
    let bytes = print_obj(rng, &m, &lay);
    LONG_LINES.store(false, std::sync::atomic::Ordering::Relaxed);
    let mode = format!(
        "wf-form{}-{}{}{}{}",
        lay.form,
        ["vfirst", "ffirst", "mixed"][lay.order as usize],
        if lay.crlf { "-crlf" } else { "" },
        if lay.noise { "-noise" } else { "" },
        if long && lay.noise { "-longlines" } else { "" }
    );
    (mode, bytes, m)
}

const BAD_TOKENS: &[&str] = &[
    "0", "-1", "-0", "+0", "+1", "18446744073709551615", "18446744073709551616", "99999999999999999999999",
    "1/", "1//", "1/2/", "/1", "//", "/", "1/0", "1//0", "1/2/3/4", "1/x", "x", "1.0", "1e0", "", "+", "-",
    "0x1", "١", "1_0", " 1", "2/-1/3", "3/+2/+1", "4294967296", "4294967297", "9223372036854775808",
];
const BAD_FLOATS: &[&str] = &[
    "", ".", "+", "-", "e5", ".e5", "1e", "1e+", "1e-", "1.5.2", "1,5", "0x10", "1f", "1_0", "inf", "-inf", "+inf",
    "infinity", "INF", "iNfInItY", "infinit", "nan", "NaN", "-nan", "nanx", "1e400", "-1e400", "1e-400",
    "1e99999999999999999999", "0e99999999999999999999", "1e-99999999999999999999", "3.4028236e38", "3.4028235e38",
    "3.40282357e38", "1.17549435e-38", "1.4e-45", "7e-46", "7.006492321624085e-46", "7.006492321624086e-46",
    "16777217", "16777219", "0.1", "1.", ".1", "+.5e-1", "1E5", "1e+5", "0000001", "1.0000000596046448",
    "1.00000005960464477539062", "1.00000005960464477539063", "9007199254740993", "\u{e9}", "1\u{a0}",
];

fn mutate(rng: &mut Rng, src: &[u8]) -> (String, Vec<u8>) {
    let mut b = src.to_vec();
    let kind = rng.below(12);
    // token boundaries
    let toks: Vec<(usize, usize)> = {
        let mut v = Vec::new();
        let mut i = 0;
        while i < b.len() {
            if b[i].is_ascii_whitespace() { i += 1; continue; }
            let s = i;
            while i < b.len() && !b[i].is_ascii_whitespace() { i += 1 }
            v.push((s, i));
        }
        v
    };
    let name;
    match kind {
        0 | 1 | 2 if !toks.is_empty() => {
            // replace one token by an adversarial index / float
            let (s, e) = *rng.pick(&toks);
            let rep = if rng.bool() { *rng.pick(BAD_TOKENS) } else { *rng.pick(BAD_FLOATS) };
            let latin1: Vec<u8> = rep.chars().map(|c| if (c as u32) < 256 { c as u32 as u8 } else { b'?' }).collect();
            b.splice(s..e, latin1);
            name = "mut-token";
        }
        3 if !toks.is_empty() => {
            let (s, e) = *rng.pick(&toks);
            b.drain(s..e);
            name = "mut-drop-token";
        }
        4 if !b.is_empty() => {
            let i = rng.below(b.len() as u64) as usize;
            b[i] = rng.below(256) as u8;
            name = "mut-byte";
        }
        5 => {
            let i = rng.below(b.len() as u64 + 1) as usize;
            b.insert(i, 0x80 + rng.below(128) as u8);
            name = "mut-nonascii";
        }
        6 if !b.is_empty() => {
            let i = rng.below(b.len() as u64) as usize;
            b.truncate(i);
            name = "mut-truncate";
        }
        7 if !toks.is_empty() => {
            // bump an index out of range or to a huge value
            let (s, e) = *rng.pick(&toks);
            let rep: &[u8] = match rng.below(4) { 0 => b"1000", 1 => b"10", 2 => b"18446744073709551615", _ => b"9" };
            b.splice(s..e, rep.iter().copied());
            name = "mut-index";
        }
        8 => {
            // remove every `v` (or `vt`, or `vn`) line: faces that refer to nothing
            let kw: &[u8] = *rng.pick(&[&b"v"[..], b"v", b"vt", b"vn"]);
            let text: Vec<&[u8]> = b.split(|&c| c == b'\n').filter(|l| {
                let t: Vec<u8> = l.iter().copied().skip_while(|c| c.is_ascii_whitespace()).collect();
                !(t.starts_with(kw) && t.get(kw.len()).map_or(true, |c| c.is_ascii_whitespace()))
            }).collect();
            b = text.join(&b'\n');
            name = if kw == b"v" { "mut-no-verts" } else { "mut-no-attrs" };
        }
        9 if !b.is_empty() => {
            let i = rng.below(b.len() as u64) as usize;
            b.insert(i, *rng.pick(b"/ \n#vfnt+-.e0\x0b\x0c\r"));
            name = "mut-insert";
        }
        10 if !toks.is_empty() => {
            let (s, e) = *rng.pick(&toks);
            let t: Vec<u8> = b[s..e].to_vec();
            b.splice(s..s, t.into_iter().chain([b' ']));
            name = "mut-dup-token";
        }
        _ => {
            let i = rng.below(b.len() as u64 + 1) as usize;
            let item: &[u8] = *rng.pick(&[&b"\nvx 1 2 3\n"[..], b"\nV 1 2 3\n", b"\ng x\n", b"\nvt 1\n", b"\nvn 1 2\n", b"\nf 1 2\n", b"\nf\n", b"\nv\n", b"\n\xe9\n", b"\n\x80 1\n", b"\nvt 0.5 0.5 0.5\n", b"\nf 1 2 3 4 5\n", b"\nv 1 2 3 4\n", b"\n#\n", b"\nff 1 2 3\n", b"\nvnn 1 2 3\n"]);
            b.splice(i..i, item.iter().copied());
            name = "mut-item";
        }
    }
    (name.to_string(), b)
}

fn noise(rng: &mut Rng) -> Vec<u8> {
    let n = rng.below(60) as usize;
    const ALPHA: &[u8] = b"vvvfffnt##//..--++ee0011223456789   \n\n\r\t";
    (0..n)
        .map(|_| if rng.chance(1, 12) { rng.below(256) as u8 } else { *rng.pick(ALPHA) })
        .collect()
}

fn case_w(mode: &str, bytes: &[u8], m: &GenMesh) -> String {
    let mut s = format!("objw {mode} {} {} {}", hex_bytes(bytes), m.verts.len(), m.faces.len());
    for v in &m.verts {
        for c in v {
            s += " ";
            s += &h32(*c);
        }
    }
    for f in &m.faces {
        s += &format!(" {} {} {}", f[0], f[1], f[2]);
    }
    s
}

pub fn gen(rng: &mut Rng, tier: Tier, out: &mut Vec<String>) {
    let q = tier == Tier::Quick;
    // the repo's own test inputs
    for t in [
        &b"\n# comment\nf 1 2 4\n f 4 1 3\n#anothercomment\n    v 0.0 0.0       0.0\nv       1.0 0.0 0.0\n  # comment with leading whitespace\nv 0.0 -2.0 0.0\n        v 1 2 3"[..],
        b"v -1.0e0 0.2e1  3.0e-2",
        b"f 1/1/1 2/3/2 3/2/2\nf 4/3/2 1/2/3 3/1/3\n\nvn 1.0 0.0 0.0\nvt 0.0 0.0 0.0\nv 0.0 0.0 0.0\nv 1.0 0.0 0.0\nvn 1.0 0.0 0.0\nv 0.0 2.0 0.0\nvt 1.0 1.0 1.0\nv 1.0 2.0 3.0\nvt 0.0 -1.0 2.0\nvn 1.0 0.0 0.0",
        b"f 1//1 2//3 4//2\nf 4//3 1//2 3//1\n\nvn 1.0 0.0 0.0\nv 0.0 0.0 0.0\nv 1.0 0.0 0.0\nv 0.0 2.0 0.0\nvn 0.0 1.0 0.0\nv 1.0 2.0 3.0\nvn 0.0 0.0 -1.0",
        b"",
        b"   \n     \n\n ",
        b"# comment\n #another comment",
        b"f 1 2 3\nxyz 4 5 6",
        b"f 1 2 3\nv 0.0 0.0 0.0\nv 1.0 1.0 1.0",
        b"f 1/1 1/4 1/2\nv 0.0 0.0 0.0\nvt 0.0 0.0\nvt 0.0 1.0",
        b"f",
        b"f 1 1 1//3\nv 0 0 0\nvn 0 0 1",
        b"f 1 2 3\n",
        b"f 1 1 1",
        b"v 1 2 3\nf 1 1 2",
        b"\xe9",
        b"\x80",
        b"\xbf\n",
        b"\xc0",
        b"\xff v",
        b"v\x0b1 2 3",
        b"v 1\x0c2\r3\n",
    ] {
        out.push(format!("obj literal {}", hex_bytes(t)));
    }
    // well-formed files
    let n_wf = if q { 2500 } else { 60_000 };
    let mut wf_pool: Vec<Vec<u8>> = Vec::new();
    for i in 0..n_wf {
        let big = i % 100 == 99;
        let (mode, bytes, m) = gen_wellformed(rng, big);
        out.push(case_w(&mode, &bytes, &m));
        if !big && wf_pool.len() < 2000 {
            wf_pool.push(bytes);
        }
    }
    // mutated files
    let n_mut = if q { 5000 } else { 150_000 };
    for _ in 0..n_mut {
        let base = rng.pick(&wf_pool).clone();
        let (mut name, mut b) = mutate(rng, &base);
        if rng.chance(1, 4) {
            let (n2, b2) = mutate(rng, &b);
            name = format!("{name}+{n2}");
            b = b2;
        }
        out.push(format!("obj {name} {}", hex_bytes(&b)));
    }
    // noise
    let n_noise = if q { 2500 } else { 80_000 };
    for _ in 0..n_noise {
        out.push(format!("obj noise {}", hex_bytes(&noise(rng))));
    }
    // the same reader behind `read_obj` (slice, short reads, failing mid-way) and `load_obj` (file)
    let n_io = if q { 500 } else { 10_000 };
    for i in 0..n_io {
        let bytes = match i % 3 {
            0 => rng.pick(&wf_pool).clone(),
            1 => { let base = rng.pick(&wf_pool).clone(); mutate(rng, &base).1 }
            _ => noise(rng),
        };
        let h = hex_bytes(&bytes);
        out.push(format!("objr reader {h}"));
        out.push(format!("objs {} {h}", h64(rng.u64())));
        if i % 2 == 0 {
            out.push(format!("objf file {h}"));
        }
        let cut = match rng.below(4) { 0 => 0, 1 => bytes.len(), 2 => bytes.len() + 1, _ => rng.below(bytes.len() as u64 + 1) as usize };
        out.push(format!("objio {cut} {h}"));
    }
    for k in 0..3 {
        out.push(format!("objmiss {k}"));
    }
    // one file of more than 1 MiB (70 000+ vertex lines): size limits of the buffered readers
    out.push(format!("objbig {} {}", h64(rng.u64()), 70_000 + rng.below(3000)));
    // every single byte, and every byte as an item
    for b in 0..=255u8 {
        out.push(format!("obj byte {}", hex_bytes(&[b])));
        out.push(format!("obj byte {}", hex_bytes(&[b' ', b, b' ', b'1', b'\n'])));
        out.push(format!("obj byte {}", hex_bytes(&[b'v', b, b'1', b' ', b'2', b' ', b'3'])));
    }
    // float and integer token grammars against core::str::parse
    for t in BAD_FLOATS.iter().chain(BAD_TOKENS.iter()) {
        let latin1: Vec<u8> = t.chars().map(|c| if (c as u32) < 256 { c as u32 as u8 } else { b'?' }).collect();
        out.push(format!("f32 {}", hex_bytes(&latin1)));
        out.push(format!("usz {}", hex_bytes(&latin1)));
    }
    let n_tok = if q { 6000 } else { 200_000 };
    for i in 0..n_tok {
        let x = interesting_f32(rng);
        let mut s = float_text(rng, x).into_bytes();
        match i % 8 {
            0 => {
                // decimal with random digits and exponent: rounding cases far from shortest output
                let nd = 1 + rng.below(30);
                s = Vec::new();
                if rng.bool() { s.push(*rng.pick(b"+-")) }
                let dot = rng.below(nd + 1);
                for k in 0..nd {
                    if k == dot { s.push(b'.') }
                    s.push(b'0' + rng.below(10) as u8);
                }
                if rng.bool() {
                    s.push(*rng.pick(b"eE"));
                    s.extend(format!("{}", rng.range(-60, 50)).bytes());
                }
            }
            1 => {
                // halfway cases: exact decimal expansion of the midpoint between two floats
                let b = rng.u32() & 0x7f7f_ffff;
                let lo = f32::from_bits(b) as f64;
                let hi = f32::from_bits(b + 1) as f64;
                if hi.is_finite() {
                    let mid = (lo + hi) / 2.0;
                    s = format!("{:.*e}", 60, mid).into_bytes();
                    match rng.below(3) { 0 => {} 1 => { let l = s.iter().position(|&c| c == b'e').unwrap(); s.insert(l, b'1') } _ => { /* slightly below: drop digits */ let l = s.iter().position(|&c| c == b'e').unwrap(); s.drain(l - 30..l); } }
                }
            }
            2 if !s.is_empty() => {
                let k = rng.below(s.len() as u64) as usize;
                s[k] = *rng.pick(b"0123456789.eE+-xX_ \xe9infaINFTY");
            }
            3 if !s.is_empty() => {
                let k = rng.below(s.len() as u64 + 1) as usize;
                s.insert(k, *rng.pick(b"0123456789.eE+-"));
            }
            4 => {
                s = format!("{}", rng.u64() >> rng.below(64)).into_bytes();
                if rng.chance(1, 4) { s.insert(0, b'+') }
                if rng.chance(1, 8) { s.insert(0, b'0') }
                if rng.chance(1, 8) { s.extend(b"0") }
            }
            _ => {}
        }
        out.push(format!("f32 {}", hex_bytes(&s)));
        if i % 4 == 0 {
            out.push(format!("usz {}", hex_bytes(&s)));
        }
    }
}

// ---------------------------------------------------------------------------
// runner
// ---------------------------------------------------------------------------

/// Result in the protocol's vocabulary.  With `detail`, an error is followed by
/// `| <hex of its Display text> <1 if source() is Some else 0>`; for an OS error the text is
/// platform dependent, so only `pre` (starts with "I/O error: ") is reported.
fn render(res: Result<re::geom::mesh::Builder<()>, Error>, detail: bool) -> String {
    use std::error::Error as _;
    match res {
        Ok(b) => {
            let mut s = format!("ok {} {}", b.mesh.verts.len(), b.mesh.faces.len());
            for v in &b.mesh.verts {
                s += &format!(" {} {} {}", h32(v.pos.x()), h32(v.pos.y()), h32(v.pos.z()));
            }
            for f in &b.mesh.faces {
                s += &format!(" {} {} {}", f.0[0], f.0[1], f.0[2]);
            }
            let built = catch_unwind(AssertUnwindSafe(|| b.build().faces.len()));
            s += if built.is_ok() { " bok" } else { " bpanic" };
            s
        }
        Err(e) => {
            let head = match &e {
                Error::UnsupportedItem(c) => format!("err unsupported {}", *c as u32),
                Error::UnexpectedEnd => "err end".into(),
                Error::InvalidValue => "err invalid".into(),
                Error::IndexOutOfBounds(what, i) => format!("err oob {what} {i}"),
                Error::Io(io) => format!("err io {:?}", io.kind()),
            };
            if !detail {
                return head;
            }
            let text = format!("{e}");
            let src = if e.source().is_some() { 1 } else { 0 };
            let shown = match &e {
                Error::Io(io) if io.raw_os_error().is_some() => {
                    if text.starts_with("I/O error: ") { "pre".to_string() } else { "nopre".to_string() }
                }
                _ => hex_bytes(text.as_bytes()),
            };
            format!("{head} | {shown} {src}")
        }
    }
}

/// Reader that hands out 1..7 bytes per call.
struct Chunky { data: Vec<u8>, pos: usize, state: u64 }
impl Read for Chunky {
    fn read(&mut self, buf: &mut [u8]) -> std::io::Result<usize> {
        self.state ^= self.state << 13; self.state ^= self.state >> 7; self.state ^= self.state << 17;
        let want = 1 + (self.state % 7) as usize;
        let n = want.min(buf.len()).min(self.data.len() - self.pos);
        buf[..n].copy_from_slice(&self.data[self.pos..self.pos + n]);
        self.pos += n;
        Ok(n)
    }
}

/// Reader that delivers `cut` bytes one at a time and then fails.
struct Failing { data: Vec<u8>, pos: usize, cut: usize }
impl Read for Failing {
    fn read(&mut self, buf: &mut [u8]) -> std::io::Result<usize> {
        if self.pos >= self.cut.min(self.data.len()) {
            return Err(std::io::Error::new(std::io::ErrorKind::BrokenPipe, "boom"));
        }
        if buf.is_empty() { return Ok(0) }
        buf[0] = self.data[self.pos];
        self.pos += 1;
        Ok(1)
    }
}

fn scratch_file() -> std::path::PathBuf {
    use std::sync::atomic::{AtomicUsize, Ordering};
    static N: AtomicUsize = AtomicUsize::new(0);
    let dir = std::env::var_os("VERIF_SCRATCH").map(std::path::PathBuf::from).unwrap_or_else(std::env::temp_dir);
    let _ = std::fs::create_dir_all(&dir);
    dir.join(format!("vharness-c14-{}-{}.obj", std::process::id(), N.fetch_add(1, Ordering::Relaxed)))
}

fn latin1(b: &[u8]) -> String {
    b.iter().map(|&c| char::from(c)).collect()
}

pub fn run(t: &[&str]) -> String {
    match t[0] {
        "obj" | "objw" => {
            let bytes = parse_hex_bytes(t[2]);
            render(parse_obj(bytes), false)
        }
        // the same bytes through `read_obj` from a slice reader
        "objr" => render(read_obj(&parse_hex_bytes(t[2])[..]), true),
        // ... through a buffered reader whose source returns short reads of 1..7 bytes
        "objs" => {
            let src = Chunky { data: parse_hex_bytes(t[2]), pos: 0, state: pu64h(t[1]) | 1 };
            render(read_obj(BufReader::with_capacity(8, src)), true)
        }
        // ... from a reader that fails with an io::Error after `cut` bytes
        "objio" => {
            let cut: usize = t[1].parse().unwrap();
            render(read_obj(Failing { data: parse_hex_bytes(t[2]), pos: 0, cut }), true)
        }
        // ... through `load_obj` from a temporary file
        "objf" => {
            let path = scratch_file();
            std::fs::write(&path, parse_hex_bytes(t[2])).expect("write temp file");
            let r = load_obj(&path);
            let _ = std::fs::remove_file(&path);
            render(r, true)
        }
        // a LARGE well-formed file (`nv` vertex lines, > 1 MiB, faces over the first and the last vertices) built
        // from the seed: parse_obj on the bytes, read_obj from a slice reader and load_obj from a file must all
        // return the same builder with all `nv` vertices. Implementation against itself (the model is not run).
        "objbig" => {
            let mut rng = Rng::new(pu64h(t[1]));
            let nv: usize = t[2].parse().unwrap();
            let mut text = String::with_capacity(nv * 24);
            for i in 0..nv {
                text += &format!("v {}.{:03} {} -{}.5\n", i % 997, rng.below(1000), i, rng.below(100));
            }
            for k in 0..50usize {
                text += &format!("f {} {} {}\n", 1 + k, nv - k, 1 + (k * 7919) % nv);
            }
            let bytes = text.into_bytes();
            let a = render(parse_obj(bytes.iter().copied()), false);
            let b = render(read_obj(&bytes[..]), false);
            let path = scratch_file();
            std::fs::write(&path, &bytes).expect("write temp file");
            let c = render(load_obj(&path), false);
            let _ = std::fs::remove_file(&path);
            let head = |s: &str| s.split(' ').take(3).collect::<Vec<_>>().join(" ");
            format!("{} | {} | {} | {} {}", head(&a), head(&b), head(&c), (a == b) as u8, (a == c) as u8)
        }
        // a path that does not exist
        "objmiss" => {
            let mut path = scratch_file();
            path.set_extension(format!("missing{}", t[1]));
            render(load_obj(&path), true)
        }
        "f32" => match latin1(&parse_hex_bytes(t[1])).parse::<f32>() {
            Ok(x) => format!("some {}", h32(x)),
            Err(_) => "none".into(),
        },
        "usz" => match latin1(&parse_hex_bytes(t[1])).parse::<usize>() {
            Ok(x) => format!("some {x}"),
            Err(_) => "none".into(),
        },
        _ => panic!("unknown op"),
    }
}

fn main() {
    vharness::harness_main(gen, run)
}
