//! C15: generated solids are closed, consistently wound and carry unit normals
//! (geom/src/solids/lathe.rs, platonic.rs).
//!
//! ops (all f32 as bit patterns, counts in decimal)
//!   plat    <tetra|octa|dodeca|icosa>
//!   box     <lx> <ly> <lz> <rx> <ry> <rz>
//!   cube    <side>            Box::cube(side)
//!   boxdef                    Box::default()
//!   sphere  <sectors> <segments> <radius>
//!   torus   <major_sectors> <minor_sectors> <major_radius> <minor_radius>
//!   cyl     <sectors> <segments> <capped 0|1> <radius>
//!   cone    <sectors> <segments> <capped 0|1> <base_radius> <apex_radius>
//!   capsule <sectors> <body_segments> <cap_segments> <radius>
//!   lathe   <sectors> <capped 0|1> <az_start turns> <az_end turns> <n_points> (<x> <y> <nx> <ny>)*
//! output
//!   <nv> <nf> (<px> <py> <pz> <nx> <ny> <nz>)*nv (<a> <b> <c>)*nf
use re::geom::{vertex, Mesh, Normal3};
use re::math::{pt2, pt3, turns, vec2};
use rg::solids::*;

use vharness::util::*;

fn dump(m: &Mesh<Normal3>) -> String {
    let mut s = format!("{} {}", m.verts.len(), m.faces.len());
    for v in &m.verts {
        s += &format!(
            " {} {} {} {} {} {}",
            h32(v.pos.x()),
            h32(v.pos.y()),
            h32(v.pos.z()),
            h32(v.attrib.x()),
            h32(v.attrib.y()),
            h32(v.attrib.z())
        );
    }
    for f in &m.faces {
        s += &format!(" {} {} {}", f.0[0], f.0[1], f.0[2]);
    }
    s
}

pub fn gen(rng: &mut Rng, tier: Tier, out: &mut Vec<String>) {
    let q = tier == Tier::Quick;
    let smax: u32 = if q { 8 } else { 12 }; // sectors 3..=smax, exhaustively
    let gmax: u32 = if q { 6 } else { 12 }; // segments up to gmax, exhaustively
    for p in ["tetra", "octa", "dodeca", "icosa"] {
        out.push(format!("plat {p}"));
    }
    // boxes: cubes, asymmetric extents, negative and offset corners
    let mut boxes: Vec<[f32; 6]> = vec![
        [-0.5, -0.5, -0.5, 0.5, 0.5, 0.5],
        [-1.0, -1.0, -1.0, 1.0, 1.0, 1.0],
        [0.0, 0.0, 0.0, 1.0, 2.0, 3.0],
        [-3.0, 1.0, -0.25, -1.0, 1.5, 8.0],
        [10.0, 20.0, 30.0, 10.5, 20.25, 30.125],
        [-100.0, -0.5, -1.0, 100.0, 0.5, 1.0],
    ];
    for _ in 0..(if q { 40 } else { 400 }) {
        let l = [rng.f32_in(-10.0, 10.0), rng.f32_in(-10.0, 10.0), rng.f32_in(-10.0, 10.0)];
        boxes.push([
            l[0],
            l[1],
            l[2],
            l[0] + rng.f32_in(0.01, 10.0),
            l[1] + rng.f32_in(0.01, 10.0),
            l[2] + rng.f32_in(0.01, 10.0),
        ]);
    }
    for b in boxes {
        out.push(format!("box {}", b.iter().map(|x| h32(*x)).collect::<Vec<_>>().join(" ")));
    }
    // the two convenience constructors: Box::cube(side) and Box::default() (= cube(1.0))
    out.push("boxdef".to_string());
    for side in [1.0f32, 2.0, 0.5, 3.7, 1e-6, 1e-3, 1e3, 1e6, 0.1] {
        out.push(format!("cube {}", h32(side)));
    }
    for _ in 0..(if q { 10 } else { 200 }) {
        out.push(format!("cube {}", h32(rng.f32_in(0.01, 100.0))));
    }
    let radii: &[f32] = if q { &[1.0, 0.37, 25.0] } else { &[1.0, 0.37, 25.0, 1e-6, 1e-4, 1e-3, 1e-2, 1e3, 1e6, 3.1415927] };
    for secs in 3..=smax {
        for segs in 2..=gmax {
            for r in radii {
                out.push(format!("sphere {secs} {segs} {}", h32(*r)));
            }
        }
    }
    let tori: &[(f32, f32)] = if q { &[(2.0, 0.5), (1.0, 0.25), (10.0, 3.0)] } else { &[(2.0, 0.5), (1.0, 0.25), (10.0, 3.0), (1.0, 0.9), (100.0, 0.5)] };
    for major in 3..=smax {
        for minor in 3..=gmax.max(3) {
            for (a, b) in tori {
                out.push(format!("torus {major} {minor} {} {}", h32(*a), h32(*b)));
            }
        }
    }
    let cones: &[(f32, f32)] = &[(1.0, 0.0), (1.0, 0.5), (0.5, 2.0), (0.0, 1.0), (3.0, 3.0)];
    for secs in 3..=smax {
        for segs in 1..=(gmax - 1) {
            for capped in [0, 1] {
                for r in radii {
                    out.push(format!("cyl {secs} {segs} {capped} {}", h32(*r)));
                }
                for (a, b) in cones {
                    out.push(format!("cone {secs} {segs} {capped} {} {}", h32(*a), h32(*b)));
                }
            }
        }
    }
    for secs in 3..=smax {
        for body in 1..=(if q { 3 } else { 6 }) {
            for cap in 1..=(if q { 4 } else { 8 }) {
                for r in [1.0f32, 0.5, 2.0] {
                    out.push(format!("capsule {secs} {body} {cap} {}", h32(r)));
                }
            }
        }
    }
    // a few large instances
    for (secs, segs) in [(16, 12), (24, 16), (32, 8)] {
        out.push(format!("sphere {secs} {segs} {}", h32(1.0)));
        out.push(format!("torus {secs} {segs} {} {}", h32(2.0), h32(0.5)));
        out.push(format!("cyl {secs} {segs} 1 {}", h32(1.0)));
        out.push(format!("cone {secs} {segs} 1 {} {}", h32(1.0), h32(0.0)));
        out.push(format!("capsule {secs} 4 {} {}", segs / 2, h32(1.0)));
    }
    // every solid that takes a size, at very small and very large sizes (the oracle's tolerances
    // are relative to the size; only the normal length is absolute)
    const SCALES: &[f32] = &[1e-6, 1e-4, 5e-4, 1e-3, 2e-3, 1e-2, 1.0, 1e3, 1e6];
    let counts: &[(u32, u32)] = if q { &[(3, 2), (5, 4), (8, 6)] } else { &[(3, 2), (4, 3), (5, 4), (8, 6), (12, 12)] };
    for &s in SCALES {
        for &(secs, segs) in counts {
            out.push(format!("sphere {secs} {segs} {}", h32(s)));
            out.push(format!("torus {secs} {} {} {}", segs.max(3), h32(2.0 * s), h32(0.5 * s)));
            out.push(format!("torus {secs} {} {} {}", segs.max(3), h32(s), h32(0.25 * s)));
            // the capsule's body is 2 long whatever the radius: beyond radius ~3e3 its rings are
            // closer than 1e-4 of the size, i.e. coincident by the property's own merging rule
            if s <= 1e3 {
                out.push(format!("capsule {secs} {} {} {}", 1 + segs / 3, segs.min(4), h32(s)));
            }
            for capped in [0, 1] {
                out.push(format!("cyl {secs} {} {capped} {}", segs - 1, h32(s)));
                for (a, b) in [(1.0f32, 0.0f32), (1.0, 0.5), (0.5, 2.0), (0.0, 1.0)] {
                    out.push(format!("cone {secs} {} {capped} {} {}", segs - 1, h32(a * s), h32(b * s)));
                }
            }
        }
        // boxes: a cube, an asymmetric box and an offset one, all scaled
        for b in [[-0.5f32, -0.5, -0.5, 0.5, 0.5, 0.5], [-1.0, -2.0, -3.0, 1.0, 2.0, 3.0], [1.0, 2.0, 3.0, 1.5, 4.0, 3.25]] {
            out.push(format!("box {}", b.iter().map(|x| h32(*x * s)).collect::<Vec<_>>().join(" ")));
        }
        // lathe profiles scaled in position, with profile normals of unit, tiny and huge length
        for (i, nscale) in [1.0f32, s, 1.0 / s].into_iter().enumerate() {
            let secs = 3 + (i as u32) * 2;
            let n = 3 + i;
            for ((a0, a1), capped) in [((0.0f32, 1.0f32), 1), ((0.1, 0.6), 0)] {
                let mut l = format!("lathe {secs} {capped} {} {} {n}", h32(a0), h32(a1));
                for k in 0..n {
                    let y = -1.0 + 2.0 * k as f32 / (n - 1) as f32;
                    let x = 1.0 + 0.2 * (1.5 * y).sin();
                    let dxdy = 0.3 * (1.5 * y).cos();
                    l += &format!(" {} {} {} {}", h32(x * s), h32(y * s), h32(nscale), h32(-dxdy * nscale));
                }
                out.push(l);
            }
        }
    }
    // the lathe itself: smooth profiles, partial azimuth ranges, capped and not
    let ranges: &[(f32, f32)] = &[(0.0, 1.0), (0.0, 0.25), (0.1, 0.6), (-0.5, 0.5), (0.0, 0.75), (0.25, 1.25)];
    for j in 0..(if q { 150 } else { 3000 }) {
        // every tenth lathe has MANY sectors (60..140) and few profile points: whatever the builder does every
        // so many columns (re-synchronising the incremental rotation, chunked emission) shows only there
        let many = j % 10 == 9;
        // (every fiftieth lathe has 600..1500 sectors: an error that grows with the number of steps taken around
        // the axis is invisible at a hundred steps)
        let secs = if j % 50 == 49 { 600 + rng.below(901) as u32 } else if many { 60 + rng.below(81) as u32 } else { 3 + rng.below((smax - 2) as u64) as u32 };
        let n = if many { 2 + rng.below(2) } else { 2 + rng.below(gmax as u64) };
        let (a0, a1) = *rng.pick(ranges);
        let capped = rng.below(2);
        let amp = rng.f32_in(0.0, 0.3);
        let k = rng.f32_in(0.5, 3.0);
        let base = rng.f32_in(0.5, 2.0);
        let mut s = format!("lathe {secs} {capped} {} {} {n}", h32(a0), h32(a1));
        for i in 0..n {
            let y = -1.0 + 2.0 * i as f32 / (n - 1) as f32;
            let x = base + amp * (k * y).sin();
            let dxdy = amp * k * (k * y).cos();
            // profile runs upwards; outward normal is (1, -dx/dy), deliberately not unit length
            s += &format!(" {} {} {} {}", h32(x), h32(y), h32(1.0), h32(-dxdy));
        }
        out.push(s);
    }
}

pub fn run(t: &[&str]) -> String {
    let u = |i: usize| -> u32 { t[i].parse().unwrap() };
    let f = |i: usize| -> f32 { pf32(t[i]) };
    let m: Mesh<Normal3> = match t[0] {
        "plat" => match t[1] {
            "tetra" => Tetrahedron.build(),
            "octa" => Octahedron.build(),
            "dodeca" => Dodecahedron.build(),
            "icosa" => Icosahedron.build(),
            _ => panic!("unknown solid"),
        },
        "box" => Box { left_bot_near: pt3(f(1), f(2), f(3)), right_top_far: pt3(f(4), f(5), f(6)) }.build(),
        "cube" => Box::cube(f(1)).build(),
        "boxdef" => Box::default().build(),
        "sphere" => Sphere { sectors: u(1), segments: u(2), radius: f(3) }.build(),
        "torus" => Torus { major_sectors: u(1), minor_sectors: u(2), major_radius: f(3), minor_radius: f(4) }.build(),
        "cyl" => Cylinder { sectors: u(1), segments: u(2), capped: u(3) == 1, radius: f(4) }.build(),
        "cone" => Cone { sectors: u(1), segments: u(2), capped: u(3) == 1, base_radius: f(4), apex_radius: f(5) }.build(),
        "capsule" => Capsule { sectors: u(1), body_segments: u(2), cap_segments: u(3), radius: f(4) }.build(),
        "lathe" => {
            let n = u(5) as usize;
            let pts: Vec<_> = (0..n)
                .map(|i| vertex(pt2(f(6 + 4 * i), f(7 + 4 * i)), vec2(f(8 + 4 * i), f(9 + 4 * i))))
                .collect();
            // three equivalent ways to describe the same lathe (the fields are public, `new` and `capped`
            // are conveniences): struct literal; new -> az_range -> capped; new -> capped -> az_range
            let (secs, capped, az) = (u(1), u(2) == 1, turns(f(3))..turns(f(4)));
            match if secs >= 3 { (secs as usize + n) % 3 } else { 0 } {
                0 => Lathe { points: pts, sectors: secs, capped, az_range: az }.build(),
                1 => {
                    let mut l = Lathe::new(pts, secs);
                    l.az_range = az;
                    l.capped(capped).build()
                }
                _ => {
                    let mut l = Lathe::new(pts, secs).capped(capped);
                    l.az_range = az;
                    l.build()
                }
            }
        }
        _ => panic!("unknown op"),
    };
    dump(&m)
}

fn main() {
    vharness::harness_main(gen, run)
}
