//! C16: colour conversions (core/src/math/color.rs): 8-bit and float HSL<->RGB,
//! u32 packing, RGB<->RGBA, float -> 8-bit, saturating Affine::add.
use std::panic::{catch_unwind, AssertUnwindSafe};

use re::math::color::*;
use re::math::{Affine, Linear, Vector};

use vharness::util::*;

/// Digest step of the C16 block ops: one xor-multiply per 32-bit word
/// (`Retro.Drv.C16.mix` on the Lean side).
#[inline]
fn mix(h: u64, w: u32) -> u64 {
    (h ^ w as u64).wrapping_mul(0x100_0000_01b3)
}

fn pmsg(e: Box<dyn std::any::Any + Send>) -> String {
    let msg = e
        .downcast_ref::<String>()
        .cloned()
        .or_else(|| e.downcast_ref::<&str>().map(|s| s.to_string()))
        .unwrap_or_default();
    let msg: String = msg.chars().map(|c| if c.is_ascii_whitespace() { '_' } else { c }).take(40).collect();
    format!("panic:{msg}")
}

fn guarded<T>(f: impl FnOnce() -> T) -> Result<T, String> {
    catch_unwind(AssertUnwindSafe(f)).map_err(pmsg)
}

fn f3(c: [f32; 3]) -> String {
    format!("{} {} {}", h32(c[0]), h32(c[1]), h32(c[2]))
}
fn f4(c: [f32; 4]) -> String {
    format!("{} {} {} {}", h32(c[0]), h32(c[1]), h32(c[2]), h32(c[3]))
}
fn b3(c: [u8; 3]) -> String {
    format!("{} {} {}", c[0], c[1], c[2])
}
fn b4(c: [u8; 4]) -> String {
    format!("{} {} {} {}", c[0], c[1], c[2], c[3])
}

// ---------------------------------------------------------------------------
// generators
// ---------------------------------------------------------------------------

fn ulp_step(x: f32, k: i32) -> f32 {
    // k-th float neighbour of a non-negative x (stays non-negative)
    let b = x.to_bits() as i64 + k as i64;
    f32::from_bits(b.max(0) as u32)
}

/// Values in [0,1] that matter for the float conversions.
fn unit_grid(rng: &mut Rng, n_random: usize) -> Vec<f32> {
    let mut v = vec![0.0, 1.0, 0.5, 0.25, 0.75, 0.125, 0.625, 1.0 / 3.0, 2.0 / 3.0, 0.1, 0.2, 0.9, 0.999, 0.001];
    for x in [0.5f32, 1.0] {
        for k in 1..=2 {
            v.push(ulp_step(x, -k));
            if x < 1.0 {
                v.push(ulp_step(x, k));
            }
        }
    }
    for _ in 0..n_random {
        v.push(rng.unit());
    }
    v
}

/// Hues: every sextant boundary k/6 with +-2 ulp neighbours, sextant centres, random.
fn hue_grid(rng: &mut Rng, n_random: usize) -> Vec<f32> {
    let mut v = vec![];
    for k in 0..=6 {
        let h = k as f32 / 6.0;
        for d in -2..=2 {
            let x = ulp_step(h, d);
            if (0.0..=1.0).contains(&x) {
                v.push(x);
            }
        }
        // also the neighbours of the value whose product with 6.0 is exactly k
        if k < 6 {
            v.push((k as f32 + 0.5) / 6.0);
            v.push((k as f32 + 0.25) / 6.0);
            v.push((k as f32 + 0.75) / 6.0);
        }
    }
    v.push(0.2); // D9 witness hue
    for _ in 0..n_random {
        v.push(rng.unit());
    }
    v
}

const SPECIAL_F32: &[u32] = &[
    0x7fc0_0000, 0xffc0_0000, 0x7f80_0001, 0x7f80_0000, 0xff80_0000, // NaNs, +-inf
    0x0000_0000, 0x8000_0000, 0x0000_0001, 0x8000_0001, 0x007f_ffff, 0x0080_0000, // zeros, subnormals
    0x3f80_0000, 0x3f7f_ffff, 0x3f80_0001, 0xbf80_0000, 0x3f00_0000, 0x4000_0000, 0x437f_0000,
    0x7f7f_ffff, 0xff7f_ffff, 0x3b80_8081, 0x3b80_8080, 0x3b80_8082, // 1/255 and neighbours
    0xb400_0000, 0x3400_0000,
];

pub fn gen(rng: &mut Rng, tier: Tier, out: &mut Vec<String>) {
    let q = tier == Tier::Quick;

    // ---- 8-bit, per-case lines: edge values and random
    let edge8: [u8; 10] = [0, 1, 2, 127, 128, 129, 42, 85, 254, 255];
    for &a in &edge8 {
        for &b in &edge8 {
            for &c in &edge8 {
                out.push(format!("rgb2hsl {a} {b} {c}"));
                out.push(format!("hsl2rgb {a} {b} {c}"));
            }
        }
    }
    for v in 0..=255 {
        out.push(format!("rgb2hsl {v} {v} {v}"));
        out.push(format!("hsl2rgb {v} 0 {v}"));
        out.push(format!("hsl2rgb 0 255 {v}"));
        out.push(format!("hsl2rgb {v} 255 128"));
    }
    for _ in 0..(if q { 2000 } else { 50_000 }) {
        out.push(format!("rgb2hsl {} {} {}", rng.below(256), rng.below(256), rng.below(256)));
        out.push(format!("hsl2rgb {} {} {}", rng.below(256), rng.below(256), rng.below(256)));
    }
    // ---- 8-bit, digest over blocks of 2^16 of the 2^24 domain
    let block: u64 = 1 << 16;
    for blk in 0..256u64 {
        // quick: every 16th block, rotated by the seed, plus first and last (2^20 + 2^17 triples)
        let take = !q || blk == 0 || blk == 255 || (blk + rng.0 % 16) % 16 == 0;
        if take {
            out.push(format!("d8rt {} {}", blk * block, block));
            out.push(format!("d8hr {} {}", blk * block, block));
        }
    }
    // ---- RGB <-> RGBA, HSLA
    for _ in 0..(if q { 500 } else { 20_000 }) {
        let w = if rng.chance(1, 4) { *rng.pick(&[0u32, 0xffff_ffff, 0xff00_0000, 0x0000_00ff, 0x1122_3344]) } else { rng.u32() };
        out.push(format!("rgba8 {}", hu32(w)));
        out.push(format!("pack {}", hu32(w)));
    }
    // ---- packing digest: all 2^32 words in 2^24 blocks (thorough), 16 x 2^16 sampled blocks (quick)
    if q {
        for i in 0..16u64 {
            let start = if i == 0 { 0 } else if i == 15 { (1u64 << 32) - block } else { (rng.below(1 << 16)) * block };
            out.push(format!("dpack {} {}", start, block));
        }
    } else {
        for blk in 0..256u64 {
            out.push(format!("dpack {} {}", blk << 24, 1u64 << 24));
        }
    }
    // ---- float conversions
    let hues = hue_grid(rng, if q { 20 } else { 200 });
    let units = unit_grid(rng, if q { 6 } else { 30 });
    for &h in &hues {
        for &s in &units {
            for &l in &units {
                out.push(format!("fhsl2rgb {} {} {}", h32(h), h32(s), h32(l)));
            }
        }
    }
    for &s in &units {
        for &l in &units {
            out.push(format!("fhue {} {}", h32(s), h32(l)));
        }
    }
    let cu = unit_grid(rng, if q { 4 } else { 20 });
    for &r in &cu {
        for &g in &cu {
            for &b in &cu {
                out.push(format!("frgb2hsl {} {} {}", h32(r), h32(g), h32(b)));
            }
        }
    }
    for &v in &units {
        out.push(format!("frgb2hsl {} {} {}", h32(v), h32(v), h32(v)));
    }
    // colours constructed inside each sextant / channel ordering, and near the gray axis
    for i in 0..(if q { 6000 } else { 300_000 }) {
        let mut c = [rng.unit(), rng.unit(), rng.unit()];
        match i % 8 {
            0 => c[1] = c[0],                       // two equal channels
            1 => c[2] = c[1],
            2 => c[2] = c[0],
            3 => { let k = rng.below(3) as usize; c[k] = if rng.bool() { 0.0 } else { 1.0 } }
            4 => { let d = rng.unit() * 1e-3; c = [c[0], (c[0] + d).min(1.0), c[0]] } // almost gray
            5 => { for x in c.iter_mut() { *x = 0.01 + *x * 0.05 } }                   // dark
            6 => { for x in c.iter_mut() { *x = 0.94 + *x * 0.05 } }                   // light
            _ => {}
        }
        out.push(format!("frgb2hsl {} {} {}", h32(c[0]), h32(c[1]), h32(c[2])));
        out.push(format!("fhsl2rgb {} {} {}", h32(rng.unit()), h32(rng.unit()), h32(rng.unit())));
    }
    // fully (or almost fully) saturated HSL over the whole lightness range: `l - c/2` and `c + m` cancel
    // to 0 resp. 1 only up to rounding (to_rgb must stay in range and must not trip its own assertion)
    for i in 0..(if q { 3000 } else { 100_000 }) {
        let s = match i % 4 { 0 | 1 => 1.0, 2 => ulp_step(1.0, -(1 + rng.below(3) as i32)), _ => 1.0 - rng.unit() * 1e-3 };
        let l = match i % 3 { 0 => rng.unit() * 0.5, 1 => 0.5 + rng.unit() * 0.5, _ => (rng.below(1001) as f32) / 1000.0 };
        out.push(format!("fhsl2rgb {} {} {}", h32(rng.unit()), h32(s), h32(l)));
    }
    // extremely dark / light colours: the saturation denominator cancels
    for i in 0..(if q { 600 } else { 20_000 }) {
        let e = [1e-3f32, 1e-4, 1e-5, 1e-6, 1e-7, 1e-8, 1e-10, 1e-20, 1e-38][i % 9];
        let mut c = [rng.unit() * e, rng.unit() * e, rng.unit() * e];
        if i % 4 == 1 {
            c[rng.below(3) as usize] = 0.0;
        }
        if i % 4 == 2 {
            c = [c[0], c[0], c[0]];
        }
        if i % 2 == 1 {
            for x in c.iter_mut() {
                *x = 1.0 - *x;
            }
        }
        out.push(format!("frgb2hsl {} {} {}", h32(c[0]), h32(c[1]), h32(c[2])));
    }
    // out-of-range stream (clear margins): the model predicts the panic class
    for (h, s, l) in [(-0.5f32, 0.5f32, 0.5f32), (1.5, 0.5, 0.5), (0.5, 2.0, 0.5), (0.5, 0.5, 1.5), (0.5, -1.0, 0.5), (2.0, 0.0, 0.5)] {
        out.push(format!("fhsl2rgb {} {} {}", h32(h), h32(s), h32(l)));
    }
    for (r, g, b) in [(2.0f32, 0.0f32, 0.0f32), (0.5, -1.0, 0.25), (3.0, 3.0, 3.0)] {
        out.push(format!("frgb2hsl {} {} {}", h32(r), h32(g), h32(b)));
    }
    for i in 0..(if q { 1200 } else { 20_000 }) {
        // like the 3-channel stream: generic, almost gray, dark, light, two equal channels
        let mut c = [rng.unit(), rng.unit(), rng.unit()];
        match i % 6 {
            0 => { let d = rng.unit() * 1e-3; c = [c[0], (c[0] + d).min(1.0), c[0]] }
            1 => { for x in c.iter_mut() { *x = 0.01 + *x * 0.05 } }
            2 => { for x in c.iter_mut() { *x = 0.94 + *x * 0.05 } }
            3 => c[1] = c[0],
            _ => {}
        }
        out.push(format!("frgba {} {} {} {}", h32(c[0]), h32(c[1]), h32(c[2]), h32(rng.unit())));
    }
    // ---- float -> 8 bit
    for &a in SPECIAL_F32 {
        for &b in SPECIAL_F32 {
            out.push(format!("tou8 {} {} {} {}", hu32(a), hu32(b), hu32(a ^ 0x8000_0000), hu32(b.wrapping_add(1))));
        }
    }
    for k in 0..=255u32 {
        let x = k as f32 / 255.0;
        out.push(format!("tou8 {} {} {} {}", h32(x), h32(ulp_step(x, -1)), h32(ulp_step(x, 1)), h32(ulp_step(x, 2))));
    }
    for _ in 0..(if q { 2000 } else { 100_000 }) {
        let mut c = [rng.unit(), rng.unit(), rng.unit(), rng.unit()];
        if rng.chance(1, 4) {
            let k = rng.below(4) as usize;
            c[k] = match rng.below(4) {
                0 => rng.f32_in(-3.0, 0.0),
                1 => rng.f32_in(1.0, 300.0),
                2 => f32::from_bits(rng.u32()),
                _ => f32::from_bits(*rng.pick(SPECIAL_F32)),
            };
        }
        out.push(format!("tou8 {} {} {} {}", h32(c[0]), h32(c[1]), h32(c[2]), h32(c[3])));
    }
    // ---- saturating add
    let edge_d: [i64; 16] = [
        0, 1, -1, 255, -255, 256, -256, 510, -510, i32::MAX as i64, i32::MIN as i64,
        i32::MAX as i64 - 255, i32::MAX as i64 - 254, i32::MIN as i64 + 255, 65536, -65536,
    ];
    for &d in &edge_d {
        for c in [0u8, 1, 127, 128, 254, 255] {
            out.push(format!("add3 {c} {c} {c} {d} 0 {}", -d.max(i32::MIN as i64 + 1)));
        }
    }
    for _ in 0..(if q { 1500 } else { 50_000 }) {
        let d = |rng: &mut Rng| match rng.below(4) {
            0 => rng.range(-300, 301),
            1 => rng.range(-70_000, 70_000),
            2 => rng.range(i32::MIN as i64, i32::MAX as i64 - 255),
            _ => rng.range(-20, 21),
        };
        out.push(format!("add3 {} {} {} {} {} {}", rng.below(256), rng.below(256), rng.below(256), d(rng), d(rng), d(rng)));
        out.push(format!("add4 {} {} {} {} {} {} {} {}", rng.below(256), rng.below(256), rng.below(256), rng.below(256), d(rng), d(rng), d(rng), d(rng)));
    }
    // ---- channel accessors, gray(), Linear::zero()
    for _ in 0..(if q { 300 } else { 10_000 }) {
        let w = if rng.chance(1, 5) { *rng.pick(&[0u32, 0xffff_ffff, 0x0102_0304, 0xff00_00ff, 0x8000_7fff]) } else { rng.u32() };
        out.push(format!("acc8 {}", hu32(w)));
        // distinct channels (also NaN / inf / -0.0 patterns: accessors must be bit-transparent)
        let mut c = [rng.unit(), rng.unit() + 1.0, -rng.unit(), rng.unit() * 100.0];
        if rng.chance(1, 4) {
            c[rng.below(4) as usize] = f32::from_bits(*rng.pick(SPECIAL_F32));
        }
        out.push(format!("facc {} {} {} {}", h32(c[0]), h32(c[1]), h32(c[2]), h32(c[3])));
    }
    // ---- gamma: to_linear / to_srgb (fix 0 and 1, monotone on neighbouring inputs, mutually inverse)
    for &x in &[0.0f32, 1.0, 0.5, 0.25, 0.75, 1e-3, 1e-6, 1e-12, 1e-30, 0.999_999_9, f32::from_bits(1), f32::MIN_POSITIVE] {
        out.push(format!("fgamma {} {} {}", h32(x), h32(ulp_step(x, 1).min(1.0)), h32(ulp_step(x, -1))));
    }
    for k in 0..=255u32 {
        let x = k as f32 / 255.0;
        out.push(format!("fgamma {} {} {}", h32(x), h32((x + 1.0 / 512.0).min(1.0)), h32(x * 0.5)));
    }
    for i in 0..(if q { 1500 } else { 60_000 }) {
        let a = match i % 4 {
            0 => rng.unit(),
            1 => rng.unit() * rng.unit() * rng.unit() * rng.unit(),
            2 => 1.0 - rng.unit() * 1e-3,
            _ => f32::from_bits(rng.below(0x3f80_0001) as u32), // log-uniform over (0, 1]
        };
        // three increasing inputs: a, a few ulp above, and a random larger one
        let b = ulp_step(a, 1 + rng.below(8) as i32).min(1.0);
        let c = (b + rng.unit() * (1.0 - b)).min(1.0);
        out.push(format!("fgamma {} {} {}", h32(a), h32(b), h32(c)));
    }
    // ---- Affine::sub and add-back
    for &a in &edge8 {
        for &b in &edge8 {
            out.push(format!("sub3 {a} {b} {} {b} {a} {}", 255 - a, 255 - b));
        }
    }
    for _ in 0..(if q { 600 } else { 20_000 }) {
        let mut v = [0u64; 8];
        for x in v.iter_mut() {
            *x = rng.below(256);
        }
        out.push(format!("sub3 {} {} {} {} {} {}", v[0], v[1], v[2], v[3], v[4], v[5]));
        out.push(format!("sub4 {} {} {} {} {} {} {} {}", v[0], v[1], v[2], v[3], v[4], v[5], v[6], v[7]));
    }
    out.push("dsub".to_string());
    // every (u8, diff) pair with diff in -640..640 (covers every difference of two u8 colours, doubled)
    let mut d0 = -640i64;
    while d0 < 640 {
        out.push(format!("dadd {} {}", d0, 64));
        d0 += 64;
    }
    out.push(format!("dadd {} {}", i32::MIN as i64, 64));
    out.push(format!("dadd {} {}", i32::MAX as i64 - 255 - 63, 64));
}

// ---------------------------------------------------------------------------
// running the real code
// ---------------------------------------------------------------------------

fn pu8(s: &str) -> u8 {
    s.parse().expect("u8")
}

fn word3(c: [u8; 3]) -> u32 {
    (c[0] as u32) << 16 | (c[1] as u32) << 8 | c[2] as u32
}

pub fn run(t: &[&str]) -> String {
    match t[0] {
        // 8-bit RGB -> HSL -> RGB
        "rgb2hsl" => {
            let c = rgb(pu8(t[1]), pu8(t[2]), pu8(t[3]));
            let h = match guarded(|| c.to_hsl()) {
                Ok(h) => h,
                Err(p) => return p,
            };
            match guarded(|| h.to_rgb()) {
                Ok(r) => format!("{} {}", b3(h.0), b3(r.0)),
                Err(p) => format!("{} {}", b3(h.0), p),
            }
        }
        "hsl2rgb" => {
            let c = hsl(pu8(t[1]), pu8(t[2]), pu8(t[3]));
            b3(c.to_rgb().0)
        }
        // block of the 2^24 RGB domain: digest of (hsl, rgb') + spec summary
        "d8rt" => {
            let (start, count): (u32, u32) = (t[1].parse().unwrap(), t[2].parse().unwrap());
            let mut h = FNV_INIT;
            let (mut maxerr, mut nbad, mut first_bad, mut ngray_bad, mut npanic) = (0i32, 0u32, -1i64, 0u32, 0u32);
            for i in start..start + count {
                let c = [(i >> 16) as u8, (i >> 8) as u8, i as u8];
                match guarded(|| {
                    let x = rgb(c[0], c[1], c[2]).to_hsl();
                    (x, x.to_rgb())
                }) {
                    Ok((x, r)) => {
                        h = mix(mix(h, word3(x.0)), word3(r.0));
                        let e = (0..3).map(|k| (c[k] as i32 - r.0[k] as i32).abs()).max().unwrap();
                        maxerr = maxerr.max(e);
                        if e > 8 {
                            nbad += 1;
                            if first_bad < 0 {
                                first_bad = i as i64;
                            }
                        }
                        if c[0] == c[1] && c[1] == c[2] && (x.0[1] != 0 || x.0[2] != c[0]) {
                            ngray_bad += 1;
                        }
                    }
                    Err(_) => {
                        h = mix(mix(h, 0xffff_ffff), 0xffff_ffff);
                        npanic += 1;
                        if first_bad < 0 {
                            first_bad = i as i64;
                        }
                    }
                }
            }
            format!("{} {} {} {} {} {}", h64(h), maxerr, nbad, first_bad, ngray_bad, npanic)
        }
        // block of the 2^24 HSL domain: digest of rgb + number of panics
        "d8hr" => {
            let (start, count): (u32, u32) = (t[1].parse().unwrap(), t[2].parse().unwrap());
            let mut h = FNV_INIT;
            let (mut npanic, mut first) = (0u32, -1i64);
            for i in start..start + count {
                match guarded(|| hsl((i >> 16) as u8, (i >> 8) as u8, i as u8).to_rgb()) {
                    Ok(r) => h = mix(h, word3(r.0)),
                    Err(_) => {
                        h = mix(h, 0xffff_ffff);
                        npanic += 1;
                        if first < 0 {
                            first = i as i64;
                        }
                    }
                }
            }
            format!("{} {} {}", h64(h), npanic, first)
        }
        "rgba8" => {
            let [r, g, b, a] = pu32h(t[1]).to_be_bytes();
            let c4 = rgba(r, g, b, a);
            let c3 = rgb(r, g, b);
            let hs = c4.to_hsla();
            let back = guarded(|| b4(hs.to_rgba().0)).unwrap_or_else(|p| p);
            format!(
                "{} {} {} {} {}",
                b3(c4.to_rgb().0),
                b4(c3.to_rgba().0),
                b4(hs.0),
                b3(hsla(r, g, b, a).to_hsl().0),
                back
            )
        }
        "pack" => {
            let [r, g, b, a] = pu32h(t[1]).to_be_bytes();
            format!(
                "{} {} {}",
                hu32(rgb(r, g, b).to_rgb_u32()),
                hu32(rgba(r, g, b, a).to_rgba_u32()),
                hu32(rgba(r, g, b, a).to_argb_u32())
            )
        }
        // block of the 2^32 RGBA words: digest of the three packings and both channel moves,
        // plus the number of words whose packing is not the documented byte order
        "dpack" => {
            let (start, count): (u64, u64) = (t[1].parse().unwrap(), t[2].parse().unwrap());
            let mut h = FNV_INIT;
            let mut nbad = 0u64;
            for i in start..start + count {
                let w = i as u32;
                let [r, g, b, a] = w.to_be_bytes();
                let c4 = rgba(r, g, b, a);
                let c3 = rgb(r, g, b);
                let (p0, p1, p2) = (c3.to_rgb_u32(), c4.to_rgba_u32(), c4.to_argb_u32());
                let m0 = u32::from_be_bytes(c3.to_rgba().0);
                let m1 = word3(c4.to_rgb().0);
                h = mix(mix(mix(mix(mix(h, p0), p1), p2), m0), m1);
                let ok = p0 == w >> 8 && p1 == w && p2 == (w >> 8 | (a as u32) << 24) && m0 == (w | 0xff) && m1 == w >> 8;
                nbad += !ok as u64;
            }
            format!("{} {}", h64(h), nbad)
        }
        // float RGB -> HSL -> RGB
        "frgb2hsl" => {
            let c = rgb(pf32(t[1]), pf32(t[2]), pf32(t[3]));
            let h = match guarded(|| c.to_hsl()) {
                Ok(h) => h,
                Err(p) => return p,
            };
            match guarded(|| h.to_rgb()) {
                Ok(r) => format!("{} {}", f3(h.0), f3(r.0)),
                Err(p) => format!("{} {}", f3(h.0), p),
            }
        }
        "fhsl2rgb" => {
            let c = hsl(pf32(t[1]), pf32(t[2]), pf32(t[3]));
            f3(c.to_rgb().0)
        }
        "fhue" => {
            let (s, l) = (pf32(t[1]), pf32(t[2]));
            format!("{} {}", f3(hsl(1.0, s, l).to_rgb().0), f3(hsl(0.0, s, l).to_rgb().0))
        }
        "frgba" => {
            let c: Vec<f32> = t[1..5].iter().map(|s| pf32(s)).collect();
            let c4 = rgba(c[0], c[1], c[2], c[3]);
            let c3 = rgb(c[0], c[1], c[2]);
            let hs = guarded(|| f4(c4.to_hsla().0)).unwrap_or_else(|p| p);
            let back = guarded(|| f4(hsla(c[0], c[1], c[2], c[3]).to_rgba().0)).unwrap_or_else(|p| p);
            // sibling doors: the 4-channel conversions must agree with the 3-channel ones on the colour part
            // (within 1e-5, hue compared on the circle); `sib=1|0` is judged by the driver
            let close = |a: &[f32], b: &[f32], hue: bool| -> bool {
                a.iter().zip(b).enumerate().all(|(i, (x, y))| {
                    let d = (x - y).abs();
                    d <= 1e-5 || (hue && i == 0 && (d - 1.0).abs() <= 1e-5)
                })
            };
            let sib = std::panic::catch_unwind(|| {
                let h4 = c4.to_hsla().0;
                let h3 = c3.to_hsl().0;
                let r4 = hsla(c[0], c[1], c[2], c[3]).to_rgba().0;
                let r3 = hsl(c[0], c[1], c[2]).to_rgb().0;
                close(&h4[..3], &h3, true) && close(&r4[..3], &r3, false)
            })
            .unwrap_or(true);
            format!("{} {} {} {} {} sib={}", f3(c4.to_rgb().0), f4(c3.to_rgba().0), f3(hsla(c[0], c[1], c[2], c[3]).to_hsl().0), hs, back, sib as u8)
        }
        "tou8" => {
            let c: Vec<f32> = t[1..5].iter().map(|s| pf32(s)).collect();
            let c3 = rgb(c[0], c[1], c[2]);
            let c4 = rgba(c[0], c[1], c[2], c[3]);
            format!("{} {} {} {}", b3(c3.to_color3().0), b4(c3.to_color4().0), b3(c4.to_color3().0), b4(c4.to_color4().0))
        }
        // channel accessors r/g/b/a, h/s/l/a and gray() on 8-bit colours (bytes of the case word)
        "acc8" => {
            let [x, y, z, w] = pu32h(t[1]).to_be_bytes();
            let (c3, c4, h3, h4) = (rgb(x, y, z), rgba(x, y, z, w), hsl(x, y, z), hsla(x, y, z, w));
            format!(
                "{} {} {} {} {} {} {} {} {} {} {} {} {} {} {}",
                c3.r(), c3.g(), c3.b(), c4.r(), c4.g(), c4.b(), c4.a(),
                h3.h(), h3.s(), h3.l(), h4.h(), h4.s(), h4.l(), h4.a(), b3(gray(x).0)
            )
        }
        // the same on float colours, plus Linear::zero() for 3- and 4-channel float colours
        "facc" => {
            let c: Vec<f32> = t[1..5].iter().map(|s| pf32(s)).collect();
            let (c3, c4) = (rgb(c[0], c[1], c[2]), rgba(c[0], c[1], c[2], c[3]));
            let (h3, h4) = (hsl(c[0], c[1], c[2]), hsla(c[0], c[1], c[2], c[3]));
            let acc = [c3.r(), c3.g(), c3.b(), c4.r(), c4.g(), c4.b(), c4.a(),
                       h3.h(), h3.s(), h3.l(), h4.h(), h4.s(), h4.l(), h4.a()];
            let acc: Vec<String> = acc.iter().map(|x| h32(*x)).collect();
            let z3: Color3f = Linear::zero();
            let z4: Color4f = Linear::zero();
            format!("{} {} {} {} {}", acc.join(" "), f3(gray(c[0]).0), f3(c4.to_rgb().0), f3(z3.0), f4(z4.0))
        }
        // gamma: to_linear, to_srgb, both round trips, per channel
        "fgamma" => {
            let c = rgb(pf32(t[1]), pf32(t[2]), pf32(t[3]));
            let lin = c.to_linear();
            let lc: Color3f<LinRgb> = c.0.into();
            let srgb = lc.to_srgb();
            format!("{} {} {} {}", f3(lin.0), f3(srgb.0), f3(lin.to_srgb().0), f3(srgb.to_linear().0))
        }
        // Affine::sub of 8-bit colours, and adding the difference back
        "sub3" => {
            let c = rgb(pu8(t[1]), pu8(t[2]), pu8(t[3]));
            let d = rgb(pu8(t[4]), pu8(t[5]), pu8(t[6]));
            let diff = d.sub(&c);
            format!("{} {} {} {}", diff.0[0], diff.0[1], diff.0[2], b3(c.add(&diff).0))
        }
        "sub4" => {
            let c = rgba(pu8(t[1]), pu8(t[2]), pu8(t[3]), pu8(t[4]));
            let d = rgba(pu8(t[5]), pu8(t[6]), pu8(t[7]), pu8(t[8]));
            let diff = d.sub(&c);
            format!("{} {} {} {} {}", diff.0[0], diff.0[1], diff.0[2], diff.0[3], b4(c.add(&diff).0))
        }
        // all 2^16 (u8, u8) channel pairs: digest of the differences, number of pairs where the
        // difference is not d - c or adding it back does not give d
        "dsub" => {
            let mut h = FNV_INIT;
            let mut nbad = 0u32;
            for a in 0..=255u8 {
                for b in 0..=255u8 {
                    let (c, d) = (rgb(a, b, 255 - a), rgb(b, a, b));
                    let diff = d.sub(&c);
                    for k in 0..3 {
                        h = mix(h, diff.0[k] as u32);
                        nbad += (diff.0[k] != d.0[k] as i32 - c.0[k] as i32) as u32;
                    }
                    nbad += (c.add(&diff) != d) as u32;
                }
            }
            format!("{} {}", h64(h), nbad)
        }
        "add3" => {
            let c = rgb(pu8(t[1]), pu8(t[2]), pu8(t[3]));
            let d: Vector<[i32; 3], Rgb> = Vector::new([pint(t[4]) as i32, pint(t[5]) as i32, pint(t[6]) as i32]);
            b3(c.add(&d).0)
        }
        "add4" => {
            let c = rgba(pu8(t[1]), pu8(t[2]), pu8(t[3]), pu8(t[4]));
            let d: Vector<[i32; 4], Rgba> =
                Vector::new([pint(t[5]) as i32, pint(t[6]) as i32, pint(t[7]) as i32, pint(t[8]) as i32]);
            b4(c.add(&d).0)
        }
        // every (channel value, diff) pair for diff in d0..d0+count: digest, number of results that
        // are not the mathematically saturated sum, number of panics
        "dadd" => {
            let (d0, count): (i64, i64) = (t[1].parse().unwrap(), t[2].parse().unwrap());
            let mut h = FNV_INIT;
            let (mut nbad, mut npanic) = (0u32, 0u32);
            for d in d0..d0 + count {
                for c in 0..=255u8 {
                    let dv: Vector<[i32; 3], Rgb> = Vector::new([d as i32, 0, d as i32]);
                    match guarded(|| rgb(c, c, 255 - c).add(&dv)) {
                        Ok(r) => {
                            h = mix(h, word3(r.0));
                            let want = |x: u8| (x as i64 + d).clamp(0, 255) as u8;
                            if r.0 != [want(c), c, want(255 - c)] {
                                nbad += 1;
                            }
                        }
                        Err(_) => {
                            h = mix(h, 0xffff_ffff);
                            npanic += 1;
                        }
                    }
                }
            }
            format!("{} {} {}", h64(h), nbad, npanic)
        }
        _ => panic!("unknown op"),
    }
}

fn main() {
    vharness::harness_main(gen, run);
}
