//! C17: cubic Béziers and Bézier splines (core/src/math/spline.rs).
//!
//! cases (f32 as hex bit patterns; `kind` picks the Affine type, see KINDS):
//!   bez <kind> <4*dim words> <t>          -> eval(dim) fast_eval(dim) tangent(dim)
//!   spl <kind> <npts> <npts*dim words> <t> -> eval(dim) tangent(dim)            (new() may panic)
//!   apx <kind> <npts> <npts*dim words> <thr>
//!        -> <count> <count*dim words> <calls> <calls*(dim words + decision bit)>
//!        halt = |err| sum(err_i^2) < thr*thr, and it logs every call (argument and answer)
//!   rays <kind> <n> <n*(dim point words + dim direction words)> <t> -> eval(dim) tangent(dim)
//!        BezierSpline::from_rays (panics for fewer than two rays)
//!   sstep <t>                              -> smoothstep(t) smootherstep(t)
use std::cell::RefCell;

use re::math::angle::{rads, Angle};
use re::math::color::{rgb, rgba, Color3f, Color4f};
use re::geom::Ray;
use re::math::spline::{smootherstep, smoothstep, BezierSpline, CubicBezier};
use re::math::{pt2, pt3, vec2, vec3, Affine, Linear, Point2, Point3, Vec2, Vec3};

use vharness::util::*;

trait Comp: Sized {
    fn from_c(w: &[f32]) -> Self;
    fn to_c(&self) -> Vec<f32>;
}
impl Comp for f32 {
    fn from_c(w: &[f32]) -> Self {
        w[0]
    }
    fn to_c(&self) -> Vec<f32> {
        vec![*self]
    }
}
impl Comp for Angle {
    fn from_c(w: &[f32]) -> Self {
        rads(w[0])
    }
    fn to_c(&self) -> Vec<f32> {
        vec![self.to_rads()]
    }
}
impl Comp for Vec2 {
    fn from_c(w: &[f32]) -> Self {
        vec2(w[0], w[1])
    }
    fn to_c(&self) -> Vec<f32> {
        self.0.to_vec()
    }
}
impl Comp for Vec3 {
    fn from_c(w: &[f32]) -> Self {
        vec3(w[0], w[1], w[2])
    }
    fn to_c(&self) -> Vec<f32> {
        self.0.to_vec()
    }
}
impl Comp for Point2 {
    fn from_c(w: &[f32]) -> Self {
        pt2(w[0], w[1])
    }
    fn to_c(&self) -> Vec<f32> {
        self.0.to_vec()
    }
}
impl Comp for Point3 {
    fn from_c(w: &[f32]) -> Self {
        pt3(w[0], w[1], w[2])
    }
    fn to_c(&self) -> Vec<f32> {
        self.0.to_vec()
    }
}
impl Comp for Color3f {
    fn from_c(w: &[f32]) -> Self {
        rgb(w[0], w[1], w[2])
    }
    fn to_c(&self) -> Vec<f32> {
        self.0.to_vec()
    }
}
impl Comp for Color4f {
    fn from_c(w: &[f32]) -> Self {
        rgba(w[0], w[1], w[2], w[3])
    }
    fn to_c(&self) -> Vec<f32> {
        self.0.to_vec()
    }
}

const KINDS: &[(&str, usize)] = &[
    ("s", 1),
    ("v2", 2),
    ("v3", 3),
    ("p2", 2),
    ("p3", 3),
    ("c3", 3),
    ("c4", 4),
    ("ang", 1),
];

fn dim_of(kind: &str) -> usize {
    KINDS.iter().find(|k| k.0 == kind).expect("kind").1
}

fn hexes(v: &[f32]) -> String {
    v.iter().map(|x| h32(*x)).collect::<Vec<_>>().join(" ")
}

fn pts_of<T: Comp>(w: &[f32], dim: usize) -> Vec<T> {
    w.chunks(dim).map(T::from_c).collect()
}

fn run_bez<T>(w: &[f32], dim: usize, t: f32) -> String
where
    T: Affine + Clone + Comp + PartialEq + std::fmt::Debug,
    T::Diff: Linear<Scalar = f32> + Clone + Comp + PartialEq + std::fmt::Debug,
{
    let p: Vec<T> = pts_of(w, dim);
    let b = CubicBezier([p[0].clone(), p[1].clone(), p[2].clone(), p[3].clone()]);
    format!(
        "{} {} {}",
        hexes(&b.eval(t).to_c()),
        hexes(&b.fast_eval(t).to_c()),
        hexes(&b.tangent(t).to_c())
    )
}

fn run_spl<T>(w: &[f32], dim: usize, t: f32) -> String
where
    T: Affine + Clone + Comp + PartialEq + std::fmt::Debug,
    T::Diff: Linear<Scalar = f32> + Clone + Comp + PartialEq + std::fmt::Debug,
{
    let p: Vec<T> = pts_of(w, dim);
    let s = BezierSpline::new(&p);
    format!("{} {}", hexes(&s.eval(t).to_c()), hexes(&s.tangent(t).to_c()))
}

fn run_rays<T>(w: &[f32], dim: usize, t: f32) -> String
where
    T: Affine + Clone + Comp + PartialEq + std::fmt::Debug,
    T::Diff: Linear<Scalar = f32> + Clone + Comp + PartialEq + std::fmt::Debug,
{
    let rays: Vec<Ray<T, T::Diff>> =
        w.chunks(2 * dim).map(|c| Ray(T::from_c(&c[..dim]), <T::Diff>::from_c(&c[dim..]))).collect();
    let s = BezierSpline::from_rays(rays);
    format!("{} {}", hexes(&s.eval(t).to_c()), hexes(&s.tangent(t).to_c()))
}

fn run_apx<T>(w: &[f32], dim: usize, thr: f32) -> String
where
    T: Affine + Clone + Comp + PartialEq + std::fmt::Debug,
    T::Diff: Linear<Scalar = f32> + Clone + Comp + PartialEq + std::fmt::Debug,
{
    let p: Vec<T> = pts_of(w, dim);
    let s = BezierSpline::new(&p);
    let log: RefCell<Vec<(Vec<f32>, bool)>> = RefCell::new(vec![]);
    let res = s.approximate(|e: &T::Diff| {
        let c = e.to_c();
        let l2 = c.iter().fold(0.0f32, |a, x| a + x * x);
        let d = l2 < thr * thr;
        log.borrow_mut().push((c, d));
        d
    });
    let mut out = format!("{}", res.len());
    for q in &res {
        out.push(' ');
        out += &hexes(&q.to_c());
    }
    let log = log.into_inner();
    out += &format!(" {}", log.len());
    for (c, d) in &log {
        out.push(' ');
        out += &hexes(c);
        out += if *d { " 1" } else { " 0" };
    }
    out
}

macro_rules! dispatch {
    ($f:ident, $kind:expr, $($arg:expr),*) => {
        match $kind {
            "s" => $f::<f32>($($arg),*),
            "ang" => $f::<Angle>($($arg),*),
            "v2" => $f::<Vec2>($($arg),*),
            "v3" => $f::<Vec3>($($arg),*),
            "p2" => $f::<Point2>($($arg),*),
            "p3" => $f::<Point3>($($arg),*),
            "c3" => $f::<Color3f>($($arg),*),
            "c4" => $f::<Color4f>($($arg),*),
            k => panic!("unknown kind {k}"),
        }
    };
}

pub fn run(t: &[&str]) -> String {
    match t[0] {
        "bez" => {
            let dim = dim_of(t[1]);
            let w: Vec<f32> = t[2..2 + 4 * dim].iter().map(|s| pf32(s)).collect();
            let tt = pf32(t[2 + 4 * dim]);
            dispatch!(run_bez, t[1], &w, dim, tt)
        }
        "spl" | "apx" => {
            let dim = dim_of(t[1]);
            let n = pint(t[2]) as usize;
            let w: Vec<f32> = t[3..3 + n * dim].iter().map(|s| pf32(s)).collect();
            let x = pf32(t[3 + n * dim]);
            if t[0] == "spl" {
                dispatch!(run_spl, t[1], &w, dim, x)
            } else {
                dispatch!(run_apx, t[1], &w, dim, x)
            }
        }
        "rays" => {
            let dim = dim_of(t[1]);
            let n = pint(t[2]) as usize;
            let w: Vec<f32> = t[3..3 + 2 * n * dim].iter().map(|s| pf32(s)).collect();
            let x = pf32(t[3 + 2 * n * dim]);
            dispatch!(run_rays, t[1], &w, dim, x)
        }
        "sstep" => {
            let x = pf32(t[1]);
            format!("{} {}", h32(smoothstep(x)), h32(smootherstep(x)))
        }
        op => panic!("unknown op {op}"),
    }
}

// ---------------------------------------------------------------------------
// generators
// ---------------------------------------------------------------------------

fn ulps(x: f32, k: i32) -> f32 {
    // x > 0 finite
    f32::from_bits((x.to_bits() as i64 + k as i64) as u32)
}

const SCALES: &[f32] = &[1e-3, 1.0, 1.0, 1.0, 100.0, 1e3, 1e6];

/// One control polygon of `n` points, `dim` components each.
fn polygon(rng: &mut Rng, n: usize, dim: usize) -> Vec<f32> {
    let mode = rng.below(8);
    let s = *rng.pick(SCALES);
    let mut v = Vec::with_capacity(n * dim);
    match mode {
        0 | 1 | 2 => {
            for _ in 0..n * dim {
                v.push(rng.f32_in(-s, s));
            }
        }
        3 => {
            // small integers
            for _ in 0..n * dim {
                v.push(rng.range(-8, 9) as f32 * s);
            }
        }
        4 => {
            // every coordinate with its own magnitude
            for _ in 0..n * dim {
                let s = *rng.pick(SCALES);
                v.push(rng.f32_in(-s, s));
            }
        }
        5 => {
            // dyadic in [0,1] (colours)
            for _ in 0..n * dim {
                v.push(rng.below(9) as f32 / 8.0 * s);
            }
        }
        6 => {
            // degenerate: repeated points / collinear
            let a: Vec<f32> = (0..dim).map(|_| rng.f32_in(-s, s)).collect();
            let d: Vec<f32> = (0..dim).map(|_| rng.f32_in(-s, s)).collect();
            let coll = rng.bool();
            for i in 0..n {
                for k in 0..dim {
                    v.push(if coll { a[k] + d[k] * i as f32 } else { a[k] });
                }
            }
        }
        _ => {
            // offset far from the origin, small extent
            let off: Vec<f32> = (0..dim).map(|_| rng.f32_in(-s, s) * 100.0).collect();
            for i in 0..n * dim {
                v.push(off[i % dim] + rng.f32_in(-s, s));
            }
        }
    }
    v
}

/// Parameter values: ends, beyond, joins k/n +- ulps, special values.
fn param(rng: &mut Rng, segs: u32) -> f32 {
    match rng.below(32) {
        0 => -1.0,
        1 => -1e-6,
        2 => 0.0,
        3 => -0.0,
        4 => 1.0,
        5 => ulps(1.0, 1),
        6 => ulps(1.0, -1),
        7 => 2.0,
        8 => 1e30,
        9 => f32::NAN,
        10 => f32::INFINITY,
        11 => f32::NEG_INFINITY,
        12 => f32::MIN_POSITIVE,
        13 => -1e30,
        14 | 15 | 16 | 17 => {
            // a join of *this* spline
            let k = rng.range(0, segs as i64 + 1) as f32;
            let t = k / segs as f32;
            if t > 0.0 {
                ulps(t, rng.range(-2, 3) as i32)
            } else {
                t
            }
        }
        18 | 19 => {
            // joins of any segment count 1..8
            let n = rng.range(1, 9) as f32;
            let k = rng.range(0, n as i64 + 1) as f32;
            let t = k / n;
            if t > 0.0 {
                ulps(t, rng.range(-2, 3) as i32)
            } else {
                t
            }
        }
        _ => rng.unit(),
    }
}

fn kind(rng: &mut Rng) -> (&'static str, usize) {
    *rng.pick(KINDS)
}

pub fn gen(rng: &mut Rng, tier: Tier, out: &mut Vec<String>) {
    let q = tier == Tier::Quick;
    // single cubics
    for _ in 0..(if q { 5000 } else { 150_000 }) {
        let (k, dim) = kind(rng);
        let w = polygon(rng, 4, dim);
        let t = param(rng, 1);
        out.push(format!("bez {} {} {}", k, hexes(&w), h32(t)));
    }
    // splines, 1..8 segments
    for _ in 0..(if q { 6000 } else { 200_000 }) {
        let (k, dim) = kind(rng);
        let segs = rng.range(1, 9) as usize;
        let n = 3 * segs + 1;
        let w = polygon(rng, n, dim);
        let t = param(rng, segs as u32);
        out.push(format!("spl {} {} {} {}", k, n, hexes(&w), h32(t)));
    }
    // every join of every segment count, exactly and +-1..2 ulp
    for segs in 1..=8usize {
        for k in 0..=segs {
            for d in -2..=2 {
                let (kd, dim) = kind(rng);
                let n = 3 * segs + 1;
                let w = polygon(rng, n, dim);
                let t0 = k as f32 / segs as f32;
                let t = if t0 > 0.0 { ulps(t0, d) } else { t0 };
                out.push(format!("spl {} {} {} {}", kd, n, hexes(&w), h32(t)));
            }
        }
    }
    // malformed lengths: new() must reject them
    for n in [0usize, 1, 2, 3, 5, 6, 8, 9, 11, 12] {
        let (k, dim) = kind(rng);
        let w = polygon(rng, n, dim);
        let tail = if w.is_empty() { String::new() } else { format!("{} ", hexes(&w)) };
        out.push(format!("spl {} {} {}{}", k, n, tail, h32(0.5)));
    }
    // from_rays: 0..9 rays (0 and 1 must be rejected by new())
    for i in 0..(if q { 1500 } else { 50_000 }) {
        let (k, dim) = kind(rng);
        let n = if i % 50 == 0 { rng.range(0, 2) as usize } else { rng.range(2, 10) as usize };
        let w = polygon(rng, 2 * n, dim);
        let t = param(rng, n.max(2) as u32 - 1);
        let body = if w.is_empty() { String::new() } else { format!("{} ", hexes(&w)) };
        out.push(format!("rays {} {} {}{}", k, n, body, h32(t)));
    }
    // approximate
    let n_apx = if q { 260 } else { 6000 };
    for i in 0..n_apx {
        let (k, dim) = kind(rng);
        let segs = if rng.chance(1, 3) { 1 } else { rng.range(1, 9) as usize };
        let n = 3 * segs + 1;
        let mut w = polygon(rng, n, dim);
        // one curve in six is CLOSED (the last control point equals the first; one in twelve also returns to
        // its start at a join in between): the end points of a span coincide although the span is not flat
        if i % 6 == 5 {
            for c in 0..dim {
                w[(n - 1) * dim + c] = w[c];
            }
            if i % 12 == 11 && segs >= 2 {
                let j = 3 * (1 + rng.below(segs as u64 - 1) as usize);
                for c in 0..dim {
                    w[j * dim + c] = w[c];
                }
            }
        }
        let m = w.iter().fold(0.0f32, |a, x| a.max(x.abs())).max(1e-30);
        // thresholds from coarse to tiny, relative to the polygon's magnitude; the tiny ones
        // drive the recursion to its depth bound (few of them: output grows to 2^14 points)
        let e = if i % 100 == 0 { 7 } else if i % 20 == 0 { rng.range(4, 7) } else { rng.range(1, 4) };
        let thr = m * 10f32.powi(-(e as i32)) * rng.f32_in(0.5, 2.0);
        out.push(format!("apx {} {} {} {}", k, n, hexes(&w), h32(thr)));
    }
    // MANY segments (the property says "for every segment count"): 12..40 segments with ordinary thresholds,
    // and one 22-segment spline (64 control points) whose criterion is never met, so that every branch of the
    // subdivision runs to the depth bound (whatever bounds the recursion by a fixed-size structure shows here)
    for i in 0..(if q { 6 } else { 120 }) {
        let (k, dim) = kind(rng);
        let segs = if i == 0 { 22 } else { rng.range(12, 41) as usize };
        let n = 3 * segs + 1;
        let w = polygon(rng, n, dim);
        let m = w.iter().fold(0.0f32, |a, x| a.max(x.abs())).max(1e-30);
        let thr = if i == 0 { 0.0 } else { m * 10f32.powi(-(rng.range(1, 5) as i32)) };
        out.push(format!("apx {} {} {} {}", k, n, hexes(&w), h32(thr)));
    }
    // halt never / always true
    for thr in [0.0f32, f32::INFINITY] {
        let (k, dim) = kind(rng);
        let w = polygon(rng, 4, dim);
        out.push(format!("apx {} 4 {} {}", k, hexes(&w), h32(thr)));
    }
    // step helpers
    for _ in 0..(if q { 400 } else { 20_000 }) {
        let t = match rng.below(4) {
            0 => param(rng, 1),
            1 => rng.f32_in(-2.0, 3.0),
            _ => rng.unit(),
        };
        out.push(format!("sstep {}", h32(t)));
    }
}

fn main() {
    vharness::harness_main(gen, run)
}
