//! C18: angles (core/src/math/angle.rs).
//!
//! All numbers are f32 bit patterns; angles cross as their radian value unless stated.
//!   conv <deg|rad|turn> <a>   -> to_rads to_degs to_turns          of degs(a) / rads(a) / turns(a)
//!   wrap <a> <min> <max>      -> wrap                               (radians)
//!   wrapu <deg|rad|turn> <a> <min> <max> -> wrap  a min max        (all four in radians; the three
//!                                angles are built with the unit's constructor from the given numbers)
//!   clamp <a> <min> <max>     -> clamp                              (panics if min > max)
//!   minmax <a> <b>            -> min max
//!   ops <a> <b> <s>           -> a+b a-b -a a*s a/s a%b
//!   sincos <a>                -> sin cos sin_cos.0 sin_cos.1 tan | std: sin cos tan
//!   inv <x> <y>               -> asin(x)|P acos(x) atan2(y,x)      | std: asin acos atan2
//!   polar <r> <az>            -> x y  r' az'   | std: sin(az) cos(az) sqrt(x*x+y*y) atan2(y,x)
//!   cart2 <x> <y>             -> r az  x' y'   | std: sqrt(x*x+y*y) atan2(y,x) sin(az) cos(az)
//!   sph <r> <az> <alt>        -> x y z  r' az' alt'
//!                                | std: sin(az) cos(az) sin(alt) cos(alt) sqrt(dot) atan2(z,x) sqrt(xx+zz) atan2(y,that)
//!   cart3 <x> <y> <z>         -> r az alt  x' y' z'
//!                                | std: sqrt(dot) atan2(z,x) sqrt(xx+zz) atan2(y,that) sin(az) cos(az) sin(alt) cos(alt)
//!   opsu <a> <b> <s>          -> operators a+b a-b -a a*s a/s | trait methods Affine::add Affine::sub
//!                                Linear::neg Linear::mul Linear::zero lerp(a,b,s) | a.to_degs b.to_degs
//!                                (a+b).to_degs (a-b).to_degs a.to_turns (a*s).to_turns (a/s).to_turns | max min
//!   front <r> <az> <alt> <x> <y> <z> -> Vec2::from(polar) to_cart | PolarVec::from(vec2) to_polar
//!                                | Vec3::from(spherical) to_cart | SphericalVec::from(vec3) to_spherical
//! The `std:` values are what the standard library returns for the stated arguments (computed here,
//! not through retrofire); the model's coordinate-change skeleton is evaluated on them.
use std::f32::consts::{PI, TAU};

use re::math::angle::{acos, asin, atan2, degs, polar, rads, spherical, turns, Angle};
use re::math::angle::{PolarVec, SphericalVec};
use re::math::{vec2, vec3, Affine, Lerp, Linear, Vec2, Vec3};

use vharness::util::*;

fn hs(v: &[f32]) -> String {
    v.iter().map(|x| h32(*x)).collect::<Vec<_>>().join(" ")
}

pub fn run(t: &[&str]) -> String {
    let f = |i: usize| pf32(t[i]);
    match t[0] {
        "conv" => {
            let a = match t[1] {
                "deg" => degs(f(2)),
                "rad" => rads(f(2)),
                "turn" => turns(f(2)),
                u => panic!("unit {u}"),
            };
            hs(&[a.to_rads(), a.to_degs(), a.to_turns()])
        }
        "wrap" => hs(&[rads(f(1)).wrap(rads(f(2)), rads(f(3))).to_rads()]),
        "wrapu" => {
            let mk = |x: f32| match t[1] {
                "deg" => degs(x),
                "rad" => rads(x),
                "turn" => turns(x),
                u => panic!("unit {u}"),
            };
            let (a, mn, mx) = (mk(f(2)), mk(f(3)), mk(f(4)));
            hs(&[a.wrap(mn, mx).to_rads(), a.to_rads(), mn.to_rads(), mx.to_rads()])
        }
        "clamp" => hs(&[rads(f(1)).clamp(rads(f(2)), rads(f(3))).to_rads()]),
        "minmax" => {
            let (a, b) = (rads(f(1)), rads(f(2)));
            hs(&[a.min(b).to_rads(), a.max(b).to_rads()])
        }
        "ops" => {
            let (a, b, s) = (rads(f(1)), rads(f(2)), f(3));
            hs(&[
                (a + b).to_rads(),
                (a - b).to_rads(),
                (-a).to_rads(),
                (a * s).to_rads(),
                (a / s).to_rads(),
                (a % b).to_rads(),
            ])
        }
        "opsu" => {
            let (a, b, s) = (rads(f(1)), rads(f(2)), f(3));
            let ops = [(a + b).to_rads(), (a - b).to_rads(), (-a).to_rads(), (a * s).to_rads(), (a / s).to_rads()];
            let tr = [
                Affine::add(&a, &b).to_rads(),
                Affine::sub(&a, &b).to_rads(),
                Linear::neg(&a).to_rads(),
                Linear::mul(&a, s).to_rads(),
                <Angle as Linear>::zero().to_rads(),
                a.lerp(&b, s).to_rads(),
            ];
            let un = [
                a.to_degs(),
                b.to_degs(),
                (a + b).to_degs(),
                (a - b).to_degs(),
                a.to_turns(),
                (a * s).to_turns(),
                (a / s).to_turns(),
            ];
            format!("{} | {} | {} | {}", hs(&ops), hs(&tr), hs(&un), hs(&[a.max(b).to_rads(), a.min(b).to_rads()]))
        }
        "front" => {
            let p = polar(f(1), rads(f(2)));
            let sp = spherical(f(1), rads(f(2)), rads(f(3)));
            let v2: Vec2 = vec2(f(4), f(5));
            let v3: Vec3 = vec3(f(4), f(5), f(6));
            let (a, b) = (Vec2::from(p), p.to_cart());
            let (c, d) = (PolarVec::from(v2), v2.to_polar());
            let (e, g) = (Vec3::from(sp), sp.to_cart());
            let (h, i) = (SphericalVec::from(v3), v3.to_spherical());
            format!(
                "{} {} | {} {} | {} {} | {} {}",
                hs(&a.0), hs(&b.0), hs(&c.0), hs(&d.0), hs(&e.0), hs(&g.0), hs(&h.0), hs(&i.0)
            )
        }
        "sincos" => {
            let a = rads(f(1));
            let (s, c) = a.sin_cos();
            format!(
                "{} | {}",
                hs(&[a.sin(), a.cos(), s, c, a.tan()]),
                hs(&[f(1).sin(), f(1).cos(), f(1).tan()])
            )
        }
        "inv" => {
            let (x, y) = (f(1), f(2));
            let asn = std::panic::catch_unwind(|| asin(x).to_rads());
            let a = match asn {
                Ok(v) => h32(v),
                Err(_) => "P".to_string(),
            };
            format!(
                "{} {} | {}",
                a,
                hs(&[acos(x).to_rads(), atan2(y, x).to_rads()]),
                hs(&[x.asin(), x.acos(), y.atan2(x)])
            )
        }
        "polar" => {
            let (r, az) = (f(1), f(2));
            let c: Vec2 = polar(r, rads(az)).to_cart();
            let p = c.to_polar();
            let (x, y) = (c.x(), c.y());
            format!(
                "{} | {}",
                hs(&[x, y, p.r(), p.az().to_rads()]),
                hs(&[az.sin(), az.cos(), (x * x + y * y).sqrt(), y.atan2(x)])
            )
        }
        "cart2" => {
            let (x, y) = (f(1), f(2));
            let v: Vec2 = vec2(x, y);
            let p = v.to_polar();
            let c = p.to_cart();
            let az = p.az().to_rads();
            format!(
                "{} | {}",
                hs(&[p.r(), az, c.x(), c.y()]),
                hs(&[(x * x + y * y).sqrt(), y.atan2(x), az.sin(), az.cos()])
            )
        }
        "sph" => {
            let (r, az, alt) = (f(1), f(2), f(3));
            let c: Vec3 = spherical(r, rads(az), rads(alt)).to_cart();
            let s = c.to_spherical();
            let (x, y, z) = (c.x(), c.y(), c.z());
            let q = (x * x + z * z).sqrt();
            format!(
                "{} | {}",
                hs(&[x, y, z, s.r(), s.az().to_rads(), s.alt().to_rads()]),
                hs(&[
                    az.sin(),
                    az.cos(),
                    alt.sin(),
                    alt.cos(),
                    (x * x + y * y + z * z).sqrt(),
                    z.atan2(x),
                    q,
                    y.atan2(q)
                ])
            )
        }
        "cart3" => {
            let (x, y, z) = (f(1), f(2), f(3));
            let v: Vec3 = vec3(x, y, z);
            let s = v.to_spherical();
            let c = s.to_cart();
            let (az, alt) = (s.az().to_rads(), s.alt().to_rads());
            let q = (x * x + z * z).sqrt();
            format!(
                "{} | {}",
                hs(&[s.r(), az, alt, c.x(), c.y(), c.z()]),
                hs(&[
                    (x * x + y * y + z * z).sqrt(),
                    z.atan2(x),
                    q,
                    y.atan2(q),
                    az.sin(),
                    az.cos(),
                    alt.sin(),
                    alt.cos()
                ])
            )
        }
        op => panic!("unknown op {op}"),
    }
}

// ---------------------------------------------------------------------------

fn ulps(x: f32, k: i32) -> f32 {
    if x == 0.0 || !x.is_finite() {
        return x;
    }
    f32::from_bits((x.to_bits() as i64 + k as i64) as u32)
}

/// A finite angle in radians: a few turns, many revolutions, exact multiples of quarter turns,
/// tiny values, zero.
fn angle(rng: &mut Rng) -> f32 {
    match rng.below(12) {
        0 => 0.0,
        1 => rng.f32_in(-1e-6, 1e-6),
        2 => (rng.range(-8, 9) as f32) * (PI / 2.0),
        3 => ulps((rng.range(-8, 9) as f32) * (PI / 2.0), rng.range(-2, 3) as i32),
        4 => rng.f32_in(-1000.0, 1000.0) * TAU,
        5 => rng.f32_in(-1e5, 1e5),
        6 => (rng.range(-400, 401) as f32) * TAU,
        7 => degs_to_rad(rng.range(-720, 721) as f32),
        _ => rng.f32_in(-TAU, TAU) * if rng.chance(1, 4) { 3.0 } else { 1.0 },
    }
}

fn degs_to_rad(d: f32) -> f32 {
    d * (PI / 180.0)
}

fn magnitude(rng: &mut Rng) -> f32 {
    *rng.pick(&[1e-3f32, 0.1, 1.0, 1.0, 1.0, 7.5, 100.0, 1e4, 1e6])
}

fn comp(rng: &mut Rng, s: f32) -> f32 {
    match rng.below(10) {
        0 => 0.0,
        1 => s,
        2 => -s,
        3 => rng.f32_in(-1.0, 1.0) * 1e-20,
        _ => rng.f32_in(-s, s),
    }
}

pub fn gen(rng: &mut Rng, tier: Tier, out: &mut Vec<String>) {
    let q = tier == Tier::Quick;
    let n = |a: usize, b: usize| if q { a } else { b };
    // unit conversions
    for _ in 0..n(3000, 100_000) {
        let u = *rng.pick(&["deg", "rad", "turn"]);
        let a = match rng.below(6) {
            0 => rng.range(-720, 721) as f32,
            1 => rng.f32_in(-1.0, 1.0),
            2 => rng.f32_in(-1e5, 1e5),
            3 => rng.range(-8, 9) as f32 * 0.25,
            4 => 0.0,
            _ => angle(rng),
        };
        out.push(format!("conv {} {}", u, h32(a)));
    }
    // wrap
    for i in 0..n(6000, 200_000) {
        let (mn, mx) = match rng.below(10) {
            0 | 1 => (0.0, TAU),
            2 | 3 => (-PI, PI),
            4 => (0.0, PI / 4.0),
            5 => {
                let mn = rng.f32_in(-100.0, 100.0);
                (mn, mn + rng.f32_in(1e-3, 100.0))
            }
            6 => {
                let mn = rng.f32_in(-1e4, 1e4);
                (mn, mn + rng.f32_in(0.5, 10.0))
            }
            7 => (degs_to_rad(rng.range(-360, 0) as f32), degs_to_rad(rng.range(1, 361) as f32)),
            8 => (rng.range(-5, 1) as f32, rng.range(1, 6) as f32),
            _ => {
                let mn = rng.f32_in(-10.0, 10.0);
                (mn, mn + rng.f32_in(1e-3, 1.0))
            }
        };
        let len = mx - mn;
        let a = match rng.below(8) {
            0 => mn,
            1 => mx,
            2 => ulps(mx, -1),
            3 => ulps(mn, if mn > 0.0 { -1 } else { 1 }),
            4 => mn + len * rng.range(-50, 51) as f32,
            5 => mn + len * rng.range(-50, 51) as f32 + rng.f32_in(-1e-6, 1e-6),
            6 => mn + len * rng.f32_in(-2000.0, 2000.0),
            _ => angle(rng),
        };
        out.push(format!("wrap {} {} {}", h32(a), h32(mn), h32(mx)));
        if i % 500 == 0 {
            // degenerate and reversed intervals
            out.push(format!("wrap {} {} {}", h32(a), h32(mn), h32(mn)));
            out.push(format!("wrap {} {} {}", h32(a), h32(mx), h32(mn)));
        }
    }
    // angles a hair below min (and one or two interval lengths further down) for intervals whose ends have different
    // magnitudes: `max − min` is then inexact, the remainder rounds up to the full length and `min + length`
    // lands an ulp ABOVE max (recorded finding `wrap-above-max`)
    for _ in 0..(if q { 600 } else { 20_000 }) {
        let mn = rng.f32_in(-1.0, 1.0) * 10f32.powf(rng.f32_in(-3.0, 3.0));
        let mx = mn + rng.unit().max(1e-3) * 10f32.powf(rng.f32_in(-3.0, 3.0));
        if !(mn < mx) {
            continue;
        }
        let span = mx - mn;
        let below = |x: f32| f32::from_bits(if x > 0.0 { x.to_bits() - 1 } else if x < 0.0 { x.to_bits() + 1 } else { 0x8000_0001 });
        let a = match rng.below(3) { 0 => below(mn), 1 => below(mn - span), _ => below(mn - 2.0 * span) };
        out.push(format!("wrap {} {} {}", h32(a), h32(mn), h32(mx)));
    }
    // wrap at the interval ends, through every unit constructor: inputs bit-equal to max and min,
    // one and two ulps either side, and min + k*span for whole k, on intervals whose limits and
    // spans are exact in the unit used (the library itself wraps into [-1/2, 1/2) and [0, 1) turn)
    {
        let ivs: &[(&str, f32, f32)] = &[
            ("turn", -0.5, 0.5),
            ("turn", 0.0, 1.0),
            ("turn", 0.0, 0.25),
            ("turn", -0.25, 0.25),
            ("turn", 1.0, 3.0),
            ("deg", -180.0, 180.0),
            ("deg", 0.0, 360.0),
            ("deg", -90.0, 90.0),
            ("deg", 0.0, 45.0),
            ("deg", 30.0, 60.0),
            ("rad", -PI, PI),
            ("rad", 0.0, TAU),
            ("rad", -2.0, 2.0),
            ("rad", 0.0, 4.0),
            ("rad", -0.5, 1.5),
            ("rad", 1.0, 3.0),
        ];
        let reps = n(6, 200);
        for rep in 0..reps {
            for &(u, mn, mx) in ivs {
                let span = mx - mn;
                let mut xs = vec![mx, mn];
                for d in [-2, -1, 1, 2] {
                    xs.push(if mx == 0.0 { d as f32 * f32::MIN_POSITIVE } else { ulps(mx, d) });
                    xs.push(if mn == 0.0 { d as f32 * 1e-38 } else { ulps(mn, d) });
                }
                for k in -8..=8 {
                    xs.push(mn + k as f32 * span);
                    xs.push(mx + k as f32 * span);
                }
                if rep > 0 {
                    // later repetitions: random whole multiples and their neighbours
                    xs.clear();
                    for _ in 0..8 {
                        let k = rng.range(-300, 301) as f32;
                        let base = if rng.bool() { mn } else { mx } + k * span;
                        xs.push(base);
                        xs.push(ulps(base, rng.range(-2, 3) as i32));
                    }
                    xs.push(mx);
                    xs.push(mn);
                }
                for x in xs {
                    out.push(format!("wrapu {} {} {} {}", u, h32(x), h32(mn), h32(mx)));
                }
            }
        }
    }
    // clamp / min / max / operators
    for _ in 0..n(1500, 50_000) {
        let (a, b, c) = (angle(rng), angle(rng), angle(rng));
        let (mn, mx) = if rng.chance(1, 20) { (b.max(c), b.min(c)) } else { (b.min(c), b.max(c)) };
        out.push(format!("clamp {} {} {}", h32(a), h32(mn), h32(mx)));
        out.push(format!("minmax {} {}", h32(a), h32(b)));
        let s = match rng.below(4) {
            0 => rng.range(-4, 5) as f32,
            _ => rng.f32_in(-10.0, 10.0),
        };
        let s = if s == 0.0 { 0.5 } else { s };
        let b2 = if b == 0.0 { 1.0 } else { b };
        out.push(format!("ops {} {} {}", h32(a), h32(b2), h32(s)));
    }
    // operators, the Affine/Linear trait methods, lerp, max/min, read back in every unit
    for _ in 0..n(1500, 50_000) {
        let (a, b) = (angle(rng), angle(rng));
        let s = match rng.below(4) {
            0 => rng.range(-4, 5) as f32,
            1 => rng.unit(),
            _ => rng.f32_in(-10.0, 10.0),
        };
        let s = if s == 0.0 { 0.25 } else { s };
        out.push(format!("opsu {} {} {}", h32(a), h32(b), h32(s)));
    }
    // the From/Into front doors of the coordinate changes
    for _ in 0..n(1000, 30_000) {
        let r = magnitude(rng) * rng.f32_in(-0.2, 1.0);
        let m = magnitude(rng);
        out.push(format!(
            "front {} {} {} {} {} {}",
            h32(r), h32(angle(rng)), h32(rng.f32_in(-PI / 2.0, PI / 2.0)), h32(comp(rng, m)), h32(comp(rng, m)), h32(comp(rng, m))
        ));
    }
    // sin / cos / tan
    for _ in 0..n(2000, 60_000) {
        out.push(format!("sincos {}", h32(angle(rng))));
    }
    // inverse functions
    for _ in 0..n(1000, 30_000) {
        let x = match rng.below(8) {
            0 => 1.0,
            1 => -1.0,
            2 => 0.0,
            3 => rng.f32_in(-2.0, 2.0),
            _ => rng.f32_in(-1.0, 1.0),
        };
        let s = magnitude(rng);
        out.push(format!("inv {} {}", h32(x), h32(comp(rng, s))));
    }
    // polar
    for _ in 0..n(4000, 120_000) {
        let r = match rng.below(10) {
            0 => 0.0,
            1 => -magnitude(rng),
            _ => magnitude(rng) * rng.f32_in(0.1, 1.0),
        };
        let az = match rng.below(6) {
            0 => angle(rng),
            1 => PI,
            2 => (rng.range(-2, 3) as f32) * (PI / 2.0),
            _ => rng.f32_in(-PI, PI),
        };
        out.push(format!("polar {} {}", h32(r), h32(az)));
        let s = magnitude(rng);
        out.push(format!("cart2 {} {}", h32(comp(rng, s)), h32(comp(rng, s))));
    }
    // every quadrant and axis, a few magnitudes
    for s in [1e-3f32, 1.0, 250.0, 1e6] {
        for (x, y) in [(1, 0), (1, 1), (0, 1), (-1, 1), (-1, 0), (-1, -1), (0, -1), (1, -1), (0, 0)] {
            out.push(format!("cart2 {} {}", h32(x as f32 * s), h32(y as f32 * s)));
        }
    }
    // spherical
    for _ in 0..n(4000, 120_000) {
        let r = match rng.below(10) {
            0 => 0.0,
            1 => -magnitude(rng),
            _ => magnitude(rng) * rng.f32_in(0.1, 1.0),
        };
        let az = match rng.below(6) {
            0 => angle(rng),
            1 => (rng.range(-2, 3) as f32) * (PI / 2.0),
            _ => rng.f32_in(-PI, PI),
        };
        let alt = match rng.below(8) {
            0 => PI / 2.0,
            1 => -PI / 2.0,
            2 => 0.0,
            3 => angle(rng),
            _ => rng.f32_in(-PI / 2.0, PI / 2.0),
        };
        out.push(format!("sph {} {} {}", h32(r), h32(az), h32(alt)));
        let s = magnitude(rng);
        out.push(format!("cart3 {} {} {}", h32(comp(rng, s)), h32(comp(rng, s)), h32(comp(rng, s))));
    }
    // every octant and axis
    for s in [1e-3f32, 1.0, 250.0, 1e6] {
        for x in [-1, 0, 1] {
            for y in [-1, 0, 1] {
                for z in [-1, 0, 1] {
                    out.push(format!(
                        "cart3 {} {} {}",
                        h32(x as f32 * s),
                        h32(y as f32 * s),
                        h32(z as f32 * s)
                    ));
                }
            }
        }
    }
}

fn main() {
    vharness::harness_main(gen, run)
}
