//! C19: Xorshift64 and the distributions built on it.
use re::math::rand::*;
use re::math::{pt2, vec3, Point2, Vec3};

use vharness::util::*;

fn inv_shl(mut y: u64, k: u32) -> u64 {
    // inverse of x ^= x << k
    let mut s = k;
    while s < 64 {
        y ^= y << s;
        s *= 2;
    }
    y
}
fn inv_shr(mut y: u64, k: u32) -> u64 {
    let mut s = k;
    while s < 64 {
        y ^= y >> s;
        s *= 2;
    }
    y
}
/// Predecessor of `y` under the documented step (<<13, >>7, <<17); only used to
/// pick states whose *successor* has a wanted mantissa, and re-checked by the caller.
fn inv_step(y: u64) -> u64 {
    inv_shl(inv_shr(inv_shl(y, 17), 7), 13)
}

fn edge_states(rng: &mut Rng, n_random: usize) -> Vec<u64> {
    let mut v = vec![1, 2, 3, u64::MAX, u64::MAX - 1, Xorshift64::DEFAULT_SEED, 0x8000_0000_0000_0000];
    for i in 0..64 {
        v.push(1u64 << i);
        v.push((1u64 << i).wrapping_sub(1).max(1));
        v.push(!(1u64 << i));
    }
    for _ in 0..n_random {
        let mut x = rng.u64();
        if rng.chance(1, 8) {
            x &= rng.u64();
        }
        if rng.chance(1, 8) {
            x >>= rng.below(64);
        }
        v.push(x.max(1));
    }
    v
}

const F32_RANGES: &[(f32, f32)] = &[
    (0.0, 1.0),
    (-1.0, 1.0),
    (1000.0, 1001.0),
    (-1.23, 4.56),
    (1e-6, 2e-6),
    (-5.0, -3.0),
    (0.0, 1e6),
    (-1e-3, 1e-3),
    (16_777_215.0, 16_777_216.0),
    (0.1, 0.3),
    // ranges far from unit scale: an absolute epsilon, clamp or bias in the sampler shows only here
    (0.0, 1e-10),
    (-1e-9, 1e-9),
    (1e-20, 3e-20),
    (-2e-30, -1e-30),
    (1e30, 2e30),
    (-4e37, 4e37),
    (0.0, 1.1754944e-38),
    (3.0, 3.0000002),
];

pub fn gen(rng: &mut Rng, tier: Tier, out: &mut Vec<String>) {
    let q = tier == Tier::Quick;
    let n_states = if q { 3000 } else { 200_000 };
    for s in edge_states(rng, n_states) {
        out.push(format!("next {}", h64(s)));
    }
    out.push(format!("next {}", h64(0)));
    // equal seeds -> equal sequences
    for _ in 0..(if q { 20 } else { 200 }) {
        out.push(format!("seq {} {}", h64(rng.u64().max(1)), 1 + rng.below(64)));
    }
    out.push("default".to_string());
    for _ in 0..(if q { 200 } else { 5000 }) {
        let a = rng.range(-1000, 1000);
        out.push(format!("samples {} {} {} {}", h64(rng.u64().max(1)), 1 + rng.below(12), a, a + 1 + rng.range(0, 5000)));
    }
    // integers
    let n_int = if q { 3000 } else { 100_000 };
    for i in 0..n_int {
        let s = rng.u64().max(1);
        let (a, b) = match i % 8 {
            0 => (1, 7),
            1 => (-123, 456),
            2 => (i32::MIN as i64, i32::MAX as i64),          // width not representable
            3 => (-1, i32::MAX as i64),                       // width not representable
            4 => (i32::MIN as i64, 0),                        // width not representable
            5 => (-(1 << 30), (1 << 30) - 1),                 // widest representable
            6 => { let a = rng.range(-1000, 1000); (a, a + 1) }
            _ => {
                let a = rng.range(i32::MIN as i64, i32::MAX as i64);
                let b = rng.range(i32::MIN as i64, i32::MAX as i64);
                (a.min(b), a.max(b) + if a == b { 1 } else { 0 })
            }
        };
        let b = b.min(i32::MAX as i64);
        out.push(format!("ui32 {} {} {}", h64(s), a, b));
    }
    // a few empty / reversed integer ranges (rem_euclid by <= 0)
    for (a, b) in [(5, 5), (7, 1), (0, -1)] {
        out.push(format!("ui32 {} {} {}", h64(rng.u64().max(1)), a, b));
    }
    // floats
    let n_f = if q { 4000 } else { 200_000 };
    for i in 0..n_f {
        let (a, b) = F32_RANGES[i % F32_RANGES.len()];
        // half of the states are chosen so that the mantissa is extreme
        let s = if rng.chance(1, 2) {
            let m: u64 = match rng.below(4) {
                0 => 0,
                1 => (1 << 23) - 1 - rng.below(64),
                2 => rng.below(64),
                _ => rng.below(1 << 23),
            };
            inv_step((m << 41) | (rng.u64() >> 23))
        } else {
            rng.u64()
        }
        .max(1);
        out.push(format!("uf32 {} {} {}", h64(s), h32(a), h32(b)));
    }
    // Bernoulli
    for i in 0..(if q { 2000 } else { 50_000 }) {
        let p = match i % 8 {
            0 => 0.0,
            1 => 1.0,
            2 => -0.0,
            3 => -1.5,
            4 => 2.5,
            5 => f32::from_bits(1),
            6 => 1.0 - f32::EPSILON / 2.0,
            _ => rng.unit(),
        };
        let s = if rng.chance(1, 3) {
            let m: u64 = if rng.bool() { 0 } else { (1 << 23) - 1 };
            inv_step((m << 41) | (rng.u64() >> 23)).max(1)
        } else {
            rng.u64().max(1)
        };
        out.push(format!("bern {} {}", h64(s), h32(p)));
    }
    // composite distributions: components drawn independently, in order
    for _ in 0..(if q { 500 } else { 20_000 }) {
        let s = rng.u64().max(1);
        let n = 2 + rng.below(3);
        let mut l = format!("arr {} {}", h64(s), n);
        for _ in 0..n {
            let a = rng.range(-1000, 1000);
            l += &format!(" {} {}", a, a + 1 + rng.range(0, 2000));
        }
        out.push(l);
        let s = rng.u64().max(1);
        let mut l = format!("vec3 {}", h64(s));
        for _ in 0..3 {
            let a = rng.f32_in(-10.0, 10.0);
            // a quarter of the axes are FLAT (start == end, or -0.0..0.0): the component is fixed, but
            // it is still drawn (the generator advances), independently and in order
            if rng.chance(1, 4) {
                if rng.bool() { l += &format!(" {} {}", h32(a), h32(a)); } else { l += &format!(" {} {}", h32(-0.0), h32(0.0)); }
            } else {
                l += &format!(" {} {}", h32(a), h32(a + rng.f32_in(0.5, 10.0)));
            }
        }
        out.push(l);
        let s = rng.u64().max(1);
        let mut l = format!("pt2 {}", h64(s));
        for _ in 0..2 {
            let a = rng.f32_in(-10.0, 10.0);
            if rng.chance(1, 4) {
                l += &format!(" {} {}", h32(a), h32(a));
            } else {
                l += &format!(" {} {}", h32(a), h32(a + rng.f32_in(0.5, 10.0)));
            }
        }
        out.push(l);
        let a = rng.range(-50, 50);
        out.push(format!("pair {} {} {} {}", h64(rng.u64().max(1)), h32(rng.unit()), a, a + 1 + rng.range(0, 50)));
    }
    // rejection-sampled and normalised distributions
    for _ in 0..(if q { 1500 } else { 50_000 }) {
        for op in ["disk", "ball", "pdisk", "pball", "circle", "sphere"] {
            out.push(format!("{op} {}", h64(rng.u64().max(1))));
        }
    }
    // "for every generator state" claims that are conditions on a few consecutive outputs: states SOLVED
    // for (xorshift is linear over GF(2)), so that the first two or three outputs have prescribed
    // mantissas — all-zero, all-one, the midpoint 2^22 (component exactly 0) and their neighbours.
    // This is how the fixed defect circle-zero-vector (2^18 states out of 2^64) is reached.
    let specials: [u32; 7] = [0, 1, (1 << 22) - 1, 1 << 22, (1 << 22) + 1, (1 << 23) - 2, (1 << 23) - 1];
    for op in ["circle", "disk", "pdisk", "sphere", "ball", "pball", "vec3u", "pt2u"] {
        let k = if op == "circle" || op == "disk" || op == "pdisk" || op == "pt2u" { 2 } else { 3 };
        let combos = if q { 60 } else { 343 };
        for c in 0..combos {
            let ms: Vec<Option<u32>> = (0..k)
                .map(|j| {
                    let d = (c / 7usize.pow(j as u32)) % 7;
                    // quick tier: random picks beyond the first 49 combinations
                    Some(if q && c >= 49 { *rng.pick(&specials) } else { specials[d] })
                })
                .collect();
            if let Some(s) = solve_mants(rng, &ms) {
                match op {
                    "vec3u" => out.push(format!("vec3 {} {} {} {} {} {} {}", h64(s), h32(-1.0), h32(1.0), h32(-1.0), h32(1.0), h32(-1.0), h32(1.0))),
                    "pt2u" => out.push(format!("pt2 {} {} {} {} {}", h64(s), h32(-1.0), h32(1.0), h32(-1.0), h32(1.0))),
                    _ => out.push(format!("{op} {}", h64(s))),
                }
            }
        }
    }
    // states from which rejection sampling needs unusually many rounds (found by scanning random
    // states with the library's own candidate sampler): a bounded-retry "optimisation" or a wrong
    // fallback only shows on these
    let scan = if q { 4_000_000u64 } else { 40_000_000 };
    let cube = Uniform([-1.0f32; 3]..[1.0; 3]);
    let square = Uniform([-1.0f32; 2]..[1.0; 2]);
    for _ in 0..scan {
        let s = rng.u64().max(1);
        let mut g = Xorshift64(s);
        let mut n3 = 0;
        loop {
            let [x, y, z] = cube.sample(&mut g);
            if x * x + y * y + z * z <= 1.0 || n3 >= 40 {
                break;
            }
            n3 += 1;
        }
        if n3 >= 14 {
            out.push(format!("ball {}", h64(s)));
            out.push(format!("pball {}", h64(s)));
        }
        let mut g = Xorshift64(s);
        let mut n2 = 0;
        loop {
            let [x, y] = square.sample(&mut g);
            if x * x + y * y <= 1.0 || n2 >= 40 {
                break;
            }
            n2 += 1;
        }
        if n2 >= 8 {
            out.push(format!("disk {}", h64(s)));
            out.push(format!("pdisk {}", h64(s)));
        }
    }
    // exhaustive mantissa sweep (digest protocol): every one of the 2^23 mantissas x ranges
    let block: u64 = 1 << 16;
    let total: u64 = 1 << 23;
    for (i, (a, b)) in F32_RANGES.iter().enumerate() {
        let mut m0 = 0;
        while m0 < total {
            // quick tier: a stratified eighth of the blocks per range (still 2^20 mantissas per range)
            let take = !q || ((m0 / block) as usize + i) % 8 == 0 || m0 == 0 || m0 + block == total;
            if take {
                out.push(format!("fdig {} {} {} {}", h32(*a), h32(*b), m0, block));
            }
            m0 += block;
        }
    }
}

/// One xorshift step (rand.rs `next_bits`).
fn xs_step(mut x: u64) -> u64 {
    x ^= x << 13;
    x ^= x >> 7;
    x ^= x << 17;
    x
}

/// A non-zero state whose i-th output (i = 1, 2, …) has the given top-23-bit mantissa where `Some`,
/// found by Gaussian elimination over GF(2) (the step is linear); free bits are random. `None` if the
/// system is inconsistent.
fn solve_mants(rng: &mut Rng, ms: &[Option<u32>]) -> Option<u64> {
    // cols[n][i] = image of basis state 1<<i after n+1 steps
    let mut cols: Vec<[u64; 64]> = vec![];
    let mut cur: [u64; 64] = core::array::from_fn(|i| 1u64 << i);
    for _ in 0..ms.len() {
        for c in cur.iter_mut() {
            *c = xs_step(*c);
        }
        cols.push(cur);
    }
    // equations: (coefficient mask over state bits, right-hand side)
    let mut rows: Vec<(u64, bool)> = vec![];
    for (n, m) in ms.iter().enumerate() {
        if let Some(m) = m {
            for j in 41..64 {
                let mut coeff = 0u64;
                for i in 0..64 {
                    if (cols[n][i] >> j) & 1 == 1 {
                        coeff |= 1 << i;
                    }
                }
                rows.push((coeff, ((*m as u64) >> (j - 41)) & 1 == 1));
            }
        }
    }
    let mut piv: Vec<usize> = vec![];
    let mut r = 0;
    for col in 0..64 {
        let Some(p) = (r..rows.len()).find(|&k| (rows[k].0 >> col) & 1 == 1) else { continue };
        rows.swap(r, p);
        for k in 0..rows.len() {
            if k != r && (rows[k].0 >> col) & 1 == 1 {
                rows[k].0 ^= rows[r].0;
                rows[k].1 ^= rows[r].1;
            }
        }
        piv.push(col);
        r += 1;
    }
    if rows.iter().any(|&(c, b)| c == 0 && b) {
        return None;
    }
    // free variables random, pivots determined
    let pivmask: u64 = piv.iter().fold(0, |m, &c| m | (1 << c));
    let mut s = rng.u64() & !pivmask;
    for (k, &col) in piv.iter().enumerate() {
        // row k: x_col + (free-variable terms) = rhs
        let free_part = (rows[k].0 & !pivmask & s).count_ones() & 1 == 1;
        if rows[k].1 ^ free_part {
            s |= 1 << col;
        }
    }
    // verify
    let mut x = s;
    for m in ms {
        x = xs_step(x);
        if let Some(m) = m {
            if (x >> 41) as u32 != *m {
                return None;
            }
        }
    }
    if s == 0 { None } else { Some(s) }
}

fn st(t: &str) -> Xorshift64 {
    Xorshift64(pu64h(t))
}

pub fn run(t: &[&str]) -> String {
    match t[0] {
        "next" => {
            let mut g = st(t[1]);
            let r = g.next_bits();
            assert_eq!(r, g.0);
            h64(r)
        }
        // the iterator API: `samples()` yields exactly what successive `sample()` calls yield
        "samples" => {
            let mut g = st(t[1]);
            let n: usize = t[2].parse().unwrap();
            let d = Uniform(pint(t[3]) as i32..pint(t[4]) as i32);
            let v: Vec<i32> = d.samples(&mut g).take(n).collect();
            let mut g2 = st(t[1]);
            let seq: Vec<i32> = (0..n).map(|_| d.sample(&mut g2)).collect();
            let vs: Vec<String> = v.iter().map(|x| x.to_string()).collect();
            format!("{} {} seq={}", vs.join(" "), h64(g.0), (seq == v && g2.0 == g.0) as u8)
        }
        // `Xorshift64::default()` is `from_seed(DEFAULT_SEED)`
        "default" => {
            let g = Xorshift64::default();
            let h = Xorshift64::from_seed(Xorshift64::DEFAULT_SEED);
            format!("{} {}", h64(g.0), (g.0 == h.0) as u8)
        }
        "seq" => {
            let seed = pu64h(t[1]);
            let n: usize = t[2].parse().unwrap();
            let mut a = Xorshift64::from_seed(seed);
            let mut b = Xorshift64::from_seed(seed);
            let mut h = FNV_INIT;
            let mut same = true;
            for _ in 0..n {
                let (x, y) = (a.next_bits(), b.next_bits());
                same &= x == y;
                h = fnv_step(fnv_step(h, x as u32), (x >> 32) as u32);
            }
            format!("{} {}", same as u8, h64(h))
        }
        "ui32" => {
            let mut g = st(t[1]);
            let (a, b) = (pint(t[2]) as i32, pint(t[3]) as i32);
            let v = Uniform(a..b).sample(&mut g);
            format!("{} {}", v, h64(g.0))
        }
        "uf32" => {
            let mut g = st(t[1]);
            let v = Uniform(pf32(t[2])..pf32(t[3])).sample(&mut g);
            format!("{} {}", h32(v), h64(g.0))
        }
        "bern" => {
            let mut g = st(t[1]);
            let v = Bernoulli(pf32(t[2])).sample(&mut g);
            format!("{} {}", v as u8, h64(g.0))
        }
        "arr" => {
            let mut g = st(t[1]);
            let n: usize = t[2].parse().unwrap();
            let p: Vec<i32> = t[3..].iter().map(|s| pint(s) as i32).collect();
            let v: Vec<i32> = match n {
                2 => Uniform([p[0], p[2]]..[p[1], p[3]]).sample(&mut g).to_vec(),
                3 => Uniform([p[0], p[2], p[4]]..[p[1], p[3], p[5]]).sample(&mut g).to_vec(),
                4 => Uniform([p[0], p[2], p[4], p[6]]..[p[1], p[3], p[5], p[7]]).sample(&mut g).to_vec(),
                _ => panic!("arr n"),
            };
            let vs: Vec<String> = v.iter().map(|x| x.to_string()).collect();
            // the same components drawn one at a time
            let mut g2 = st(t[1]);
            let seq: Vec<i32> = (0..n).map(|i| Uniform(p[2 * i]..p[2 * i + 1]).sample(&mut g2)).collect();
            format!("{} {} seq={}", vs.join(" "), h64(g.0), (seq == v && g2.0 == g.0) as u8)
        }
        "vec3" => {
            let mut g = st(t[1]);
            let p: Vec<f32> = t[2..].iter().map(|s| pf32(s)).collect();
            let d = Uniform(vec3::<f32, ()>(p[0], p[2], p[4])..vec3(p[1], p[3], p[5]));
            let v = d.sample(&mut g);
            let mut g2 = st(t[1]);
            let seq: Vec<u32> = (0..3).map(|i| Uniform(p[2 * i]..p[2 * i + 1]).sample(&mut g2).to_bits()).collect();
            let same = seq == [v.x().to_bits(), v.y().to_bits(), v.z().to_bits()] && g2.0 == g.0;
            format!("{} {} {} {} seq={}", h32(v.x()), h32(v.y()), h32(v.z()), h64(g.0), same as u8)
        }
        "pt2" => {
            let mut g = st(t[1]);
            let p: Vec<f32> = t[2..].iter().map(|s| pf32(s)).collect();
            let d = Uniform(pt2::<f32, ()>(p[0], p[2])..pt2(p[1], p[3]));
            let v = d.sample(&mut g);
            let mut g2 = st(t[1]);
            let seq: Vec<u32> = (0..2).map(|i| Uniform(p[2 * i]..p[2 * i + 1]).sample(&mut g2).to_bits()).collect();
            let same = seq == [v.x().to_bits(), v.y().to_bits()] && g2.0 == g.0;
            format!("{} {} {} seq={}", h32(v.x()), h32(v.y()), h64(g.0), same as u8)
        }
        "pair" => {
            let mut g = st(t[1]);
            let d = (Bernoulli(pf32(t[2])), Uniform(pint(t[3]) as i32..pint(t[4]) as i32));
            let (b, v) = d.sample(&mut g);
            let mut g2 = st(t[1]);
            let b2 = Bernoulli(pf32(t[2])).sample(&mut g2);
            let v2 = Uniform(pint(t[3]) as i32..pint(t[4]) as i32).sample(&mut g2);
            format!("{} {} {} seq={}", b as u8, v, h64(g.0), (b == b2 && v == v2 && g2.0 == g.0) as u8)
        }
        "disk" => {
            let mut g = st(t[1]);
            let v = VectorsOnUnitDisk.sample(&mut g);
            format!("{} {} {}", h32(v.x()), h32(v.y()), h64(g.0))
        }
        "pdisk" => {
            let mut g = st(t[1]);
            let v: Point2 = PointsOnUnitDisk.sample(&mut g);
            format!("{} {} {}", h32(v.x()), h32(v.y()), h64(g.0))
        }
        "ball" => {
            let mut g = st(t[1]);
            let v = VectorsInUnitBall.sample(&mut g);
            format!("{} {} {} {}", h32(v.x()), h32(v.y()), h32(v.z()), h64(g.0))
        }
        "pball" => {
            let mut g = st(t[1]);
            let v = PointsInUnitBall.sample(&mut g);
            format!("{} {} {} {}", h32(v.x()), h32(v.y()), h32(v.z()), h64(g.0))
        }
        "circle" => {
            let mut g = st(t[1]);
            let v = UnitCircle.sample(&mut g);
            format!("{} {} {}", h32(v.x()), h32(v.y()), h64(g.0))
        }
        "sphere" => {
            let mut g = st(t[1]);
            let v: Vec3 = UnitSphere.sample(&mut g);
            format!("{} {} {} {}", h32(v.x()), h32(v.y()), h32(v.z()), h64(g.0))
        }
        "fdig" => {
            // all mantissas m0..m0+count: digest of the sample bits, number of samples
            // outside [start, end), first such mantissa
            let (a, b) = (pf32(t[1]), pf32(t[2]));
            let m0: u64 = t[3].parse().unwrap();
            let count: u64 = t[4].parse().unwrap();
            let d = Uniform(a..b);
            let mut h = FNV_INIT;
            let (mut bad, mut first_bad, mut badinv, mut at_end) = (0u64, -1i64, 0u64, 0u64);
            for m in m0..m0 + count {
                let s = inv_step((m << 41) | 0x1_2345_6789);
                let mut g = Xorshift64(s);
                let v = d.sample(&mut g);
                if g.0 >> 41 != m {
                    badinv += 1;
                }
                h = fnv_step(h, v.to_bits());
                if !(a <= v && v < b) {
                    bad += 1;
                    if v == b {
                        at_end += 1;
                    }
                    if first_bad < 0 {
                        first_bad = m as i64;
                    }
                }
            }
            format!("{} {} {} {} {}", h64(h), bad, first_bad, badinv, at_end)
        }
        _ => panic!("unknown op"),
    }
}

fn main() {
    vharness::harness_main(gen, run);
}
