//! C20: float helper back ends agree with std across their whole domain.
//!
//! retrofire-core selects its float back end by cargo feature, crate-wide, so one binary can hold
//! only one configuration.  This binary is the `std` build; the other configurations (no fp feature,
//! `libm`, `mm`) are built from harness/c20sib (same ops.rs) into harness/target-{nofp,libm,mm}/ by
//! `gen`/`run` on first use and kept open as co-processes.  Back-end names in case lines:
//!   std       re::math::float::f32 in this binary (the primitive type)
//!   fbmod     re::math::float::fallback::* called directly in this binary (always compiled)
//!   fallback  the alias in a build without any fp feature
//!   libm, mm  the alias in a build with that feature only
//!
//! Case lines
//!   x1 <floor|abs> <be> <a>                 -> <bits>
//!   x2 rem_euclid <be> <a> <m>              -> <bits> <std's bits>
//!   dx <floor|abs> <be> <start> <count>     -> <fnv> <nwrong>           consecutive bit patterns
//!   ap <fn> <be> <kind>:<bound> <a> [<b>]   -> <impl bits> <std bits>
//!   sw <fn> <be> <kind>:<bound> <start> <count> <stride> [<b>] -> <nexceed> <nbranchcut> <maxerr> <argmax bits> <n>
//!   rsq <be> <a>                            -> <bits>                   recip_sqrt
//!   rh <be> <x>                             -> <xs.start> <xs.end> <y> <nrows>   round_up_to_half via scan
//!   tx <be> <rep|cl> <dw> <dh> <u> <v>      -> "<u>,<v>" | panic          texture addressing (sample_abs)
//!   wrap <be> <a> <min> <max>               -> <bits> <std's bits>       Angle::wrap (radians)
//!   norm <be> <x> <y> <z>                   -> <bits> <bits> <bits>      Vec3::normalize
//!   rs <op> <args…>                         -> Rust's own f32 semantics (validates Retro.Model.F32Ops)
//!   drs <floor|i32|u32> <start> <count>     -> <fnv>
use vharness::util::*;

#[path = "../../c20sib/src/ops.rs"]
mod ops;

#[path = "../../c20sib/src/co.rs"]
mod co;
use co::{ask, ensure_siblings};

/// `re::math::float::fallback::*` called directly (the module is always compiled).
fn fbmod(f: &str, a: f32, b: f32) -> Option<f32> {
    use re::math::float::fallback as fb;
    Some(match f {
        "abs" => fb::abs(a),
        "floor" => fb::floor(a),
        "rem_euclid" => fb::rem_euclid(a, b),
        "recip_sqrt" => fb::recip_sqrt(a),
        _ => return None,
    })
}

/// Result bits of `fn(a, b)` on back end `be`, or "na"/"panic:…".
fn value(be: &str, f: &str, a: f32, b: f32) -> String {
    match be {
        "std" => ops::eval(f, a, b).map(h32).unwrap_or("na".into()),
        "fbmod" => fbmod(f, a, b).map(h32).unwrap_or("na".into()),
        _ => ask(be, &format!("v {f} {} {}", h32(a), h32(b))),
    }
}

// ---------------------------------------------------------------------------------------------
// error measures for the approximate functions

thread_local! { static TAN_GUARD: std::cell::Cell<bool> = const { std::cell::Cell::new(false) }; }

#[derive(Clone, Copy)]
enum Bound {
    Abs(f64),
    Rel(f64),
    Ulp(f64),
    /// relative to max(|reference|, 1): absolute near the zeros of the reference, relative where it is large
    Mix(f64),
}
fn parse_bound(s: &str) -> Bound {
    let (k, v) = s.split_once(':').expect("bound");
    let v: f64 = v.parse().expect("bound value");
    match k {
        "abs" => Bound::Abs(v),
        "rel" => Bound::Rel(v),
        "ulp" => Bound::Ulp(v),
        "mix" => Bound::Mix(v),
        _ => panic!("bound kind"),
    }
}
fn ulp_of(x: f32) -> f64 {
    let a = x.abs().max(f32::MIN_POSITIVE);
    let e = (a.to_bits() >> 23) as i32 - 127;
    (2.0f64).powi(e - 23)
}
/// Error of `got` against the reference `want` in units of the bound; `None` = not comparable
/// (reference not finite: the input is outside the function's domain).
fn err_of(b: Bound, got: f32, want: f32) -> Option<f64> {
    if !want.is_finite() {
        return None;
    }
    // error against a reference that is itself ill-conditioned says nothing: tan is compared away
    // from its poles only (|tan x| <= 10, i.e. |cos x| > 0.0995), and relative to max(|tan x|, 1)
    if TAN_GUARD.with(|g| g.get()) && want.abs() > 10.0 {
        return None;
    }
    if !got.is_finite() {
        return Some(f64::INFINITY);
    }
    let d = (got as f64 - want as f64).abs();
    Some(match b {
        Bound::Abs(_) => d,
        Bound::Rel(_) => d / (want.abs() as f64).max(1e-30),
        Bound::Ulp(_) => d / ulp_of(want),
        Bound::Mix(_) => d / (want.abs() as f64).max(1.0),
    })
}
fn limit(b: Bound) -> f64 {
    match b {
        Bound::Abs(v) | Bound::Rel(v) | Bound::Ulp(v) | Bound::Mix(v) => v,
    }
}

// ---------------------------------------------------------------------------------------------

fn run(t: &[&str]) -> String {
    match t[0] {
        "x1" => value(t[2], t[1], pf32(t[3]), 0.0),
        // second token: std's result for the same arguments (the reference of the "behave the same" clause)
        "x2" => format!("{} {}", value(t[2], t[1], pf32(t[3]), pf32(t[4])), value("std", t[1], pf32(t[3]), pf32(t[4]))),
        "rsq" => value(t[1], "recip_sqrt", pf32(t[2]), 0.0),
        "dx" => {
            let (f, be) = (t[1], t[2]);
            let start = pu64h(t[3]);
            let count = pint(t[4]) as u64;
            // digest of the results plus a harness-side count of wrong values (f64 oracle) for the
            // spec verdict; the co-process back ends compute both themselves
            match be {
                "std" | "fbmod" => {
                    let mut h = FNV_INIT;
                    let (mut wrong, mut first) = (0u64, String::from("-"));
                    for i in 0..count {
                        let a = f32::from_bits((start + i) as u32);
                        let r = (if be == "std" { ops::eval(f, a, 0.0) } else { fbmod(f, a, 0.0) }).unwrap();
                        h = fnv_step(h, ops::canon(r));
                        if let Some(w) = ops::oracle_exact(f, a) {
                            if !ops::same_value(r.to_bits(), w) {
                                wrong += 1;
                                if first == "-" {
                                    first = hu32(a.to_bits());
                                }
                            }
                        }
                    }
                    format!("{} {wrong} {first}", h64(h))
                }
                _ => ask(be, &format!("d {f} {:x} {count}", start)),
            }
        }
        "ap" => {
            let (f, be) = (t[1], t[2]);
            let a = pf32(t[4]);
            let b = t.get(5).map(|s| pf32(s)).unwrap_or(0.0);
            let got = value(be, f, a, b);
            let want = ops::eval(f, a, b).map(h32).unwrap_or("na".into());
            format!("{got} {want}")
        }
        "sw" => {
            let (f, be) = (t[1], t[2]);
            let bound = parse_bound(t[3]);
            let start = pu64h(t[4]);
            let count = pint(t[5]) as u64;
            let stride = pint(t[6]) as u64;
            let b = t.get(7).map(|s| pf32(s)).unwrap_or(0.0);
            let vals: Vec<f32> = match be {
                "std" | "fbmod" => (0..count)
                    .map(|i| {
                        let a = f32::from_bits((start + i * stride) as u32);
                        (if be == "std" { ops::eval(f, a, b) } else { fbmod(f, a, b) }).unwrap()
                    })
                    .collect(),
                _ => ask(be, &format!("s {f} {:x} {count} {stride} {}", start, h32(b)))
                    .split_ascii_whitespace()
                    .map(|s| f32::from_bits(pu32h(s)))
                    .collect(),
            };
            assert_eq!(vals.len() as u64, count, "sibling returned a short sweep");
            TAN_GUARD.with(|g| g.set(f == "tan"));
            let (mut nex, mut nbranch, mut maxe, mut arg, mut n) = (0u64, 0u64, 0f64, 0u32, 0u64);
            for (i, &got) in vals.iter().enumerate() {
                let a = f32::from_bits((start + i as u64 * stride) as u32);
                let want = ops::eval(f, a, b).unwrap();
                if let Some(e) = err_of(bound, got, want) {
                    n += 1;
                    // atan2 on the other side of the branch cut: off by a whole turn (counted apart)
                    if f == "atan2" && (e - core::f64::consts::TAU).abs() <= limit(bound) {
                        nbranch += 1;
                        continue;
                    }
                    if e > limit(bound) {
                        nex += 1;
                    }
                    if e > maxe {
                        maxe = e;
                        arg = a.to_bits();
                    }
                }
            }
            format!("{nex} {nbranch} {maxe:.4e} {} {n}", hu32(arg))
        }
        "rh" => match t[1] {
            "std" => ops::rh(pf32(t[2])),
            be => ask(be, &format!("rh {}", t[2])),
        },
        // consequence ops: the same library code in every configuration
        "tx" => match t[1] {
            "std" => ops::tx(t[2], pint(t[3]) as u32, pint(t[4]) as u32, pf32(t[5]), pf32(t[6])),
            be => ask(be, &format!("tx {} {} {} {} {}", t[2], t[3], t[4], t[5], t[6])),
        },
        "wrap" => {
            let std = ops::wrap(pf32(t[2]), pf32(t[3]), pf32(t[4]));
            match t[1] {
                "std" => format!("{std} {std}"),
                be => format!("{} {std}", ask(be, &format!("wrap {} {} {}", t[2], t[3], t[4]))),
            }
        }
        "norm" => match t[1] {
            "std" => ops::norm(pf32(t[2]), pf32(t[3]), pf32(t[4])),
            be => ask(be, &format!("norm {} {} {}", t[2], t[3], t[4])),
        },
        "rs" => {
            let f = |i: usize| pf32(t[i]);
            match t[1] {
                "floor" => h32(f(2).floor()),
                "i32" => format!("{}", f(2) as i32),
                "u32" => format!("{}", f(2) as u32),
                "i64" => format!("{}", f(2) as i64),
                "usize" => format!("{}", f(2) as usize),
                "i2u" => format!("{}", (pint(t[2]) as i32) as u32),
                "i2f" => h32(pint(t[2]) as f32),
                "clamp" => h32(f(2).clamp(f(3), f(4))),
                "rem" => h32(f(2) % f(3)),
                "mul" => h32(f(2) * f(3)),
                "add" => h32(f(2) + f(3)),
                "sub" => h32(f(2) - f(3)),
                "lt" => format!("{}", (f(2) < f(3)) as u8),
                "le" => format!("{}", (f(2) <= f(3)) as u8),
                "eq" => format!("{}", (f(2) == f(3)) as u8),
                other => panic!("unknown rs op {other}"),
            }
        }
        "drs" => {
            let start = pu64h(t[2]);
            let count = pint(t[3]) as u64;
            let mut h = FNV_INIT;
            for i in 0..count {
                let a = f32::from_bits((start + i) as u32);
                let w = match t[1] {
                    "floor" => ops::canon(a.floor()),
                    "i32" => (a as i32) as u32,
                    "u32" => a as u32,
                    other => panic!("unknown drs op {other}"),
                };
                h = fnv_step(h, w);
            }
            h64(h)
        }
        other => panic!("unknown op {other}"),
    }
}

// ---------------------------------------------------------------------------------------------
// generators

/// Per back end and function: error measure and bound against std, calibrated on the unchanged tree
/// (maximum observed over the sweeps below, times two; see design/C20.md and props/C20.json).
const BOUNDS: &[(&str, &str, &str)] = &[
    // libm: a few ulp
    ("libm", "sqrt", "ulp:2"),
    ("libm", "recip_sqrt", "ulp:2"),
    ("libm", "powf", "ulp:2"),
    ("libm", "exp", "ulp:2"),
    ("libm", "sin", "ulp:2"),
    ("libm", "cos", "ulp:2"),
    ("libm", "tan", "ulp:2"),
    ("libm", "asin", "ulp:2"),
    ("libm", "acos", "ulp:2"),
    ("libm", "atan2", "ulp:2"),
    // micromath fast approximations
    ("mm", "sqrt", "rel:3.5e-3"),
    ("mm", "recip_sqrt", "rel:3.5e-3"),
    ("mm", "powf", "rel:5e-2"),
    ("mm", "sin", "abs:2.2e-3"),
    ("mm", "cos", "abs:2.2e-3"),
    ("mm", "tan", "mix:1.8e-2"),
    ("mm", "asin", "abs:3.6e-2"),
    ("mm", "acos", "abs:5.8e-2"),
    ("mm", "atan2", "abs:5.7e-3"),
    // built-in fallback: only recip_sqrt is approximate
    ("fallback", "recip_sqrt", "rel:3.5e-3"),
    ("fbmod", "recip_sqrt", "rel:3.5e-3"),
];

fn ulp_up(x: f32) -> f32 {
    if x == 0.0 {
        return f32::from_bits(1);
    }
    let b = x.to_bits();
    f32::from_bits(if x > 0.0 { b + 1 } else { b - 1 })
}
fn ulp_dn(x: f32) -> f32 {
    if x == 0.0 {
        return f32::from_bits(0x8000_0001);
    }
    let b = x.to_bits();
    f32::from_bits(if x > 0.0 { b - 1 } else { b + 1 })
}

/// Adversarial inputs of the one-argument exact functions (bit patterns).
fn exact_pool(rng: &mut Rng, n_random: usize) -> Vec<u32> {
    let mut v: Vec<f32> = vec![];
    let ints: [f32; 30] = [0.0, 1.0, 2.0, 3.0, -1.0, -2.0, -3.0, 4.0, -4.0, 255.0, -256.0, 65536.0, -65536.0, 8388607.0, 8388608.0,
        -8388607.0, -8388608.0, 8388609.0, 16777216.0, -16777216.0, 2147483648.0, -2147483648.0, 2147483520.0,
        4294967296.0, -4294967296.0, 9.223372e18, -9.223372e18, 1e30, -1e30, f32::MAX];
    for k in ints {
        v.extend([k, ulp_up(k), ulp_dn(k), k + 0.5, k - 0.5]);
    }
    v.extend([-0.0, 0.5, -0.5, 0.25, -0.25, 0.999_999_94, -0.999_999_94, 1.23, -1.23, 5.67, f32::MIN,
        f32::INFINITY, f32::NEG_INFINITY, f32::MIN_POSITIVE, -f32::MIN_POSITIVE, 8388607.5, -8388607.5, 4194304.5, -4194303.5]);
    let mut bits: Vec<u32> = v.iter().map(|x| x.to_bits()).collect();
    bits.extend([0x7fc0_0000, 0x7f80_0001, 0xffc0_0001, 0x7fff_ffff, 0xffff_ffff, 0x0000_0001, 0x8000_0001, 0x007f_ffff, 0x807f_ffff]);
    for _ in 0..n_random {
        let x = match rng.below(5) {
            0 => f32::from_bits(rng.u32()),
            1 => rng.f32_in(-4.0, 4.0),
            2 => rng.range(-1000, 1000) as f32,
            3 => rng.f32_in(-1e7, 1e7),
            _ => rng.range(-1 << 33, 1 << 33) as f32,
        };
        bits.push(x.to_bits());
    }
    bits
}

fn gen(rng: &mut Rng, tier: Tier, out: &mut Vec<String>) {
    ensure_siblings();
    let thorough = tier == Tier::Thorough;
    let all_be = ["std", "fbmod", "fallback", "libm", "mm"];

    // ---- Rust semantics of the primitives the Lean f32 model is built from
    {
        let pool = exact_pool(rng, if thorough { 2000 } else { 300 });
        for &a in &pool {
            for op in ["floor", "i32", "u32", "i64", "usize"] {
                out.push(format!("rs {op} {}", hu32(a)));
            }
        }
        for n in [0i64, 1, -1, 2, 16777215, 16777216, 16777217, 16777219, -16777217, 33554431, 2147483647, -2147483648,
            2147483520, 2147483583, 2147483584, 123456789, -987654321] {
            out.push(format!("rs i2f {n}"));
            out.push(format!("rs i2u {n}"));
        }
        for _ in 0..(if thorough { 2000 } else { 200 }) {
            let n = match rng.below(3) {
                0 => rng.range(-1 << 31, 1 << 31),
                1 => rng.range(-(1 << 25), 1 << 25),
                _ => (1i64 << rng.below(31)) + rng.range(-2, 3),
            }
            .clamp(-(1 << 31), (1 << 31) - 1);
            out.push(format!("rs i2f {n}"));
        }
        let small: Vec<u32> = pool.iter().copied().filter(|_| rng.chance(1, 3)).collect();
        for _ in 0..(if thorough { 20000 } else { 2500 }) {
            let a = *rng.pick(&small);
            let b = if rng.chance(1, 4) { rng.f32_in(-8.0, 8.0).to_bits() } else { *rng.pick(&small) };
            let op = *rng.pick(&["rem", "mul", "add", "sub", "lt", "le", "eq"]);
            out.push(format!("rs {op} {} {}", hu32(a), hu32(b)));
        }
        // arithmetic near rounding boundaries: sums/products of values of mixed magnitude
        for _ in 0..(if thorough { 20000 } else { 2500 }) {
            let a = rng.f32_in(-1e4, 1e4) * [1.0, 1e-6, 1e6, 1e-20, 1e20][rng.below(5) as usize];
            let b = rng.f32_in(-1e4, 1e4) * [1.0, 1e-6, 1e6, 1e-25, 1e18][rng.below(5) as usize];
            let op = *rng.pick(&["rem", "mul", "add", "sub"]);
            out.push(format!("rs {op} {} {}", h32(a), h32(b)));
        }
        for _ in 0..(if thorough { 3000 } else { 400 }) {
            let x = *rng.pick(&small);
            let (lo, hi) = match rng.below(4) {
                0 => (0.0f32, rng.range(0, 300) as f32),
                1 => (rng.f32_in(-5.0, 5.0), rng.f32_in(-5.0, 5.0)), // may be reversed: panics
                2 => (f32::from_bits(*rng.pick(&small)), f32::from_bits(*rng.pick(&small))),
                _ => (-0.0, 0.0),
            };
            out.push(format!("rs clamp {} {} {}", hu32(x), h32(lo), h32(hi)));
        }
        // (the Rust primitives are hardware IEEE on both sides of the digest: one block in 16 suffices)
        let blocks: Vec<u64> = if thorough { (0..4096).filter(|b| b % 16 == 3).map(|b| b << 20).collect() } else { strat_blocks(rng, 1 << 12, 24) };
        let len = if thorough { 1u64 << 20 } else { 1 << 12 };
        for op in ["floor", "i32", "u32"] {
            for &s in &blocks {
                out.push(format!("drs {op} {:08x} {len}", s));
            }
        }
    }

    // ---- exact functions: floor, abs on every back end
    let pool = exact_pool(rng, if thorough { 3000 } else { 400 });
    for be in all_be {
        for f in ["floor", "abs"] {
            for &a in &pool {
                out.push(format!("x1 {f} {be} {}", hu32(a)));
            }
        }
    }
    {
        // digest blocks: quick = 2^22 stratified patterns per function and back end; thorough = all 2^32
        let (blocks, len): (Vec<u64>, u64) = if thorough {
            ((0..4096).map(|b| b << 20).collect(), 1 << 20)
        } else {
            (strat_blocks(rng, 1 << 14, 256 - 14), 1 << 14)
        };
        for be in all_be {
            for f in ["floor", "abs"] {
                // thorough budget (~21 ns per pattern and stream): floor on every back end and abs on
                // the two bit-mask implementations walk all 2^32 patterns; abs of std/libm/fbmod one
                // block in 16
                let sampled = thorough && f == "abs" && !(be == "fallback" || be == "mm");
                for (i, &s) in blocks.iter().enumerate() {
                    if sampled && i % 16 != 5 {
                        continue;
                    }
                    out.push(format!("dx {f} {be} {:08x} {len}", s));
                }
            }
        }
    }

    // ---- rem_euclid (x, m)
    {
        let ms: Vec<f32> = vec![1.0, 2.0, 4.0, 6.0, 360.0, core::f32::consts::TAU, core::f32::consts::PI, 0.1, 1e-3, 3.0, 7.5, 1e10,
            16777216.0, 1e-30, f32::MIN_POSITIVE, f32::from_bits(1), f32::MAX, 0.3, 255.0];
        let odd: Vec<f32> = vec![-1.0, -4.0, -6.0, 0.0, -0.0, f32::INFINITY, f32::NEG_INFINITY, f32::NAN, -0.1];
        let mut pairs: Vec<(f32, f32)> = vec![];
        for &m in &ms {
            for k in [-3.0f32, -2.0, -1.0, 0.0, 1.0, 2.0, 3.0, 1000.0, -1000.0] {
                let x = k * m;
                pairs.extend([(x, m), (ulp_up(x), m), (ulp_dn(x), m)]);
            }
            pairs.extend([(-0.0, m), (1.23, m), (-1.23, m), (5.67, m), (f32::MAX, m), (f32::MIN, m), (1e-40, m), (-1e-40, m),
                (f32::INFINITY, m), (f32::NEG_INFINITY, m), (f32::NAN, m), (-f32::MIN_POSITIVE, m), (f32::from_bits(0x8000_0001), m)]);
            for _ in 0..(if thorough { 400 } else { 40 }) {
                let x = match rng.below(4) {
                    0 => rng.f32_in(-4.0 * m, 4.0 * m),
                    1 => rng.f32_in(-1e4, 1e4),
                    2 => f32::from_bits(rng.u32()),
                    _ => rng.range(-50, 50) as f32 * m + rng.f32_in(-1e-3, 1e-3) * m,
                };
                pairs.push((x, m));
            }
        }
        for &m in &odd {
            for x in [0.0f32, -0.0, 1.0, -1.0, 5.5, -5.5, 4.0, -4.0, 12.0, -12.0, f32::INFINITY, f32::NAN, 1e30, -1e-30] {
                pairs.push((x, m));
            }
        }
        for _ in 0..(if thorough { 20000 } else { 1500 }) {
            pairs.push((f32::from_bits(rng.u32()), f32::from_bits(rng.u32() & 0x7fff_ffff)));
        }
        for be in all_be {
            for &(x, m) in &pairs {
                out.push(format!("x2 rem_euclid {be} {} {}", h32(x), h32(m)));
            }
        }
    }

    // ---- recip_sqrt against the exact Newton model (fallback) and the r²x = 1 oracle (all)
    {
        let mut xs: Vec<f32> = vec![1.0, 2.0, 4.0, 9.0, 0.5, 0.25, 1e-6, 1e6, 3.0, 1e-30, 1e30, f32::MIN_POSITIVE, f32::MAX,
            f32::from_bits(1), f32::from_bits(0x007f_ffff), 0.0, -0.0, -1.0, -0.2, f32::INFINITY, f32::NAN, 1.999_999_9, 2.000_000_2];
        for _ in 0..(if thorough { 5000 } else { 600 }) {
            xs.push(match rng.below(3) {
                0 => f32::from_bits(rng.u32() & 0x7fff_ffff),
                1 => rng.f32_in(0.0, 4.0),
                _ => rng.f32_in(0.0, 1e4),
            });
        }
        for be in all_be {
            for &x in &xs {
                out.push(format!("rsq {be} {}", h32(x)));
            }
        }
    }

    // ---- approximate functions against std
    let n_ap = if thorough { 3000 } else { 250 };
    for &(be, f, bound) in BOUNDS {
        for _ in 0..n_ap {
            let (a, b): (f32, Option<f32>) = match f {
                "sin" | "cos" | "tan" => (rng.f32_in(-12.6, 12.6), None),
                "asin" | "acos" => (rng.f32_in(-1.0, 1.0), None),
                // the direction of a vector does not depend on its length: a third of the arguments are scaled as a
                // pair by 1e-30..1e30 (a special case for "small" arguments shows only there)
                "atan2" => {
                    let k = if rng.chance(1, 3) { 10f32.powf(rng.f32_in(-30.0, 30.0)) } else { 1.0 };
                    (rng.f32_in(-10.0, 10.0) * k, Some(rng.f32_in(-10.0, 10.0) * k))
                }
                "sqrt" | "recip_sqrt" => (f32::from_bits(rng.below(0x7f00_0000 - 0x0080_0000) as u32 + 0x0080_0000), None),
                "powf" => (rng.f32_in(0.001, 16.0), Some(rng.f32_in(-4.0, 4.0))),
                "exp" => (rng.f32_in(-80.0, 80.0), None),
                _ => unreachable!(),
            };
            match b {
                None => out.push(format!("ap {f} {be} {bound} {}", h32(a))),
                Some(b) => out.push(format!("ap {f} {be} {bound} {} {}", h32(a), h32(b))),
            }
        }
        // landmark arguments
        let marks: &[f32] = match f {
            "sin" | "cos" => &[0.0, 1.570_796_4, 3.141_592_7, -3.141_592_7, 6.283_185_5, 0.523_598_8, 1e-4, -1e-4, 4.712_389],
            "tan" => &[0.0, 0.785_398_2, -0.785_398_2, 1.0, 1.5, -1.5, 3.0],
            "asin" | "acos" => &[0.0, 1.0, -1.0, 0.5, -0.5, 0.999_999_94, -0.999_999_94, 0.707_106_77],
            "sqrt" | "recip_sqrt" => &[1.0, 2.0, 4.0, 9.0, 16.0, 0.25, 1e-10, 1e10, 3.0],
            "exp" => &[0.0, 1.0, -1.0, 10.0, -10.0, 88.0, -87.0],
            _ => &[],
        };
        for &a in marks {
            out.push(format!("ap {f} {be} {bound} {}", h32(a)));
        }
        if f == "powf" {
            // the gamma conversions of math/color.rs on [0,1]
            for i in 0..=64 {
                let c = i as f32 / 64.0;
                out.push(format!("ap powf {be} {bound} {} {}", h32(c.max(1e-3)), h32(2.2)));
                out.push(format!("ap powf {be} {bound} {} {}", h32(c.max(1e-3)), h32(1.0 / 2.2)));
            }
        }
        if f == "atan2" {
            for (y, x) in [(0.0f32, 1.0f32), (1.0, 0.0), (0.0, -1.0), (-1.0, 0.0), (1.0, 1.0), (-1.0, -1.0), (1e-3, 1.0), (1.0, 1e-3), (0.0, 0.0)] {
                out.push(format!("ap atan2 {be} {bound} {} {}", h32(y), h32(x)));
            }
        }
        // dense strided sweeps over the bit patterns of the domain
        let sweeps: Vec<(u32, u32, Option<f32>)> = match f {
            // |x| in [2^-10, 4π]: both signs
            "sin" | "cos" | "tan" => vec![(0x3a80_0000, 0x4149_0fdb, None), (0xba80_0000, 0xc149_0fdb, None)],
            "asin" | "acos" => vec![(0x3000_0000, 0x3f80_0000, None), (0xb000_0000, 0xbf80_0000, None)],
            "sqrt" | "recip_sqrt" => vec![(0x0080_0000, 0x7f00_0000, None)],
            "exp" => vec![(0x3000_0000, 0x42a0_0000, None), (0xb000_0000, 0xc2a0_0000, None)],
            "powf" => vec![(0x3a83_126f, 0x4180_0000, Some(2.2)), (0x3a83_126f, 0x4180_0000, Some(0.454_545_44)),
                (0x3a83_126f, 0x4180_0000, Some(-1.5)), (0x3a83_126f, 0x4180_0000, Some(3.0))],
            "atan2" => vec![(0x3000_0000, 0x4120_0000, Some(1.0)), (0xb000_0000, 0xc120_0000, Some(1.0)),
                (0x3000_0000, 0x4120_0000, Some(-1.0)), (0xb000_0000, 0xc120_0000, Some(-0.5)), (0x3000_0000, 0x4120_0000, Some(1e-3))],
            _ => vec![],
        };
        for (lo, hi, b) in sweeps {
            let span = (hi - lo) as u64;
            let per_block: u64 = 1 << 12;
            let nblocks: u64 = if thorough { 256 } else { 8 };
            let stride = (span / (per_block * nblocks)).max(1);
            for k in 0..nblocks {
                // jitter the block's phase so that different seeds visit different patterns
                let start = lo as u64 + k * per_block * stride + rng.below(stride);
                let cnt = per_block.min((hi as u64 - start) / stride);
                if cnt == 0 {
                    continue;
                }
                match b {
                    None => out.push(format!("sw {f} {be} {bound} {:08x} {cnt} {stride}", start)),
                    Some(b) => out.push(format!("sw {f} {be} {bound} {:08x} {cnt} {stride} {}", start, h32(b))),
                }
            }
        }
    }

    // ---- consequence ops: texture addressing, angle wrapping, normalisation in every configuration
    {
        let nr = if thorough { 300 } else { 40 };
        for be in ["std", "fallback", "libm", "mm"] {
            for (smp, dw, dh) in [("rep", 4u32, 4u32), ("rep", 256, 2), ("rep", 1, 8), ("cl", 4, 4), ("cl", 3, 5)] {
                if smp == "cl" && be == "fallback" {
                    continue; // SamplerClamp is #[cfg(feature = "fp")]
                }
                let pu = tex_pool(rng, dw, nr);
                let pv = tex_pool(rng, dh, nr);
                for &u in &pu {
                    out.push(format!("tx {be} {smp} {dw} {dh} {} {}", hu32(u), h32(rng.f32_in(-1.0, dh as f32 + 1.0))));
                }
                for &v in &pv {
                    out.push(format!("tx {be} {smp} {dw} {dh} {} {}", h32(rng.f32_in(-1.0, dw as f32 + 1.0)), hu32(v)));
                }
            }
        }
        use core::f32::consts::{PI, TAU};
        let ranges: [(f32, f32); 5] = [(-PI, PI), (0.0, TAU), (0.0, 360.0), (-180.0, 180.0), (-1.0, 3.0)];
        for be in ["std", "libm", "mm"] {
            for &(lo, hi) in &ranges {
                let p = hi - lo;
                let mut xs: Vec<f32> = vec![lo, hi, ulp_dn(lo), ulp_up(lo), ulp_dn(hi), ulp_up(hi), 0.0, -0.0, -1e-8, 1e-8, -0.5, 0.5];
                for k in [-3.0f32, -2.0, -1.0, 1.0, 2.0, 3.0, 100.0, -100.0] {
                    xs.extend([lo + k * p, hi + k * p, ulp_dn(lo + k * p), ulp_up(lo + k * p), lo + k * p + 0.25 * p]);
                }
                for _ in 0..(if thorough { 400 } else { 40 }) {
                    xs.push(rng.f32_in(lo - 5.0 * p, hi + 5.0 * p));
                }
                for x in xs {
                    out.push(format!("wrap {be} {} {} {}", h32(x), h32(lo), h32(hi)));
                }
            }
        }
        for be in ["std", "fallback", "libm", "mm"] {
            let mut vs: Vec<[f32; 3]> = vec![[1.0, 0.0, 0.0], [0.0, -2.0, 0.0], [0.0, 0.0, 0.5], [3.0, 4.0, 0.0], [1.0, 1.0, 1.0],
                [-1.0, 2.0, -3.0], [1e-10, 0.0, 0.0], [1e10, -1e10, 1e10], [1e-6, 1e-6, -1e-6], [123.0, -0.001, 45.6]];
            for _ in 0..(if thorough { 2000 } else { 200 }) {
                let s = [1.0f32, 1e-4, 1e4, 1e-9, 1e8, 1e-20, 3e-21][rng.below(7) as usize];
                vs.push([rng.f32_in(-1.0, 1.0) * s, rng.f32_in(-1.0, 1.0) * s, rng.f32_in(-1.0, 1.0) * s]);
            }
            for v in vs {
                out.push(format!("norm {be} {} {} {}", h32(v[0]), h32(v[1]), h32(v[2])));
            }
        }
    }

    // ---- round_up_to_half through scan(), per configuration
    {
        let mut xs: Vec<f32> = vec![];
        for k in [0.0f32, 1.0, 2.0, 3.0, 10.0, 100.0, 639.0, 1000.0, 4095.0, 65535.0, 1048576.0, 4194303.0] {
            xs.extend([k, k + 0.25, k + 0.5, k + 0.75, ulp_up(k + 0.5), ulp_dn(k + 0.5), ulp_dn(k), ulp_up(k)]);
        }
        xs.extend([-0.0, -0.25, -0.5, -0.499_999_97, -0.75, -1.0, -1.5, -2.5, -100.25, 8388607.5, 8388608.0, 8388609.0, 16777215.0,
            16777216.0, 1e9, 2147483520.0]);
        for _ in 0..(if thorough { 3000 } else { 300 }) {
            xs.push(match rng.below(3) {
                0 => rng.f32_in(-2.0, 2048.0),
                1 => rng.range(0, 4096) as f32 * 0.5,
                _ => rng.f32_in(0.0, 1e7),
            });
        }
        for be in ["std", "fallback", "libm", "mm"] {
            for &x in &xs {
                out.push(format!("rh {be} {}", h32(x)));
            }
        }
    }
}

/// Texture coordinates for an axis of size `w`: the classes where addressing bugs live – negative
/// non-integers, tiny negatives, exactly-integer negatives, the seam, the i32 boundary, non-finite.
fn tex_pool(rng: &mut Rng, w: u32, n_random: usize) -> Vec<u32> {
    let wf = w as f32;
    let mut v: Vec<f32> = vec![-0.5, -1e-8, -0.25, -0.75, -1.5, -2.5, -1.0, -2.0, -3.0, -wf, -wf + 0.5, -wf - 0.5, -2.0 * wf,
        -2.0 * wf - 0.25, 0.0, -0.0, 0.5, 0.999_999_94, 1.0, wf - 0.5, ulp_dn(wf), wf, wf + 0.5, 2.0 * wf, 3.0 * wf + 0.25,
        ulp_dn(0.0), ulp_up(-1.0), ulp_dn(-1.0), -1e-30, -f32::MIN_POSITIVE, 1e9, -1e9, 2147483520.0, 2147483648.0, -2147483648.0,
        -2147483904.0, 1e30, -1e30, f32::INFINITY, f32::NEG_INFINITY, f32::NAN];
    for _ in 0..n_random {
        v.push(match rng.below(3) {
            0 => rng.f32_in(-3.0 * wf, 3.0 * wf),
            1 => rng.range(-4 * w as i64, 4 * w as i64) as f32,
            _ => -rng.unit() * [1.0f32, 1e-3, 1e-6, 100.0][rng.below(4) as usize],
        });
    }
    v.iter().map(|x| x.to_bits()).collect()
}

/// Block starts covering the 2^32 bit patterns: fixed landmarks plus `n_random` random blocks.
fn strat_blocks(rng: &mut Rng, len: u64, n_random: usize) -> Vec<u64> {
    let h = len / 2;
    let mut v: Vec<u64> = vec![0, 0x3f80_0000 - h, 0x4b00_0000 - h, 0x4b80_0000 - h, 0x4f00_0000 - h, 0x5f00_0000 - h,
        0x7f80_0000 - h, 0x8000_0000 - h, 0xbf80_0000 - h, 0xcb00_0000 - h, 0xcf00_0000 - h, 0xdf00_0000 - h,
        0xff80_0000 - h, 0x1_0000_0000 - len];
    for _ in 0..n_random {
        v.push(rng.below((1u64 << 32) - len));
    }
    v
}

fn main() {
    vharness::harness_main(gen, run)
}
