//! U01: library utilities that no listed property names — vector / point helpers, integer
//! `Affine`/`Linear`, `ApproxEq`, `Mesh`/`Builder` (incl. `transform`, `with_vertex_normals`),
//! `Stats` arithmetic and formatting.  Case grammar: see `lean/Retro/Drv/U01.lean`.
//!
//! Sub-operations that can panic independently of one another are run under their own
//! `catch_unwind`; a panicking group prints the single token `P` (never the message).
use core::time::Duration;
use std::panic::{catch_unwind, AssertUnwindSafe};

use re::geom::{mesh::Builder, vertex, Mesh, Normal3, Tri};
use re::math::mat::RealToReal;
use re::math::{
    pt2, pt3, splat, vec2, vec3, Affine, ApproxEq, Linear, Mat4x4, Point2, Point3, Vec2, Vec2i, Vec2u, Vec3, Vec3i,
    Vector,
};
use re::render::stats::{Stats, Throughput};
use re::render::Model;

use vharness::util::*;

// ---------------------------------------------------------------------------------------------
// generators
// ---------------------------------------------------------------------------------------------

/// multiples of 1/8 in [-16, 16]: every sum / product of a few of them is exact in f32
fn nice(rng: &mut Rng) -> f32 {
    rng.range(-128, 129) as f32 / 8.0
}
fn generic(rng: &mut Rng) -> f32 {
    match rng.below(6) {
        0 => nice(rng),
        1 => rng.f32_in(-1.0, 1.0),
        2 => rng.f32_in(-1000.0, 1000.0),
        3 => rng.f32_in(-1.0, 1.0) * 1e-6,
        4 => rng.f32_in(-1.0, 1.0) * 1e6,
        _ => rng.f32_in(-10.0, 10.0),
    }
}
const SPECIALS: &[f32] = &[0.0, -0.0, 1.0, -1.0, f32::NAN, f32::INFINITY, f32::NEG_INFINITY, f32::MAX, f32::MIN_POSITIVE, 1e-30, -1e30, 16_777_216.0];
fn adversarial(rng: &mut Rng) -> f32 {
    if rng.chance(1, 2) { *rng.pick(SPECIALS) } else { generic(rng) }
}
fn fl(v: &[f32]) -> String {
    v.iter().map(|x| h32(*x)).collect::<Vec<_>>().join(" ")
}
fn il<T: ToString>(v: &[T]) -> String {
    v.iter().map(|x| x.to_string()).collect::<Vec<_>>().join(" ")
}
fn vecn(rng: &mut Rng, n: usize, f: fn(&mut Rng) -> f32) -> Vec<f32> {
    (0..n).map(|_| f(rng)).collect()
}
fn edge_i32(rng: &mut Rng) -> i64 {
    match rng.below(8) {
        0 => i32::MIN as i64,
        1 => i32::MAX as i64,
        2 => i32::MIN as i64 + rng.range(0, 4),
        3 => i32::MAX as i64 - rng.range(0, 4),
        4 => rng.range(-3, 4),
        5 => rng.range(-70000, 70000),
        6 => rng.range(i32::MIN as i64, i32::MAX as i64 + 1),
        _ => [46340, 46341, -46341, 65536, -65536, 1 << 30, -(1 << 30), 1 << 16][rng.below(8) as usize],
    }
}
fn edge_u32(rng: &mut Rng) -> i64 {
    match rng.below(6) {
        0 => 0,
        1 => u32::MAX as i64,
        2 => rng.range(0, 5),
        3 => u32::MAX as i64 - rng.range(0, 5),
        4 => (1i64 << 31) + rng.range(-3, 4),
        _ => rng.range(0, u32::MAX as i64 + 1),
    }
}
fn edge_usize(rng: &mut Rng) -> u64 {
    match rng.below(10) {
        0 => 0,
        1 => rng.below(1000),
        2 => [999, 1000, 1049, 1050, 1250, 99_949, 99_950, 99_999, 100_000, 999_999, 1_000_000, 99_949_999, 99_950_000, 99_999_999, 100_000_000,
              999_999_999, 1_000_000_000, 99_999_999_999, 100_000_000_000, 125_000_000_000, 135_000_000_000, 995_000_000_000, 16_777_217, 16_777_216][rng.below(24) as usize],
        3 => rng.below(100_000),
        4 => rng.below(1_000_000),
        5 => rng.below(100_000_000),
        6 => rng.below(100_000_000_000),
        7 => rng.u64() >> rng.below(40),
        8 => { let p = 10u64.pow(rng.below(19) as u32 + 1); (p as i64 + rng.range(-60, 60)) as u64 }
        _ => { let d = rng.below(990) + 10; let e = rng.below(14) as u32; d * 10u64.pow(e) / 2 + rng.below(3) }
    }
}

fn gen_mesh(rng: &mut Rng, planar: bool, allow_oob: bool, allow_unused: bool) -> (Vec<usize>, Vec<f32>) {
    let nv = 3 + rng.below(6) as usize;
    let nf = 1 + rng.below(6) as usize;
    let mut verts = vec![];
    for _ in 0..nv {
        let (x, y) = (nice(rng), nice(rng));
        let z = if planar { 0.5 * x - 0.25 * y + 2.0 } else { nice(rng) };
        verts.extend([x, y, z]);
    }
    let mut faces = vec![];
    let used = if allow_unused && rng.chance(1, 2) { nv - 1 } else { nv };
    for k in 0..nf {
        // cover the vertices round-robin so that (normally) none is unused
        let a = (3 * k) % used;
        let b = (3 * k + 1) % used;
        let c = (3 * k + 2) % used;
        let mut f = [a, b, c];
        if rng.chance(1, 3) {
            f = [rng.below(used as u64) as usize, rng.below(used as u64) as usize, rng.below(used as u64) as usize];
        }
        if allow_oob && rng.chance(1, 12) {
            f[rng.below(3) as usize] = nv + rng.below(3) as usize;
        }
        faces.extend(f);
    }
    // make sure that every vertex below `used` occurs in some face (append covering faces)
    let mut k = 0;
    while k < used {
        faces.extend([k % used, (k + 1) % used, (k + 2) % used]);
        k += 3;
    }
    (faces, verts)
}

pub fn gen(rng: &mut Rng, tier: Tier, out: &mut Vec<String>) {
    let q = tier == Tier::Quick;
    let m = if q { 1 } else { 20 };

    // ---- float vectors -----------------------------------------------------------------------
    for i in 0..300 * m {
        let n = 2 + (i % 2);
        let f: fn(&mut Rng) -> f32 = if i % 3 == 0 { nice } else { generic };
        let (a, b) = (vecn(rng, n, f), vecn(rng, n, f));
        out.push(format!("varith {n} {} {} {}", fl(&a), fl(&b), h32(f(rng))));
    }
    for i in 0..300 * m {
        let n = 2 + (i % 2);
        let mut a = vecn(rng, n, generic);
        let mut b = vecn(rng, n, generic);
        match i % 10 {
            0 => b = vec![0.0; n],                                   // zero divisor
            1 => b = a.iter().map(|x| x * 2.0).collect(),            // parallel
            2 => { if n == 2 { b = vec![-a[1], a[0]] } else { b = vec![-a[1], a[0], 0.0] } } // orthogonal
            3 => a = vec![0.0; n],
            4 => { a = vecn(rng, n, nice); b = vecn(rng, n, nice); }
            5 => { a = a.iter().map(|x| x * 1e15).collect(); }
            6 => { b = b.iter().map(|x| x * 1e-12).collect(); }
            _ => {}
        }
        out.push(format!("proj {n} {} {}", fl(&a), fl(&b)));
        let mut p = vecn(rng, n, generic);
        let mut r = vecn(rng, n, generic);
        if i % 7 == 0 { r = p.clone(); }
        if i % 7 == 1 { p = vecn(rng, n, nice); r = vecn(rng, n, nice); }
        let s = vecn(rng, n, generic);
        out.push(format!("dist {n} {} {} {}", fl(&p), fl(&r), fl(&s)));
        out.push(format!("ptops {n} {} {}", fl(&vecn(rng, n, generic)), fl(&vecn(rng, n, generic))));
    }
    for i in 0..400 * m {
        let n = 2 + (i % 2);
        let who = if i % 4 < 2 { "vclamp" } else { "pclamp" };
        let x = vecn(rng, n, adversarial);
        let (mut lo, mut hi) = (vec![], vec![]);
        for _ in 0..n {
            let (a, b) = (generic(rng), generic(rng));
            match rng.below(12) {
                0 => { lo.push(a.max(b)); hi.push(a.min(b)); }       // min > max (unless equal)
                1 => { lo.push(f32::NAN); hi.push(b); }
                2 => { lo.push(a); hi.push(f32::NAN); }
                3 => { lo.push(a); hi.push(a); }
                4 => { lo.push(f32::NEG_INFINITY); hi.push(f32::INFINITY); }
                5 => { lo.push(-0.0); hi.push(0.0); }
                _ => { lo.push(a.min(b)); hi.push(a.max(b)); }
            }
        }
        out.push(format!("{who} {n} {} {} {}", fl(&x), fl(&lo), fl(&hi)));
    }
    for _ in 0..100 * m {
        let n = 2 + rng.below(2) as usize;
        let k = rng.below(6) as usize;
        let f: fn(&mut Rng) -> f32 = if rng.bool() { nice } else { generic };
        let vs: Vec<f32> = (0..n * k).map(|_| f(rng)).collect();
        out.push(format!("vsum {n} {k} {}", fl(&vs)));
        out.push(format!("splat {n} {}", h32(adversarial(rng))));
        out.push(format!("index {n} {} {}", rng.below(6), fl(&vecn(rng, n, generic))));
    }
    // ---- integers ----------------------------------------------------------------------------
    for i in 0..500 * m {
        let n = 2 + (i % 2);
        let small = i % 3 == 0;
        let g = |rng: &mut Rng| if small { rng.range(-1000, 1000) } else { edge_i32(rng) };
        let a: Vec<i64> = (0..n).map(|_| g(rng)).collect();
        let b: Vec<i64> = (0..n).map(|_| g(rng)).collect();
        let s = g(rng);
        out.push(format!("iarith {n} {} {} {s}", il(&a), il(&b)));
    }
    for i in 0..400 * m {
        let small = i % 3 == 0;
        let a: Vec<i64> = (0..2).map(|_| if small { rng.range(0, 1000) } else { edge_u32(rng) }).collect();
        let b: Vec<i64> = (0..2).map(|_| if small { rng.range(0, 1000) } else { edge_u32(rng) }).collect();
        let d: Vec<i64> = (0..2).map(|_| if small { rng.range(-1000, 1000) } else { edge_i32(rng) }).collect();
        out.push(format!("uarith {} {} {}", il(&a), il(&b), il(&d)));
    }
    for _ in 0..300 * m {
        out.push(format!("iscalar {} {}", edge_i32(rng), edge_i32(rng)));
        out.push(format!("uscalar {} {} {}", edge_u32(rng), edge_i32(rng), edge_u32(rng)));
    }
    // the repo's own boundary tests (space.rs:266-288)
    for (a, d, b) in [(3i64, -4i64, u32::MAX as i64), ((u32::MAX / 2 + 2) as i64, i32::MAX as i64, 1), (u32::MAX as i64, 0, 1), (3, 0, u32::MAX as i64)] {
        out.push(format!("uscalar {a} {d} {b}"));
    }
    for _ in 0..100 * m {
        let k = rng.below(6) as usize;
        let big = rng.chance(1, 3);
        let vs: Vec<i64> = (0..2 * k).map(|_| if big { rng.range(i32::MIN as i64 / 2, i32::MAX as i64 / 2) } else { rng.range(-100000, 100000) }).collect();
        out.push(format!("isum {k} {}", il(&vs)));
    }
    // ---- approx --------------------------------------------------------------------------------
    for i in 0..800 * m {
        let a = if i % 5 == 0 { adversarial(rng) } else { generic(rng) };
        let eps = match rng.below(8) { 0 => 1e-6, 1 => 0.01, 2 => 0.0, 3 => -0.01, 4 => 0.5, 5 => 1e-3, 6 => 0.011, _ => rng.unit() * 0.1 };
        let b = match rng.below(16) {
            0 | 1 => a,
            2 | 3 => adversarial(rng),
            4 => [a * (1.0 + eps), a * (1.0 - eps), a + eps][rng.below(3) as usize],   // on the boundary
            5..=8 => a * (1.0 + eps * rng.f32_in(0.5, 1.5)),
            9..=11 => a + eps * rng.f32_in(0.5, 1.5),
            _ => generic(rng),
        };
        out.push(format!("approx {} {} {}", h32(a), h32(b), h32(eps)));
        if i % 4 == 0 {
            out.push(format!("approxd {} {}", h32(a), h32(if rng.bool() { a } else { a * (1.0 + rng.f32_in(-3e-6, 3e-6)) })));
        }
    }
    // the asymmetry witness and the infinity quirk, always present
    out.push(format!("approx {} {} {}", h32(100.0), h32(101.005), h32(0.01)));
    out.push(format!("approx {} {} {}", h32(101.005), h32(100.0), h32(0.01)));
    out.push(format!("approx {} {} {}", h32(f32::INFINITY), h32(1.0), h32(1e-6)));
    out.push(format!("approx {} {} {}", h32(f32::INFINITY), h32(f32::INFINITY), h32(1e-6)));
    for _ in 0..300 * m {
        let la = rng.below(5) as usize;
        let lb = if rng.chance(1, 4) { rng.below(5) as usize } else { la };
        let a = vecn(rng, la, nice);
        let eps = *rng.pick(&[0.01f32, 0.1, 1e-6, 0.0]);
        let b: Vec<f32> = (0..lb).map(|j| if j < la && rng.chance(3, 4) { a[j] * (1.0 + eps * rng.f32_in(0.0, 1.4)) } else { nice(rng) }).collect();
        out.push(format!("approxs {la} {} {lb} {} {}", fl(&a), fl(&b), h32(eps)));
        let n = 2 + rng.below(2) as usize;
        let a = vecn(rng, n, nice);
        let b: Vec<f32> = a.iter().map(|x| if rng.chance(3, 4) { x * (1.0 + eps * rng.f32_in(0.0, 1.2)) } else { x + 1.0 }).collect();
        out.push(format!("approxv {n} {} {} {}", fl(&a), fl(&b), h32(eps)));
        let x = nice(rng);
        let y = if rng.bool() { x } else { nice(rng) };
        out.push(format!("approxo {} {} {} {} {}", rng.below(2), h32(x), rng.below(2), h32(y), h32(eps)));
    }
    // ---- meshes ---------------------------------------------------------------------------------
    for i in 0..250 * m {
        let (faces, verts) = gen_mesh(rng, false, true, true);
        out.push(format!("meshnew {} {} {} {}", faces.len() / 3, verts.len() / 3, il(&faces), fl(&verts)));
        // builder script: interleaved pushes, then build
        let mut s = String::from("bld");
        let (mut fi, mut vi) = (0, 0);
        let (nf, nv) = (faces.len() / 3, verts.len() / 3);
        while fi < nf || vi < nv {
            match rng.below(4) {
                0 if fi < nf => { s += &format!(" f {}", il(&faces[3 * fi..3 * fi + 3])); fi += 1; }
                1 if fi < nf => { let k = 1 + rng.below((nf - fi) as u64) as usize; s += &format!(" F {k} {}", il(&faces[3 * fi..3 * (fi + k)])); fi += k; }
                2 if vi < nv => { s += &format!(" v {}", fl(&verts[3 * vi..3 * vi + 3])); vi += 1; }
                3 if vi < nv => { let k = 1 + rng.below((nv - vi) as u64) as usize; s += &format!(" V {k} {}", fl(&verts[3 * vi..3 * (vi + k)])); vi += k; }
                _ => {}
            }
        }
        out.push(s);
        // transform
        let mut mtx = vec![0.0f32; 16];
        for (j, e) in mtx.iter_mut().enumerate() {
            *e = if j >= 12 { if i % 5 == 0 { nice(rng) } else if j == 15 { 1.0 } else { 0.0 } } else { nice(rng) };
        }
        let (faces, verts) = gen_mesh(rng, false, i % 4 == 0, true);
        out.push(format!("meshtf {} {} {} {} {}", faces.len() / 3, verts.len() / 3, il(&faces), fl(&verts), fl(&mtx)));
    }
    for i in 0..500 * m {
        let (faces, mut verts) = gen_mesh(rng, i % 4 == 1, i % 8 == 2, i % 8 == 3);
        if i % 16 == 5 {
            // a degenerate face: three collinear / coincident positions
            let f = &faces[0..3];
            let p: Vec<f32> = verts[3 * f[0]..3 * f[0] + 3].to_vec();
            verts[3 * f[1]..3 * f[1] + 3].copy_from_slice(&p);
        }
        if i % 16 == 6 {
            for v in verts.iter_mut() { *v *= if rng.bool() { 1024.0 } else { 1.0 / 1024.0 }; }
        }
        if i % 16 == 7 {
            for v in verts.iter_mut() { *v += rng.f32_in(-0.01, 0.01); }
        }
        out.push(format!("meshvn {} {} {} {}", faces.len() / 3, verts.len() / 3, il(&faces), fl(&verts)));
    }
    // two faces with opposite orientation on the same three vertices: every sum cancels exactly
    out.push(format!("meshvn 2 3 0 1 2 0 2 1 {}", fl(&[0.0, 0.0, 0.0, 1.0, 0.0, 0.0, 0.0, 1.0, 0.0])));
    // the repo's own test mesh (mesh.rs:289)
    out.push(format!("meshvn 3 4 0 2 1 0 1 3 0 3 2 {}", fl(&[0.0, 0.0, 0.0, 1.0, 0.0, 0.0, 0.0, 1.0, 0.0, 0.0, 0.0, 1.0])));
    // ---- stats ------------------------------------------------------------------------------------
    let st = |rng: &mut Rng, big: bool| -> String {
        let t: u64 = match rng.below(6) { 0 => 0, 1 => rng.below(1_000_000), 2 => rng.below(5_000_000_000), 3 => rng.below(1 << 50), 4 => if big { u64::MAX - rng.below(1 << 40) } else { 1 }, _ => rng.below(100_000_000_000) };
        let calls = rng.below(1 << 22) as f32;
        let frames = match rng.below(5) { 0 => 0.0, 1 => 1.0, 2 => rng.below(100) as f32 + 0.5, _ => rng.below(5000) as f32 };
        let mut s = format!("{t} {} {}", h32(calls), h32(frames));
        for _ in 0..8 {
            let c = if big && rng.chance(1, 30) { u64::MAX - rng.below(1 << 30) } else { edge_usize(rng) >> if big { 0 } else { 1 } };
            s += &format!(" {c}");
        }
        s
    };
    for i in 0..300 * m {
        let k = 1 + rng.below(4) as usize;
        let mut s = format!("sadd {k}");
        for _ in 0..k { s += " "; s += &st(rng, i % 6 == 0); }
        out.push(s);
        out.push(format!("spersec {}", st(rng, false)));
        out.push(format!("sperframe {}", st(rng, false)));
    }
    for _ in 0..1500 * m {
        out.push(format!("hnum {} {}", edge_usize(rng), edge_usize(rng)));
    }
    for _ in 0..300 * m {
        out.push(format!("hpct {} {}", if rng.chance(1, 10) { 0 } else { edge_usize(rng) % 10_000_000 }, edge_usize(rng) % 10_000_000));
    }
    for i in 0..1500 * m {
        let t: u64 = match i % 10 {
            0 => rng.below(1_000_000),                       // μs
            1 => rng.below(1_000_000_000),                   // ms
            2 => rng.below(60_000_000_000),                  // s
            3 => 60_000_000_000 + rng.below(7_200_000_000_000),
            4 => if i % 20 == 4 { rng.below(200) * 30_000_000_000 + rng.below(3) * 500_000_000 } else { rng.below(60_000_000_000) }, // multiples of half minutes
            5 => [0, 1, 999, 1000, 999_949, 999_950, 999_999, 1_000_000, 999_949_999, 999_950_000, 999_999_999, 1_000_000_000,
                  59_949_999_999, 59_950_000_000, 59_999_999_999, 60_000_000_000, 90_000_000_000, 119_700_000_000, 1_234_000_000_000][rng.below(19) as usize],
            6 => if i % 20 == 6 { (rng.below(100) + 1) * 60_000_000_000 - rng.below(1_000_000_000) } else { rng.below(1_000_000_000) },
            7 => if i % 20 == 7 { rng.below(1 << 55) } else { rng.below(1 << 30) },
            _ => rng.below(1000) * 10u64.pow(rng.below(10) as u32),
        };
        out.push(format!("htime {t}"));
    }
}

// ---------------------------------------------------------------------------------------------
// run
// ---------------------------------------------------------------------------------------------

fn grp<F: FnOnce() -> String>(f: F) -> String {
    match catch_unwind(AssertUnwindSafe(f)) {
        Ok(s) => s,
        Err(_) => "P".to_string(),
    }
}
fn floats(t: &[&str]) -> Vec<f32> {
    t.iter().map(|s| pf32(s)).collect()
}
fn ints(t: &[&str]) -> Vec<i64> {
    t.iter().map(|s| pint(s)).collect()
}
fn v2(a: &[f32]) -> Vec2 { vec2(a[0], a[1]) }
fn v3(a: &[f32]) -> Vec3 { vec3(a[0], a[1], a[2]) }
fn p2(a: &[f32]) -> Point2 { pt2(a[0], a[1]) }
fn p3(a: &[f32]) -> Point3 { pt3(a[0], a[1], a[2]) }
fn v2i(a: &[i64]) -> Vec2i { vec2(a[0] as i32, a[1] as i32) }
fn v3i(a: &[i64]) -> Vec3i { vec3(a[0] as i32, a[1] as i32, a[2] as i32) }
fn v2u(a: &[i64]) -> Vec2u { vec2(a[0] as u32, a[1] as u32) }

/// Everything `varith` reports for one dimension; the two dimensions differ only in the types.
macro_rules! varith {
    ($mk:ident, $ty:ty, $a:expr, $b:expr, $s:expr, $zero:expr) => {{
        let (a, b, s) = ($mk($a), $mk($b), $s);
        let mut o = vec![];
        o.push(fl(&(a + b).0));
        o.push(fl(&(a - b).0));                 // the operator: add(self, rhs.neg())
        o.push(fl(&Affine::sub(&a, &b).0));
        o.push(fl(&(-a).0));
        o.push(fl(&(a * s).0));
        o.push(fl(&(s * a).0));
        o.push(h32(a.dot(&b)));
        o.push(h32(a.len_sqr()));
        o.push(((a == b) as u8).to_string());
        o.push(((a == a) as u8).to_string());
        let mut c = a; c += b; let mut d = a; d -= b;
        o.push(((c.0.map(f32::to_bits) == (a + b).0.map(f32::to_bits) && d.0.map(f32::to_bits) == (a - b).0.map(f32::to_bits)) as u8).to_string());
        let z: $ty = $zero;
        o.push(((<$ty as Default>::default() == z && <$ty as Linear>::zero() == z) as u8).to_string());
        o.join(" ")
    }};
}

fn mesh_out<A>(m: &Mesh<A>, attr: impl Fn(&A) -> String) -> String {
    let mut o = format!("{} {}", m.faces.len(), m.verts.len());
    for Tri(f) in &m.faces {
        o += &format!(" {}", il(f));
    }
    for v in &m.verts {
        o += &format!(" {}", fl(&v.pos.0));
        let a = attr(&v.attrib);
        if !a.is_empty() {
            o += " ";
            o += &a;
        }
    }
    o
}
fn parse_mesh<'a>(t: &'a [&'a str]) -> (Vec<[usize; 3]>, Vec<(Point3, ())>, &'a [&'a str]) {
    let nf: usize = t[0].parse().unwrap();
    let nv: usize = t[1].parse().unwrap();
    let fs: Vec<usize> = t[2..2 + 3 * nf].iter().map(|s| s.parse().unwrap()).collect();
    let vs = floats(&t[2 + 3 * nf..2 + 3 * nf + 3 * nv]);
    let faces = fs.chunks(3).map(|c| [c[0], c[1], c[2]]).collect();
    let verts = vs.chunks(3).map(|c| (p3(c), ())).collect();
    (faces, verts, &t[2 + 3 * nf + 3 * nv..])
}

fn parse_stats(t: &[&str]) -> Stats {
    let mut s = Stats::new();
    s.time = Duration::from_nanos(t[0].parse().unwrap());
    s.calls = pf32(t[1]);
    s.frames = pf32(t[2]);
    let c: Vec<usize> = t[3..11].iter().map(|x| x.parse().unwrap()).collect();
    s.objs = Throughput { i: c[0], o: c[1] };
    s.prims = Throughput { i: c[2], o: c[3] };
    s.verts = Throughput { i: c[4], o: c[5] };
    s.frags = Throughput { i: c[6], o: c[7] };
    s
}
fn stats_out(s: &Stats) -> String {
    format!(
        "{} {} {} {} {} {} {} {} {} {} {}",
        s.time.as_nanos(), h32(s.calls), h32(s.frames), s.objs.i, s.objs.o, s.prims.i, s.prims.o, s.verts.i, s.verts.o, s.frags.i, s.frags.o
    )
}

pub fn run(t: &[&str]) -> String {
    match t[0] {
        "varith" => {
            let n: usize = t[1].parse().unwrap();
            let f = floats(&t[2..]);
            let (a, b, s) = (&f[..n], &f[n..2 * n], f[2 * n]);
            if n == 2 {
                varith!(v2, Vec2, a, b, s, vec2(0.0, 0.0))
            } else {
                let r = varith!(v3, Vec3, a, b, s, vec3(0.0, 0.0, 0.0));
                format!("{r} {}", fl(&v3(a).cross(&v3(b)).0))
            }
        }
        "proj" => {
            let n: usize = t[1].parse().unwrap();
            let f = floats(&t[2..]);
            let (a, b) = (&f[..n], &f[n..]);
            if n == 2 {
                format!("{} {}", h32(v2(a).scalar_project(&v2(b))), fl(&v2(a).vector_project(&v2(b)).0))
            } else {
                format!("{} {}", h32(v3(a).scalar_project(&v3(b))), fl(&v3(a).vector_project(&v3(b)).0))
            }
        }
        "dist" => {
            let n: usize = t[1].parse().unwrap();
            let f = floats(&t[2..]);
            let (p, q, r) = (&f[..n], &f[n..2 * n], &f[2 * n..]);
            if n == 2 {
                let (p, q, r) = (p2(p), p2(q), p2(r));
                format!("{} {} {} {} {} {}", h32(p.distance_sqr(&q)), h32(p.distance(&q)), h32(q.distance_sqr(&p)), h32(q.distance(&p)), h32(p.distance(&r)), h32(r.distance(&q)))
            } else {
                let (p, q, r) = (p3(p), p3(q), p3(r));
                format!("{} {} {} {} {} {}", h32(p.distance_sqr(&q)), h32(p.distance(&q)), h32(q.distance_sqr(&p)), h32(q.distance(&p)), h32(p.distance(&r)), h32(r.distance(&q)))
            }
        }
        "ptops" => {
            let n: usize = t[1].parse().unwrap();
            let f = floats(&t[2..]);
            let (p, v) = (&f[..n], &f[n..]);
            if n == 2 {
                let (p, v) = (p2(p), v2(v));
                let mut a = p; a += v; let mut s = p; s -= v;
                format!("{} {} {} {} {}", fl(&a.0), fl(&s.0), fl(&(p + v).0), fl(&(p - v).0), fl(&(p - v.to_pt()).0))
            } else {
                let (p, v) = (p3(p), v3(v));
                let mut a = p; a += v; let mut s = p; s -= v;
                format!("{} {} {} {} {}", fl(&a.0), fl(&s.0), fl(&(p + v).0), fl(&(p - v).0), fl(&(p - v.to_pt()).0))
            }
        }
        "vclamp" | "pclamp" => {
            let n: usize = t[1].parse().unwrap();
            let f = floats(&t[2..]);
            let (x, lo, hi) = (&f[..n], &f[n..2 * n], &f[2 * n..]);
            match (t[0], n) {
                ("vclamp", 2) => fl(&v2(x).clamp(&v2(lo), &v2(hi)).0),
                ("vclamp", _) => fl(&v3(x).clamp(&v3(lo), &v3(hi)).0),
                (_, 2) => fl(&p2(x).clamp(&p2(lo), &p2(hi)).0),
                _ => fl(&p3(x).clamp(&p3(lo), &p3(hi)).0),
            }
        }
        "vsum" => {
            let n: usize = t[1].parse().unwrap();
            let f = floats(&t[3..]);
            if n == 2 {
                fl(&f.chunks(2).map(v2).sum::<Vec2>().0)
            } else {
                fl(&f.chunks(3).map(v3).sum::<Vec3>().0)
            }
        }
        "splat" => {
            let n: usize = t[1].parse().unwrap();
            let s = pf32(t[2]);
            if n == 2 {
                let v: Vec2 = splat(s);
                let w: Vec2 = Vector::from(s);
                format!("{} {}", fl(&v.0), (v.0.map(f32::to_bits) == w.0.map(f32::to_bits)) as u8)
            } else {
                let v: Vec3 = splat(s);
                let w: Vec3 = Vector::from(s);
                format!("{} {}", fl(&v.0), (v.0.map(f32::to_bits) == w.0.map(f32::to_bits)) as u8)
            }
        }
        "index" => {
            let n: usize = t[1].parse().unwrap();
            let i: usize = t[2].parse().unwrap();
            let f = floats(&t[3..]);
            // vector and point indexing, each under its own guard
            if n == 2 {
                format!("{} | {}", grp(|| h32(v2(&f)[i])), grp(|| h32(p2(&f)[i])))
            } else {
                format!("{} | {}", grp(|| h32(v3(&f)[i])), grp(|| h32(p3(&f)[i])))
            }
        }
        "iarith" => {
            let n: usize = t[1].parse().unwrap();
            let f = ints(&t[2..]);
            let (a, b, s) = (f[..n].to_vec(), f[n..2 * n].to_vec(), f[2 * n] as i32);
            macro_rules! go {
                ($mk:ident) => {{
                    let (a, b) = ($mk(&a), $mk(&b));
                    [
                        grp(|| il(&(a + b).0)),
                        grp(|| il(&(a - b).0)),
                        grp(|| il(&Affine::sub(&a, &b).0)),
                        grp(|| il(&(-a).0)),
                        grp(|| il(&(a * s).0)),
                        grp(|| il(&(s * a).0)),
                        grp(|| a.dot(&b).to_string()),
                        grp(|| a.len_sqr().to_string()),
                        grp(|| a.scalar_project(&b).to_string()),
                        ((a == b) as u8).to_string(),
                    ]
                    .join(" | ")
                }};
            }
            if n == 2 { go!(v2i) } else { go!(v3i) }
        }
        "uarith" => {
            let f = ints(&t[1..]);
            let (a, b, d) = (v2u(&f[0..2]), v2u(&f[2..4]), v2i(&f[4..6]));
            [grp(|| il(&(a + d).0)), grp(|| il(&(a - d).0)), grp(|| il(&Affine::sub(&a, &b).0))].join(" | ")
        }
        "iscalar" => {
            let (a, b) = (pint(t[1]) as i32, pint(t[2]) as i32);
            [
                grp(|| Affine::add(&a, &b).to_string()),
                grp(|| Affine::sub(&a, &b).to_string()),
                grp(|| Linear::neg(&a).to_string()),
                grp(|| Linear::mul(&a, b).to_string()),
                <i32 as Linear>::zero().to_string(),
            ]
            .join(" | ")
        }
        "uscalar" => {
            let (a, d, b) = (pint(t[1]) as u32, pint(t[2]) as i32, pint(t[3]) as u32);
            [grp(|| Affine::add(&a, &d).to_string()), grp(|| Affine::sub(&a, &b).to_string())].join(" | ")
        }
        "isum" => {
            let f = ints(&t[2..]);
            il(&f.chunks(2).map(v2i).sum::<Vec2i>().0)
        }
        "approx" => {
            let (a, b, e) = (pf32(t[1]), pf32(t[2]), pf32(t[3]));
            (a.approx_eq_eps(&b, &e) as u8).to_string()
        }
        "approxd" => {
            let (a, b) = (pf32(t[1]), pf32(t[2]));
            format!("{} {}", a.approx_eq(&b) as u8, h32(<f32 as ApproxEq>::relative_epsilon()))
        }
        "approxs" => {
            let la: usize = t[1].parse().unwrap();
            let a = floats(&t[2..2 + la]);
            let lb: usize = t[2 + la].parse().unwrap();
            let b = floats(&t[3 + la..3 + la + lb]);
            let e = pf32(t[3 + la + lb]);
            (a.as_slice().approx_eq_eps(b.as_slice(), &e) as u8).to_string()
        }
        "approxv" => {
            let n: usize = t[1].parse().unwrap();
            let f = floats(&t[2..]);
            let (a, b, e) = (&f[..n], &f[n..2 * n], f[2 * n]);
            if n == 2 {
                format!("{} {} {}", v2(a).approx_eq_eps(&v2(b), &e) as u8, p2(a).approx_eq_eps(&p2(b), &e) as u8, [a[0], a[1]].approx_eq_eps(&[b[0], b[1]], &e) as u8)
            } else {
                format!("{} {} {}", v3(a).approx_eq_eps(&v3(b), &e) as u8, p3(a).approx_eq_eps(&p3(b), &e) as u8, [a[0], a[1], a[2]].approx_eq_eps(&[b[0], b[1], b[2]], &e) as u8)
            }
        }
        "approxo" => {
            let a = if t[1] == "1" { Some(pf32(t[2])) } else { None };
            let b = if t[3] == "1" { Some(pf32(t[4])) } else { None };
            (a.approx_eq_eps(&b, &pf32(t[5])) as u8).to_string()
        }
        "meshnew" => {
            let (faces, verts, _) = parse_mesh(&t[1..]);
            let m: Mesh<()> = Mesh::new(faces.iter().map(|f| Tri(*f)), verts.iter().map(|(p, a)| vertex(p.to(), *a)));
            let direct = mesh_out(&m, |_| String::new());
            // build ∘ into_builder = id
            let again = m.into_builder().build();
            format!("{direct} rt={}", (mesh_out(&again, |_| String::new()) == direct) as u8)
        }
        "bld" => {
            let mut b: Builder<()> = Mesh::builder();
            let mut i = 1;
            while i < t.len() {
                match t[i] {
                    "f" => {
                        let f: Vec<usize> = t[i + 1..i + 4].iter().map(|s| s.parse().unwrap()).collect();
                        b.push_face(f[0], f[1], f[2]);
                        i += 4;
                    }
                    "F" => {
                        let k: usize = t[i + 1].parse().unwrap();
                        let f: Vec<usize> = t[i + 2..i + 2 + 3 * k].iter().map(|s| s.parse().unwrap()).collect();
                        b.push_faces(f.chunks(3).map(|c| [c[0], c[1], c[2]]));
                        i += 2 + 3 * k;
                    }
                    "v" => {
                        b.push_vert(p3(&floats(&t[i + 1..i + 4])), ());
                        i += 4;
                    }
                    "V" => {
                        let k: usize = t[i + 1].parse().unwrap();
                        let f = floats(&t[i + 2..i + 2 + 3 * k]);
                        b.push_verts(f.chunks(3).map(|c| (p3(c), ())));
                        i += 2 + 3 * k;
                    }
                    _ => panic!("bld token"),
                }
            }
            // the builder's state is observable (`pub mesh`) before validation
            let pending = format!("{} {}", b.mesh.faces.len(), b.mesh.verts.len());
            format!("{pending} | {}", grp(|| mesh_out(&b.build(), |_| String::new())))
        }
        "meshtf" => {
            let (faces, verts, rest) = parse_mesh(&t[1..]);
            let e = floats(rest);
            let m: Mat4x4<RealToReal<3, Model, Model>> = Mat4x4::new([[e[0], e[1], e[2], e[3]], [e[4], e[5], e[6], e[7]], [e[8], e[9], e[10], e[11]], [e[12], e[13], e[14], e[15]]]);
            let mut b: Builder<()> = Mesh::builder();
            b.push_faces(faces);
            b.push_verts(verts);
            let b = b.transform(&m);
            mesh_out(&b.mesh, |_| String::new())
        }
        "meshvn" => {
            let (faces, verts, _) = parse_mesh(&t[1..]);
            let mut b: Builder<()> = Mesh::builder();
            b.push_faces(faces);
            b.push_verts(verts);
            let b: Builder<Normal3> = b.with_vertex_normals();
            mesh_out(&b.mesh, |n| fl(&n.0))
        }
        "sadd" => {
            let k: usize = t[1].parse().unwrap();
            let mut acc = Stats::new();
            // `Stats::new()`, `default()` and `start().finish()` minus the clock agree on the counters
            let d = Stats::default();
            let fresh = acc.calls == 0.0 && acc.frames == 0.0 && acc.time.is_zero() && d.objs.i + d.objs.o + d.frags.i + d.frags.o + acc.prims.i + acc.verts.o == 0;
            // `finish()` on a value that was never started keeps the recorded time (stats.rs:69-78)
            let first = parse_stats(&t[2..13]);
            let fresh = fresh && first.clone().finish().time == first.time && Stats::new().finish().time.is_zero();
            for j in 0..k {
                acc += parse_stats(&t[2 + 11 * j..2 + 11 * (j + 1)]);
            }
            format!("{} fresh={}", stats_out(&acc), fresh as u8)
        }
        "spersec" => stats_out(&parse_stats(&t[1..]).per_sec()),
        "sperframe" => stats_out(&parse_stats(&t[1..]).per_frame()),
        "hnum" => {
            let tp = Throughput { i: t[1].parse::<u64>().unwrap() as usize, o: t[2].parse::<u64>().unwrap() as usize };
            hex_bytes(format!("{tp}").as_bytes())
        }
        "hpct" => {
            let tp = Throughput { i: t[1].parse::<u64>().unwrap() as usize, o: t[2].parse::<u64>().unwrap() as usize };
            hex_bytes(format!("{tp:#}").as_bytes())
        }
        "htime" => {
            // `human_time` is private: it is the first cell of the "time" row of `Display for Stats`;
            // width 1 switches every padding off, so the cell is the function's own string
            let mut s = Stats::new();
            s.time = Duration::from_nanos(t[1].parse().unwrap());
            let text = format!("{s:1}");
            let row = text.lines().nth(2).expect("time row");
            let cell = row.strip_prefix(" time   ").expect("time label");
            let cell = &cell[..cell.find(" │").expect("column separator")];
            hex_bytes(cell.as_bytes())
        }
        _ => panic!("unknown op"),
    }
}

fn main() {
    vharness::harness_main(gen, run);
}
