//! vharness: generates cases for a property and runs them against the real
//! retrofire code in-process.
//!
//!   target/release/cNN gen <seed> <quick|thorough>     -> one case per line
//!   target/release/cNN run < cases                     -> "<case> => <impl output>"
//!
//! One binary per property (src/bin/cNN.rs), so that a property's check builds only its
//! own harness code plus /repo.
//!
//! Every case runs under catch_unwind; a panic is an output ("panic:<message>").
use std::io::{self, BufRead, Write};
use std::panic::{catch_unwind, AssertUnwindSafe};

pub mod raster_common;
pub mod render_common;
pub mod util;

use util::{Rng, Tier};

pub type GenFn = fn(&mut Rng, Tier, &mut Vec<String>);
pub type RunFn = fn(&[&str]) -> String;

/// Entry point shared by the per-property binaries in src/bin/.
pub fn harness_main(gen: GenFn, run: RunFn) {
    let args: Vec<String> = std::env::args().collect();
    if args.len() < 2 {
        eprintln!("usage: <bin> gen <seed> <tier> | run");
        std::process::exit(2);
    }
    let out = io::stdout();
    let mut out = io::BufWriter::new(out.lock());
    match args[1].as_str() {
        "gen" => {
            let seed: u64 = args.get(2).map(|s| s.parse().unwrap()).unwrap_or(1);
            let tier = match args.get(3).map(|s| s.as_str()) {
                Some("thorough") => Tier::Thorough,
                _ => Tier::Quick,
            };
            let mut cases = Vec::new();
            gen(&mut Rng::new(seed), tier, &mut cases);
            for c in cases {
                if writeln!(out, "{c}").is_err() { std::process::exit(0); }
            }
        }
        "run" => {
            std::panic::set_hook(Box::new(|_| {}));
            // Watchdog: a single case that runs for more than 60 s (e.g. a loop over 2^32
            // fragments after a broken row count) ends the run with exit status 3.
            let started = std::sync::Arc::new(std::sync::Mutex::new((std::time::Instant::now(), String::new())));
            {
                let started = started.clone();
                std::thread::spawn(move || loop {
                    std::thread::sleep(std::time::Duration::from_secs(1));
                    let g = started.lock().unwrap();
                    if !g.1.is_empty() && g.0.elapsed().as_secs() >= 60 {
                        eprintln!("HANG: case did not finish within 60 s: {}", g.1);
                        std::process::exit(3);
                    }
                });
            }
            for line in io::stdin().lock().lines() {
                let line = line.unwrap();
                let line = line.trim();
                if line.is_empty() || line.starts_with('#') {
                    continue;
                }
                let toks: Vec<&str> = line.split_ascii_whitespace().collect();
                *started.lock().unwrap() = (std::time::Instant::now(), line.chars().take(2000).collect());
                let res = catch_unwind(AssertUnwindSafe(|| run(&toks)));
                // only the case itself is timed, not the time spent blocked on a full output pipe
                started.lock().unwrap().1.clear();
                let res = match res {
                    Ok(s) => s,
                    Err(e) => {
                        let msg = e
                            .downcast_ref::<String>()
                            .cloned()
                            .or_else(|| e.downcast_ref::<&str>().map(|s| s.to_string()))
                            .unwrap_or_default();
                        let msg: String = msg
                            .chars()
                            .map(|c| if c.is_ascii_whitespace() { '_' } else { c })
                            .take(60)
                            .collect();
                        format!("panic:{msg}")
                    }
                };
                if writeln!(out, "{line} => {res}").is_err() { std::process::exit(0); }
            }
        }
        other => {
            eprintln!("unknown command {other}");
            std::process::exit(2);
        }
    }
}
