//! vharness: generates cases for a property and runs them against the real
//! retrofire code in-process.
//!
//!   vharness gen <prop> <seed> <quick|thorough>     -> one case per line
//!   vharness run <prop> < cases                     -> "<case> => <impl output>"
//!
//! Every case runs under catch_unwind; a panic is an output ("panic:<message>").
use std::io::{self, BufRead, Write};
use std::panic::{catch_unwind, AssertUnwindSafe};

mod c19;
mod util;

use util::{Rng, Tier};

type GenFn = fn(&mut Rng, Tier, &mut Vec<String>);
type RunFn = fn(&[&str]) -> String;

fn table(prop: &str) -> Option<(GenFn, RunFn)> {
    Some(match prop {
        "C19" => (c19::gen, c19::run),
        _ => return None,
    })
}

fn main() {
    let args: Vec<String> = std::env::args().collect();
    if args.len() < 3 {
        eprintln!("usage: vharness gen <prop> <seed> <tier> | run <prop>");
        std::process::exit(2);
    }
    let Some((gen, run)) = table(&args[2]) else {
        eprintln!("unknown property {}", args[2]);
        std::process::exit(2);
    };
    let out = io::stdout();
    let mut out = io::BufWriter::new(out.lock());
    match args[1].as_str() {
        "gen" => {
            let seed: u64 = args.get(3).map(|s| s.parse().unwrap()).unwrap_or(1);
            let tier = match args.get(4).map(|s| s.as_str()) {
                Some("thorough") => Tier::Thorough,
                _ => Tier::Quick,
            };
            let mut cases = Vec::new();
            gen(&mut Rng::new(seed), tier, &mut cases);
            for c in cases {
                writeln!(out, "{c}").unwrap();
            }
        }
        "run" => {
            std::panic::set_hook(Box::new(|_| {}));
            for line in io::stdin().lock().lines() {
                let line = line.unwrap();
                let line = line.trim();
                if line.is_empty() || line.starts_with('#') {
                    continue;
                }
                let toks: Vec<&str> = line.split_ascii_whitespace().collect();
                let res = catch_unwind(AssertUnwindSafe(|| run(&toks)));
                let res = match res {
                    Ok(s) => s,
                    Err(e) => {
                        let msg = e
                            .downcast_ref::<String>()
                            .cloned()
                            .or_else(|| e.downcast_ref::<&str>().map(|s| s.to_string()))
                            .unwrap_or_default();
                        let msg: String = msg
                            .chars()
                            .map(|c| if c.is_ascii_whitespace() { '_' } else { c })
                            .take(60)
                            .collect();
                        format!("panic:{msg}")
                    }
                };
                writeln!(out, "{line} => {res}").unwrap();
            }
        }
        other => {
            eprintln!("unknown command {other}");
            std::process::exit(2);
        }
    }
}
