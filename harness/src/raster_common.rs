//! Shared by the C04/C05 (and render) harness binaries: running `tri_fill` for the
//! attribute types the properties name, and printing scanlines / fragments.
use re::geom::{vertex, Vertex};
use re::math::color::{rgb, rgba, Color3f, Color4f};
use re::math::point::{pt3, Point3};
use re::math::vary::Vary;
use re::math::{vec2, vec3, Vec2, Vec3};
use re::render::raster::{tri_fill, ScreenPt};

use crate::util::*;

pub trait AttrKind: Vary {
    const K: usize;
    fn from_words(w: &[f32]) -> Self;
    fn words(&self) -> Vec<f32>;
}
impl AttrKind for () {
    const K: usize = 0;
    fn from_words(_: &[f32]) -> Self {}
    fn words(&self) -> Vec<f32> {
        vec![]
    }
}
impl AttrKind for f32 {
    const K: usize = 1;
    fn from_words(w: &[f32]) -> Self {
        w[0]
    }
    fn words(&self) -> Vec<f32> {
        vec![*self]
    }
}
impl AttrKind for Vec2 {
    const K: usize = 2;
    fn from_words(w: &[f32]) -> Self {
        vec2(w[0], w[1])
    }
    fn words(&self) -> Vec<f32> {
        vec![self.x(), self.y()]
    }
}
impl AttrKind for Vec3 {
    const K: usize = 3;
    fn from_words(w: &[f32]) -> Self {
        vec3(w[0], w[1], w[2])
    }
    fn words(&self) -> Vec<f32> {
        vec![self.x(), self.y(), self.z()]
    }
}
impl AttrKind for Color3f {
    const K: usize = 3;
    fn from_words(w: &[f32]) -> Self {
        rgb(w[0], w[1], w[2])
    }
    fn words(&self) -> Vec<f32> {
        self.0.to_vec()
    }
}
impl AttrKind for Color4f {
    const K: usize = 4;
    fn from_words(w: &[f32]) -> Self {
        rgba(w[0], w[1], w[2], w[3])
    }
    fn words(&self) -> Vec<f32> {
        self.0.to_vec()
    }
}
impl AttrKind for Point3 {
    const K: usize = 3;
    fn from_words(w: &[f32]) -> Self {
        pt3(w[0], w[1], w[2])
    }
    fn words(&self) -> Vec<f32> {
        vec![self.x(), self.y(), self.z()]
    }
}
impl AttrKind for (Vec2, f32) {
    const K: usize = 3;
    fn from_words(w: &[f32]) -> Self {
        (vec2(w[0], w[1]), w[2])
    }
    fn words(&self) -> Vec<f32> {
        vec![self.0.x(), self.0.y(), self.1]
    }
}

/// Number of attribute words for a kind code.
pub fn kind_words(kind: &str) -> usize {
    match kind {
        "u" => 0,
        "s" => 1,
        "v2" => 2,
        "v3" | "c3" | "p3" | "t" => 3,
        "c4" => 4,
        _ => panic!("kind"),
    }
}

pub fn verts_from<A: AttrKind>(w: &[f32]) -> [Vertex<ScreenPt, A>; 3] {
    let stride = 3 + A::K;
    core::array::from_fn(|i| {
        let o = i * stride;
        vertex(pt3(w[o], w[o + 1], w[o + 2]), A::from_words(&w[o + 3..o + stride]))
    })
}

/// Output: `<nrows>` then per row `y x0 x1 nfrags`, optionally followed per row by the fragments
/// (pos x y z + var words).
pub fn fill<A: AttrKind>(w: &[f32], with_frags: bool) -> String {
    let vs = verts_from::<A>(w);
    let mut rows: Vec<String> = vec![];
    tri_fill(vs, |mut sl| {
        let (y, x0, x1) = (sl.y, sl.xs.start, sl.xs.end);
        let frags: Vec<_> = sl.fragments().collect();
        let mut s = format!("{} {} {} {}", y, x0, x1, frags.len());
        if with_frags {
            for f in &frags {
                for c in f.pos.0 {
                    s += " ";
                    s += &h32(c);
                }
                for c in f.var.words() {
                    s += " ";
                    s += &h32(c);
                }
            }
        }
        rows.push(s);
    });
    format!("{} {}", rows.len(), rows.join(" "))
}

pub fn fill_kind(kind: &str, w: &[f32], with_frags: bool) -> String {
    match kind {
        "u" => fill::<()>(w, with_frags),
        "s" => fill::<f32>(w, with_frags),
        "v2" => fill::<Vec2>(w, with_frags),
        "v3" => fill::<Vec3>(w, with_frags),
        "c3" => fill::<Color3f>(w, with_frags),
        "c4" => fill::<Color4f>(w, with_frags),
        "p3" => fill::<Point3>(w, with_frags),
        "t" => fill::<(Vec2, f32)>(w, with_frags),
        _ => panic!("kind"),
    }
}

/// Screen-space triangle generator shared by C04/C05. Returns three (x, y) pairs and a mode tag.
pub fn gen_tri_xy(rng: &mut Rng) -> ([(f32, f32); 3], &'static str) {
    let size = *rng.pick(&[4i64, 8, 16, 32]);
    let mode = rng.below(15);
    let mut p = [(0f32, 0f32); 3];
    let tag;
    match mode {
        0 => {
            tag = "integer";
            for q in p.iter_mut() {
                *q = (rng.range(0, size + 1) as f32, rng.range(0, size + 1) as f32);
            }
        }
        1 => {
            tag = "half-integer";
            for q in p.iter_mut() {
                *q = (rng.range(0, 2 * size + 1) as f32 / 2.0, rng.range(0, 2 * size + 1) as f32 / 2.0);
            }
        }
        2 => {
            tag = "dyadic";
            for q in p.iter_mut() {
                *q = (rng.range(0, 8 * size + 1) as f32 / 8.0, rng.range(0, 8 * size + 1) as f32 / 8.0);
            }
        }
        3 => {
            tag = "flat-top-or-bottom";
            let y = rng.range(0, 2 * size) as f32 / 2.0;
            p[0] = (rng.f32_in(0.0, size as f32), y);
            p[1] = (rng.f32_in(0.0, size as f32), y);
            p[2] = (rng.f32_in(0.0, size as f32), rng.f32_in(0.0, size as f32));
        }
        4 => {
            tag = "sliver";
            let a = (rng.f32_in(0.0, size as f32), rng.f32_in(0.0, size as f32));
            let b = (rng.f32_in(0.0, size as f32), rng.f32_in(0.0, size as f32));
            let t = rng.unit();
            let e = rng.f32_in(-0.05, 0.05);
            p = [a, b, (a.0 + (b.0 - a.0) * t + e, a.1 + (b.1 - a.1) * t - e)];
            for q in p.iter_mut() {
                q.0 = q.0.max(0.0);
                q.1 = q.1.max(0.0);
            }
        }
        5 => {
            tag = "sub-pixel";
            let c = (rng.f32_in(0.0, size as f32), rng.f32_in(0.0, size as f32));
            for q in p.iter_mut() {
                *q = ((c.0 + rng.f32_in(-0.7, 0.7)).max(0.0), (c.1 + rng.f32_in(-0.7, 0.7)).max(0.0));
            }
        }
        6 => {
            tag = "degenerate";
            let a = (rng.range(0, size + 1) as f32, rng.range(0, size + 1) as f32);
            let b = (rng.range(0, size + 1) as f32, rng.range(0, size + 1) as f32);
            p = match rng.below(3) {
                0 => [a, a, b],
                1 => [a, b, ((a.0 + b.0) / 2.0, (a.1 + b.1) / 2.0)],
                _ => [a, a, a],
            };
        }
        7 => {
            tag = "one-row-half";
            // a half-triangle exactly one row high (the class of the fixed NaN defect)
            let y = rng.range(0, size) as f32;
            p[0] = (rng.f32_in(0.0, size as f32), (y - rng.range(1, 5) as f32).max(0.0));
            p[1] = (rng.f32_in(0.0, size as f32), y);
            p[2] = (rng.f32_in(0.0, size as f32), y + 1.0);
        }
        12 => {
            tag = "wide";
            // long scanlines (up to 96 px, one in four up to 300 px) with few rows, or many rows (up to 300) of
            // short scanlines: chunked inner loops and narrow row / column counters show only there
            let (ex, ey) = match rng.below(8) {
                0 | 1 => (300.0, 6.0),
                2 => (6.0, 300.0),
                3 => (6.0, 3000.0),
                _ => (96.0, 6.0),
            };
            for q in p.iter_mut() {
                *q = (rng.f32_in(0.0, ex), rng.f32_in(0.0, ey));
            }
            if ey > 1000.0 {
                // VERY tall: thousands of rows with an almost vertical long edge (slope 1e-5..1e-3 px per row):
                // whatever is rounded or dropped per row adds up over the height
                let slope = 10f32.powf(rng.f32_in(-5.0, -3.0)) * if rng.bool() { 1.0 } else { -1.0 };
                let h = rng.f32_in(1500.0, 3000.0);
                // the long edge CROSSES a column of pixel centres somewhere along its height (so the rows above
                // and below that crossing are covered differently), instead of just running beside it
                let x0 = (1 + rng.below(4)) as f32 + 0.5 - slope * h * rng.f32_in(0.15, 0.85);
                p[0] = (x0, rng.f32_in(0.0, 3.0));
                p[1] = (x0 + slope * h, p[0].1 + h);
                p[2] = (x0 + rng.f32_in(1.0, 4.0) * if rng.bool() { 1.0 } else { -1.0 }, rng.f32_in(0.0, h));
                for q in p.iter_mut() { q.0 = q.0.max(0.0); }
            }
        }
        13 => {
            tag = "centre-ulp";
            // coordinates one or two ulps either side of a pixel centre, small indices first: where
            // `x + 0.5` is inexact (0.5 - 2^-25 + 0.5 rounds up to 1.0) and centre tests flip
            for q in p.iter_mut() {
                let mut c = [0f32; 2];
                for v in c.iter_mut() {
                    let k = if rng.bool() { rng.range(0, 3) } else { rng.range(0, size) } as f32 + 0.5;
                    let d = rng.range(-2, 3) as i32;
                    *v = if rng.chance(1, 4) { rng.f32_in(0.0, size as f32) } else { f32::from_bits((k.to_bits() as i32 + d) as u32) };
                }
                *q = (c[0], c[1]);
            }
        }
        14 => {
            tag = "tiny-around-centre";
            // a triangle 0.005..0.5 px across with a pixel centre well inside it: the smallest things
            // that must still produce a fragment (an absolute area / size cut-off shows only here)
            let c = (rng.range(0, size) as f32 + 0.5, rng.range(0, size) as f32 + 0.5);
            let r = 10f32.powf(rng.f32_in(-2.3, -0.3));
            let o = (c.0 + rng.f32_in(-0.2, 0.2) * r, c.1 + rng.f32_in(-0.2, 0.2) * r);
            let a0 = rng.f32_in(0.0, 6.2831855);
            for (i, q) in p.iter_mut().enumerate() {
                let a = a0 + 2.0943952 * i as f32 + rng.f32_in(-0.3, 0.3);
                *q = ((o.0 + r * a.cos()).max(0.0), (o.1 + r * a.sin()).max(0.0));
            }
        }
        8 => {
            tag = "off-grid-negative";
            for q in p.iter_mut() {
                *q = (rng.f32_in(-4.0, size as f32), rng.f32_in(-4.0, size as f32));
            }
        }
        _ => {
            tag = "arbitrary";
            for q in p.iter_mut() {
                *q = (rng.f32_in(0.0, size as f32), rng.f32_in(0.0, size as f32));
            }
        }
    }
    (p, tag)
}

pub const PERMS: [[usize; 3]; 6] = [[0, 1, 2], [0, 2, 1], [1, 0, 2], [1, 2, 0], [2, 0, 1], [2, 1, 0]];
