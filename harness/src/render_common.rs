//! Shared by the C01/C02/C06/C07 harness binaries: parse a scene case, run it through the real
//! `render()` (or the Batch / Camera front doors), print buffers and statistics.
//!
//! case (key=value tokens, any order before the data sections):
//!   scene door=<r|b|B|M|c|C> tgt=<fb|cb|fs|cs> dims=<W>x<H> vp=<l>,<t>,<r>,<b> cull=<n|f|b> sort=<n|f|b>
//!         test=<n|l|g|e> cw=<0|1> dw=<0|1> sh=<0|1> k=<1|2|3|4> sel=<0..k-1>   (k: 1 f32, 2 Vec2, 3 (Vec2, f32), 4 Color4f)
//!         proj=<none | persp,<focal>,<near>,<far> | ortho,<l>,<b>,<n>,<r>,<t>,<f>> zinit=<f32 bits>
//!         v <nv> <nv*(4+k) words>  t <nt> <nt*3 idx>  h <ncalls> { <sort> <m> <m idx> }*
//! output:
//!   <calls primsI primsO vertsI vertsO fragsI fragsO shaderCalls> | <W*H colour words> |
//!   <W*H depth words or -> | <door_same 0/1> | <nv*4 clip-space words>
use std::cell::Cell;
use std::cmp::Ordering;

use re::geom::{vertex, Tri, Vertex};
use re::math::mat::{orthographic, perspective, viewport, Mat4x4, RealToProj, RealToReal};
use re::math::point::{pt2, pt3, Point3};
use re::math::vec::ProjVec4;
use re::math::color::Color4f;
use re::math::{rgba, vec2, Vec2};
use re::render::cam::Camera;
use re::render::ctx::{DepthSort, FaceCull};
use re::render::raster::Frag;
use re::render::shader::Shader;
use re::render::{render, Batch, Context, Framebuf, Model, View, World};
use re::util::buf::Buf2;

use crate::util::*;

pub const SENTINEL_COLOR: u32 = 0xc5f3_0800; // -7777.0f32

#[derive(Clone, Debug)]
pub enum Proj {
    None,
    Persp(f32, f32, f32),
    Ortho([f32; 6]),
}

#[derive(Clone, Debug)]
pub struct Scene {
    pub door: char,
    pub tgt_fb: bool,
    /// the target is a strided sub-view (MutSlice2) of a larger buffer: tgt=fs / tgt=cs
    pub strided: bool,
    pub w: u32,
    pub h: u32,
    pub vp: [u32; 4],
    pub cull: char,
    pub sort: char,
    pub test: char,
    pub cw: bool,
    pub dw: bool,
    pub sh: u32,
    pub k: usize,
    pub sel: usize,
    pub proj: Proj,
    pub zinit: f32,
    pub verts: Vec<Vec<f32>>,
    pub tris: Vec<[usize; 3]>,
    pub hist: Vec<(char, Vec<usize>)>,
}

pub fn parse_scene(t: &[&str]) -> Scene {
    let mut s = Scene {
        door: 'r', tgt_fb: true, strided: false, w: 8, h: 8, vp: [0, 0, 8, 8], cull: 'n', sort: 'n', test: 'l',
        cw: true, dw: true, sh: 0, k: 1, sel: 0, proj: Proj::None, zinit: 0.0,
        verts: vec![], tris: vec![], hist: vec![],
    };
    let mut i = 1;
    while i < t.len() {
        let tok = t[i];
        if let Some((key, val)) = tok.split_once('=') {
            match key {
                "door" => s.door = val.chars().next().unwrap(),
                "tgt" => {
                    s.tgt_fb = val == "fb" || val == "fs";
                    s.strided = val == "fs" || val == "cs";
                }
                "dims" => {
                    let (a, b) = val.split_once('x').unwrap();
                    s.w = a.parse().unwrap();
                    s.h = b.parse().unwrap();
                }
                "vp" => {
                    let v: Vec<u32> = val.split(',').map(|x| x.parse().unwrap()).collect();
                    s.vp = [v[0], v[1], v[2], v[3]];
                }
                "cull" => s.cull = val.chars().next().unwrap(),
                "sort" => s.sort = val.chars().next().unwrap(),
                "test" => s.test = val.chars().next().unwrap(),
                "cw" => s.cw = val == "1",
                "dw" => s.dw = val == "1",
                "sh" => s.sh = val.parse().unwrap(),
                "k" => s.k = val.parse().unwrap(),
                "sel" => s.sel = val.parse().unwrap(),
                "zinit" => s.zinit = pf32(val),
                "proj" => {
                    let p: Vec<&str> = val.split(',').collect();
                    s.proj = match p[0] {
                        "none" => Proj::None,
                        "persp" => Proj::Persp(pf32(p[1]), pf32(p[2]), pf32(p[3])),
                        "ortho" => Proj::Ortho(core::array::from_fn(|j| pf32(p[1 + j]))),
                        _ => panic!("proj"),
                    };
                }
                _ => panic!("unknown key {key}"),
            }
            i += 1;
        } else {
            match tok {
                "v" => {
                    let nv: usize = t[i + 1].parse().unwrap();
                    let stride = 4 + s.k;
                    for j in 0..nv {
                        s.verts.push((0..stride).map(|c| pf32(t[i + 2 + j * stride + c])).collect());
                    }
                    i += 2 + nv * stride;
                }
                "t" => {
                    let nt: usize = t[i + 1].parse().unwrap();
                    for j in 0..nt {
                        s.tris.push(core::array::from_fn(|c| t[i + 2 + 3 * j + c].parse().unwrap()));
                    }
                    i += 2 + 3 * nt;
                }
                "h" => {
                    let nc: usize = t[i + 1].parse().unwrap();
                    i += 2;
                    for _ in 0..nc {
                        let sort = t[i].chars().next().unwrap();
                        let m: usize = t[i + 1].parse().unwrap();
                        let idx = (0..m).map(|c| t[i + 2 + c].parse().unwrap()).collect();
                        s.hist.push((sort, idx));
                        i += 2 + m;
                    }
                }
                _ => panic!("unknown section {tok}"),
            }
        }
    }
    if s.hist.is_empty() {
        s.hist.push((s.sort, (0..s.tris.len()).collect()));
    }
    s
}

fn make_ctx(s: &Scene, sort: char) -> Context {
    Context {
        color_clear: None,
        depth_clear: None,
        face_cull: match s.cull {
            'f' => Some(FaceCull::Front),
            'b' => Some(FaceCull::Back),
            _ => None,
        },
        depth_sort: match sort {
            'f' => Some(DepthSort::FrontToBack),
            'b' => Some(DepthSort::BackToFront),
            _ => None,
        },
        depth_test: match s.test {
            'l' => Some(Ordering::Less),
            'g' => Some(Ordering::Greater),
            'e' => Some(Ordering::Equal),
            _ => None,
        },
        color_write: s.cw,
        depth_write: s.dw,
        stats: Default::default(),
    }
}

type V1 = Vertex<ProjVec4, f32>;
type V2 = Vertex<ProjVec4, Vec2>;
type V3 = Vertex<ProjVec4, (Vec2, f32)>;
type V4 = Vertex<ProjVec4, Color4f>;

/// Colour whose ARGB word is exactly the bit pattern of `x`.
fn smuggle(x: f32) -> re::math::Color4 {
    let b = x.to_bits();
    rgba((b >> 16) as u8, (b >> 8) as u8, b as u8, (b >> 24) as u8)
}

pub struct Output {
    pub stats: [usize; 8],
    pub color: Vec<u32>,
    pub depth: Option<Vec<f32>>,
}

enum Tgt {
    Fb(Framebuf<Buf2<u32>, Buf2<f32>>),
    Cb(Buf2<u32>),
    /// strided views into larger buffers (margins: 1 left/top, 2 right, 1 bottom)
    FbS(Buf2<u32>, Buf2<f32>),
    CbS(Buf2<u32>),
}

/// Clip-space vertices of the scene (library projection applied when proj != none).
pub fn clip_verts(s: &Scene) -> Vec<[f32; 4]> {
    let (vw, vh) = (s.vp[2].abs_diff(s.vp[0]), s.vp[3].abs_diff(s.vp[1]));
    match &s.proj {
        Proj::None => s.verts.iter().map(|v| [v[0], v[1], v[2], v[3]]).collect(),
        Proj::Persp(f, n, fa) => {
            let m: Mat4x4<RealToProj<View>> = perspective(*f, vw as f32 / vh as f32, *n..*fa);
            s.verts.iter().map(|v| m.apply(&pt3(v[0], v[1], v[2])).0).collect()
        }
        Proj::Ortho(b) => {
            let m = orthographic(pt3(b[0], b[1], b[2]), pt3(b[3], b[4], b[5]));
            s.verts.iter().map(|v| m.apply(&pt3(v[0], v[1], v[2])).0).collect()
        }
    }
}

/// The w×h region at (1,1) of a (w+3)×(h+2) buffer, and whether every cell outside it still holds `fill`
/// (bitwise, so NaN fills compare equal to themselves).
fn inner_region<T: Copy + ToBits>(b: &Buf2<T>, w: u32, h: u32, fill: T) -> (Vec<T>, bool) {
    inner_region_at(b, w, h, fill, 1, 1)
}

/// The `w`×`h` window at (`ox`, `oy`) of a larger buffer, and whether every cell outside it still holds `fill`.
fn inner_region_at<T: Copy + ToBits>(b: &Buf2<T>, w: u32, h: u32, fill: T, ox: u32, oy: u32) -> (Vec<T>, bool) {
    let mut inner = vec![];
    let mut ok = true;
    for y in 0..b.height() {
        for x in 0..b.width() {
            let v = b[[x, y]];
            if x >= ox && x < ox + w && y >= oy && y < oy + h {
                inner.push(v);
            } else if v.bits() != fill.bits() {
                ok = false;
            }
        }
    }
    (inner, ok)
}
pub trait ToBits {
    fn bits(&self) -> u32;
}
impl ToBits for u32 {
    fn bits(&self) -> u32 {
        *self
    }
}
impl ToBits for f32 {
    fn bits(&self) -> u32 {
        self.to_bits()
    }
}

/// Runs the whole history through the chosen front door.
pub fn run_scene(s: &Scene, door: char) -> Output {
    let cv = clip_verts(s);
    let calls = Cell::new(0usize);
    let sel = s.sel;
    let variant = s.sh;
    let to_screen = viewport(pt2(s.vp[0], s.vp[1])..pt2(s.vp[2], s.vp[3]));
    let mut tgt = if s.strided {
        let mut c = Buf2::new((s.w + 3, s.h + 2));
        c.fill(SENTINEL_COLOR);
        if s.tgt_fb {
            // the depth buffer's backing store has ANOTHER width and offset than the colour buffer's:
            // the two views have equal dimensions but different strides
            let mut d = Buf2::new((s.w + 6, s.h + 3));
            d.fill(s.zinit);
            Tgt::FbS(c, d)
        } else {
            Tgt::CbS(c)
        }
    } else if s.tgt_fb {
        let mut c = Buf2::new((s.w, s.h));
        c.fill(SENTINEL_COLOR);
        let mut d = Buf2::new((s.w, s.h));
        d.fill(s.zinit);
        Tgt::Fb(Framebuf { color_buf: c, depth_buf: d })
    } else {
        let mut c = Buf2::new((s.w, s.h));
        c.fill(SENTINEL_COLOR);
        Tgt::Cb(c)
    };
    let mut total = [0usize; 8];
    // ONE context for the whole history (only `depth_sort` is switched between calls), so that what is
    // read back at the end is what the library ACCUMULATED in `ctx.stats` over the calls
    let mut ctx = make_ctx(s, s.hist.first().map(|h| h.0).unwrap_or(s.sort));
    for (sort, idx) in &s.hist {
        ctx.depth_sort = make_ctx(s, *sort).depth_sort;
        let tris: Vec<Tri<usize>> = idx.iter().map(|&i| Tri(s.tris[i])).collect();
        let discard = |px: f32, py: f32| variant == 1 && ((px.floor() as i64 + py.floor() as i64) % 2 == 0);
        macro_rules! go {
            ($verts:expr, $fs:expr, $VT:ty, $AT:ty) => {{
                // a call that submits no triangle submits no vertex either
                let verts: Vec<$VT> = if tris.is_empty() { vec![] } else { $verts };
                let vs = |v: $VT, _: ()| v;
                let shader = Shader::new(vs, $fs);
                macro_rules! with_target {
                    ($t:expr) => {
                        match door {
                            'r' => render(&tris, &verts, &shader, (), to_screen, $t, &ctx),
                            'b' => Batch::new()
                                .faces(&tris)
                                .vertices(&verts)
                                .uniform(())
                                .shader(shader)
                                .viewport(to_screen)
                                .target($t)
                                .context(&ctx)
                                .render(),
                            // a REUSED batch: every setter called twice, stale data first — a setter replaces
                            'B' => {
                                let stale_tris: Vec<Tri<usize>> = tris.iter().rev().chain(tris.iter()).cloned().collect();
                                let stale_verts: Vec<$VT> = verts.iter().rev().cloned().collect();
                                Batch::new()
                                    .faces(&stale_tris)
                                    .vertices(&stale_verts)
                                    .faces(&tris)
                                    .vertices(&verts)
                                    .uniform(())
                                    .shader(shader)
                                    .viewport(to_screen)
                                    .target($t)
                                    .context(&ctx)
                                    .render()
                            }
                            // the `Batch::mesh` front door: a Mesh whose vertex attribute smuggles (w, attr);
                            // the vertex shader rebuilds the clip-space vertex
                            'M' => {
                                let mverts: Vec<re::geom::Vertex3<(f32, $AT)>> = verts
                                    .iter()
                                    .map(|v| vertex(pt3(v.pos.x(), v.pos.y(), v.pos.z()), (v.pos.w(), v.attrib.clone())))
                                    .collect();
                                let mesh = re::geom::Mesh::new(tris.clone(), mverts);
                                let vs2 = |v: re::geom::Vertex3<(f32, $AT)>, _: ()| -> $VT {
                                    vertex([v.pos.x(), v.pos.y(), v.pos.z(), v.attrib.0].into(), v.attrib.1)
                                };
                                let shader2 = Shader::new(vs2, $fs);
                                Batch::new()
                                    .mesh(&mesh)
                                    .uniform(())
                                    .shader(shader2)
                                    .viewport(to_screen)
                                    .target($t)
                                    .context(&ctx)
                                    .render()
                            }
                            'c' | 'C' => {
                                // identity camera: vertices are already in clip space; door C configures the
                                // viewport BEFORE the mode (the builder calls commute)
                                let cam = if door == 'c' {
                                    Camera::new((s.w, s.h))
                                        .mode(Mat4x4::<RealToReal<3, World, View>>::identity())
                                        .viewport((s.vp[0]..s.vp[2], s.vp[1]..s.vp[3]))
                                } else {
                                    Camera::new((s.w, s.h))
                                        .viewport((s.vp[0]..s.vp[2], s.vp[1]..s.vp[3]))
                                        .mode(Mat4x4::<RealToReal<3, World, View>>::identity())
                                };
                                let vs2 = |v: $VT, _: (&Mat4x4<RealToProj<Model>>, ())| v;
                                let shader2 = Shader::new(vs2, $fs);
                                let to_world = Mat4x4::<RealToReal<3, Model, World>>::identity();
                                cam.render(&tris, &verts, &to_world, &shader2, (), $t, &ctx)
                            }
                            _ => panic!("door"),
                        }
                    };
                }
                match &mut tgt {
                    Tgt::Fb(fb) => with_target!(fb),
                    Tgt::Cb(cb) => with_target!(cb),
                    Tgt::FbS(c, d) => {
                        let rect = (1..s.w + 1, 1..s.h + 1);
                        let drect = (4..s.w + 4, 2..s.h + 2);
                        let mut fb = Framebuf { color_buf: c.slice_mut(rect), depth_buf: d.slice_mut(drect) };
                        with_target!(&mut fb)
                    }
                    Tgt::CbS(c) => {
                        let mut view = c.slice_mut((1..s.w + 1, 1..s.h + 1));
                        with_target!(&mut view)
                    }
                }
            }};
        }
        if s.k == 1 {
            let fs = |f: Frag<f32>| {
                calls.set(calls.get() + 1);
                if discard(f.pos.x(), f.pos.y()) { None } else { Some(smuggle(f.var)) }
            };
            go!(
                cv.iter().zip(&s.verts).map(|(p, v)| vertex((*p).into(), v[4])).collect(),
                fs,
                V1,
                f32
            );
        } else if s.k == 2 {
            let fs = |f: Frag<Vec2>| {
                calls.set(calls.get() + 1);
                if discard(f.pos.x(), f.pos.y()) { None } else { Some(smuggle(f.var[sel])) }
            };
            go!(
                cv.iter().zip(&s.verts).map(|(p, v)| vertex((*p).into(), vec2(v[4], v[5]))).collect(),
                fs,
                V2,
                Vec2
            );
        } else if s.k == 3 {
            // a TUPLE varying (Vec2, f32): the pair impls of Lerp / Vary / ZDiv
            let fs = |f: Frag<(Vec2, f32)>| {
                calls.set(calls.get() + 1);
                let val = if sel < 2 { f.var.0[sel] } else { f.var.1 };
                if discard(f.pos.x(), f.pos.y()) { None } else { Some(smuggle(val)) }
            };
            go!(
                cv.iter().zip(&s.verts).map(|(p, v)| vertex((*p).into(), (vec2(v[4], v[5]), v[6]))).collect(),
                fs,
                V3,
                (Vec2, f32)
            );
        } else {
            // a COLOUR varying (Color4f): the colour impls, alpha included
            let fs = |f: Frag<Color4f>| {
                calls.set(calls.get() + 1);
                if discard(f.pos.x(), f.pos.y()) { None } else { Some(smuggle(f.var.0[sel])) }
            };
            go!(
                cv.iter().zip(&s.verts).map(|(p, v)| vertex((*p).into(), rgba(v[4], v[5], v[6], v[7]))).collect(),
                fs,
                V4,
                Color4f
            );
        }
    }
    {
        let st = ctx.stats.borrow();
        let add = [st.calls as usize, st.prims.i, st.prims.o, st.verts.i, st.verts.o, st.frags.i, st.frags.o, 0];
        total[..7].copy_from_slice(&add[..7]);
    }
    total[7] = calls.get();
    match tgt {
        Tgt::Fb(fb) => Output { stats: total, color: fb.color_buf.data().to_vec(), depth: Some(fb.depth_buf.data().to_vec()) },
        Tgt::Cb(cb) => Output { stats: total, color: cb.data().to_vec(), depth: None },
        Tgt::FbS(c, d) => {
            let (color, ok1) = inner_region(&c, s.w, s.h, SENTINEL_COLOR);
            let (depth, ok2) = inner_region_at(&d, s.w, s.h, s.zinit, 4, 2);
            assert!(ok1 && ok2, "a cell of the backing buffer outside the target view was modified");
            Output { stats: total, color, depth: Some(depth) }
        }
        Tgt::CbS(c) => {
            let (color, ok) = inner_region(&c, s.w, s.h, SENTINEL_COLOR);
            assert!(ok, "a cell of the backing buffer outside the target view was modified");
            Output { stats: total, color, depth: None }
        }
    }
}

pub fn fmt_output(s: &Scene, o: &Output, door_same: bool) -> String {
    let mut out = o.stats.iter().map(|x| x.to_string()).collect::<Vec<_>>().join(" ");
    out += " |";
    for c in &o.color {
        out += " ";
        out += &hu32(*c);
    }
    out += " |";
    match &o.depth {
        Some(d) => {
            for z in d {
                out += " ";
                out += &h32(*z);
            }
        }
        None => out += " -",
    }
    out += &format!(" | {} |", door_same as u8);
    for p in clip_verts(s) {
        for c in p {
            out += " ";
            out += &h32(c);
        }
    }
    out
}

/// Default `run`: the scene through its door; `door_same` compares with plain render().
pub fn run_default(t: &[&str]) -> String {
    let s = parse_scene(t);
    let o = run_scene(&s, s.door);
    let same = if s.door == 'r' {
        true
    } else {
        let p = run_scene(&s, 'r');
        p.color == o.color
            && p.depth.as_ref().map(|d| d.iter().map(|x| x.to_bits()).collect::<Vec<_>>())
                == o.depth.as_ref().map(|d| d.iter().map(|x| x.to_bits()).collect::<Vec<_>>())
            && p.stats == o.stats
    };
    fmt_output(&s, &o, same)
}

// ---------------------------------------------------------------------------------------------
// scene generators
// ---------------------------------------------------------------------------------------------

pub struct GenOpts {
    pub max_tris: usize,
    pub clip_modes: bool, // vertices outside the frustum, w<0 ...
    pub flags_random: bool,
}

/// A clip-space vertex whose NDC position is (nx, ny), depth parameter w.
fn cs(nx: f32, ny: f32, nz: f32, w: f32) -> [f32; 4] {
    [nx * w, ny * w, nz * w, w]
}

pub fn gen_clip_vertex(rng: &mut Rng, allow_outside: bool) -> [f32; 4] {
    let w = match rng.below(4) {
        0 => 1.0,
        1 => *rng.pick(&[0.5f32, 2.0, 4.0]),
        _ => rng.f32_in(0.5, 5.0),
    };
    let grid = rng.chance(1, 3);
    let mut c = |rng: &mut Rng, lo: f32, hi: f32| {
        if grid { (rng.range((lo * 8.0) as i64, (hi * 8.0) as i64 + 1) as f32) / 8.0 } else { rng.f32_in(lo, hi) }
    };
    if !allow_outside || rng.chance(1, 2) {
        cs(c(rng, -1.0, 1.0), c(rng, -1.0, 1.0), c(rng, -1.0, 1.0), w)
    } else {
        match rng.below(5) {
            0 => cs(c(rng, -2.5, 2.5), c(rng, -1.0, 1.0), c(rng, -1.0, 1.0), w),
            1 => cs(c(rng, -1.0, 1.0), c(rng, -2.5, 2.5), c(rng, -1.0, 1.0), w),
            2 => cs(c(rng, -1.0, 1.0), c(rng, -1.0, 1.0), c(rng, -2.0, 2.0), w),
            3 => cs(c(rng, -2.5, 2.5), c(rng, -2.5, 2.5), c(rng, -2.0, 2.0), w),
            _ => {
                // behind the eye
                let v = cs(c(rng, -1.5, 1.5), c(rng, -1.5, 1.5), c(rng, -1.5, 1.5), w);
                [v[0], v[1], v[2], -v[3]]
            }
        }
    }
}

pub fn header(rng: &mut Rng, door: char, tgt: &str, flags: &str, k: usize) -> (String, u32, u32) {
    // mostly small buffers; one in eight is wide (long scanlines) and low
    let wide = rng.chance(1, 8);
    // (a tenth of the wide ones are 100..180 px: scanlines well beyond 64 / 128 px — block-wise span loops)
    let w = if wide { if rng.chance(1, 10) { 100 + rng.below(81) as u32 } else { 40 + rng.below(40) as u32 } } else { 2 + rng.below(14) as u32 };
    let h = if wide { 2 + rng.below(4) as u32 } else { 2 + rng.below(14) as u32 };
    let (l, t, r, b) = if rng.chance(1, 2) {
        (0, 0, w, h)
    } else {
        let l = rng.below(w as u64 - 1) as u32;
        let t = rng.below(h as u64 - 1) as u32;
        (l, t, l + 1 + rng.below((w - l) as u64) as u32, t + 1 + rng.below((h - t) as u64) as u32)
    };
    (
        format!("scene door={door} tgt={tgt} dims={w}x{h} vp={l},{t},{r},{b} {flags} k={k} sel={}", if k >= 2 { rng.below(k as u64) as usize } else { 0 }),
        w,
        h,
    )
}

pub fn push_verts(line: &mut String, verts: &[Vec<f32>]) {
    line.push_str(&format!(" v {}", verts.len()));
    for v in verts {
        for c in v {
            line.push(' ');
            line.push_str(&h32(*c));
        }
    }
}
