//! Shared helpers: deterministic generator RNG (independent of retrofire's own),
//! hex encoding of bit patterns, token parsing.
#![allow(dead_code)]

/// SplitMix64; every random choice of the generators derives from one of these.
#[derive(Clone)]
pub struct Rng(pub u64);

impl Rng {
    pub fn new(seed: u64) -> Self {
        Rng(seed ^ 0x9E37_79B9_7F4A_7C15)
    }
    pub fn u64(&mut self) -> u64 {
        self.0 = self.0.wrapping_add(0x9E37_79B9_7F4A_7C15);
        let mut z = self.0;
        z = (z ^ (z >> 30)).wrapping_mul(0xBF58_476D_1CE4_E5B9);
        z = (z ^ (z >> 27)).wrapping_mul(0x94D0_49BB_1331_11EB);
        z ^ (z >> 31)
    }
    pub fn u32(&mut self) -> u32 {
        (self.u64() >> 32) as u32
    }
    /// Uniform in 0..n (n > 0).
    pub fn below(&mut self, n: u64) -> u64 {
        self.u64() % n
    }
    pub fn range(&mut self, lo: i64, hi: i64) -> i64 {
        lo + self.below((hi - lo) as u64) as i64
    }
    pub fn bool(&mut self) -> bool {
        self.u64() & 1 == 1
    }
    pub fn chance(&mut self, num: u64, den: u64) -> bool {
        self.below(den) < num
    }
    pub fn pick<'a, T>(&mut self, xs: &'a [T]) -> &'a T {
        &xs[self.below(xs.len() as u64) as usize]
    }
    /// Uniform f32 in [0,1) with 24 bits.
    pub fn unit(&mut self) -> f32 {
        (self.u64() >> 40) as f32 / (1u64 << 24) as f32
    }
    pub fn f32_in(&mut self, lo: f32, hi: f32) -> f32 {
        lo + (hi - lo) * self.unit()
    }
}

pub fn h32(x: f32) -> String {
    format!("{:08x}", x.to_bits())
}
pub fn hu32(x: u32) -> String {
    format!("{:08x}", x)
}
pub fn h64(x: u64) -> String {
    format!("{:016x}", x)
}
pub fn pf32(s: &str) -> f32 {
    f32::from_bits(u32::from_str_radix(s, 16).expect("f32 bits"))
}
pub fn pu32h(s: &str) -> u32 {
    u32::from_str_radix(s, 16).expect("u32 hex")
}
pub fn pu64h(s: &str) -> u64 {
    u64::from_str_radix(s, 16).expect("u64 hex")
}
pub fn pint(s: &str) -> i64 {
    s.parse().expect("int")
}
pub fn hex_bytes(b: &[u8]) -> String {
    if b.is_empty() {
        return "-".into();
    }
    b.iter().map(|x| format!("{:02x}", x)).collect()
}
pub fn parse_hex_bytes(s: &str) -> Vec<u8> {
    if s == "-" {
        return vec![];
    }
    (0..s.len() / 2)
        .map(|i| u8::from_str_radix(&s[2 * i..2 * i + 2], 16).expect("hex byte"))
        .collect()
}

/// 64-bit FNV-1a over 32-bit words (little-endian bytes), as in `Retro.fnvStep`.
pub fn fnv_step(mut h: u64, w: u32) -> u64 {
    for i in 0..4 {
        h ^= ((w >> (8 * i)) & 0xFF) as u64;
        h = h.wrapping_mul(0x100_0000_01b3);
    }
    h
}
pub const FNV_INIT: u64 = 0xcbf2_9ce4_8422_2325;

#[derive(Clone, Copy, PartialEq, Eq, Debug)]
pub enum Tier {
    Quick,
    Thorough,
}
