import Retro.Drv.C01
def main : IO UInt32 := Retro.Drv.runMain Retro.Drv.C01.handle
