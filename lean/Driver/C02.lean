import Retro.Drv.C02
def main : IO UInt32 := Retro.Drv.runMain Retro.Drv.C02.handle
