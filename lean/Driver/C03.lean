import Retro.Drv.C03
def main : IO UInt32 := Retro.Drv.runMain Retro.Drv.C03.handle
