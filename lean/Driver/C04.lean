import Retro.Drv.C04
def main : IO UInt32 := Retro.Drv.runMain Retro.Drv.C04.handle
