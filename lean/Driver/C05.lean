import Retro.Drv.C05
def main : IO UInt32 := Retro.Drv.runMain Retro.Drv.C05.handle
