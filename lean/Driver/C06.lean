import Retro.Drv.C06
def main : IO UInt32 := Retro.Drv.runMain Retro.Drv.C06.handle
