import Retro.Drv.C07
def main : IO UInt32 := Retro.Drv.runMain Retro.Drv.C07.handle
