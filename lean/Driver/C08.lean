import Retro.Drv.C08
def main : IO UInt32 := Retro.Drv.runMain Retro.Drv.C08.handle
