import Retro.Drv.C09
def main : IO UInt32 := Retro.Drv.runMain Retro.Drv.C09.handle
