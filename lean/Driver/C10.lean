import Retro.Drv.C10
def main (args : List String) : IO UInt32 := Retro.Drv.C10.main args
