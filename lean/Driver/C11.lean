import Retro.Drv.C11
def main : IO UInt32 := Retro.Drv.runMain Retro.Drv.C11.handle
