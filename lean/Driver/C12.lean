import Retro.Drv.C12
def main : IO UInt32 := Retro.Drv.runMain Retro.Drv.C12.handle
