import Retro.Drv.C13
def main : IO UInt32 := Retro.Drv.runMain Retro.Drv.C13.handle
