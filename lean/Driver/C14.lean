import Retro.Drv.C14
def main : IO UInt32 := Retro.Drv.runMain Retro.Drv.C14.handle
