import Retro.Drv.C15
def main : IO UInt32 := Retro.Drv.runMain Retro.Drv.C15.handle
