import Retro.Drv.C16
def main : IO UInt32 := Retro.Drv.runMain Retro.Drv.C16.handle
