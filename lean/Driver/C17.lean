import Retro.Drv.C17
def main : IO UInt32 := Retro.Drv.runMain Retro.Drv.C17.handle
