import Retro.Drv.C18
def main : IO UInt32 := Retro.Drv.runMain Retro.Drv.C18.handle
