import Retro.Drv.C19
def main : IO UInt32 := Retro.Drv.runMain Retro.Drv.C19.handle
