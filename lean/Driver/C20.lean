import Retro.Drv.C20
def main : IO UInt32 := Retro.Drv.runMain Retro.Drv.C20.handle
