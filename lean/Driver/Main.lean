/-
Model driver: reads "<case> => <impl output>" lines, prints one verdict line per case.
  drv <PROP> < impl.out
-/
import Retro.Drv.Common
import Retro.Drv.C19

open Retro Retro.Drv

def table : List (String × (List String → List String → Verdict)) :=
  [ ("C19", Retro.Drv.C19.handle) ]

partial def loop (h : IO.FS.Stream) (out : IO.FS.Stream) (f : List String → List String → Verdict) : IO Unit := do
  let line ← h.getLine
  if line.isEmpty then return ()
  let toks := words line
  if toks.isEmpty then loop h out f
  else
    let (case, impl) := Retro.splitAt "=>" toks
    out.putStrLn (f case impl).render
    loop h out f

def main (args : List String) : IO UInt32 := do
  match args with
  | [prop] =>
    match table.lookup prop with
    | some f =>
      let stdin ← IO.getStdin
      let stdout ← IO.getStdout
      loop stdin stdout f
      return 0
    | none => IO.eprintln s!"unknown property {prop}"; return 2
  | _ => IO.eprintln "usage: drv <PROP>"; return 2
