import Retro.Drv.U01
def main : IO UInt32 := Retro.Drv.runMain Retro.Drv.U01.handle
