-- Root of the `Retro` library: everything the checks build.
import Retro.Basic
import Retro.Audit
import Retro.Model.Rand
import Retro.Drv.Common
import Retro.Drv.C19
import Retro.Props.C19
