/-
`#audit_ns Foo.Bar` lists every theorem whose name lies in namespace `Foo.Bar`
together with the axioms it depends on, one per line:

  AUDIT <theorem> | <axiom> <axiom> ...

The check script parses this, so a property theorem can neither be forgotten
nor silently depend on `sorryAx`, a user axiom or an undeclared `native_decide`.
-/
import Lean
open Lean Elab Command

elab "#audit_ns " ns:ident : command => do
  let env ← getEnv
  let nsName := ns.getId
  let mut names : Array Name := #[]
  -- only the modules whose name lies under the namespace (Retro.Props.Cxx and sub-modules)
  for (modName, idx) in env.header.moduleNames.zipIdx do
    if nsName.isPrefixOf modName then
      for n in env.header.moduleData[idx]!.constNames do
        if nsName.isPrefixOf n && !n.isInternalDetail then
          match env.find? n with
          | some (.thmInfo _) => names := names.push n
          | _ => pure ()
  let sorted := names.qsort (fun a b => a.toString < b.toString)
  for n in sorted do
    let axs ← liftCoreM <| Lean.collectAxioms n
    let axs := axs.qsort (fun a b => a.toString < b.toString)
    logInfo m!"AUDIT {n} | {" ".intercalate (axs.toList.map (·.toString))}"
  logInfo m!"AUDIT-COUNT {sorted.size}"
