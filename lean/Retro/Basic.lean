/-
Shared, import-free foundations of the retrofire model:
  * `Outcome`  – result of a Rust computation that may panic (never a default value)
  * `HasFloor` – the one extra scalar operation the generic numeric model needs
  * `F32`      – IEEE binary32 bit patterns <-> exact rationals (decode, round-to-nearest-even encode)
  * line-protocol helpers used by the drivers (hex / decimal tokens)

Nothing here imports Mathlib, so that `Driver/Main.lean` links as a `lean_exe`.
-/

namespace Retro

/-- Result of running a piece of Rust code: a value, or a panic at a named site class. -/
inductive Outcome (α : Type) where
  | ok (a : α)
  | panic (site : String)
  deriving Repr, DecidableEq, Inhabited

namespace Outcome
@[inline] def bind {α β : Type} (x : Outcome α) (f : α → Outcome β) : Outcome β :=
  match x with
  | ok a => f a
  | panic s => panic s
instance : Monad Outcome where
  pure := ok
  bind := bind
def isOk {α : Type} : Outcome α → Bool
  | ok _ => true
  | panic _ => false
def toStr {α : Type} (f : α → String) : Outcome α → String
  | ok a => f a
  | panic s => "panic:" ++ s
end Outcome

/-- The only non-ring operation the generic scalar model uses. -/
class HasFloor (α : Type) where
  floor : α → α

instance : HasFloor Rat where
  floor q := (q.floor : Int)

/-! ### Small numeric helpers -/

def pow2 (n : Nat) : Nat := 1 <<< n

/-- `2^e` as a rational, `e` any integer. -/
def ratPow2 (e : Int) : Rat :=
  if e ≥ 0 then ((pow2 e.toNat : Nat) : Rat) else 1 / ((pow2 (-e).toNat : Nat) : Rat)

def ratAbs (q : Rat) : Rat := if q < 0 then -q else q
def ratMin (a b : Rat) : Rat := if a ≤ b then a else b
def ratMax (a b : Rat) : Rat := if a ≤ b then b else a

/-- Round a rational to the nearest integer, ties to even. -/
def roundNearestEven (q : Rat) : Int :=
  let f := q.floor
  let r := q - (f : Rat)
  if r < 1/2 then f
  else if r > 1/2 then f + 1
  else if f % 2 == 0 then f else f + 1

/-! ### IEEE-754 binary32 bit patterns -/

namespace F32

def signBit (b : UInt32) : Bool := (b >>> 31) != 0
def expField (b : UInt32) : Nat := ((b >>> 23) &&& 0xFF).toNat
def manField (b : UInt32) : Nat := (b &&& 0x7FFFFF).toNat

def isNaN (b : UInt32) : Bool := expField b == 255 && manField b != 0
def isInf (b : UInt32) : Bool := expField b == 255 && manField b == 0
def isFinite (b : UInt32) : Bool := expField b != 255

/-- Exact value of a finite bit pattern (±0 ↦ 0); `none` for NaN and ±∞. -/
def toRat? (b : UInt32) : Option Rat :=
  let e := expField b
  let m := manField b
  if e == 255 then none
  else
    let mag : Rat :=
      if e == 0 then (m : Rat) * ratPow2 (-149)
      else ((m + 0x800000 : Nat) : Rat) * ratPow2 ((e : Int) - 150)
    some (if signBit b then -mag else mag)

/-- Exact value, NaN/∞ mapped to 0 (only for places that have already excluded them). -/
def toRatD (b : UInt32) : Rat := (toRat? b).getD 0

/-- floor(log2 (n/d)) for positive n, d. -/
def ilog2Rat (n d : Nat) : Int :=
  let e0 : Int := (Nat.log2 n : Int) - (Nat.log2 d : Int)
  -- 2^e0 may overshoot by one
  if ratPow2 e0 ≤ (n : Rat) / (d : Rat) then e0 else e0 - 1

/-- Round-to-nearest-even encoding of a rational as binary32 (overflow ↦ ±∞). -/
def ofRat (q : Rat) : UInt32 :=
  if q == 0 then 0
  else
    let neg := decide (q < 0)
    let a := ratAbs q
    let e := ilog2Rat a.num.natAbs a.den
    let eClamped : Int := if e < -126 then -126 else e
    let s : Int := eClamped - 23
    let m : Int := roundNearestEven (a / ratPow2 s)
    -- for normals m ∈ [2^23, 2^24]; for subnormals m ∈ [0, 2^23]
    let field : Int :=
      if e < -126 then m
      else (eClamped + 127) * 0x800000 + (m - 0x800000)
    let mag : UInt32 :=
      if field ≥ 0x7F800000 then 0x7F800000 else UInt32.ofNat field.toNat
    if neg then mag ||| 0x80000000 else mag

end F32

/-! ### Line-protocol helpers -/

def hexDigit? (c : Char) : Option Nat :=
  if '0' ≤ c ∧ c ≤ '9' then some (c.toNat - '0'.toNat)
  else if 'a' ≤ c ∧ c ≤ 'f' then some (c.toNat - 'a'.toNat + 10)
  else if 'A' ≤ c ∧ c ≤ 'F' then some (c.toNat - 'A'.toNat + 10)
  else none

def parseHex? (s : String) : Option Nat :=
  if s.isEmpty then none
  else s.toList.foldl (fun acc c => do
    let a ← acc
    let d ← hexDigit? c
    pure (a * 16 + d)) (some 0)

def hexChar (n : Nat) : Char :=
  if n < 10 then Char.ofNat ('0'.toNat + n) else Char.ofNat ('a'.toNat + n - 10)

/-- Fixed-width lower-case hex. -/
def toHex (width : Nat) (n : Nat) : String :=
  String.ofList ((List.range width).reverse.map fun i => hexChar ((n >>> (4 * i)) % 16))

def hex8 (b : UInt32) : String := toHex 8 b.toNat
def hex16 (b : UInt64) : String := toHex 16 b.toNat

def parseF32Bits? (s : String) : Option UInt32 := (parseHex? s).map UInt32.ofNat
def parseU64Hex? (s : String) : Option UInt64 := (parseHex? s).map UInt64.ofNat

/-- Hex string ("0a1b…") to bytes. -/
def parseHexBytes? (s : String) : Option (List UInt8) :=
  let rec go : List Char → Option (List UInt8)
    | [] => some []
    | [_] => none
    | a :: b :: rest => do
      let x ← hexDigit? a
      let y ← hexDigit? b
      let tl ← go rest
      pure (UInt8.ofNat (x * 16 + y) :: tl)
  if s == "-" then some [] else go s.toList

def bytesToHex (bs : List UInt8) : String :=
  if bs.isEmpty then "-" else String.join (bs.map fun b => toHex 2 b.toNat)

def words (line : String) : List String :=
  (line.trimAscii.toString.splitOn " ").filter (· ≠ "")

/-- Split a token list at the first occurrence of `sep`. -/
def splitAt (sep : String) : List String → List String × List String
  | [] => ([], [])
  | t :: ts =>
    if t == sep then ([], ts)
    else let (a, b) := splitAt sep ts; (t :: a, b)

/-- 64-bit FNV-1a over a stream of 32-bit words, the digest used by the block protocol. -/
def fnvStep (h : UInt64) (w : UInt32) : UInt64 :=
  let step (h : UInt64) (byte : UInt64) : UInt64 := (h ^^^ byte) * 0x100000001b3
  let w64 := w.toUInt64
  step (step (step (step h (w64 &&& 0xFF)) ((w64 >>> 8) &&& 0xFF)) ((w64 >>> 16) &&& 0xFF)) ((w64 >>> 24) &&& 0xFF)

def fnvInit : UInt64 := 0xcbf29ce484222325

end Retro
