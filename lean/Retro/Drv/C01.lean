import Retro.Drv.RenderCommon

namespace Retro.Drv.C01
open Retro Retro.Render Retro.Drv Retro.Drv.RenderCommon

def handleCore (case impl : List String) : Verdict :=
  let s := parseScene case
  let io := parseImpl impl
  if nonFiniteInput s io then bad "non-finite scene" else
  let v := Verdict.ok (sceneTags s io)
  match io.panic with
  | some msg =>
    -- the zero vector (0,0,0,0) is not a point of projective space; the model (0/0 = 0) cannot follow the real
    -- code there (NaN screen coordinates, `partial_cmp().unwrap()` in tri_fill): a class of its own
    let zeroVert := (clipVerts s io).any fun (p, _) => p.x == 0 && p.y == 0 && p.z == 0 && p.w == 0
    if zeroVert then (v.addTag "zero-vertex").withSpec true "zero-homogeneous-vertex" s!"render panicked on a scene with a (0,0,0,0) clip-space vertex: {msg}"
    else (v.withDiff true "implementation panicked").withSpec true "render-panic" s!"render panicked: {msg}"
  | none =>
    let tris := screenTris s io
    let edge := fun px py => edgeMasked (1/50) tris px py
    let frs := modelFragDepths s tris
    let masked := fun px py => edge px py || depthMasked (1/1000) frs px py
    -- correspondence
    let v := match runModel s io with
      | .panic msg => v.withDiff true s!"model panics ({msg}), implementation does not"
      | .ok (t, _) =>
        let (bad, nMasked, _) := compareBuffers s io t masked
        let v := if nMasked * 2 > s.w * s.h then v.addTag "mostly-masked" else v
        match bad with
        | some msg => v.withDiff true msg
        | none => v
    -- spec: front door, viewport confinement, ideal image
    let v := v.withSpec (!io.same) "front-door-differs" "Batch/Camera front door renders differently from render() with the same arguments"
    let v := match outsideViewportTouched s io with
      | some (px, py) => v.withSpec true "write-outside-viewport" s!"pixel ({px},{py}) outside the viewport rectangle was modified"
      | none => v
    let (viol, checked, _skipped) := idealViolation s io masked
    let v := if checked == 0 then v.addTag "nothing-checked" else v
    match viol with
    | some (key, msg) => v.withSpec true key msg
    | none => v

/-- `handleCore` plus the Float32 diagnostic tag (`RenderCommon.withF32`; never changes the status). -/
def handle (case impl : List String) : Verdict :=
  withF32 case impl (handleCore case impl)

end Retro.Drv.C01
