import Retro.Drv.RenderCommon

namespace Retro.Drv.C02
open Retro Retro.Render Retro.Drv Retro.Drv.RenderCommon

def handleCore (case0 impl : List String) : Verdict :=
  let needle := case0.contains "needle=1"
  let case := case0.filter fun t => !t.startsWith "needle="
  let s := parseScene case
  let io := parseImpl impl
  let flags := s!"cull-{s.cull},test-{s.test},cw{if s.cw then 1 else 0}dw{if s.dw then 1 else 0},sh{s.sh}"
  let projTag := if s.proj.startsWith "persp" then "perspective" else if s.proj.startsWith "ortho" then "orthographic" else "clip-space"
  let base := [projTag, flags, if s.w == 1 && s.h == 1 then "1x1" else "larger"]
  match io.panic with
  | some msg =>
    (Verdict.mkDiff "implementation panicked" base).withSpec true "render-panic" s!"render panicked: {msg}"
  | none =>
    if nonFiniteInput s io then
      -- the library projection produced a non-finite clip coordinate from finite input
      (Verdict.ok ("non-finite-clip" :: base)).withSpec (nanDepth io) "nan-depth" "NaN in the depth buffer"
    else
    let v := Verdict.ok (base ++ sceneTags s io)
    -- spec (implementation only)
    let v := match outsideViewportTouched s io with
      | some (px, py) => v.withSpec true "write-outside-viewport" s!"pixel ({px},{py}) outside the viewport rectangle was modified"
      | none => v
    let v := v.withSpec (nanDepth io) "nan-depth" "NaN in the depth buffer"
    let v := v.withSpec (!io.same) "front-door-differs" "Batch/Camera front door renders differently from render()"
    -- needle triangles (f32 edge crossings near a pixel centre): impl-only oracle
    if needle then v.addTag "needle" else
    -- correspondence with the exact model outside the ambiguity masks
    let tris := screenTris s io
    let frs := modelFragDepths s tris
    let masked := fun px py => edgeMasked (1/50) tris px py || depthMasked (1/1000) frs px py
    match runModel s io with
    | .panic msg => v.withDiff true s!"model panics ({msg}), implementation does not"
    | .ok (t, _) =>
      -- C02 is about panics, writes outside the viewport and NaN, not about value accuracy: scenes at the edge of
      -- its quantifier (far/near = 1000, geometry at the near plane) lose a few 0.1 % of depth to f32 rounding of
      -- the clip-created vertices, so values are compared at 2 % (coverage is compared exactly)
      let (bad, _, _) := compareBuffers s io t masked (1/50) 50
      match bad with
      | some msg => v.withDiff true msg
      | none => v

/-- `handleCore` plus the Float32 diagnostic tag (`RenderCommon.withF32`; never changes the status). -/
def handle (case impl : List String) : Verdict :=
  withF32 case impl (handleCore case impl)

end Retro.Drv.C02
