import Retro.Drv.Common
import Retro.Model.Clip
import Retro.Spec.ClipArea
import Retro.Model.F32Interp

namespace Retro.Drv.C03
open Retro Retro.Clip Retro.Drv
open Retro.Spec.ClipArea (P4)

abbrev CV := ClipVert Rat

def chunk {α : Type} (n : Nat) : Nat → List α → List (List α)
  | 0, _ => []
  | fuel + 1, xs => if xs.isEmpty || n == 0 then [] else xs.take n :: chunk n fuel (xs.drop n)

def parseVert (ws : List Rat) : CV :=
  match ws with
  | x :: y :: z :: w :: attr => mkVert ⟨x, y, z, w⟩ attr
  | _ => mkVert ⟨0, 0, 0, 0⟩ []

def parseTris (stride : Nat) (ws : List Rat) : List (Tri Rat) :=
  let vs := (chunk stride ws.length ws).map parseVert
  (chunk 3 vs.length vs).filterMap fun
    | [a, b, c] => some ⟨a, b, c⟩
    | _ => none

def triVerts (t : Tri Rat) : List CV := [t.a, t.b, t.c]
def toP4 (v : Vec4 Rat) : P4 := ⟨v.x, v.y, v.z, v.w⟩
def posScale (v : Vec4 Rat) : Rat := ratAbs v.x + ratAbs v.y + ratAbs v.z + ratAbs v.w

/-- Smallest relative |d| met by a vertex *created by clipping* at a later plane: below the band the
f32 implementation may legitimately take the other branch. -/
def stageMargin (orig : List CV) : List (Plane Rat) → List CV → Rat
  | [], _ => 1
  | p :: ps, poly =>
    let here := poly.foldl (fun m v =>
      if orig.any (· == v) then m
      else
        let s := posScale v.pos
        if s == 0 then 0 else ratMin m (ratAbs (signedDist p v.pos) / s)) (1 : Rat)
    let out := clipPlane p poly
    if out.isEmpty then here else ratMin here (stageMargin orig ps out)

def popcount6 (n : Nat) : Nat := (List.range 6).foldl (fun c i => c + (n >>> i) % 2) 0

def fmtQ (q : Rat) : String := ratApprox q

/-- per-vertex tolerance comparison of an implementation triangle list against the model's -/
def cmpTris (tolPos tolAttr : Rat) : List (Tri Rat) → List (Tri Rat) → Option String
  | [], [] => none
  | m :: ms, i :: is =>
    let bad := ((triVerts m).zip (triVerts i)).findSome? fun (a, b) =>
      let dp := ratAbs (a.pos.x - b.pos.x) + ratAbs (a.pos.y - b.pos.y) + ratAbs (a.pos.z - b.pos.z) + ratAbs (a.pos.w - b.pos.w)
      let da := (a.attr.zip b.attr).foldl (fun s (x, y) => s + ratAbs (x - y)) 0
      if dp > tolPos then some s!"position differs by {fmtQ dp}"
      else if da > tolAttr || a.attr.length != b.attr.length then some s!"attribute differs by {fmtQ da}"
      else none
    match bad with
    | some m => some m
    | none => cmpTris tolPos tolAttr ms is
  | _, _ => some "different number of triangles"

/-- Two triangulations of one clipped polygon agree as SETS of vertices (positions and attributes within the
tolerances) and in their number of triangles: a fan started at another vertex of the same polygon — same polygon,
same winding, other diagonals — is not a different result as far as the property goes (what the outputs cover,
their winding and attributes are judged by the spec oracle on the implementation's own output). -/
def sameVertexSets (tolPos tolAttr : Rat) (model impl : List (Tri Rat)) : Bool :=
  let close (a b : ClipVert Rat) : Bool :=
    ratAbs (a.pos.x - b.pos.x) + ratAbs (a.pos.y - b.pos.y) + ratAbs (a.pos.z - b.pos.z) + ratAbs (a.pos.w - b.pos.w) ≤ tolPos
      && a.attr.length == b.attr.length
      && (a.attr.zip b.attr).foldl (fun s (x, y) => s + ratAbs (x - y)) 0 ≤ tolAttr
  let mv := model.flatMap triVerts
  let iv := impl.flatMap triVerts
  model.length == impl.length && iv.all (fun a => mv.any (close a)) && mv.all (fun a => iv.any (close · a))

/-- Ordered comparison per input triangle; where it fails, the vertex-set comparison decides.
Returns (disagreement, some group only agreed as vertex sets). -/
def cmpGroups (tolPos tolAttr : Rat) : List (List (Tri Rat)) → List (List (Tri Rat)) → Option String × Bool
  | [], [] => (none, false)
  | m :: ms, i :: is =>
    match cmpTris tolPos tolAttr m i with
    | none => cmpGroups tolPos tolAttr ms is
    | some msg =>
      if sameVertexSets tolPos tolAttr m i then
        let (r, _) := cmpGroups tolPos tolAttr ms is
        (r, true)
      else (some msg, false)
  | _, _ => (some "different number of input groups", false)

def splitBy {α : Type} : List Nat → List α → List (List α)
  | [], _ => []
  | c :: cs, xs => xs.take c :: splitBy cs (xs.drop c)

structure TriSpec where
  key : Option (String × String) := none

def firstSome {α : Type} (xs : List (Option α)) : Option α := xs.findSome? id

/-- Spec oracle for one input triangle and the implementation's outputs for it. -/
def specTri (inp : Tri Rat) (inpWords : List String) (outs : List (Tri Rat)) (outWords : List String)
    : Option (String × String) :=
  let ps := triVerts inp
  let ds := ps.map fun v => Spec.ClipArea.dists (toP4 v.pos)
  let allInside := ds.all fun d => d.all (· ≤ 0)
  let allOutSame := (List.range 6).any fun k => ds.all fun d => d.getD k 0 > 0
  if allInside then
    if outWords == inpWords then none
    else some ("inside-not-unchanged", "a triangle wholly inside the frustum was not emitted unchanged")
  else if allOutSame then
    if outs.isEmpty then none
    else some ("outside-not-dropped", "a triangle wholly outside one plane produced output")
  else
    let p0 := toP4 inp.a.pos
    let p1 := toP4 inp.b.pos
    let p2 := toP4 inp.c.pos
    let cond := Spec.ClipArea.conditioning p0 p1 p2
    let scale := ps.foldl (fun m v => ratMax m (posScale v.pos)) 0
    let aScale := ps.foldl (fun m v => v.attr.foldl (fun m x => ratMax m (ratAbs x)) m) 1
    let tol : Rat := 1/500
    -- "beyond rounding": f32 lerp between vertices of very different magnitude loses absolute
    -- precision of the order of an ulp of the LARGEST coordinate (v0 + (v1-v0)·t cancels); in
    -- barycentric units that is epsAbs / |edge|
    let epsAbs : Rat := scale / 1000000
    let e1 := Spec.ClipArea.P4.sub p1 p0
    let e2 := Spec.ClipArea.P4.sub p2 p0
    let l1sq := Spec.ClipArea.P4.dot e1 e1
    let l2sq := Spec.ClipArea.P4.dot e2 e2
    -- tolB ≥ epsAbs/|e1| without square roots: tolB² ≥ epsAbs²/|e1|²
    let up (lsq : Rat) : Rat :=
      if lsq == 0 then 1 else
        let r := epsAbs * epsAbs / lsq
        -- smallest power-of-two bound t with t² ≥ r, capped at 1/4
        (List.range 10).foldl (fun t _ => if t * t ≥ 4 * r && t > tol then t / 2 else t) (1/4)
    let tolB := ratMax tol (up l1sq)
    let tolC := ratMax tol (up l2sq)
    -- (a) inside the frustum, for every output vertex, regardless of conditioning
    let outVerts := outs.flatMap triVerts
    let outside := outVerts.findSome? fun v =>
      let worst := (Spec.ClipArea.dists (toP4 v.pos)).foldl ratMax 0
      -- (i) against the size of the input triangle; (ii) against the vertex's OWN w — what the excess means on
      -- screen (0.1 % of w is a pixel on a 2000-pixel viewport) — with room for the f32 rounding of a created
      -- vertex, which is a few ulps of the LARGEST coordinate involved (5e-7·scale)
      if worst > scale / 10000 then some ("vertex-outside-frustum", s!"output vertex violates a frustum plane by {fmtQ worst}")
      else if v.pos.w > 0 && worst > v.pos.w / 1000 + scale / 2000000 then
        some ("vertex-outside-frustum", s!"output vertex violates a frustum plane by {fmtQ worst}, {fmtQ (worst / v.pos.w)} of its own w")
      else none
    if outside.isSome then outside
    else if cond < 1/10000 then none   -- sliver/degenerate input: barycentric accounting ill-conditioned
    else
      let bc := outs.map fun t => (triVerts t).map fun v => (v, Spec.ClipArea.bary p0 p1 p2 (toP4 v.pos))
      let vertBad := bc.flatten.findSome? fun (v, r) =>
        match r with
        | none => some ("vertex-off-plane", "degenerate solve")
        | some (b, c, res) =>
          if res > 1/100000000 then some ("vertex-off-plane", s!"output vertex not in the plane of the input triangle (residual² {fmtQ res})")
          else if b < -tolB || c < -tolC || b + c > 1 + tolB + tolC then some ("vertex-outside-triangle", s!"barycentric ({fmtQ (1-b-c)}, {fmtQ b}, {fmtQ c})")
          else
            let want := (inp.a.attr.zip (inp.b.attr.zip inp.c.attr)).map fun (x0, (x1, x2)) => (1 - b - c) * x0 + b * x1 + c * x2
            let err := (want.zip v.attr).foldl (fun m (x, y) => ratMax m (ratAbs (x - y))) 0
            if err > aScale * (tolB + tolC) || want.length != v.attr.length then some ("attribute-not-linear", s!"attribute off by {fmtQ err} from the input's linear field at the vertex position")
            else none
      if vertBad.isSome then vertBad
      else
        let areas := bc.map fun vs =>
          match vs with
          | [(_, some (b0, c0, _)), (_, some (b1, c1, _)), (_, some (b2, c2, _))] => Spec.ClipArea.triArea (b0, c0) (b1, c1) (b2, c2)
          | _ => 0
        let want := Spec.ClipArea.insideArea p0 p1 p2
        let total := areas.foldl (· + ·) 0
        let tolArea := 1/1000 + tolB + tolC
        if areas.any (· < -(1/2000) - tolB - tolC) then some ("winding-flipped", "an output triangle has the opposite orientation of its input")
        else if total < want - tolArea then some ("inside-part-lost", s!"outputs cover {fmtQ total} of the inside area {fmtQ want} (barycentric units)")
        else if total > want + tolArea then some ("overlap-or-outside", s!"outputs cover {fmtQ total}, inside area is {fmtQ want}: overlap or excess")
        else none

def handleCore (case impl : List String) : Verdict :=
  match case with
  | "clip" :: k :: n :: words =>
    match k.toNat?, n.toNat? with
    | some k, some n =>
      let kw := if k == 4 || k == 5 then 3 else if k == 6 then 4 else k
      let stride := 4 + kw
      let inRats := words.filterMap fun t => (parseF32Bits? t).bind F32.toRat?
      if inRats.length != words.length || words.length != n * 3 * stride then bad "clip words"
      else
      let tris := parseTris stride inRats
      -- model
      let model := clipTris tris
      let margin := tris.foldl (fun m t =>
        match status (triVerts t) with
        | .clipped => ratMin m (stageMargin (triVerts t) planes (triVerts t))
        | _ => m) (1 : Rat)
      -- tags
      let tags := tris.foldl (fun tg t =>
        let st := status (triVerts t)
        let anyOut := (triVerts t).foldl (fun a v => a ||| v.oc) 0
        let s := match st with | .visible => "visible" | .hidden => "hidden" | .clipped => s!"clipped-{popcount6 anyOut}-planes"
        let tg := if tg.contains s then tg else s :: tg
        let tg := if (triVerts t).any (fun v => v.pos.w < 0) && !tg.contains "w-neg" then "w-neg" :: tg else tg
        if (triVerts t).any (fun v => v.pos.w == 0) && !tg.contains "w-zero" then "w-zero" :: tg else tg) []
      let tags := (if n > 1 then ["batch"] else ["single"]) ++ tags
      let v := Verdict.ok tags
      -- implementation output
      let (implTris, tail) := Retro.splitAt "|" impl
      match implTris with
      | [] => v.withDiff true "no output"
      | mStr :: outWords =>
        if mStr.startsWith "panic" then
          (v.withDiff true "implementation panicked").withSpec true "clip-panic" s!"clip panicked: {mStr}"
        else
        let outRats := outWords.filterMap fun t => (parseF32Bits? t).bind F32.toRat?
        if outRats.length != outWords.length then
          (v.withDiff true "non-finite output").withSpec true "clip-non-finite" "non-finite coordinate or attribute in the output"
        else
        let implT := parseTris stride outRats
        let counts := (tail.take n).filterMap String.toNat?
        let same := tail.getD n ""
        -- correspondence (structure + values), only outside the ambiguity band
        let scale := tris.foldl (fun m t => (triVerts t).foldl (fun m v => ratMax m (posScale v.pos)) m) 0
        let aScale := tris.foldl (fun m t => (triVerts t).foldl (fun m v => v.attr.foldl (fun m x => ratMax m (ratAbs x)) m) m) 1
        -- a triangle whose largest coordinate exceeds 1000 × its shortest edge is ill-scaled for f32:
        -- v0 + (v1 − v0)·t loses an ulp of the LARGE vertex, which is a sizeable fraction of the small
        -- edge, and later planes amplify it. Such cases are judged by the spec oracle only.
        let illScaled := tris.any fun t =>
          let ps := (triVerts t).map fun v => toP4 v.pos
          match ps with
          | [a, b, c] =>
            let e (x y : P4) := Spec.ClipArea.P4.dot (Spec.ClipArea.P4.sub x y) (Spec.ClipArea.P4.sub x y)
            -- shortest NON-ZERO edge (coincident vertices are exact in f32 and harmless)
            let es := [e a b, e b c, e a c].filter (· != 0)
            let sc := (triVerts t).foldl (fun m v => ratMax m (posScale v.pos)) 0
            match es with
            | [] => false
            | x :: xs => sc * sc > 1000000 * xs.foldl ratMin x
          | _ => false
        let v := if illScaled then v.addTag "ill-scaled" else v
        let v := if margin < 1/100000 || illScaled then { v with amb := true }
          else
            -- per input triangle: the model's pieces against the implementation's (its own per-input counts)
            let modelGroups := tris.map clipTri
            let implGroups := if counts.length == n && counts.foldl (· + ·) 0 == implT.length then splitBy counts implT else [implT]
            let (r, fanOnly) := if implGroups.length == modelGroups.length then cmpGroups (scale / 10000) (aScale / 1000) modelGroups implGroups
                                else (cmpTris (scale / 10000) (aScale / 1000) model implT, false)
            let v := if fanOnly then v.addTag "fan-differs" else v
            match r with
            | some msg => v.withDiff true s!"{msg} (model {model.length} tris, impl {implT.length})"
            | none => v
        -- spec: batching independence, then per-input accounting
        let v := v.withSpec (same != "1" || counts.length != n || counts.foldl (· + ·) 0 != implT.length)
          "batch-dependence" "clipping a batch differs from clipping its triangles one by one"
        if v.spec.isSome then v else
        let rec perTri : List (Tri Rat) → List Nat → List (Tri Rat) → List String → List String → Nat → Option (String × String)
          | [], _, _, _, _, _ => none
          | t :: ts, c :: cs, outs, inW, outW, fuel =>
            let mine := outs.take c
            let r := specTri t (inW.take (3 * stride)) mine (outW.take (c * 3 * stride))
            match r, fuel with
            | some e, _ => some e
            | none, 0 => none
            | none, f + 1 => perTri ts cs (outs.drop c) (inW.drop (3 * stride)) (outW.drop (c * 3 * stride)) f
          | _, _, _, _, _, _ => none
        match perTri tris counts implT words outWords (n + 1) with
        | some (key, msg) => v.withSpec true key msg
        | none => v
    | _, _ => bad "clip header"
  | _ => bad "unknown op"

/-- The Float32 channel (`Model/F32Interp.lean`, design/Float32.md): `Clip.clipTris` — the generic model
itself, nothing copied — run at native binary32 on the same input bits, compared with the batch output of
`view_frustum::clip` exactly: triangle count and every position and attribute component of every output
vertex. `none` = bit-exact. Diagnostic only. -/
def f32Check (case impl : List String) : Option String :=
  match case with
  | "clip" :: k :: n :: words =>
    match k.toNat?, n.toNat? with
    | some k, some n =>
      let kw := if k == 4 || k == 5 then 3 else if k == 6 then 4 else k
      let stride := 4 + kw
      let fs := words.filterMap F32I.f32OfHex
      if fs.length != words.length || words.length != n * 3 * stride then some "unparseable case" else
      F32I.clipCheck stride fs (Retro.splitAt "|" impl).1
    | _, _ => some "unparseable case"
  | _ => some "unparseable case"

/-- Adds exactly one of the tags `f32-bit-exact` / `f32-bits-differ`. Never changes the status: the first
differing component is appended to the message of a verdict that is DIFF or SPEC for another reason. -/
def withF32 (v : Verdict) (r : Option String) : Verdict :=
  match r with
  | none => v.addTag "f32-bit-exact"
  | some m =>
    let v := v.addTag "f32-bits-differ"
    let note := " [f32 channel: " ++ m ++ "]"
    match v.diff, v.spec with
    | some d, _ => { v with diff := some (d ++ note) }
    | none, some (k, s) => { v with spec := some (k, s ++ note) }
    | none, none => v

def handle (case impl : List String) : Verdict :=
  withF32 (handleCore case impl) (f32Check case impl)

end Retro.Drv.C03
