import Retro.Drv.RasterCommon
import Retro.Model.F32Interp

namespace Retro.Drv.C04
open Retro Retro.Raster Retro.Drv Retro.Drv.RasterCommon
open Retro.Spec.Raster (P2)

def eps : Rat := 1/1000

def handleCore (case impl : List String) : Verdict :=
  match case with
  | "fill" :: ws =>
    let rs := ws.filterMap fun t => (parseF32Bits? t).bind F32.toRat?
    match rs with
    | [x0, y0, x1, y1, x2, y2] =>
      let p0 : P2 := ⟨x0, y0⟩
      let p1 : P2 := ⟨x1, y1⟩
      let p2 : P2 := ⟨x2, y2⟩
      let neg := rs.any (· < 0)
      let a2 := Spec.Raster.edge p0 p1 p2
      let tags := [if neg then "negative-coordinate" else "on-grid",
                   if a2 == 0 then "zero-area" else if ratAbs a2 < 1 then "tiny" else "proper",
                   if y0 == y1 || y1 == y2 || y0 == y2 then "flat-edge" else "general-position"]
      let v := Verdict.ok tags
      match impl with
      | [] => v.withDiff true "no output"
      | nStr :: rest =>
        if nStr.startsWith "panic" then
          (v.withDiff true "implementation panicked").withSpec true
            (if neg then "negative-screen-coordinate" else "trifill-panic") s!"tri_fill panicked: {nStr}"
        else
        let n := nStr.toNat?.getD 0
        let rows := (parseRows 0 n rest).map (·.1)
        -- model
        let model := modelRows (triFill [x0, y0, 0] [x1, y1, 0] [x2, y2, 0])
        let (firstDiff, bandDiffs) := coverageDiff eps p0 p1 p2 model rows
        let v := match firstDiff with
          | some (px, py) => if neg then v else v.withDiff true s!"coverage differs from the model at pixel ({px},{py}) outside the band"
          | none => if bandDiffs > 0 then { v with amb := true } else v
        let v := if bandDiffs > 0 then v.addTag "band-difference" else v
        -- spec, on the implementation's rows only
        let key (k : String) := if neg then "negative-screen-coordinate" else k
        let rec increasing : List Row → Bool
          | a :: b :: rest => a.y < b.y && increasing (b :: rest)
          | _ => true
        let v := v.withSpec (!increasing rows) (key "rows-not-increasing") "scanline y values are not strictly increasing"
        let v := v.withSpec (rows.any fun r => r.n != r.x1 - r.x0) (key "xs-len-mismatch")
          "length of the reported x range differs from the number of fragments"
        match coverageViolation eps p0 p1 p2 rows with
        | some (px, py, what) => v.withSpec true (key what) s!"pixel ({px},{py}): {what} (centre classified with a 0.001 px band)"
        | none => v
    | _ => bad "fill coords"
  | _ => bad "unknown op"

/-- The Float32 channel (`Model/F32Interp.lean`, design/Float32.md): the model run at native binary32 on
the same input bits, compared with the implementation's rows (y, x range, fragment count) exactly.
`none` = bit-exact. Diagnostic only. -/
def f32Check (case impl : List String) : Option String :=
  match case with
  | "fill" :: ws =>
    match ws.filterMap F32I.f32OfHex with
    | [x0, y0, x1, y1, x2, y2] =>
      if ws.length != 6 then some "unparseable case" else
      F32I.rasterCheck 0 [x0, y0, 0] [x1, y1, 0] [x2, y2, 0] impl
    | _ => some "unparseable case"
  | _ => some "unparseable case"

/-- Adds exactly one of the tags `f32-bit-exact` / `f32-bits-differ`. Never changes the status: the first
differing component is appended to the message of a verdict that is DIFF or SPEC for another reason. -/
def withF32 (v : Verdict) (r : Option String) : Verdict :=
  match r with
  | none => v.addTag "f32-bit-exact"
  | some m =>
    let v := v.addTag "f32-bits-differ"
    let note := " [f32 channel: " ++ m ++ "]"
    match v.diff, v.spec with
    | some d, _ => { v with diff := some (d ++ note) }
    | none, some (k, s) => { v with spec := some (k, s ++ note) }
    | none, none => v

def handle (case impl : List String) : Verdict :=
  withF32 (handleCore case impl) (f32Check case impl)

end Retro.Drv.C04
