import Retro.Drv.RasterCommon
import Retro.Model.Poison
import Retro.Model.F32Interp

namespace Retro.Drv.C05
open Retro Retro.Raster Retro.Drv Retro.Drv.RasterCommon
open Retro.Spec.Raster (P2 planeAt)

def kindWords (k : String) : Nat :=
  if k == "u" then 0 else if k == "s" then 1 else if k == "v2" then 2 else if k == "c4" then 4 else 3

def chunk3 (stride : Nat) (ws : List Rat) : Option (List Rat × List Rat × List Rat) :=
  if ws.length == 3 * stride then some (ws.take stride, (ws.drop stride).take stride, ws.drop (2 * stride)) else none

def range3 (a b c : Rat) : Rat := ratMax a (ratMax b c) - ratMin a (ratMin b c)

def handleCore (case impl : List String) : Verdict :=
  match case with
  | "frags" :: kind :: ws =>
    let k := kindWords kind
    let stride := 3 + k
    let rs := ws.filterMap fun t => (parseF32Bits? t).bind F32.toRat?
    if rs.length != ws.length then bad "non-finite input" else
    match chunk3 stride rs with
    | none => bad "frags words"
    | some (v0, v1, v2) =>
      let p0 : P2 := ⟨nth0 v0, nth1 v0⟩
      let p1 : P2 := ⟨nth0 v1, nth1 v1⟩
      let p2 : P2 := ⟨nth0 v2, nth1 v2⟩
      let a2 := Spec.Raster.edge p0 p1 p2
      let zs := (nth2 v0, nth2 v1, nth2 v2)
      let flatZ := zs.1 == zs.2.1 && zs.2.1 == zs.2.2
      let tags := ["kind-" ++ kind, if a2 == 0 then "zero-area" else if ratAbs a2 < 1 then "tiny" else "proper",
                   if flatZ then "w-constant" else "w-varying"]
      let v := Verdict.ok tags
      match impl with
      | [] => v.withDiff true "no output"
      | nStr :: rest =>
        if nStr.startsWith "panic" then
          (v.withDiff true "implementation panicked").withSpec true "trifill-panic" s!"tri_fill panicked: {nStr}"
        else
        let n := nStr.toNat?.getD 0
        let rowsF := parseRows stride n rest
        -- spec on the implementation's fragments: finite, at the pixel centre, on the plane
        let zRange := range3 zs.1 zs.2.1 zs.2.2
        let zScale := ratMax (ratAbs zs.1) (ratMax (ratAbs zs.2.1) (ratAbs zs.2.2))
        let attrAt (u : List Rat) (j : Nat) : Rat := (u.drop (3 + j)).headD 0
        -- un-projected vertex values a_i = attr_i / z_i and their range, per component
        let tolVar : List Rat := (List.range k).map fun j =>
          let a0 := attrAt v0 j / nth2 v0
          let a1 := attrAt v1 j / nth2 v1
          let a2' := attrAt v2 j / nth2 v2
          range3 a0 a1 a2' / 200 + ratMax (ratAbs a0) (ratMax (ratAbs a1) (ratAbs a2')) / 100000 + 1/1000000
        let tolZ := zRange / 200 + zScale / 100000
        let bigArea := ratAbs a2 > 2/1000000
        -- f32 conditioning: a triangle whose smallest altitude h is within ~2000 ulps of its coordinates
        -- (h < 2000 * 2^-24 * max|coord|, e.g. 4e-3 px at coordinate 32) has a plane gradient so steep that
        -- ONE rounding of a vertex coordinate moves the plane value by more than the 0.5 % tolerance.
        -- h = |a2| / L with L the longest edge; compared squared, in exact arithmetic.
        let sq (q : Rat) : Rat := q * q
        let len2 (p q : P2) : Rat := sq (p.x - q.x) + sq (p.y - q.y)
        let l2 := ratMax (len2 p0 p1) (ratMax (len2 p1 p2) (len2 p0 p2))
        let maxC := [p0.x, p0.y, p1.x, p1.y, p2.x, p2.y].foldl (fun m q => ratMax m (ratAbs q)) 1
        let illCond := a2 != 0 && sq a2 < sq (maxC * 2000 / 16777216) * l2
        let specFail : Option (String × String) := rowsF.findSome? fun (row, words) =>
          let frs := chunk stride (List.range row.n) words
          (frs.zip (List.range row.n)).findSome? fun (fw, i) =>
            let vals := fw.map fun t => (parseF32Bits? t).bind F32.toRat?
            if vals.any Option.isNone then
              if bigArea then some ("fragment-not-finite", s!"row {row.y} fragment {i}: NaN or infinite component") else none
            else if a2 == 0 then none else
            let f := vals.filterMap id
            let px := row.x0 + i
            let c := centre px row.y
            if ratAbs (nth0 f - c.x) > 1/100 || ratAbs (nth1 f - c.y) > 1/100 then
              some ("fragment-off-centre", s!"row {row.y} fragment {i} at ({ratApprox (nth0 f)},{ratApprox (nth1 f)}), pixel centre ({ratApprox c.x},{ratApprox c.y})")
            else
              let zWant := planeAt p0 p1 p2 c zs.1 zs.2.1 zs.2.2
              if ratAbs (nth2 f - zWant) > tolZ then
                some ("depth-off-plane", s!"pixel ({px},{row.y}): depth {ratApprox (nth2 f)}, plane gives {ratApprox zWant}")
              else if zWant == 0 then none
              else
                (List.range k).findSome? fun j =>
                  let want := planeAt p0 p1 p2 c (attrAt v0 j) (attrAt v1 j) (attrAt v2 j) / zWant
                  let got := attrAt f j
                  if ratAbs (got - want) > tolVar.getD j 0 then
                    some ("attribute-off-plane", s!"pixel ({px},{row.y}) component {j}: {ratApprox got}, perspective-correct plane value {ratApprox want}")
                  else none
        let v := if illCond then v.addTag "ill-conditioned" else v
        let v := match specFail with
          | some (key, msg) =>
            if illCond && (key == "depth-off-plane" || key == "attribute-off-plane") then
              v.withSpec true "thin-triangle-f32-conditioning" msg
            else v.withSpec true key msg
          | none => v
        -- correspondence: model fragments at the pixels both sides produce
        let model := triFill v0 v1 v2
        -- The SAME model run under the poison interpretation (`Model/Poison.lean`: a division by zero
        -- poisons, poison propagates) on the same finite input. `Props/C05/Poison.lean` proves that this run
        -- is the lift of the Rat run for every input (`trifill_poison_free`) and, for positive reciprocal
        -- depths, that no fragment after z_div is poisoned (`trifill_frags_finite`); here the compiled
        -- definitions are executed side by side so that the theorem's subject and the driver's model are
        -- visibly the same functions.
        let pModel := triFill (Poison.liftL v0) (Poison.liftL v1) (Poison.liftL v2)
        let poisoned := pModel.any fun s => s.anyBad || s.frags.any fun f => Poison.anyBad (zdiv f)
        let v := v.addTag (if poisoned then "poisoned" else "poison-free")
        let v := v.withDiff (a2 != 0 && pModel != model.map Scanline.lift) "poison-run differs from rat-run"
        let mRows := modelRows model
        let iRows := rowsF.map (·.1)
        let (firstDiff, bandDiffs) := coverageDiff (1/1000) p0 p1 p2 mRows iRows
        let v := match firstDiff with
          | some (px, py) => v.withDiff true s!"coverage differs from the model at pixel ({px},{py}) outside the band"
          | none => v
        let v := if bandDiffs > 0 then v.addTag "band-difference" else v
        let valueDiff : Option String := rowsF.findSome? fun (row, words) =>
          match model.find? (fun s => s.y == row.y) with
          | none => none
          | some ms =>
            let frs := chunk stride (List.range row.n) words
            (frs.zip (List.range row.n)).findSome? fun (fw, i) =>
              let px := row.x0 + i
              if px < ms.x0 || px ≥ ms.x1 then none else
              match ms.frags[px - ms.x0]? with
              | none => none
              | some raw =>
                let mf := zdiv raw
                let vals := fw.filterMap fun t => (parseF32Bits? t).bind F32.toRat?
                if vals.length != mf.length then some s!"pixel ({px},{row.y}): non-finite or malformed fragment" else
                let tols : List Rat := [1/100, 1/100, tolZ] ++ tolVar
                ((vals.zip mf).zip tols).zipIdx.findSome? fun (((g, m), tol), j) =>
                  if ratAbs (g - m) > tol then some s!"pixel ({px},{row.y}) component {j}: impl {ratApprox g} model {ratApprox m}" else none
        let v := match valueDiff with
          | some m => if a2 == 0 then v else if illCond then { v with amb := true } else v.withDiff true m
          | none => v
        v
  | _ => bad "unknown op"
where
  chunk (stride : Nat) (idx : List Nat) (ws : List String) : List (List String) :=
    idx.map fun i => (ws.drop (i * stride)).take stride

/-- The Float32 channel (`Model/F32Interp.lean`, design/Float32.md): the model run at native binary32 on
the same input bits, compared with the implementation's output exactly: every row (y, x range, count)
and every component of every fragment (position, depth, attributes after `z_div`). `none` = bit-exact.
Diagnostic only. -/
def f32Check (case impl : List String) : Option String :=
  match case with
  | "frags" :: kind :: ws =>
    let stride := 3 + kindWords kind
    let fs := ws.filterMap F32I.f32OfHex
    if fs.length != ws.length || fs.length != 3 * stride then some "unparseable case" else
    F32I.rasterCheck stride (fs.take stride) ((fs.drop stride).take stride) (fs.drop (2 * stride)) impl
  | _ => some "unparseable case"

/-- Adds exactly one of the tags `f32-bit-exact` / `f32-bits-differ`. Never changes the status: the first
differing component is appended to the message of a verdict that is DIFF or SPEC for another reason. -/
def withF32 (v : Verdict) (r : Option String) : Verdict :=
  match r with
  | none => v.addTag "f32-bit-exact"
  | some m =>
    let v := v.addTag "f32-bits-differ"
    let note := " [f32 channel: " ++ m ++ "]"
    match v.diff, v.spec with
    | some d, _ => { v with diff := some (d ++ note) }
    | none, some (k, s) => { v with spec := some (k, s ++ note) }
    | none, none => v

def handle (case impl : List String) : Verdict :=
  withF32 (handleCore case impl) (f32Check case impl)

end Retro.Drv.C05
