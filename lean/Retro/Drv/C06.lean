import Retro.Drv.RenderCommon

namespace Retro.Drv.C06
open Retro Retro.Render Retro.Drv Retro.Drv.RenderCommon

/-- `huge <seed> <n>`: more than 65 536 triangles in one call, rendered by the implementation under every
depth_sort setting with the z-buffer on; judged against itself only (`<3> <ndiffer> <x> <y>`). -/
def handleHuge (impl : List String) : Verdict :=
  let v := Verdict.ok ["huge", "zbuffer"]
  if (impl.getD 0 "").startsWith "panic" then v.withSpec true "render-panic" s!"render panicked: {impl.getD 0 ""}"
  else
    match (impl.getD 1 "").toNat? with
    | none => bad "huge output"
    | some 0 => v
    | some nd => v.withSpec true "order-dependence"
        s!"{nd} of 2 depth_sort settings change the z-buffered image of a scene of more than 65536 triangles; first at pixel ({impl.getD 2 "?"},{impl.getD 3 "?"})"

def handleCore (case impl : List String) : Verdict :=
  if case.head? == some "huge" then handleHuge impl else
  let painter := case.contains "painter=1"
  let painter2 := case.contains "painter=2"
  let s := parseScene (case.filter fun t => !t.startsWith "painter=")
  -- the last two sections belong to this property
  let secs := splitBars impl
  let io := parseImpl (String.intercalate " | " ((secs.take 5).map fun l => String.intercalate " " l) |>.splitOn " ")
  if nonFiniteInput s io then bad "non-finite scene" else
  let v := Verdict.ok ([s!"tris-{s.tris.length}", if painter then "painter" else if painter2 then "painter-ortho" else "zbuffer"] ++ sceneTags s io)
  match io.panic with
  | some msg => (v.withDiff true "implementation panicked").withSpec true "render-panic" s!"render panicked: {msg}"
  | none =>
    let tris := screenTris s io
    let frs := modelFragDepths s tris
    let depthAmb := fun px py => depthMasked (1/1000) frs px py
    -- painter-ortho scenes have a degenerate depth buffer (1/w = 1 everywhere): draw order decides, not depth
    let masked := fun px py => edgeMasked (1/50) tris px py || (!painter2 && depthAmb px py)
    let v := match runModel s io with
      | .panic msg => v.withDiff true s!"model panics ({msg}), implementation does not"
      | .ok (t, _) =>
        match (compareBuffers s io t masked).1 with
        | some msg => v.withDiff true msg
        | none => v
    -- spec: every history gives the same buffers (implementation against itself)
    let hsec := secs.getD 5 []
    let nh := (hsec.getD 0 "0").toNat?.getD 0
    let nd := (hsec.getD 1 "0").toNat?.getD 0
    let v := v.addTag s!"histories-{if nh ≥ 100 then ">=100" else if nh ≥ 10 then ">=10" else "<10"}"
    let v :=
      if nd == 0 then v
      else
        let px := (hsec.getD 2 "0").toNat?.getD 0
        let py := (hsec.getD 3 "0").toNat?.getD 0
        if depthAmb px py then { v with amb := true }
        else v.withSpec true "order-dependence"
          s!"{nd} of {nh} histories give different buffers; first at pixel ({px},{py}) with history {hsec.getD 4 "?"}"
    let psec := secs.getD 6 []
    -- painter configuration against itself: every submission order must give the same buffers
    let npp := (psec.getD 4 "0").toNat?.getD 0
    let npd := (psec.getD 5 "0").toNat?.getD 0
    let v := if npp > 0 then v.addTag "painter-permutations" else v
    let v :=
      if npd == 0 then v
      else v.withSpec true "painter-order-dependence"
        s!"{npd} of {npp} submission orders give a different image under depth_sort BackToFront without depth test; first at pixel ({psec.getD 6 "?"},{psec.getD 7 "?"})"
    if psec.getD 0 "0" == "1" && psec.getD 1 "1" != "1" then
      let px := (psec.getD 2 "0").toNat?.getD 0
      let py := (psec.getD 3 "0").toNat?.getD 0
      if masked px py then { v with amb := true }
      else v.withSpec true "painter-differs-from-zbuffer"
        s!"back-to-front painting without depth test differs from the z-buffer image at pixel ({px},{py}) for disjoint depth ranges"
    else v

/-- `handleCore` plus the Float32 diagnostic tag (`RenderCommon.withF32`; never changes the status). -/
def handle (case impl : List String) : Verdict :=
  withF32 case impl (handleCore case impl)

end Retro.Drv.C06
