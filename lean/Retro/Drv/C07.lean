import Retro.Drv.RenderCommon
import Retro.Spec.Stats

namespace Retro.Drv.C07
open Retro Retro.Render Retro.Drv Retro.Drv.RenderCommon

def handleCore (case impl : List String) : Verdict :=
  let s := parseScene case
  let secs := splitBars impl
  let io := parseImpl (String.intercalate " | " ((secs.take 5).map fun l => String.intercalate " " l) |>.splitOn " ")
  if nonFiniteInput s io then bad "non-finite scene" else
  let tags := [s!"cull-{s.cull}", s!"test-{s.test}", s!"cw{if s.cw then 1 else 0}", s!"dw{if s.dw then 1 else 0}",
               s!"sh{s.sh}", if s.tgtFb then "framebuf" else "colour-only"]
  let v := Verdict.ok tags
  match io.panic with
  | some msg => (v.withDiff true "implementation panicked").withSpec true "render-panic" s!"render panicked: {msg}"
  | none =>
    let tris := screenTris s io
    let frs := modelFragDepths s tris
    let edge := fun px py => edgeMasked (1/50) tris px py
    let masked := fun px py => edge px py || depthMasked (1/1000) frs px py
    let nMaskedEdge := (List.range s.h).foldl (fun n py => (List.range s.w).foldl (fun n px => if edge px py then n + 1 else n) n) 0
    let st := io.stats
    let g (i : Nat) := st.getD i 0
    -- correspondence: buffers outside the masks, statistics exactly (fragment counts up to the
    -- number of band pixels, which f32 edge stepping may legitimately include or not)
    let v := match runModel s io with
      | .panic msg => v.withDiff true s!"model panics ({msg}), implementation does not"
      | .ok (t, ms) =>
        let v := match (compareBuffers s io t masked).1 with
          | some msg => v.withDiff true msg
          | none => v
        let v := v.withDiff (g 0 != ms.calls || g 1 != ms.primsI || g 3 != ms.vertsI)
          s!"input statistics differ: impl calls={g 0} prims.i={g 1} verts.i={g 3}, model {ms.calls} {ms.primsI} {ms.vertsI}"
        let cullMargin := tris.foldl (fun m (a, b, c) => ratMin m (ratAbs (Spec.Raster.edge (p2 a) (p2 b) (p2 c)))) 1
        let v := if s.cull != "n" && cullMargin < 1/10000 then { v with amb := true }
          else v.withDiff (g 2 != ms.primsO || g 4 != ms.vertsO)
            s!"output statistics differ: impl prims.o={g 2} verts.o={g 4}, model {ms.primsO} {ms.vertsO}"
        let slack := 2 * s.hist.length * nMaskedEdge
        let near (a b : Nat) := a ≤ b + slack && b ≤ a + slack
        v.withDiff (!(near (g 5) ms.fragsI && near (g 6) ms.fragsO))
          s!"fragment statistics differ: impl frags={g 5}/{g 6}, model {ms.fragsI}/{ms.fragsO} (slack {slack})"
    -- spec, implementation only
    let nTrisSubmitted := s.hist.foldl (fun n c => n + c.2.length) 0
    let v := v.withSpec (g 0 != s.hist.length) "stats-calls" s!"calls = {g 0}, {s.hist.length} render calls were made"
    let v := v.withSpec (g 1 != nTrisSubmitted) "stats-prims-in" s!"prims.i = {g 1}, {nTrisSubmitted} triangles were submitted"
    let v := v.withSpec (g 3 != (s.hist.filter fun c => !c.2.isEmpty).length * s.verts.length) "stats-verts-in" s!"verts.i = {g 3}"
    let v := v.withSpec (g 4 != 3 * g 2) "stats-verts-out" s!"verts.o = {g 4} but prims.o = {g 2}"
    let v := v.withSpec (g 6 > g 5) "stats-frags" s!"frags.o = {g 6} exceeds frags.i = {g 5}"
    let v := v.withSpec (g 7 > g 5) "shader-calls" s!"fragment shader ran {g 7} times for {g 5} fragments"
    let colUntouched := io.color.all (· == sentinelBits)
    let depUntouched := match io.depth with | some d => d.all (· == s.zinit) | none => true
    let v := v.withSpec (!s.cw && !(colUntouched && g 6 == 0)) "color-write-off-wrote"
      "colour writes are disabled but the colour buffer changed or frags.o > 0"
    let v := v.withSpec (!s.dw && s.tgtFb && !depUntouched) "depth-write-off-wrote"
      "depth writes are disabled but the depth buffer changed"
    let v := v.withSpec ((s.test == "n" || !s.tgtFb) && g 7 != g 5) "depth-test-none-rejected"
      s!"every fragment must pass with the depth test disabled: shader ran {g 7} times for {g 5} fragments"
    let checkerBad := s.sh == 1 && (List.range s.h).any fun py => (List.range s.w).any fun px =>
      (px + py) % 2 == 0 &&
        ((pixelAt io.color s.w px py).getD sentinelBits != sentinelBits ||
         (match io.depth with | some d => (pixelAt d s.w px py).getD s.zinit != s.zinit | none => false))
    let v := v.withSpec checkerBad "discarded-fragment-written" "a fragment the shader discarded changed colour or depth"
    -- colour and depth are written under the same condition: a pixel whose colour changed must have
    -- had its depth written too when both writes are on
    let depthMissing := s.tgtFb && s.cw && s.dw && (List.range (s.w * s.h)).any fun i =>
      (io.color.getD i sentinelBits != sentinelBits) &&
        (match io.depth with | some d => d.getD i s.zinit == s.zinit | none => false)
    let v := v.withSpec depthMissing "depth-write-on-not-written"
      "a fragment changed the colour buffer but left the depth buffer at its initial value although depth writes are on"
    let nWritten := io.color.foldl (fun n c => if c != sentinelBits then n + 1 else n) 0
    let v := v.withSpec (nWritten > g 6) "stats-frags-out" s!"{nWritten} pixels changed colour but frags.o = {g 6}"
    -- the statistics equal what happened (Props/C07/StatsExact.lean `render_stats_exact`): prims.o, frags.i
    -- and frags.o must lie in the intervals Spec.Stats computes from the SUBMITTED triangles alone (outcodes,
    -- det[x y w] winding, ideal homogeneous rasterisation, per-pixel replay of the depth test) — no clipper,
    -- no scan converter, no model counters; the interval is a single value when nothing is ambiguous
    let v :=
      let toV (p : Retro.Clip.Vec4 Rat) : Spec.Ideal.V4 := ⟨p.x, p.y, p.z, p.w⟩
      let scv := (clipVerts s io).map fun pa => toV pa.1
      let (vl, vt, vr, vb) := s.vp
      let dx : Rat := ((vr : Rat) - vl) / 2
      let dy : Rat := ((vb : Rat) - vt) / 2
      let cfg : Spec.Stats.Cfg :=
        { cull := if s.cull == "b" then .back else if s.cull == "f" then .front else .off
          test := if !s.tgtFb then .none else if s.test == "l" then .less else if s.test == "g" then .greater
                  else if s.test == "e" then .equal else .none
          cw := s.cw, dw := s.dw, hasDepth := s.tgtFb, zinit := ratOf s.zinit, w := s.w, h := s.h
          vp := ((vl : Rat) + dx, (vt : Rat) + dy, dx, dy)
          inViewport := inViewport s
          shaded := fun x y => !(s.sh == 1 && (x + y) % 2 == 0)
          ordered := s.hist.all fun c => c.1 == "n" }
      let preps : List (Option Spec.Stats.Prep) := (s.tris.zip (List.range s.tris.length)).map fun (ijl, id) =>
        match scv[ijl.1]?, scv[ijl.2.1]?, scv[ijl.2.2]? with
        | some a, some b, some c => some (Spec.Stats.prep cfg id a b c)
        | _, _, _ => none
      let calls : List (List Spec.Stats.Prep) := s.hist.map fun call => call.2.filterMap fun i => (preps[i]?).join
      let pO := Spec.Stats.primsOut calls
      let fI := Spec.Stats.fragsIn cfg calls
      let fO := Spec.Stats.fragsOut cfg calls
      let v := v.addTag (if pO.lo == pO.hi && fI.lo == fI.hi && fO.lo == fO.hi then "stats-exact" else "stats-bounds")
      let v := v.withSpec (!pO.contains (g 2)) "stats-prims-out-count"
        s!"prims.o = {g 2}, but between {pO.lo} and {pO.hi} of the submitted triangles survive clipping and culling"
      let v := v.withSpec (!fI.contains (g 5)) "stats-frags-in-count"
        s!"frags.i = {g 5}, but between {fI.lo} and {fI.hi} pixel centres lie in the visible parts of the drawn triangles"
      v.withSpec (!fO.contains (g 6)) "stats-frags-out-count"
        s!"frags.o = {g 6}, but between {fO.lo} and {fO.hi} fragments pass the depth test in draw order, are shaded and colour-written"
    -- culling, for single-triangle scenes
    match secs.getD 5 [] with
    | "1" :: ab :: af :: bb :: bf :: an :: bn :: ndiff :: rest =>
      let n (t : String) := t.toNat?.getD 0
      let totalArea := tris.foldl (fun (acc : Rat) (a, b, c) => acc + ratAbs (Spec.Raster.edge (p2 a) (p2 b) (p2 c))) (0 : Rat)
      let big := totalArea > 8 && n an ≥ 3 && n bn ≥ 3
      let v := v.addTag (if big then "cull-pair" else "cull-pair-tiny")
      if !big || n an == 0 then v else
      let v := v.withSpec (!((n ab > 0) != (n bb > 0))) "cull-not-exactly-one-order"
        s!"with back-face culling the two vertex orders drew {n ab} and {n bb} pixels"
      let v := v.withSpec (!((n af > 0) != (n bf > 0))) "cull-not-exactly-one-order"
        s!"with front-face culling the two vertex orders drew {n af} and {n bf} pixels"
      let v := v.withSpec ((n ab > 0) == (n af > 0)) "cull-mode-ignored" "front and back culling select the same order"
      let v := v.withSpec (n an == 0 || n bn == 0) "cull-off-dropped" "with culling off one vertex order drew nothing"
      let v := v.withSpec ((n ab > 0 && n ab != n an) || (n bb > 0 && n bb != n bn)) "cull-changes-image"
        "the surviving order draws a different pixel set than with culling off"
      -- which order survives is decided by the on-screen winding of the VISIBLE part, i.e. by the side of
      -- the triangle's plane the eye is on: the sign of det [x y w] of the clip-space vertices (times the
      -- orientation of the viewport), also when vertices lie behind the eye (independent of the clipper)
      let cv := (clipVerts s io).map (·.1)
      let v := match s.tris with
        | [(i, j, l)] =>
          match cv[i]?, cv[j]?, cv[l]? with
          | some a, some b, some c =>
            let det3 := a.x * (b.y * c.w - b.w * c.y) - a.y * (b.x * c.w - b.w * c.x) + a.w * (b.x * c.y - b.y * c.x)
            let (vl, vt, vr, vb) := s.vp
            let orient := (((vr : Int) - vl) * ((vb : Int) - vt) : Int)
            let scale := ratMax (ratAbs a.w) (ratMax (ratAbs b.w) (ratAbs c.w))
            let backA := (0 : Rat) < det3 * (orient : Rat)
            if ratAbs det3 < scale * scale * scale / 1000 || orient == 0 then v
            else
              v.withSpec ((n ab > 0) == backA) "cull-wrong-side"
                s!"back-face culling kept the order whose visible part is {if backA then "back" else "front"}-facing on screen (det[x y w] = {ratApprox det3}); drawn pixels A/back-cull {n ab}, B/back-cull {n bb}"
          | _, _, _ => v
        | _ => v
      let pts := chunks 2 8 (rest.map n)
      let offBand := pts.any fun p => match p with | [x, y] => !edge x y | _ => false
      let v := v.withSpec (n ndiff > 0 && offBand) "orders-differ-off-edge" "the two vertex orders differ away from edge pixels with culling off"
      -- prims.o counts triangles surviving the cull: a culled order (nothing drawn although the other
      -- order draws) must report 0, a drawn one 1 (single visible triangle, no clipping)
      let v := match (secs.getD 6 []).map n with
        | [abF, bbF] =>
          v.withSpec ((n ab > 0) == (abF > 0) || (n bb > 0) == (bbF > 0)) "cull-ignores-screen-winding"
            s!"mirroring the viewport reverses the on-screen winding, yet the same vertex order survives back-face culling (normal: {n ab},{n bb}; mirrored: {abF},{bbF})"
        | _ => v
      match (secs.getD 7 []).map n with
      | [pab, paf, pbb, pbf, pan, pbn] =>
        let visible := (sceneTags s io).contains "visible"
        let wrong (drawn po : Nat) := (drawn == 0 && po != 0) || (drawn > 0 && po != 1)
        v.withSpec (visible && (wrong (n ab) pab || wrong (n af) paf || wrong (n bb) pbb || wrong (n bf) pbf
            || wrong (n an) pan || wrong (n bn) pbn))
          "stats-prims-out" s!"prims.o does not count the triangles surviving culling: drawn pixel counts {n ab},{n af},{n bb},{n bf},{n an},{n bn} vs prims.o {pab},{paf},{pbb},{pbf},{pan},{pbn}"
      | _ => v
    | _ => v

/-- `handleCore` plus the Float32 diagnostic tag (`RenderCommon.withF32`; never changes the status). -/
def handle (case impl : List String) : Verdict :=
  withF32 case impl (handleCore case impl)

end Retro.Drv.C07
