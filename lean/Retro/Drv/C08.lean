/-
Model driver for C08 (projection, viewport, Rect, Camera, FirstPerson). One verdict per case;
see harness/src/bin/c08.rs for the case grammar.
-/
import Retro.Drv.Common
import Retro.Drv.C09
import Retro.Model.Mat
import Retro.Model.Rect
import Retro.Model.Cam
import Retro.Spec.Mat

namespace Retro.Drv.C08
open Retro Retro.Mat Retro.Rect Retro.Cam Retro.Drv
open Retro.Drv.C09 (Q f? floats v3? m4? take3 close absM absV3 maxAbs tagOnce candidate recipSqrt epsApprox
  isRotation dot3q colV parseProbes)

def M4l (m : M4 Q) : List Q := C09.M4.toList m
def V3l (v : V3 Q) : List Q := C09.V3.toList v
def V4l (v : V4 Q) : List Q := C09.V4.toList v

def anyNonFinite (ts : List String) : Bool := ts.any fun t => (f? t).isNone

def isPanic (impl : List String) : Bool := (impl.head?.getD "").startsWith "panic:"

/-- relative comparison of matrix entries: |impl − model| ≤ rel·|model| + abs -/
def closeRel (a b : List Q) (rel abs : Q) : Bool :=
  a.length == b.length && (a.zip b).all fun (x, y) => ratAbs (x - y) ≤ rel * ratAbs y + abs

def parse4Probes (k : Nat) (ts : List String) : Option (List (List Q)) :=
  match k with
  | 0 => some []
  | n + 1 => do
    let (a, r) ← floats 4 ts
    let rest ← parse4Probes n r
    pure (a :: rest)

def parse3Probes (k : Nat) (ts : List String) : Option (List (List Q)) :=
  match k with
  | 0 => some []
  | n + 1 => do
    let (a, r) ← floats 3 ts
    let rest ← parse3Probes n r
    pure (a :: rest)

def probesOf (ts : List String) : Option (List (V3 Q)) :=
  match ts with
  | "P" :: k :: rest => k.toNat?.bind fun k => parseProbes k rest
  | _ => none

/-- inside the clip volume: w > 0 ∧ −w ≤ x, y, z ≤ w -/
def inClip (c : List Q) : Bool :=
  match c with
  | [x, y, z, w] => w > 0 && -w ≤ x && x ≤ w && -w ≤ y && y ≤ w && -w ≤ z && z ≤ w
  | _ => false

def t4 : Q := 1 / 10000

/-! ### perspective -/

def handlePersp (f a near far : Q) (probes : List (V3 Q)) (impl : List String) : Verdict :=
  match Mat.perspective f a near far with
  | .panic m =>
    let v := Verdict.ok ["persp", "invalid-params"]
    let v := v.withDiff (!isPanic impl) s!"model panics ({m}), implementation returns"
    -- spec, from the case alone: the documented contract "panics if any parameter is nonpositive or the
    -- range is empty" (a matrix built from such parameters cannot satisfy the inside-iff property)
    let valid := decide (0 < f) && decide (0 < a) && decide (0 < near) && decide (near < far)
    v.withSpec (!valid && !isPanic impl) "persp-accepts-invalid-params" "perspective() returns a matrix for nonpositive parameters or an empty depth range"
  | .ok mM =>
    let v := Verdict.ok ["persp"]
    if isPanic impl then (v.withDiff true "implementation panics on valid parameters").withSpec true "persp-panics" "perspective() panics on valid parameters"
    else
    match floats 16 impl with
    | none => (v.withDiff true "matrix not finite").withSpec true "non-finite-output" "perspective matrix not finite"
    | some (mI, rest) =>
      match m4? mI, parse4Probes probes.length rest with
      | some mImpl, some clips =>
        let v := v.withDiff (!closeRel mI (M4l mM) t4 0) s!"matrix: impl {mI.map ratApprox} model {(M4l mM).map ratApprox}"
        let sh := absM mM
        let v := (probes.zip clips).foldl (fun v (p, c) =>
          let h := (absV3 p)
          let tol := (V4l (sh.applyProj h)).map (· * t4)
          v.withDiff (!close c (V4l (mM.applyProj p)) tol) s!"clip image: impl {c.map ratApprox} model {(V4l (mM.applyProj p)).map ratApprox}") v
        -- spec -----------------------------------------------------------------------------
        -- the implementation's matrix applied exactly must be what it reported (ties the probes to the matrix)
        let v := (probes.zip clips).foldl (fun v (p, c) =>
          -- view-volume membership from the case alone
          let inside := decide (near ≤ p.z) && decide (p.z ≤ far) && decide (ratAbs p.x * f ≤ p.z) && decide (ratAbs p.y * f * a ≤ p.z)
          -- relative distance to the nearest face: inside the band nothing is judged
          let band (lhs rhs : Q) : Bool := ratAbs (lhs - rhs) ≤ (ratAbs lhs + ratAbs rhs) / 2000
          let onBoundary := band near p.z || band p.z far || band (ratAbs p.x * f) p.z || band (ratAbs p.y * f * a) p.z
          if onBoundary then tagOnce v "on-boundary"
          else
            let v := tagOnce v (if inside then "inside" else if p.z ≤ 0 then "behind-eye" else "outside")
            v.withSpec (inside != inClip c) "persp-inside-mismatch"
              s!"view point {(V3l p).map ratApprox} inside={inside} but clip image {c.map ratApprox} inClip={inClip c}") v
        -- near and far planes go to the two depth bounds (probes 0 and 1 lie on them)
        let ndcZ (c : List Q) : Option Q := match c with | [_, _, z, w] => if w == 0 then none else some (z / w) | _ => none
        let v := match clips with
          | c0 :: c1 :: _ =>
            let v := v.withSpec (match ndcZ c0 with | some z => ratAbs (z + 1) > 1 / 1000 | none => true) "persp-near-far" "near plane not sent to depth -1"
            v.withSpec (match ndcZ c1 with | some z => ratAbs (z - 1) > 1 / 1000 | none => true) "persp-near-far" "far plane not sent to depth +1"
          | _ => v
        -- depth order is preserved in front of the eye
        let front := (probes.zip clips).filter fun (p, _) => p.z > 0
        let ideal (z : Q) : Q := (far + near) / (far - near) - 2 * far * near / ((far - near) * z)
        let v := front.foldl (fun v (p1, c1) =>
          front.foldl (fun v (p2, c2) =>
            if p1.z < p2.z && ideal p2.z - ideal p1.z > 1 / 100000 then
              match ndcZ c1, ndcZ c2 with
              | some z1, some z2 => v.withSpec (!(z1 < z2)) "persp-depth-order" s!"depth order lost between z={ratApprox p1.z} and z={ratApprox p2.z}"
              | _, _ => v
            else v) v) v
        let _ := mImpl
        v
      | _, _ => (v.withDiff true "probe images missing or not finite").withSpec true "non-finite-output" "non-finite clip coordinates"

/-! ### orthographic -/

def handleOrtho (lbn rtf : V3 Q) (probes : List (V3 Q)) (impl : List String) : Verdict :=
  match Mat.orthographic lbn rtf with
  | .panic _ =>
    -- zero extent: Rust divides by zero, the matrix has inf/NaN entries
    let v := Verdict.ok ["ortho", "degenerate-box"]
    v.withDiff (!(anyNonFinite (impl.take 16))) "model: non-finite matrix, implementation: finite"
  | .ok mM =>
    let v := Verdict.ok ["ortho"]
    if isPanic impl then (v.withDiff true "implementation panics").withSpec true "ortho-panics" "orthographic() panics on a proper box"
    else
    match floats 16 impl with
    | none => (v.withDiff true "matrix not finite").withSpec true "non-finite-output" "orthographic matrix not finite"
    | some (mI, rest) =>
      match parse4Probes probes.length rest with
      | none => (v.withDiff true "probe images missing or not finite").withSpec true "non-finite-output" "non-finite clip coordinates"
      | some clips =>
        -- cancellation scale of each axis: (|lbn| + |rtf|) / |extent|
        let amp (l r : Q) : Q := (ratAbs l + ratAbs r) / ratAbs (r - l) + 1
        let ax := amp lbn.x rtf.x; let ay := amp lbn.y rtf.y; let az := amp lbn.z rtf.z
        let v := v.withDiff (!closeRel mI (M4l mM) t4 0) s!"matrix: impl {mI.map ratApprox} model {(M4l mM).map ratApprox}"
        let tolP : List Q := [t4 * ax, t4 * ay, t4 * az, 0]
        let v := (probes.zip clips).foldl (fun v (p, c) =>
          let scl := 1 + maxAbs (V3l p) / (1 + maxAbs (V3l lbn ++ V3l rtf))
          v.withDiff (!close c (V4l (mM.applyProj p)) (tolP.map (· * scl))) s!"clip image: impl {c.map ratApprox} model {(V4l (mM.applyProj p)).map ratApprox}") v
        -- spec: corners, inside ⇔ inside
        let v := match clips with
          | c0 :: c1 :: _ =>
            let v := v.withSpec (!close c0 [-1, -1, -1, 1] tolP) "ortho-corners" s!"lbn ↦ {c0.map ratApprox}"
            v.withSpec (!close c1 [1, 1, 1, 1] tolP) "ortho-corners" s!"rtf ↦ {c1.map ratApprox}"
          | _ => v
        (probes.zip clips).foldl (fun v (p, c) =>
          let ins (l x r : Q) : Bool := decide (l ≤ x) && decide (x ≤ r)
          let inside := ins lbn.x p.x rtf.x && ins lbn.y p.y rtf.y && ins lbn.z p.z rtf.z
          let near (l x r : Q) : Bool := ratAbs (x - l) ≤ (r - l) * t4 * 10 * (amp l r) || ratAbs (x - r) ≤ (r - l) * t4 * 10 * (amp l r)
          if near lbn.x p.x rtf.x || near lbn.y p.y rtf.y || near lbn.z p.z rtf.z then tagOnce v "on-boundary"
          else
            let v := tagOnce v (if inside then "inside" else "outside")
            v.withSpec (inside != inClip c) "ortho-inside-mismatch" s!"point {(V3l p).map ratApprox} inside={inside}, clip image {c.map ratApprox}") v

/-! ### viewport -/

def handleVport (l t r b : Nat) (probes : List (V3 Q)) (impl : List String) : Verdict :=
  let mM : M4 Q := Mat.viewport (l : Q) (t : Q) (r : Q) (b : Q)
  let v := Verdict.ok ["vport", if l ≤ r && t ≤ b then "ordered" else "reversed"]
  match floats 16 impl with
  | none => (v.withDiff true "matrix not finite").withSpec true "non-finite-output" "viewport matrix not finite"
  | some (mI, rest) =>
    match parse3Probes probes.length rest with
    | none => v.withDiff true "probe images missing"
    | some outs =>
      -- small integers: every operation is exact in f32
      let v := v.withDiff (mI != M4l mM) s!"matrix: impl {mI.map ratApprox} model {(M4l mM).map ratApprox}"
      let sh := absM mM
      let v := (probes.zip outs).foldl (fun v (p, o) =>
        v.withDiff (!close o (V3l (mM.applyPt p)) ((V3l (sh.applyPt (absV3 p))).map (· * t4))) "apply_pt differs from the model") v
      -- spec: NDC corners onto the requested corners, z untouched; square ⇔ rectangle
      let v := match outs with
        | o0 :: o1 :: _ =>
          let v := v.withSpec (o0 != [(l : Q), (t : Q), (probes.head?.map (·.z)).getD 0]) "viewport-corners" s!"(-1,-1) ↦ {o0.map ratApprox}"
          v.withSpec (o1 != [(r : Q), (b : Q), ((probes.drop 1).head?.map (·.z)).getD 0]) "viewport-corners" s!"(1,1) ↦ {o1.map ratApprox}"
        | _ => v
      if l < r && t < b then
        (probes.zip outs).foldl (fun v (p, o) =>
          let inSq := ratAbs p.x ≤ 1 && ratAbs p.y ≤ 1
          let nearEdge := ratAbs (ratAbs p.x - 1) ≤ t4 || ratAbs (ratAbs p.y - 1) ≤ t4
          match o with
          | [x, y, _] =>
            let inRect := decide ((l : Q) ≤ x) && decide (x ≤ (r : Q)) && decide ((t : Q) ≤ y) && decide (y ≤ (b : Q))
            if nearEdge then v else v.withSpec (inSq != inRect) "viewport-affine" s!"NDC {(V3l p).map ratApprox} ↦ {o.map ratApprox}"
          | _ => v) v
      else v

/-! ### Rect -/

def boundsOf (s : String) : Option (Bound × Bound) :=
  match s.splitOn ":" with
  | ["r", a, b] => do pure (.incl (← a.toNat?), .excl (← b.toNat?))
  | ["ri", a, b] => do pure (.incl (← a.toNat?), .incl (← b.toNat?))
  | ["to", b] => do pure (.unb, .excl (← b.toNat?))
  | ["toi", b] => do pure (.unb, .incl (← b.toNat?))
  | ["from", a] => do pure (.incl (← a.toNat?), .unb)
  | ["full"] => some (.unb, .unb)
  | ["ex", a, b] => do pure (.excl (← a.toNat?), .excl (← b.toNat?))
  | ["exu", a] => do pure (.excl (← a.toNat?), .unb)
  | _ => none

def rectOf (h v : String) : Option (Outcome Rect) := do
  let (hs, he) ← boundsOf h
  let (vs, ve) ← boundsOf v
  pure (ofBounds hs he vs ve)

def optStr : Option Nat → String
  | some x => toString x
  | none => "-"
def b01 (b : Bool) : String := if b then "1" else "0"

def rectFields (r : Rect) (x y : Nat) : List String :=
  [optStr r.left, optStr r.top, optStr r.right, optStr r.bottom, b01 (isEmpty r), optStr (width r), optStr (height r),
   b01 (contains r x y)]

def optOf (s : String) : Option Nat := if s == "-" then none else s.toNat?
def rectOfFields (ts : List String) : Option Rect :=
  match ts with
  | l :: t :: r :: b :: _ => some ⟨optOf l, optOf t, optOf r, optOf b⟩
  | _ => none

def dedupSorted : List Nat → List Nat
  | a :: b :: rest => if a == b then dedupSorted (b :: rest) else a :: dedupSorted (b :: rest)
  | l => l

def insertSorted (x : Nat) : List Nat → List Nat
  | [] => [x]
  | y :: ys => if x ≤ y then x :: y :: ys else y :: insertSorted x ys
def sortNat (l : List Nat) : List Nat := l.foldl (fun acc x => insertSorted x acc) []

/-- the harness' probe coordinates: 0, extra, and value−1, value, value+1 (saturating) of every bound -/
def around (vals : List (Option Nat)) (extra : Nat) : List Nat :=
  let vs := vals.filterMap id
  dedupSorted (sortNat ([0, extra] ++ vs.flatMap fun x => [x - 1, x, min (x + 1) u32Max]))

def bits (r : Rect) (xs ys : List Nat) : String :=
  String.ofList (ys.flatMap fun y => xs.map fun x => if contains r x y then '1' else '0')

def handleRect (a b : Outcome Rect) (x y : Nat) (impl : List String) : Verdict :=
  match a, b with
  | .ok a, .ok b =>
    let i := intersect a b
    let unb (r : Rect) := r.left.isNone || r.right.isNone || r.top.isNone || r.bottom.isNone
    let v := Verdict.ok ["rect", if unb a || unb b then "some-unbounded" else "all-bounded",
      if isEmpty i then "empty-intersection" else "nonempty-intersection"]
    if isPanic impl then v.withDiff true "implementation panics, model does not"
    else
    let want := rectFields a x y ++ rectFields b x y ++ rectFields i x y
    let v := v.withDiff (impl.take 24 != want) s!"rect fields: model {want}"
    -- grid of probe points around every bound
    match rectOfFields impl, rectOfFields (impl.drop 8), rectOfFields (impl.drop 16) with
    | some ia, some ib, some ii =>
      let xs := around [ia.left, ia.right, ib.left, ib.right] x
      let ys := around [ia.top, ia.bottom, ib.top, ib.bottom] y
      let sa := impl.getD 24 ""; let sb := impl.getD 25 ""; let si := impl.getD 26 ""
      let v := v.withDiff (sa != bits a xs ys || sb != bits b xs ys || si != bits i xs ys) "contains() grid differs from the model"
      -- spec: contains(a ∩ b, p) ⇔ contains(a, p) ∧ contains(b, p) at every grid point, judged on the implementation's own answers
      let andBits := String.ofList ((sa.toList.zip sb.toList).map fun (p, q) => if p == '1' && q == '1' then '1' else '0')
      let v := v.withSpec (si != andBits || sa.length != xs.length * ys.length) "rect-intersect-contains"
        "contains(a ∩ b, p) differs from contains(a, p) ∧ contains(b, p)"
      -- is_empty ⇒ contains nothing; a bounded non-empty rect contains its top-left corner
      let emptyI := impl.getD 20 "" == "1"
      let v := v.withSpec (emptyI && si.toList.any (· == '1')) "rect-empty-contains" "is_empty() rect contains a point"
      let _ := ii
      v
    | _, _, _ => v.withDiff true "rect fields unparsable"
  | _, _ =>
    -- `x + 1` overflow at u32::MAX while converting a range: debug-profile panic
    let v := Verdict.ok ["rect", "bound-overflow"]
    v.withDiff (!isPanic impl) "model panics (u32 overflow in Rect::from), implementation does not"

/-! ### Camera::viewport -/

/-- Spec: requested ∩ frame per axis, from the requested bounds alone. -/
def specAxis (lo hi : Option Nat) (size : Nat) : Nat × Nat := (max (lo.getD 0) 0, min (hi.getD size) size)

structure VpSpec where
  l : Nat
  t : Nat
  r : Nat
  b : Nat
def VpSpec.nonempty (s : VpSpec) : Bool := s.l < s.r && s.t < s.b

def specViewport (req : Rect) (w h : Nat) : VpSpec :=
  let (l, r) := specAxis req.left req.right w
  let (t, b) := specAxis req.top req.bottom h
  ⟨l, t, r, b⟩

/-- Judge the NDC-square image `[x0,x1]×[y0,y1]` (images of (−1,−1) and (1,1)) reported by the
implementation against the spec rectangle. -/
def judgeViewport (v : Verdict) (sp : VpSpec) (x0 y0 x1 y1 : Q) (w h : Nat) (second : Option VpSpec) : Verdict :=
  if sp.nonempty then
    if x0 == (sp.l : Q) && y0 == (sp.t : Q) && x1 == (sp.r : Q) && y1 == (sp.b : Q) then tagOnce v "confined"
    else
      match second with
      | some alt =>
        if x0 == (alt.l : Q) && y0 == (alt.t : Q) && x1 == (alt.r : Q) && y1 == (alt.b : Q) then
          candidate v "viewport-second-call-loses-frame"
        else v.withSpec true "viewport-not-confined" s!"NDC square ↦ [{ratApprox x0},{ratApprox x1}]×[{ratApprox y0},{ratApprox y1}], requested ∩ frame = [{sp.l},{sp.r})×[{sp.t},{sp.b})"
      | none => v.withSpec true "viewport-not-confined" s!"NDC square ↦ [{ratApprox x0},{ratApprox x1}]×[{ratApprox y0},{ratApprox y1}], requested ∩ frame = [{sp.l},{sp.r})×[{sp.t},{sp.b})"
  else
    -- empty intersection: nothing may be drawn, i.e. the image must have no area
    let area := ratAbs (x1 - x0) * ratAbs (y1 - y0)
    let _ := (w, h)
    if area == 0 then tagOnce v "empty-no-area"
    else candidate (tagOnce v "empty-intersection") "viewport-disjoint-not-empty"

def handleCamvp (w h : Nat) (r1 : Rect) (r2 : Option Rect) (impl : List String) : Verdict :=
  let c0 : Camera Q := Camera.new w h
  let m := match c0.setViewport r1 with
    | .ok c1 => (match r2 with | some r2 => c1.setViewport r2 | none => .ok c1)
    | .panic m => .panic m
  let v := Verdict.ok ["camvp", if r2.isSome then "second-call" else "fresh"]
  match m with
  | .panic msg => v.withDiff (!isPanic impl) s!"model panics ({msg})"
  | .ok cam =>
    if isPanic impl then v.withDiff true "implementation panics, model does not"
    else
    match impl with
    | dw :: dh :: rest =>
      let v := v.withDiff (dw != toString cam.dims.1 || dh != toString cam.dims.2) s!"dims: model {cam.dims}"
      match floats 25 rest with
      | none => v.withDiff true "viewport matrix not finite"
      | some (o, _) =>
        let v := v.withDiff (o.take 16 != M4l cam.viewport) s!"viewport matrix: impl {(o.take 16).map ratApprox} model {(M4l cam.viewport).map ratApprox}"
        let want := V3l (cam.viewport.applyPt ⟨-1, -1, 1 / 2⟩) ++ V3l (cam.viewport.applyPt ⟨1, 1, 1 / 4⟩) ++ V3l (cam.viewport.applyPt ⟨0, 0, 1⟩)
        let v := v.withDiff (o.drop 16 != want) "corner images differ from the model"
        -- spec
        let x0 := o.getD 16 0; let y0 := o.getD 17 0; let x1 := o.getD 19 0; let y1 := o.getD 20 0
        match r2 with
        | none => judgeViewport v (specViewport r1 w h) x0 y0 x1 y1 w h none
        | some r2 =>
          -- the frame is still w×h; what the code uses instead is the first viewport's size
          let s1 := specViewport r1 w h
          let alt := specViewport r2 (s1.r - s1.l) (s1.b - s1.t)
          if !s1.nonempty then tagOnce v "first-empty"   -- judged by the single-call cases
          else judgeViewport v (specViewport r2 w h) x0 y0 x1 y1 w h (some alt)
    | _ => bad "camvp output"

/-! ### full camera: world point → pixel and depth; tiny triangle -/

def handleCamproj (w h : Nat) (f near far : Q) (req : Rect) (view : M4 Q) (p : V3 Q) (half : Q) (order : String)
    (impl : List String) : Verdict :=
  -- builder order: permutation of m(ode), v(iewport), p(erspective) | o(rthographic); legacy "pv" = "mpv", "vp" = "mvp".
  -- `mode()` only stores the view matrix (cam.rs:69), so the model depends on the relative order of projection and viewport only.
  let order := if order == "pv" then "mpv" else if order == "vp" then "mvp" else order
  let ortho := order.contains 'o'
  let idx (c : Char) : Nat := (order.toList.takeWhile (· != c)).length
  let projFirst := decide ((if ortho then idx 'o' else idx 'p') < idx 'v')
  -- orthographic box (-1/f, -1/f, near)..(1/f, 1/f, far) with 1/f rounded as the harness' f32 division rounds it
  let bx : Q := F32.toRatD (F32.ofRat (1 / f))
  let c0 : Camera Q := Camera.new w h
  let proj (c : Camera Q) : Outcome (Camera Q) :=
    if ortho then c.orthographic ⟨-bx, -bx, near⟩ ⟨bx, bx, far⟩ else c.perspective f near far
  let cam : Outcome (Camera Q) :=
    if projFirst then
      match proj c0 with
      | .ok c => c.setViewport req
      | .panic m => .panic m
    else
      match c0.setViewport req with
      | .ok c => proj c
      | .panic m => .panic m
  let sp := specViewport req w h
  let v := Verdict.ok ["camproj", order, if sp.nonempty then "vp-nonempty" else "vp-empty"]
  match cam with
  | .panic msg =>
    -- zero-size dims at perspective() time (empty intersection, order vp)
    let v := tagOnce v "degenerate-dims"
    if msg.startsWith "nonfinite:" then
      -- Rust does not panic here: it returns a projection matrix with an infinite entry (aspect ratio w/0 = inf)
      let v := tagOnce v "aspect-inf"
      v.withDiff (isPanic impl || !anyNonFinite (impl.take 60)) s!"model: {msg}; implementation {if isPanic impl then "panics" else "returns finite matrices"}"
    else v.withDiff (!isPanic impl) s!"model panics ({msg}); implementation returns"
  | .ok cam =>
    if isPanic impl then (v.withDiff true "implementation panics, model does not").withSpec sp.nonempty "camera-panics" s!"camera setup panics: {impl}"
    else
    match impl with
    | dw :: dh :: rest =>
      let v := v.withDiff (dw != toString cam.dims.1 || dh != toString cam.dims.2) s!"dims: model {cam.dims}"
      match floats 55 rest with
      | none => (v.withDiff true "matrices or point images not finite").withSpec sp.nonempty "non-finite-output" "non-finite camera output"
      | some (o, tail) =>
        let pI := o.take 16; let vpI := (o.drop 16).take 16; let wI := (o.drop 32).take 16
        let clipI := (o.drop 48).take 4; let scrI := (o.drop 52).take 3
        let v := v.withDiff (!closeRel pI (M4l cam.project) t4 0) "projection matrix differs from the model"
        let v := v.withDiff (vpI != M4l cam.viewport) "viewport matrix differs from the model"
        let w2p := cam.worldToProject view
        let shW := (absM view).andThen (absM cam.project)
        let v := v.withDiff (!close wI (M4l w2p) ((M4l shW).map (· * t4))) "world_to_project differs from the model"
        let clipTol := (V4l (shW.applyProj (absV3 p))).map (· * t4)
        let clipM := w2p.applyProj p
        let v := v.withDiff (!close clipI (V4l clipM) clipTol) s!"clip point: impl {clipI.map ratApprox} model {(V4l clipM).map ratApprox}"
        -- screen point: compared when w is well away from zero
        let v := match toScreen cam.viewport clipM with
          | .ok s =>
            let wRel := ratAbs clipM.w / (clipTol.getD 3 1 + 1 / 1000000000)
            if wRel < 100 then tagOnce v "w-near-zero"
            else
              let dxy : Q := ((w + h : Nat) : Q)
              let tol : List Q := [dxy * t4 * (1 + ratAbs (clipM.x / clipM.w)), dxy * t4 * (1 + ratAbs (clipM.y / clipM.w)), t4 * 10 * ratAbs (1 / clipM.w)]
              v.withDiff (!close scrI (V3l s) tol) s!"screen point: impl {scrI.map ratApprox} model {(V3l s).map ratApprox}"
          | .panic _ => tagOnce v "w-zero"
        -- spec: pinhole prediction from the case alone -------------------------------------------------
        let q := Spec.Mat.mulVec4 view ⟨p.x, p.y, p.z, 1⟩
        if !sp.nonempty then
          -- nothing may be drawn; a render panic or lit pixels are the visible consequence of D16
          match tail with
          | t0 :: _ =>
            if t0.startsWith "panic:" then candidate (tagOnce v "render-panics") "viewport-disjoint-not-empty"
            else if t0 != "0" then candidate (tagOnce v "draws-with-empty-viewport") "viewport-disjoint-not-empty"
            else tagOnce v "empty-draws-nothing"
          | [] => bad "camproj render output"
        else if q.z ≤ 0 then tagOnce v "behind-eye"
        else
          -- aspect ratio in force when perspective() was called
          let asp : Q := if projFirst then (w : Q) / (h : Q) else ((sp.r - sp.l : Nat) : Q) / ((sp.b - sp.t : Nat) : Q)
          -- NDC coordinates and screen depth predicted by geometry: pinhole (x·f/z, y·f·a/z, 1/z) or parallel (x/bx, y/bx, 1)
          let ndc (qq : V4 Q) : Q × Q × Q :=
            if ortho then (qq.x / bx, qq.y / bx, 1) else (f * qq.x / qq.z, f * asp * qq.y / qq.z, 1 / qq.z)
          let (nx, ny, depth) := ndc q
          let px : Q := (sp.l : Q) + ((sp.r : Q) - (sp.l : Q)) / 2 * (1 + nx)
          let py : Q := (sp.t : Q) + ((sp.b : Q) - (sp.t : Q)) / 2 * (1 + ny)
          let v := match scrI with
            | [sx, sy, sz] =>
              -- the property's bands: 0.02 px, 0.1 % depth
              let v := v.withSpec (ratAbs (sx - px) > 1 / 50 || ratAbs (sy - py) > 1 / 50) "pinhole-pixel-mismatch"
                s!"screen ({ratApprox sx},{ratApprox sy}), pinhole prediction ({ratApprox px},{ratApprox py})"
              v.withSpec (ratAbs (sz - depth) > depth / 1000) "pinhole-depth-mismatch" s!"depth {ratApprox sz}, prediction {ratApprox depth}"
            | _ => v
          -- the tiny triangle
          match tail with
          | t0 :: more =>
            if t0.startsWith "panic:" then v.withSpec true "render-panics" s!"render() panics with a viewport inside the frame: {t0}"
            else
              match t0.toNat?, more.map String.toNat? with
              | some n, [some x0, some x1, some y0, some y1, some sx, some sy, _] =>
                -- the triangle the harness drew: c − ax − ay, c + ax − ay, c + ay with ax, ay = half · (rows 0, 1 of the
                -- view matrix); its pinhole image, vertex by vertex (spec formula, case data only)
                let ax : V3 Q := (⟨view.r0.x, view.r0.y, view.r0.z⟩ : V3 Q).smul half
                let ay : V3 Q := (⟨view.r1.x, view.r1.y, view.r1.z⟩ : V3 Q).smul half
                let pin (wp : V3 Q) : Option (Q × Q × Q) :=
                  let qq := Spec.Mat.mulVec4 view ⟨wp.x, wp.y, wp.z, 1⟩
                  if qq.z ≤ 0 then none
                  else
                    let (mx, my, _) := ndc qq
                    some ((sp.l : Q) + ((sp.r : Q) - (sp.l : Q)) / 2 * (1 + mx),
                          (sp.t : Q) + ((sp.b : Q) - (sp.t : Q)) / 2 * (1 + my), qq.z)
                match pin ((p.sub ax).sub ay), pin ((p.add ax).sub ay), pin (p.add ay) with
                | some (ux, uy, uz), some (vx, vy, vz), some (wx, wy, wz) =>
                  let bx0 := ratMin ux (ratMin vx wx); let bx1 := ratMax ux (ratMax vx wx)
                  let by0 := ratMin uy (ratMin vy wy); let by1 := ratMax uy (ratMax vy wy)
                  let zmin := ratMin uz (ratMin vz wz); let zmax := ratMax uz (ratMax vz wz)
                  -- wholly inside the view volume, with a margin: then nothing is clipped away
                  let inDepth := near * (1 + 1 / 100) < zmin && zmax * (1 + 1 / 100) < far
                  let inside := (sp.l : Q) + 1 ≤ bx0 && bx1 ≤ (sp.r : Q) - 1 && (sp.t : Q) + 1 ≤ by0 && by1 ≤ (sp.b : Q) - 1
                  let big := bx1 - bx0 ≥ 5 / 2 && by1 - by0 ≥ 5 / 2
                  let v := if inDepth && inside then tagOnce v "tri-unclipped" else tagOnce v "tri-clipped"
                  if n == 0 then
                    let v := tagOnce v "nothing-lit"
                    v.withSpec (inDepth && inside && big) "render-nothing-drawn"
                      s!"no pixel lit although the triangle's image [{ratApprox bx0},{ratApprox bx1}]×[{ratApprox by0},{ratApprox by1}] is inside the viewport"
                  else
                    let v := tagOnce v "lit"
                    -- drawing confined to requested ∩ frame, whatever is clipped
                    let v := v.withSpec (x0 < sp.l || x1 ≥ sp.r || y0 < sp.t || y1 ≥ sp.b) "draws-outside-viewport"
                      s!"lit pixels x∈[{x0},{x1}] y∈[{y0},{y1}] outside [{sp.l},{sp.r})×[{sp.t},{sp.b})"
                    -- … and to the image of the triangle predicted by pinhole geometry (pixel centres, 0.02 px band → 1 px slack)
                    let v := v.withSpec ((x0 : Q) + 1 / 2 < bx0 - 1 || (x1 : Q) + 1 / 2 > bx1 + 1 || (y0 : Q) + 1 / 2 < by0 - 1 || (y1 : Q) + 1 / 2 > by1 + 1)
                      "render-outside-predicted-triangle"
                      s!"lit pixels x∈[{x0},{x1}] y∈[{y0},{y1}], predicted triangle image [{ratApprox bx0},{ratApprox bx1}]×[{ratApprox by0},{ratApprox by1}]"
                    let _ := (sx, sy)
                    match f? (more.getD 6 "") with
                    | some z =>
                      let dlo : Q := if ortho then 1 else 1 / zmax
                      let dhi : Q := if ortho then 1 else 1 / zmin
                      v.withSpec (inDepth && inside && (z < dlo * (1 - 1 / 500) || z > dhi * (1 + 1 / 500))) "render-depth-off"
                        s!"depth buffer {ratApprox z}, predicted screen depth ∈ [{ratApprox dlo},{ratApprox dhi}]"
                    | none => v.withSpec true "non-finite-output" "non-finite depth written"
                | _, _, _ => tagOnce v "tri-behind-eye"
              | _, _ => bad "camproj render fields"
          | [] => bad "camproj render output"
    | _ => bad "camproj output"

/-! ### FirstPerson -/

def handleFp (pos : V3 Q) (kind : String) (target probe delta : V3 Q) (impl : List String) : Verdict :=
  let v := Verdict.ok ["fp", kind]
  if isPanic impl then
    -- orient_z asserts: fwd ≈ 0 or (fwd × right) ≈ 0 cannot happen for unit headings
    (v.withDiff true "implementation panics").withSpec true "fp-panics" s!"world_to_view panics: {impl}"
  else
  match floats 33 impl with
  | none => (v.withDiff true "output not finite").withSpec true "non-finite-output" "non-finite first-person output"
  | some (o, _) =>
    let r := o.getD 0 0; let caz := o.getD 1 0; let saz := o.getD 2 0; let calt := o.getD 3 0; let salt := o.getD 4 0
    let fp : FirstPerson Q := ⟨pos, r, caz, saz, calt, salt⟩
    let rho := recipSqrt (cross fp.fwd fp.right).lenSqr
    let scale : Q := 1 + ratAbs pos.x + ratAbs pos.y + ratAbs pos.z
    let v := if ratAbs calt ≤ 1 / 1000 then tagOnce v "straight-up-down" else v
    match fp.worldToView epsApprox rho, m4? ((o.drop 5).take 16) with
    | .ok vm, some vI =>
      let tolM : List Q := (List.range 16).map fun k => if k % 4 == 3 then t4 * scale else t4
      let v := v.withDiff (!close (M4l vI) (M4l vm) tolM) s!"view matrix: impl {(M4l vI).map ratApprox} model {(M4l vm).map ratApprox}"
      let ptTol (q : V3 Q) : List Q := List.replicate 3 (t4 * (scale + ratAbs q.x + ratAbs q.y + ratAbs q.z))
      let v := v.withDiff (!close ((o.drop 21).take 3) (V3l (vm.applyPt probe)) (ptTol probe)) "probe image differs from the model"
      let v := v.withDiff (!close ((o.drop 24).take 3) (V3l (vm.applyPt pos)) (ptTol pos)) "image of pos differs from the model"
      let moved := fp.translate delta
      let v := v.withDiff (!close (o.drop 30) (V3l moved.pos) (ptTol delta)) s!"translate: impl {(o.drop 30).map ratApprox} model {(V3l moved.pos).map ratApprox}"
      -- spec -------------------------------------------------------------------------------------
      let v := v.withSpec (ratAbs (caz * caz + saz * saz - 1) > t4 || ratAbs (calt * calt + salt * salt - 1) > t4 || r != 1) "fp-heading-not-unit" "heading is not a unit spherical vector"
      -- rigid
      let lin : M4 Q := ⟨⟨vI.r0.x, vI.r0.y, vI.r0.z, 0⟩, ⟨vI.r1.x, vI.r1.y, vI.r1.z, 0⟩, ⟨vI.r2.x, vI.r2.y, vI.r2.z, 0⟩, ⟨0, 0, 0, 1⟩⟩
      let v := v.withSpec (!(isRotation lin t4 && vI.r3 == ⟨0, 0, 0, 1⟩)) "fp-not-rigid" "world_to_view is not a rotation followed by a translation (orthonormal, det 1)"
      -- pos ↦ origin
      let img (q : V3 Q) : V3 Q := let hh := Spec.Mat.mulVec4 vI ⟨q.x, q.y, q.z, 1⟩; ⟨hh.x, hh.y, hh.z⟩
      let v := v.withSpec (!close (V3l (img pos)) [0, 0, 0] (ptTol pos)) "fp-origin" s!"camera position ↦ {(V3l (img pos)).map ratApprox}"
      -- the heading direction ↦ +z
      let fwd3 : V3 Q := ⟨caz * calt, salt, saz * calt⟩
      let v := v.withSpec (!close (V3l (lin.linearPart fwd3)) [0, 0, 1] (List.replicate 3 (t4 * 10))) "fp-heading-axis" s!"heading ↦ {(V3l (lin.linearPart fwd3)).map ratApprox}"
      -- look-at target ↦ (0, 0, d), d = |target − pos|
      let v := if kind == "look" then
          let d := target.sub pos
          let d2 := dot3q d d
          let ti := img target
          let tol := t4 * 10 * (scale + ratAbs target.x + ratAbs target.y + ratAbs target.z)
          if d2 == 0 then tagOnce v "look-at-self"
          else v.withSpec (ratAbs ti.x > tol || ratAbs ti.y > tol || ti.z ≤ 0 || ratAbs (ti.z * ti.z - d2) > 2 * tol * (ti.z + tol)) "fp-lookat-axis"
            s!"look-at target ↦ {(V3l ti).map ratApprox}, distance² {ratApprox d2}"
        else v
      -- translate: displacement along right / up / horizontal heading
      let right : V3 Q := ⟨saz, 0, -caz⟩; let fwdh : V3 Q := ⟨caz, 0, saz⟩
      let want := pos.add (((right.smul delta.x).add ((⟨0, 1, 0⟩ : V3 Q).smul delta.y)).add (fwdh.smul delta.z))
      let v := v.withSpec (!close (o.drop 30) (V3l want) (ptTol delta)) "fp-translate" s!"translate moved to {(o.drop 30).map ratApprox}, expected {(V3l want).map ratApprox}"
      -- … and `right` is the camera's x axis
      v.withSpec (!close (V3l (lin.linearPart right)) [1, 0, 0] (List.replicate 3 (t4 * 10))) "fp-right-axis" "right axis is not the camera's x axis"
    | .panic m, _ => v.withDiff true s!"model panics: {m}"
    | _, none => bad "fp matrix"

/-- f32 `turns(0.5)` = π and `turns(0.25)` = π/2 as exact rationals of their bit patterns. -/
def halfTurn : Q := F32.toRatD 0x40490fdb
def quarterTurn : Q := F32.toRatD 0x3fc90fdb

/-- `fprot`: fresh `FirstPerson::new()` / `default()` state, then relative rotations step by step. -/
def handleFprot (init : String) (steps : List (Q × Q)) (probe delta : V3 Q) (impl : List String) : Verdict :=
  let v := Verdict.ok ["fprot", init, s!"steps{steps.length}"]
  if isPanic impl then (v.withDiff true "implementation panics").withSpec true "fp-panics" s!"first-person camera panics: {impl}"
  else
  match floats 6 impl with
  | none => (v.withDiff true "initial state not finite").withSpec true "non-finite-output" "non-finite first-person state"
  | some (st, rest) =>
    -- documented fresh state: origin, heading spherical(1, 0, 0) = +x axis; exact
    let fresh : FirstPerson Q := FirstPerson.new
    let v := v.withDiff (st.take 3 != V3l fresh.pos || st.drop 3 != [fresh.r, 0, 0]) s!"fresh state: impl {st.map ratApprox}"
    let v := v.withSpec (st != [0, 0, 0, 1, 0, 0]) "fp-new-state" s!"FirstPerson::{init}() is not at the origin heading along +x: {st.map ratApprox}"
    let tol : Q := 1 / 100000
    -- distance on the circle of circumference 2·half
    let circ (a b : Q) : Q := ratAbs (wrapAngle (a - b) (-halfTurn) halfTurn)
    let rec go (steps : List (Q × Q)) (cur : Q × Q) (rest : List String) (v : Verdict) : Verdict × List String :=
      match steps with
      | [] => (v, rest)
      | (daz, dalt) :: more =>
        match floats 2 rest with
        | some ([az, alt], flag :: rest') =>
          let m := rotateBy halfTurn quarterTurn cur daz dalt
          let nearClamp := ratAbs (ratAbs (cur.2 + dalt) - quarterTurn) ≤ tol
          let v := if ratAbs (ratAbs (cur.1 + daz) - halfTurn) ≤ 10 * tol then tagOnce v "at-seam" else v
          let v := if ratAbs (cur.1 + daz) > halfTurn then tagOnce v "wrapped" else v
          let v := if ratAbs (cur.2 + dalt) > quarterTurn then tagOnce v "clamped" else v
          -- correspondence with the model's wrap / clamp (angles compared on the circle: either side of the seam is the same heading)
          let v := v.withDiff (circ az m.1 > tol) s!"azimuth after rotate: impl {ratApprox az} model {ratApprox m.1}"
          let v := v.withDiff (ratAbs (alt - m.2) > tol) s!"altitude after rotate: impl {ratApprox alt} model {ratApprox m.2}"
          -- spec from the case and the implementation's own previous state
          let v := v.withSpec (flag != "1") "fp-rotate-not-rotate-to" "rotate(d_az, d_alt) differs from rotate_to(az + d_az, alt + d_alt)"
          let v := v.withSpec (circ az (cur.1 + daz) > tol || ratAbs az > halfTurn + tol) "fp-rotate-azimuth"
            s!"azimuth {ratApprox cur.1} + {ratApprox daz} became {ratApprox az} (not the sum wrapped into [-half turn, half turn))"
          let want := if cur.2 + dalt > quarterTurn then quarterTurn else if cur.2 + dalt < -quarterTurn then -quarterTurn else cur.2 + dalt
          let v := v.withSpec (!nearClamp && ratAbs (alt - want) > tol || ratAbs alt > quarterTurn + tol) "fp-rotate-altitude"
            s!"altitude {ratApprox cur.2} + {ratApprox dalt} became {ratApprox alt} (not the sum clamped to a quarter turn)"
          go more (az, alt) rest' v
        | _ => (v.withDiff true "rotation step output missing or not finite", [])
    let (v, tail) := go steps (st.getD 4 0, st.getD 5 0) rest v
    -- the resulting camera: the same rigidity / origin / heading-axis / translate judgement as for `fp`
    let w := handleFp ⟨0, 0, 0⟩ "rot-seq" ⟨0, 0, 0⟩ probe delta tail
    let v := { v with tags := w.tags.filter (fun t => t != "fp" && t != "rot-seq") ++ v.tags }
    let v := match w.diff with | some d => v.withDiff true d | none => v
    match w.spec with
    | some (k, msg) => v.withSpec true k msg
    | none => v

def parseSteps : Nat → List String → Option (List (Q × Q) × List String)
  | 0, ts => some ([], ts)
  | n + 1, ts => do
    let (ab, r) ← floats 2 ts
    let (more, r) ← parseSteps n r
    match ab with
    | [a, b] => pure ((a, b) :: more, r)
    | _ => none

def handle' (case impl : List String) : Verdict :=
  match case with
  | "persp" :: f :: a :: n :: fa :: rest =>
    match f? f, f? a, f? n, f? fa, probesOf rest with
    | some f, some a, some n, some fa, some ps => handlePersp f a n fa ps impl
    | _, _, _, _, _ => bad "persp"
  | "ortho" :: rest =>
    match take3 rest with
    | some (l, r1) =>
      match take3 r1 with
      | some (r, r2) =>
        match probesOf r2 with
        | some ps => handleOrtho l r ps impl
        | none => bad "ortho probes"
      | none => bad "ortho rtf"
    | none => bad "ortho lbn"
  | "vport" :: l :: t :: r :: b :: rest =>
    match l.toNat?, t.toNat?, r.toNat?, b.toNat?, probesOf rest with
    | some l, some t, some r, some b, some ps => handleVport l t r b ps impl
    | _, _, _, _, _ => bad "vport"
  | ["rect", h1, v1, h2, v2, x, y] =>
    match rectOf h1 v1, rectOf h2 v2, x.toNat?, y.toNat? with
    | some a, some b, some x, some y => handleRect a b x y impl
    | _, _, _, _ => bad "rect"
  | "rect2" :: l :: t :: r :: b :: rest =>
    match l.toNat?, t.toNat?, r.toNat?, b.toNat? with
    | some l, some t, some r, some b =>
      let a : Rect := ⟨some l, some t, some r, some b⟩
      match rest with
      | ["full", x, y] =>
        match x.toNat?, y.toNat? with
        | some x, some y => handleRect (.ok a) (.ok ⟨none, none, none, none⟩) x y impl
        | _, _ => bad "rect2"
      | [l2, t2, r2, b2, x, y] =>
        match l2.toNat?, t2.toNat?, r2.toNat?, b2.toNat?, x.toNat?, y.toNat? with
        | some l2, some t2, some r2, some b2, some x, some y =>
          handleRect (.ok a) (.ok ⟨some l2, some t2, some r2, some b2⟩) x y impl
        | _, _, _, _, _, _ => bad "rect2"
      | _ => bad "rect2"
    | _, _, _, _ => bad "rect2"
  | "camvp" :: w :: h :: h1 :: v1 :: rest =>
    match w.toNat?, h.toNat?, rectOf h1 v1 with
    | some w, some h, some (.ok r1) =>
      match rest with
      | [] => handleCamvp w h r1 none impl
      | [h2, v2] =>
        match rectOf h2 v2 with
        | some (.ok r2) => handleCamvp w h r1 (some r2) impl
        | _ => bad "camvp second rect"
      | _ => bad "camvp"
    | _, _, _ => bad "camvp"
  | "camproj" :: w :: h :: f :: n :: fa :: hs :: vs :: rest =>
    match w.toNat?, h.toNat?, f? f, f? n, f? fa, rectOf hs vs, floats 16 rest with
    | some w, some h, some f, some n, some fa, some (.ok req), some (vm, rest) =>
      match m4? vm, take3 rest with
      | some view, some (p, [hf, order]) =>
        match f? hf with
        | some half => handleCamproj w h f n fa req view p half order impl
        | none => bad "camproj half"
      | _, _ => bad "camproj tail"
    | _, _, _, _, _, _, _ => bad "camproj"
  | "fprot" :: init :: n :: rest =>
    match n.toNat? with
    | none => bad "fprot n"
    | some n =>
      match parseSteps n rest with
      | some (steps, r) =>
        match take3 r with
        | some (probe, r2) =>
          match take3 r2 with
          | some (delta, _) => handleFprot init steps probe delta impl
          | none => bad "fprot delta"
        | none => bad "fprot probe"
      | none => bad "fprot steps"
  | "fp" :: rest =>
    match take3 rest with
    | some (pos, kind :: r1) =>
      let o : V3 Q := ⟨0, 0, 0⟩
      if kind == "look" then
        match take3 r1 with
        | some (tg, r2) =>
          match take3 r2 with
          | some (probe, r3) =>
            match take3 r3 with
            | some (delta, _) => handleFp pos kind tg probe delta impl
            | none => bad "fp delta"
          | none => bad "fp probe"
        | none => bad "fp target"
      else
        let r2 := if kind == "rot" then r1.drop 2 else r1
        match take3 r2 with
        | some (probe, r3) =>
          match take3 r3 with
          | some (delta, _) => handleFp pos kind o probe delta impl
          | none => bad "fp delta"
        | none => bad "fp probe"
    | _ => bad "fp"
  | _ => bad "unknown op"

def handle (case impl : List String) : Verdict := C09.finalize (handle' case impl)

end Retro.Drv.C08
