/-
Model driver for C09 (transform algebra). One verdict per case; see harness/src/bin/c09.rs
for the case grammar. Float outputs are compared with the exact `Rat` model within
1e-3 of the magnitude scale of the computation (the product of the entry-wise absolute
values, an a-priori bound of every intermediate), never bit for bit.
-/
import Retro.Drv.Common
import Retro.Model.Mat
import Retro.Spec.Mat

namespace Retro.Drv.C09
open Retro Retro.Mat Retro.Drv

abbrev Q := Rat

def f? (t : String) : Option Q := (parseF32Bits? t).bind F32.toRat?

/-- `n` finite floats from the head of a token list. -/
def floats (n : Nat) (ts : List String) : Option (List Q × List String) :=
  let hd := ts.take n
  if hd.length != n then none
  else match hd.mapM f? with
    | some qs => some (qs, ts.drop n)
    | none => none

def v3? : List Q → Option (V3 Q)
  | [a, b, c] => some ⟨a, b, c⟩
  | _ => none
def m4? : List Q → Option (M4 Q)
  | [a, b, c, d, e, f, g, h, i, j, k, l, m, n, o, p] =>
    some ⟨⟨a, b, c, d⟩, ⟨e, f, g, h⟩, ⟨i, j, k, l⟩, ⟨m, n, o, p⟩⟩
  | _ => none
def m3? : List Q → Option (M3 Q)
  | [a, b, c, d, e, f, g, h, i] => some ⟨⟨a, b, c⟩, ⟨d, e, f⟩, ⟨g, h, i⟩⟩
  | _ => none

def V3.toList (v : V3 Q) : List Q := [v.x, v.y, v.z]
def V4.toList (v : V4 Q) : List Q := [v.x, v.y, v.z, v.w]
def M4.toList (m : M4 Q) : List Q := V4.toList m.r0 ++ V4.toList m.r1 ++ V4.toList m.r2 ++ V4.toList m.r3
def M3.toList (m : M3 Q) : List Q := V3.toList m.r0 ++ V3.toList m.r1 ++ V3.toList m.r2

def take3 (ts : List String) : Option (V3 Q × List String) := do
  let (qs, rest) ← floats 3 ts
  let v ← v3? qs
  pure (v, rest)

inductive Spec where
  | T (v : V3 Q)
  | S (v : V3 Q)
  | R (axis : Nat)
  | B (i j k : V3 Q)
  | OY (a x : V3 Q)
  | OZ (a x : V3 Q)
  | M (m : M4 Q)

def Spec.tag : Spec → String
  | .T _ => "T" | .S _ => "S" | .R 0 => "RX" | .R 1 => "RY" | .R _ => "RZ"
  | .B .. => "B" | .OY .. => "OY" | .OZ .. => "OZ" | .M _ => "M"

def parseSpec : List String → Option (Spec × List String)
  | "T" :: ts => do let (v, r) ← take3 ts; pure (.T v, r)
  | "S" :: ts => do let (v, r) ← take3 ts; pure (.S v, r)
  | "RX" :: _ :: ts => some (.R 0, ts)
  | "RY" :: _ :: ts => some (.R 1, ts)
  | "RZ" :: _ :: ts => some (.R 2, ts)
  | "B" :: ts => do
    let (i, r) ← take3 ts; let (j, r) ← take3 r; let (k, r) ← take3 r
    pure (.B i j k, r)
  | "OY" :: ts => do let (a, r) ← take3 ts; let (x, r) ← take3 r; pure (.OY a x, r)
  | "OZ" :: ts => do let (a, r) ← take3 ts; let (x, r) ← take3 r; pure (.OZ a x, r)
  | "M" :: ts => do let (qs, r) ← floats 16 ts; let m ← m4? qs; pure (.M m, r)
  | _ => none

def parseSpecs : Nat → List String → Option (List Spec × List String)
  | 0, ts => some ([], ts)
  | n + 1, ts => do
    let (s, r) ← parseSpec ts
    let (ss, r) ← parseSpecs n r
    pure (s :: ss, r)

/-- 1e-6 as the f32 the code uses in `approx_eq` (std backend), and `f32::EPSILON`. -/
def epsApprox : Q := F32.toRatD 0x358637bd
def epsF32 : Q := 1 / 8388608

/-- Rational approximation (relative error < 1e-12) of 1/√l for l > 0: the value
`recip_sqrt` approximates in `normalize`. Defined by ρ²·l = 1, no transcendental. -/
def recipSqrt (l : Q) : Q :=
  if l ≤ 0 then 0
  else
    -- ρ = √(den/num) = √(den·num) / num
    let n := l.num.natAbs
    let d := l.den
    let k : Nat := 1000000000000000
    (Nat.sqrt (n * d * k * k) : Q) / ((n * k : Nat) : Q)

/-- Build the model matrix of one spec; rotations consume a (sin, cos) pair reported by the
implementation. -/
def build (s : Spec) (trig : List Q) : Option (Outcome (M4 Q) × List Q) :=
  match s with
  | .T v => some (.ok (translate v), trig)
  | .S v => some (.ok (scale v), trig)
  | .R ax =>
    match trig with
    | sn :: cs :: rest =>
      some (.ok (if ax == 0 then rotateX sn cs else if ax == 1 then rotateY sn cs else rotateZ sn cs), rest)
    | _ => none
  | .B i j k => some (.ok (fromBasis i j k), trig)
  | .OY a x => some (orientY epsApprox (recipSqrt (cross x a).lenSqr) a x, trig)
  | .OZ a x => some (orientZ epsApprox (recipSqrt (cross a x).lenSqr) a x, trig)
  | .M m => some (.ok m, trig)

def buildAll : List Spec → List Q → Option (List (Outcome (M4 Q)))
  | [], _ => some []
  | s :: ss, trig => do
    let (m, rest) ← build s trig
    let ms ← buildAll ss rest
    pure (m :: ms)

def allOk : List (Outcome (M4 Q)) → Option (List (M4 Q))
  | [] => some []
  | .ok m :: r => (allOk r).map (m :: ·)
  | .panic _ :: _ => none

def absV (v : V4 Q) : V4 Q := ⟨ratAbs v.x, ratAbs v.y, ratAbs v.z, ratAbs v.w⟩
def absM (m : M4 Q) : M4 Q := ⟨absV m.r0, absV m.r1, absV m.r2, absV m.r3⟩
def absV3 (v : V3 Q) : V3 Q := ⟨ratAbs v.x, ratAbs v.y, ratAbs v.z⟩
def absM3 (m : M3 Q) : M3 Q := ⟨absV3 m.r0, absV3 m.r1, absV3 m.r2⟩

def maxAbs (l : List Q) : Q := l.foldl (fun a x => ratMax a (ratAbs x)) 0

def tagOnce (v : Verdict) (t : String) : Verdict := if v.tags.contains t then v else v.addTag t

/-- Magnitude scale of one constructor's entries. For `orient_*` the entries come out of two
cross products and a normalisation, so an exactly-zero entry of the exact model is the result
of cancellation between O(|new axis|) terms: the scale of the 3×3 block is that bound, not |m|. -/
def shadowOf (s : Spec) (m : M4 Q) : M4 Q :=
  match s with
  | .OY a _ | .OZ a _ =>
    let b := ratMax 1 (2 * maxAbs [a.x, a.y, a.z])
    ⟨⟨b, b, b, 0⟩, ⟨b, b, b, 0⟩, ⟨b, b, b, 0⟩, ⟨0, 0, 0, 1⟩⟩
  | _ => absM m

/-- `c1.then(c2)…then(cn)`: the model's `M4.chain`. -/
def product (ms : List (M4 Q)) : M4 Q := M4.chain ms

/-- Π over rows of the row sums of |m|: an upper bound of every term of the determinant. -/
def detScale (m : M4 Q) : Q :=
  let a := absM m
  let rs (v : V4 Q) := v.x + v.y + v.z + v.w
  rs a.r0 * rs a.r1 * rs a.r2 * rs a.r3

def rel : Q := 1 / 1000

/-- Compare implementation floats with model values, tolerance per component. -/
def cmp (what : String) (model tols : List Q) (impl : List String) : Option String :=
  let rec go : List Q → List Q → List String → Nat → Option String
    | [], _, _, _ => none
    | m :: ms, tol :: ts, i :: is, k =>
      match f? i with
      | none => some s!"{what}[{k}] not finite ({i})"
      | some v => if ratAbs (v - m) ≤ tol then go ms ts is (k + 1)
                  else some s!"{what}[{k}]: impl {ratApprox v} model {ratApprox m} tol {ratApprox tol}"
    | _, _, _, k => some s!"{what}[{k}] missing"
  go model tols impl 0

def close (a b tol : List Q) : Bool :=
  a.length == b.length && ((a.zip b).zip tol).all fun ((x, y), t) => ratAbs (x - y) ≤ t

def isAffine (m : M4 Q) : Bool := m.r3 == ⟨0, 0, 0, 1⟩

def dot3q (a b : V3 Q) : Q := a.x * b.x + a.y * b.y + a.z * b.z
def colV (m : M4 Q) (j : Nat) : V3 Q :=
  ⟨Spec.Mat.e m 0 j, Spec.Mat.e m 1 j, Spec.Mat.e m 2 j⟩

/-- Spec: is `m` (the implementation's own matrix) a rotation: affine, zero translation,
orthonormal linear part, determinant 1 (all within `tol`). -/
def isRotation (m : M4 Q) (tol : Q) : Bool :=
  let c0 := colV m 0; let c1 := colV m 1; let c2 := colV m 2
  isAffine m && colV m 3 == ⟨0, 0, 0⟩ &&
  ratAbs (dot3q c0 c0 - 1) ≤ tol && ratAbs (dot3q c1 c1 - 1) ≤ tol && ratAbs (dot3q c2 c2 - 1) ≤ tol &&
  ratAbs (dot3q c0 c1) ≤ tol && ratAbs (dot3q c0 c2) ≤ tol && ratAbs (dot3q c1 c2) ≤ tol &&
  ratAbs (Spec.Mat.det4 m - 1) ≤ tol

def sqrtQ (q : Q) : Q := if q ≤ 0 then 0 else q * recipSqrt q

/-- Spec of `orient_y(a, x)` / `orient_z(a, x)` on the implementation's matrix (exact arithmetic on its entries):
* the primary axis is sent to `a` exactly;
* the normalised axis `n` (image of z for `orient_y`, of y for `orient_z`) is a unit vector, orthogonal to `a` and to `x`,
  pointing along `c = x × a` (`a × x`);
* the x axis is sent to `a × n` (`n × a`); no translation;
* if `a` is a unit vector the result is a rotation (orthonormal, determinant 1) — whatever the length of the auxiliary `x` and
  however close to parallel the two are, as long as their cross product is not zero.
Direction tolerance: 1e-5 plus the rounding amplification of the cross product, 32·ε·|x||a|/|x×a| (cancellation between nearly
parallel axes is a property of the input, not of the code). -/
def orientJudge (name : String) (a x c prim n third : V3 Q) (isY : Bool) (noTransl : Bool) (m : M4 Q) : Option (String × String) :=
  let aa := dot3q a a; let xx := dot3q x x; let cc := dot3q c c; let nn := dot3q n n
  if cc == 0 then none   -- exactly parallel or zero axes: the debug assertion's business
  else
    let amp := sqrtQ (aa * xx) * recipSqrt cc
    let tau : Q := 1 / 100000 + 32 * epsF32 * amp
    let t5 : Q := 1 / 100000
    let want3 := if isY then cross a n else cross n a
    let d := third.sub want3
    if prim != a then some ("orient-effect", s!"{name}: the primary axis is not sent to the given vector")
    else if !noTransl || !isAffine m then some ("orient-effect", s!"{name}: result has a translation or a projective row")
    else if ratAbs (nn - 1) > 1 / 10000 then
      some ("orient-axis-not-unit", s!"{name}: the normalised axis has squared length {ratApprox nn} (|x×a|² = {ratApprox cc})")
    else if (dot3q n a) * (dot3q n a) > tau * tau * aa * nn || (dot3q n x) * (dot3q n x) > tau * tau * xx * nn then
      some ("orient-effect", s!"{name}: the normalised axis is not orthogonal to both arguments (tolerance {ratApprox tau})")
    else if dot3q n c ≤ 0 then some ("orient-effect", s!"{name}: the normalised axis points against the cross product")
    else if dot3q d d > t5 * t5 * 16 * aa * nn then some ("orient-effect", s!"{name}: x axis is not the cross product of the other two")
    else if ratAbs (aa - 1) ≤ t5 && !isRotation m (1 / 10000 + 4 * tau) then
      some ("orient-not-rotation", s!"{name} with a unit primary axis is not a rotation (orthonormal, det 1)")
    else none

/-- The defining effect of a single constructor, judged on the implementation's matrix `m`
(exact arithmetic on its entries), its reported trig pair, and the case parameters. -/
def ctorSpec (s : Spec) (trig : List Q) (m : M4 Q) : Option (String × String) :=
  let t5 : Q := 1 / 100000
  let lin (v : V3 Q) : V3 Q := m.linearPart v
  let pt (p : V3 Q) : V3 Q := let h := Spec.Mat.mulVec4 m ⟨p.x, p.y, p.z, 1⟩; ⟨h.x, h.y, h.z⟩
  let ex : V3 Q := ⟨1, 0, 0⟩; let ey : V3 Q := ⟨0, 1, 0⟩; let ez : V3 Q := ⟨0, 0, 1⟩
  let o : V3 Q := ⟨0, 0, 0⟩
  match s with
  | .T t =>
    if pt o == t && lin ex == ex && lin ey == ey && lin ez == ez && isAffine m then none
    else some ("translate-effect", "translate(t) does not map p to p + t")
  | .S sc =>
    if pt o == o && lin ex == ⟨sc.x, 0, 0⟩ && lin ey == ⟨0, sc.y, 0⟩ && lin ez == ⟨0, 0, sc.z⟩ && isAffine m then none
    else some ("scale-effect", "scale(s) does not map p to (sx·px, sy·py, sz·pz)")
  | .B i j k =>
    if pt o == o && lin ex == i && lin ey == j && lin ez == k && isAffine m then none
    else some ("from-basis-effect", "from_basis(i,j,k) does not send the axes to i, j, k")
  | .R ax =>
    match trig with
    | sn :: cs :: _ =>
      if ratAbs (sn * sn + cs * cs - 1) > t5 then some ("trig-not-unit", "sin²+cos² ≠ 1")
      else if !isRotation m t5 then some ("rotation-not-orthonormal", "rotation matrix is not orthonormal with determinant 1")
      else
        -- effect pinned by the crate's own tests: rotate_x(90°) z ↦ y, rotate_y(90°) x ↦ z, rotate_z(90°) y ↦ x
        let ok :=
          if ax == 0 then lin ex == ex && lin ez == ⟨0, sn, cs⟩ && lin ey == ⟨0, cs, -sn⟩
          else if ax == 1 then lin ey == ey && lin ex == ⟨cs, 0, sn⟩ && lin ez == ⟨-sn, 0, cs⟩
          else lin ez == ez && lin ey == ⟨sn, cs, 0⟩ && lin ex == ⟨cs, -sn, 0⟩
        if ok then none else some ("rotate-effect", "rotation does not turn the plane by the reported (sin, cos)")
    | _ => some ("rotate-effect", "no trig pair reported")
  | .OY a x => orientJudge "orient_y" a x (cross x a) (lin ey) (lin ez) (lin ex) true (pt o == o) m
  | .OZ a x => orientJudge "orient_z" a x (cross a x) (lin ez) (lin ey) (lin ex) false (pt o == o) m
  | .M mm => if m == mm then none else some ("matrix-new-effect", "Matrix::new does not store its elements")

def countR (ss : List Spec) : Nat := (ss.filter fun s => match s with | .R _ => true | _ => false).length

def scaleTol (sh : M4 Q) : List Q := (M4.toList sh).map (· * rel)

/-- |M|·(|p|,1) per output row, times `rel`. -/
def probeTol (sh : M4 Q) (p : V3 Q) : List Q :=
  (V3.toList (sh.applyPt (absV3 p))).map (· * rel)

def nestedPt (ms : List (M4 Q)) (p : V3 Q) : V3 Q := applyPtSeq ms p
def nestedVec (ms : List (M4 Q)) (p : V3 Q) : V3 Q := applySeq ms p

def parseProbes : Nat → List String → Option (List (V3 Q))
  | 0, _ => some []
  | n + 1, ts => do
    let (p, r) ← take3 ts
    let ps ← parseProbes n r
    pure (p :: ps)

structure ProbeOut where
  pt : List Q
  npt : List Q
  vec : List Q
  nvec : List Q

def parseProbeOuts : Nat → List String → Option (List ProbeOut)
  | 0, _ => some []
  | n + 1, ts => do
    let (a, r) ← floats 3 ts; let (b, r) ← floats 3 r; let (c, r) ← floats 3 r; let (d, r) ← floats 3 r
    let rest ← parseProbeOuts n r
    pure (⟨a, b, c, d⟩ :: rest)

/-- Recorded known findings (known_findings.json, matched by key). The key is attached *after* every other
spec judgement of the case (`finalize`), so that a different violation of the same property on the same case
keeps its own key and is reported as new. -/
def candidate (v : Verdict) (key : String) : Verdict := tagOnce v ("finding:" ++ key)

def findingMsg (key : String) : String :=
  if key == "translate-applied-to-vector" then
    "apply(vector) adds the translation column of the matrix (implicit homogeneous 1, `// TODO w=0.0`): not the linear part"
  else if key == "viewport-disjoint-not-empty" then
    "requested viewport ∩ frame is empty, yet the installed viewport has positive area (abs_diff) and maps NDC outside the frame"
  else if key == "viewport-second-call-loses-frame" then
    "second viewport() call intersected with the first viewport's size instead of the frame"
  else "known finding"

def finalize (v : Verdict) : Verdict :=
  match v.spec with
  | some _ => v
  | none =>
    match v.tags.find? (fun t => t.startsWith "finding:") with
    | some t => let k := (t.drop 8).toString; { v with spec := some (k, findingMsg k) }
    | none => v

def handleChain (specs : List Spec) (probes : List (V3 Q)) (impl : List String) : Verdict :=
  let n := specs.length
  let kinds := if n == 1 then ["single", "ctor-" ++ (specs.head?.map Spec.tag).getD "?"] else [s!"len{n}"]
  let implPanic := (impl.head?.getD "").startsWith "panic:"
  if implPanic then
    -- only the orient asserts / normalize can panic here; the trig pairs are lost, so the model
    -- can only be consulted when the chain has no rotation before the panicking part
    match buildAll specs (List.replicate (2 * countR specs) 0) with
    | some parts =>
      if (allOk parts).isNone then Verdict.ok ("panic" :: kinds)
      else Verdict.mkDiff "implementation panics, model does not" ("panic" :: kinds)
    | none => bad "chain specs"
  else
  match floats (2 * countR specs) impl with
  | none => (Verdict.mkDiff "trig pairs missing or not finite" kinds).withSpec true "non-finite-output" "non-finite trig"
  | some (trig, rest) =>
  match buildAll specs trig with
  | none => bad "chain build"
  | some parts =>
  match allOk parts with
  | none => Verdict.mkDiff "model panics (orient/normalize assert), implementation does not" kinds
  | some ms =>
  match floats 16 rest with
  | none => (Verdict.mkDiff "matrix not finite" kinds).withSpec true "non-finite-output" "non-finite matrix for finite well-conditioned input"
  | some (mI, rest) =>
  match m4? mI, floats (1 + n) rest with
  | some mImpl, some (dets, rest) =>
    let theq := rest.head?.getD ""
    match parseProbeOuts probes.length (rest.drop 1) with
    | none => (Verdict.mkDiff "probe outputs missing or not finite" kinds).withSpec true "non-finite-output" "non-finite probe image"
    | some pouts =>
      let mM := product ms
      let shs := (specs.zip ms).map fun (s, m) => shadowOf s m
      let sh := product shs
      let v := Verdict.ok kinds
      -- correspondence ------------------------------------------------------------------
      let v := match (close mI (M4.toList mM) (scaleTol sh)) with
        | true => v
        | false => v.withDiff true s!"product matrix: impl {mI.map ratApprox} model {(M4.toList mM).map ratApprox}"
      let dM := mM.det
      let v := v.withDiff (ratAbs (dets.headD 0 - dM) > rel * detScale sh) s!"det: impl {ratApprox (dets.headD 0)} model {ratApprox dM}"
      let partDetOk := ((dets.drop 1).zip (ms.zip shs)).all fun (d, m, s) => ratAbs (d - m.det) ≤ rel * detScale s
      let v := v.withDiff (!partDetOk) "determinant of a part differs from the model"
      let v := (probes.zip pouts).foldl (fun v (p, o) =>
        let tol := probeTol sh p
        let v := v.withDiff (!close o.pt (V3.toList (mM.applyPt p)) tol) s!"apply_pt: impl {o.pt.map ratApprox} model {(V3.toList (mM.applyPt p)).map ratApprox}"
        let v := v.withDiff (!close o.vec (V3.toList (mM.apply p)) tol) s!"apply(vec): impl {o.vec.map ratApprox} model {(V3.toList (mM.apply p)).map ratApprox}"
        let ntol := (V3.toList (nestedPt shs (absV3 p))).map (· * rel)
        let v := v.withDiff (!close o.npt (V3.toList (nestedPt ms p)) ntol) "nested apply_pt differs from the model"
        v.withDiff (!close o.nvec (V3.toList (nestedVec ms p)) ntol) "nested apply(vec) differs from the model") v
      -- spec oracle on the implementation's own numbers ----------------------------------------
      let v := v.withSpec (theq != "1") "then-not-compose-swapped" "a.then(b) and b.compose(a) differ"
      let prodDets := (dets.drop 1).foldl (· * ·) 1
      let dscale := shs.foldl (fun a m => a * detScale m) 1
      let v := v.withSpec (ratAbs (dets.headD 0 - prodDets) > rel * dscale) "det-not-multiplicative"
        s!"det(product) = {ratApprox (dets.headD 0)} but product of dets = {ratApprox prodDets}"
      let v := v.withSpec (ratAbs (dets.headD 0 - Spec.Mat.det4 mImpl) > rel * detScale mImpl) "det-wrong"
        s!"determinant() = {ratApprox (dets.headD 0)}, Laplace expansion of the same matrix = {ratApprox (Spec.Mat.det4 mImpl)}"
      let prefixAffine := (ms.take (n - 1)).all isAffine
      let v := if prefixAffine then v.addTag "affine" else v.addTag "nonaffine-prefix"
      let v := (probes.zip pouts).foldl (fun v (p, o) =>
        let tol := probeTol sh p
        let v := v.withSpec (prefixAffine && !close o.pt o.npt (tol.map (· * 2))) "apply-compose-mismatch"
          s!"apply_pt(composed) = {o.pt.map ratApprox} but nested apply_pt = {o.npt.map ratApprox}"
        -- vectors: the property asks for the linear part
        let lin := V3.toList (mImpl.linearPart p)
        let tr := V3.toList (colV mImpl 3)
        if close o.vec lin tol then tagOnce v "vec-linear"
        else if close o.vec ((lin.zip tr).map fun (a, b) => a + b) tol then candidate v "translate-applied-to-vector"
        else v.withSpec true "apply-vec-wrong" s!"apply(vector) = {o.vec.map ratApprox}, linear part gives {lin.map ratApprox}") v
      -- defining effect of a single constructor
      match specs with
      | [s] =>
        match ctorSpec s trig mImpl with
        | some (k, msg) => v.withSpec true k msg
        | none => v
      | _ => v
  | _, _ => Verdict.mkDiff "determinants missing or not finite" kinds

/-- squared Frobenius norm -/
def fro2 (m : M4 Q) : Q := (M4.toList m).foldl (fun a x => a + x * x) 0

def mulTol (a b : M4 Q) : List Q :=
  (M4.toList (Spec.Mat.mul4 (absM a) (absM b))).map fun s => rel * ratMax 1 s

def identList : List Q := M4.toList (M4.identity : M4 Q)

/-- Smallest relative gap between the chosen pivot magnitude and the runner-up over the
four pivot searches (0 = exact tie): tag only, the inverse does not depend on the choice. -/
def pivotTie (a : M4 Q) : Bool :=
  (allIdx.foldl (fun (acc : GJ Q × Bool) idx =>
    let m := acc.1.this
    let p := pivotRow m idx
    let best := absS (m.get p idx)
    let tie := allIdx.any fun r => idx ≤ r && r != p && best != 0 && ratAbs (absS (m.get r idx) - best) ≤ best / 100000
    (fwdStep acc.1 idx, acc.2 || tie)) (⟨a, M4.identity⟩, false)).2

def handleInv (specs : List Spec) (impl : List String) : Verdict :=
  let n := specs.length
  let kinds := [if n == 1 then "single" else s!"len{n}"]
  if (impl.head?.getD "").startsWith "panic:" then
    match buildAll specs (List.replicate (2 * countR specs) 0) with
    | some parts =>
      if (allOk parts).isNone then Verdict.ok ("ctor-panic" :: kinds)
      else Verdict.mkDiff "implementation panics while building the chain, model does not" kinds
    | none => bad "inv specs"
  else
  match floats (2 * countR specs) impl with
  | none => Verdict.mkDiff "trig pairs missing or not finite" kinds
  | some (trig, rest) =>
  match buildAll specs trig with
  | none => bad "inv build"
  | some parts =>
  match allOk parts with
  | none => Verdict.mkDiff "model panics (orient/normalize assert), implementation does not" kinds
  | some ms =>
  match floats 17 rest with
  | none => Verdict.mkDiff "matrix not finite" kinds
  | some (mI17, rest) =>
  match m4? (mI17.take 16) with
  | none => bad "inv matrix"
  | some a =>
    let v := Verdict.ok kinds
    let sh := product ((specs.zip ms).map fun (s, m) => shadowOf s m)
    let v := v.withDiff (!close (mI17.take 16) (M4.toList (product ms)) (scaleTol sh)) "product matrix differs from the model"
    -- exact facts about the implementation's own matrix (independent definitions)
    let dE := Spec.Mat.det4 a
    let adj := Spec.Mat.adj4 a
    let cond2 : Option Q := if dE == 0 then none else some (fro2 a * fro2 adj / (dE * dE))
    let wellCond := match cond2 with | some c => decide (c ≤ 1000000) | none => false
    let v := v.addTag (if dE == 0 then "singular" else if wellCond then "cond<=1e3" else "cond>1e3")
    -- the guard `det² > ε²·Π|rowᵢ|²` (d46db54) in exact arithmetic, and the zone around it where the f32 rounding of
    -- the determinant decides: |det| ≤ 3·threshold (measured on 27 000 matrices of the generator, skewed affine maps included: the f32
    -- determinant is off by at most 0.46·ε·Π|rowᵢ|, and no matrix with |det| ≥ 2·ε·Π|rowᵢ| is rejected by the unchanged guard; the zone was 20·threshold
    -- until seed C09_11, a guard of 8.4·ε, hid inside it)
    let thr := epsF32 * epsF32 * a.scaleSqr
    let nearGuard := decide (dE * dE ≤ 9 * thr)
    let v := if nearGuard then v.addTag "guard-zone" else v
    let model := inverse epsF32 a
    match rest with
    | tok :: outs =>
      if tok.startsWith "panic:" then
        let v := v.addTag tok
        -- judged against the property on the implementation's own matrix: a well-conditioned invertible transform
        -- whose determinant is comfortably above the rounding zone must be inverted, not refused
        -- for THIS judgement "well-conditioned" is read in the 2-norm (cond₂ ≤ 1e3 ⇒ cond_F ≤ 4e3 for a 4×4; we take
        -- cond_F ≤ 2e3): a refusal outside the rounding zone of the guard is never correct, whatever the norm
        let modCond := match cond2 with | some c => decide (c ≤ 4000000) | none => false
        let v := v.withSpec (modCond && !nearGuard) "inverse-det-guard-rejects-well-conditioned"
          s!"inverse() panics ({tok}) although det = {ratApprox dE}, Π|rowᵢ| ≈ √{ratApprox a.scaleSqr} and cond ≤ 1e3"
        match model with
        | .panic _ => if wellCond then { v with amb := true } else v
        | .ok _ =>
          if nearGuard || !wellCond then { v with amb := true }
          else v.withDiff true "implementation panics, model inverts"
      else if tok != "ok" then bad "inv status"
      else
        match floats 48 outs with
        | none =>
          (v.withDiff true "inverse output not finite").withSpec wellCond "inverse-nonfinite" "non-finite inverse of a well-conditioned matrix"
        | some (o, _) =>
          let invI := o.take 16
          match m4? invI with
          | none => bad "inv out"
          | some b =>
            let v := v.addTag s!"xch{exchangeCount a}"
            let v := if pivotTie a then v.addTag "pivot-tie" else v
            if !wellCond then { v with amb := true }   -- outside the property's quantifier: not compared
            else
            -- correspondence: Gauss–Jordan model on the implementation's own input matrix
            let v := match model with
              | .panic m => if nearGuard then { v with amb := true } else v.withDiff true s!"model panics ({m}), implementation returns"
              | .ok bm =>
                let tol := rel * maxAbs (M4.toList bm)
                let v := v.withDiff (!close invI (M4.toList bm) (List.replicate 16 tol)) s!"inverse: impl {invI.map ratApprox} model {(M4.toList bm).map ratApprox}"
                let v := v.withDiff (!close ((o.drop 16).take 16) (M4.toList (a.compose b)) (mulTol a b)) "m.compose(inv) differs from the model's compose on the same operands"
                v.withDiff (!close (o.drop 32) (M4.toList (b.compose a)) (mulTol b a)) "inv.compose(m) differs from the model's compose on the same operands"
            -- spec: exact products of the implementation's matrices
            let v := v.withSpec (!close (M4.toList (Spec.Mat.mul4 a b)) identList (mulTol a b)) "inverse-not-right-inverse"
              s!"M·M⁻¹ ≠ I: {(M4.toList (Spec.Mat.mul4 a b)).map ratApprox}"
            v.withSpec (!close (M4.toList (Spec.Mat.mul4 b a)) identList (mulTol b a)) "inverse-not-left-inverse"
              s!"M⁻¹·M ≠ I: {(M4.toList (Spec.Mat.mul4 b a)).map ratApprox}"
    | [] => bad "inv output"

def handleM3 (f : List Q) (impl : List String) : Verdict :=
  match m3? (f.take 9), m3? ((f.drop 9).take 9), f.drop 18 with
  | some a, some b, [x, y] =>
    let p : V2 Q := ⟨x, y⟩
    let affB := b.r2 == ⟨0, 0, 1⟩
    let v := Verdict.ok ["m3", if affB then "affine" else "nonaffine"]
    match floats 35 impl with
    | none => (v.withDiff true "output not finite").withSpec true "non-finite-output" "non-finite 3x3 output"
    | some (o, rest) =>
      let ab := a.compose b
      let sh := (absM3 a).compose (absM3 b)
      let tolM := (M3.toList sh).map (· * rel)
      let v := v.withDiff (!close (o.take 9) (M3.toList ab) tolM) "3x3 compose differs from the model"
      let v := v.withDiff (!close ((o.drop 9).take 9) (M3.toList (a.andThen b)) ((M3.toList ((absM3 b).compose (absM3 a))).map (· * rel))) "3x3 then differs from the model"
      let v := v.withDiff ((o.drop 18).take 9 != M3.toList a.transpose) "3x3 transpose differs from the model"
      let ap : V2 Q := ⟨ratAbs x, ratAbs y⟩
      let t2 (m : M3 Q) : List Q := let r := m.applyPt ap; [r.x * rel, r.y * rel]
      let l2 (r : V2 Q) : List Q := [r.x, r.y]
      let tolC := t2 sh
      let tolN := let r := (absM3 a).applyPt ((absM3 b).applyPt ap); [r.x * rel, r.y * rel]
      let v := v.withDiff (!close ((o.drop 27).take 2) (l2 (ab.apply p)) tolC) "3x3 apply differs from the model"
      let v := v.withDiff (!close ((o.drop 29).take 2) (l2 (a.apply (b.apply p))) tolN) "3x3 nested apply differs from the model"
      let v := v.withDiff (!close ((o.drop 31).take 2) (l2 (ab.applyPt p)) tolC) "3x3 apply_pt differs from the model"
      let v := v.withDiff (!close ((o.drop 33).take 2) (l2 (a.applyPt (b.applyPt p))) tolN) "3x3 nested apply_pt differs from the model"
      -- spec
      let v := v.withSpec (rest.head?.getD "" != "1") "then-not-compose-swapped" "3x3: b.then(a) and a.compose(b) differ"
      let v := v.withSpec (affB && !close ((o.drop 31).take 2) ((o.drop 33).take 2) (tolN.map (· * 2))) "apply-compose-mismatch"
        "3x3: apply_pt(composed) differs from nested apply_pt"
      -- transposition is exact data movement: transposing the output gives back the input
      v.withSpec (M3.toList (match m3? ((o.drop 18).take 9) with | some t => t.transpose | none => a) != M3.toList a) "transpose-not-involutive" "3x3 transpose"
  | _, _, _ => bad "m3"

def handle' (case impl : List String) : Verdict :=
  match case with
  | "chain" :: n :: rest =>
    match n.toNat? with
    | none => bad "chain n"
    | some n =>
      match parseSpecs n rest with
      | some (specs, "P" :: k :: ps) =>
        match k.toNat? with
        | some k =>
          match parseProbes k ps with
          | some probes => handleChain specs probes impl
          | none => bad "probes"
        | none => bad "probe count"
      | _ => bad "chain specs"
  | "inv" :: n :: rest =>
    match n.toNat? with
    | none => bad "inv n"
    | some n =>
      match parseSpecs n rest with
      | some (specs, []) => handleInv specs impl
      | _ => bad "inv specs"
  | "m3" :: rest =>
    match floats 20 rest with
    | some (f, []) => handleM3 f impl
    | _ => bad "m3 floats"
  | "tr" :: rest =>
    -- exact: compare bit patterns
    if rest.length != 16 then bad "tr" else
    let want := (List.range 16).map fun k => rest.getD ((k % 4) * 4 + k / 4) ""
    let v := (Verdict.ok ["tr"]).withDiff (impl != want) "transpose moves the wrong elements"
    v.withSpec (impl != want) "transpose-wrong" "transpose()[i][j] is not self[j][i]"
  | _ => bad "unknown op"

def handle (case impl : List String) : Verdict := finalize (handle' case impl)

end Retro.Drv.C09
