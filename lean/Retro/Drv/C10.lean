/-
C10 driver.  Three modes (see `Driver/C10.lean`):

  drv_c10                      verdict loop:  "prog <id> <verdict> <class> <sexpr> <body> => ok | err E…"
  drv_c10 emit <tier> <seed>   enumerate programs over the fixed context, one per line
                               "prog <id> <verdict> <class> <sexpr> <body>"   (spaces in <body> are '~')
  drv_c10 prelude              the header of the generated crate (imports, basis tags, helpers) and
                               a last line "PARAMS <parameter list shared by every program>"

The model generates, rustc judges: the harness writes every program as `pub fn pK(PARAMS) { <body> }`
into one crate that depends on /repo/core and runs `cargo check` once.
-/
import Retro.Drv.Common
import Retro.Model.TypeAlg
import Retro.Spec.TypeCorpus
import Std.Data.HashMap
import Std.Data.HashSet
import Retro.Spec.TypeFrontDoors

namespace Retro.Drv.C10
open Retro Retro.Drv Retro.TypeAlg

/-! ### The fixed context: one variable per interesting type (`Retro/Spec/TypeCorpus.lean`) -/

def b1 : Basis := TypeCorpus.b1
def b2 : Basis := TypeCorpus.b2
def b3 : Basis := TypeCorpus.b3
def Γ : Ctx := TypeCorpus.Γ
def ctx : List (String × Ty) := TypeCorpus.ctxNames.zip TypeCorpus.Γ
def varName (i : Nat) : String := TypeCorpus.ctxNames.getD i s!"x{i}"

/-! ### Rust rendering -/

def rsBasis : Basis → String
  | .unit => "()"
  | .named i => s!"B{i}"

def rsTag : Tag → String
  | .real n b => s!"Real<{n}, {rsBasis b}>"
  | .proj4 => "Proj4"
  | .polar => "Polar"
  | .spherical => "Spherical"
  | .rgb => "Rgb" | .rgba => "Rgba" | .linRgb => "LinRgb" | .hsl => "Hsl" | .hsla => "Hsla"
  | .unit => "()"
  | .r2r n s d => s!"RealToReal<{n}, {rsBasis s}, {rsBasis d}>"
  | .r2p s => s!"RealToProj<{rsBasis s}>"

def rsSc : Sc → String
  | .f32 => "f32" | .i32 => "i32" | .u32 => "u32" | .u8 => "u8"

def rsTy : Ty → String
  | .sc s => rsSc s
  | .angle => "Angle"
  | .vec s n sp => s!"Vector<[{rsSc s}; {n}], {rsTag sp}>"
  | .pt s n sp => s!"Point<[{rsSc s}; {n}], {rsTag sp}>"
  | .col s n sp => s!"Color<[{rsSc s}; {n}], {rsTag sp}>"
  | .mat n m => s!"Matrix<[[f32; {n}]; {n}], {rsTag m}>"
  | .pair a b => s!"({rsTy a}, {rsTy b})"
  | .arr s n => s!"[{rsSc s}; {n}]"
  | .arr2 n => s!"[[f32; {n}]; {n}]"
  | .unit => "()"

def rs1 (o : Op1) (A : String) : String :=
  match o with
  | .neg => s!"(-{A})"
  | .mNeg => s!"{A}.neg()"
  | .to t => s!"{A}.to::<{rsTag t}>()"
  | .toPt => s!"{A}.to_pt()"
  | .toVec => s!"{A}.to_vec()"
  | .len => s!"{A}.len()"
  | .normalize => s!"{A}.normalize()"
  | .inverse => s!"{A}.inverse()"
  | .transpose => s!"{A}.transpose()"
  | .determinant => s!"{A}.determinant()"
  | .rowVec => s!"{A}.row_vec(0)"
  | .colVec => s!"{A}.col_vec(0)"
  | .degs => s!"degs({A})" | .rads => s!"rads({A})" | .turns => s!"turns({A})"
  | .asin => s!"asin({A})" | .acos => s!"acos({A})"
  | .sin => s!"{A}.sin()" | .cos => s!"{A}.cos()" | .tan => s!"{A}.tan()" | .sinCos => s!"{A}.sin_cos()"
  | .toRads => s!"{A}.to_rads()" | .toDegs => s!"{A}.to_degs()" | .toTurns => s!"{A}.to_turns()"
  | .angleCtor => s!"Angle({A})"
  | .field0 => s!"{A}.0"
  | .angleFrom => s!"Angle::from({A})"
  | .rotateX => s!"rotate_x({A})" | .rotateY => s!"rotate_y({A})" | .rotateZ => s!"rotate_z({A})"
  | .translate => s!"translate({A})" | .scale => s!"scale({A})"
  | .toCart => s!"{A}.to_cart()" | .toPolar => s!"{A}.to_polar()" | .toSpherical => s!"{A}.to_spherical()"
  | .az => s!"{A}.az()"
  | .toRgb => s!"{A}.to_rgb()" | .toRgba => s!"{A}.to_rgba()" | .toHsl => s!"{A}.to_hsl()"
  | .toHsla => s!"{A}.to_hsla()" | .toLinear => s!"{A}.to_linear()" | .toSrgb => s!"{A}.to_srgb()"
  | .toColor3 => s!"{A}.to_color3()" | .toColor4 => s!"{A}.to_color4()"
  | .chanR => s!"{A}.r()" | .chanH => s!"{A}.h()" | .compZ => s!"{A}.z()"
  | .render =>
    "render([Tri([0usize, 1, 2])], verts(), &Shader::new(|_p: Point3<B1>, _u: ()| vertex(" ++ A ++
    ", ()), |_f: Frag<()>| rgba(0u8, 0, 0, 0)), (), vp(), &mut fb(), &Context::default())"

def rs2 (o : Op2) (A B : String) : String :=
  match o with
  | .add => s!"({A} + {B})" | .sub => s!"({A} - {B})" | .mul => s!"({A} * {B})" | .div => s!"({A} / {B})"
  | .mAdd => s!"{A}.add(&{B})" | .mSub => s!"{A}.sub(&{B})" | .mMul => s!"{A}.mul({B})"
  | .addAssign => "({ let mut t = " ++ A ++ "; t += " ++ B ++ "; t })"
  | .subAssign => "({ let mut t = " ++ A ++ "; t -= " ++ B ++ "; t })"
  | .mulAssign => "({ let mut t = " ++ A ++ "; t *= " ++ B ++ "; t })"
  | .divAssign => "({ let mut t = " ++ A ++ "; t /= " ++ B ++ "; t })"
  | .vproj => s!"{A}.vector_project(&{B})" | .min => s!"{A}.min({B})"
  | .sproj => s!"{A}.scalar_project(&{B})" | .distanceSqr => s!"{A}.distance_sqr(&{B})"
  | .rem => s!"({A} % {B})"
  | .orientY => s!"orient_y({A}, {B})" | .orientZ => s!"orient_z({A}, {B})"
  | .dot => s!"{A}.dot(&{B})" | .cross => s!"{A}.cross(&{B})" | .distance => s!"{A}.distance(&{B})"
  | .apply => s!"{A}.apply(&{B})" | .applyPt => s!"{A}.apply_pt(&{B})"
  | .compose => s!"{A}.compose(&{B})" | .thn => s!"{A}.then(&{B})"
  | .polar => s!"polar({A}, {B})" | .atan2 => s!"atan2({A}, {B})"
  | .pairOf => s!"({A}, {B})"

def rs3 (o : Op3) (A B C : String) : String :=
  match o with
  | .lerp => s!"{A}.lerp(&{B}, {C})"
  | .clamp => s!"{A}.clamp(&{B}, &{C})"
  | .dvdt => s!"{A}.dv_dt(&{B}, {C})"
  | .spherical => s!"spherical({A}, {B}, {C})"

def rsExpr : Expr → String
  | .var i => varName i
  | .un o a => rs1 o (rsExpr a)
  | .bin o a b => rs2 o (rsExpr a) (rsExpr b)
  | .ter o a b c => rs3 o (rsExpr a) (rsExpr b) (rsExpr c)

/-- Accepted programs ascribe the model's result type, so rustc checks that too. -/
def rsBody (e : Expr) : String :=
  match infer Γ e with
  | some t => s!"let _: {rsTy t} = {rsExpr e};"
  | none => s!"let _ = {rsExpr e};"

def params : String := ", ".intercalate (ctx.map fun (n, t) => s!"{n}: {rsTy t}")

def prelude : List String := [
  "#![allow(warnings)]",
  "use re::math::*;",
  "use re::math::space::{Real, Proj4};",
  "use re::math::mat::{RealToReal, RealToProj};",
  "use re::math::color::{Color, Rgb, Rgba, Hsl, Hsla, LinRgb};",
  "use re::math::angle::{Polar, Spherical};",
  "use re::math::Lerp;",
  "use re::geom::{vertex, Tri, Vertex};",
  "use re::render::{render, Context, NdcToScreen, shader::Shader, raster::Frag, target::Framebuf};",
  "use re::util::buf::Buf2;",
  "#[derive(Copy, Clone, Debug, Default, Eq, PartialEq)] pub struct B1;",
  "#[derive(Copy, Clone, Debug, Default, Eq, PartialEq)] pub struct B2;",
  "#[derive(Copy, Clone, Debug, Default, Eq, PartialEq)] pub struct B3;",
  "fn fb() -> Framebuf<Buf2<u32>, Buf2<f32>> { Framebuf { color_buf: Buf2::new((4, 4)), depth_buf: Buf2::new((4, 4)) } }",
  "fn vp() -> Mat4x4<NdcToScreen> { viewport(pt2(0, 0)..pt2(4, 4)) }",
  "fn verts() -> [Point3<B1>; 3] { [pt3(0.0, 0.0, 0.0); 3] }"]

/-! ### Compact prefix encoding of expressions (carried in the case line) -/

def op1Names : List (String × Op1) := [
  ("neg", .neg), ("mNeg", .mNeg), ("toPt", .toPt), ("toVec", .toVec), ("len", .len),
  ("normalize", .normalize), ("inverse", .inverse), ("transpose", .transpose),
  ("determinant", .determinant), ("rowVec", .rowVec), ("colVec", .colVec),
  ("degs", .degs), ("rads", .rads), ("turns", .turns), ("asin", .asin), ("acos", .acos),
  ("sin", .sin), ("cos", .cos), ("tan", .tan), ("sinCos", .sinCos),
  ("toRads", .toRads), ("toDegs", .toDegs), ("toTurns", .toTurns),
  ("angleCtor", .angleCtor), ("field0", .field0), ("angleFrom", .angleFrom),
  ("rotateX", .rotateX), ("rotateY", .rotateY), ("rotateZ", .rotateZ),
  ("translate", .translate), ("scale", .scale),
  ("toCart", .toCart), ("toPolar", .toPolar), ("toSpherical", .toSpherical), ("az", .az),
  ("toRgb", .toRgb), ("toRgba", .toRgba), ("toHsl", .toHsl), ("toHsla", .toHsla),
  ("toLinear", .toLinear), ("toSrgb", .toSrgb), ("toColor3", .toColor3), ("toColor4", .toColor4),
  ("chanR", .chanR), ("chanH", .chanH), ("compZ", .compZ),
  ("render", .render)]

def op2Names : List (String × Op2) := [
  ("add", .add), ("sub", .sub), ("mul", .mul), ("div", .div),
  ("mAdd", .mAdd), ("mSub", .mSub), ("mMul", .mMul),
  ("addAssign", .addAssign), ("subAssign", .subAssign), ("mulAssign", .mulAssign), ("divAssign", .divAssign),
  ("dot", .dot), ("cross", .cross), ("distance", .distance), ("vproj", .vproj), ("min", .min),
  ("sproj", .sproj), ("distanceSqr", .distanceSqr), ("rem", .rem), ("orientY", .orientY), ("orientZ", .orientZ),
  ("apply", .apply), ("applyPt", .applyPt), ("compose", .compose), ("then", .thn),
  ("polar", .polar), ("atan2", .atan2), ("pairOf", .pairOf)]

def op3Names : List (String × Op3) :=
  [("lerp", .lerp), ("spherical", .spherical), ("clamp", .clamp), ("dvdt", .dvdt)]

def encBasis : Basis → String
  | .unit => "u"
  | .named i => s!"b{i}"

def decBasis (s : String) : Option Basis :=
  if s == "u" then some .unit
  else if s.startsWith "b" then (s.drop 1).toString.toNat?.map .named
  else none

def encTag : Tag → String
  | .real n b => s!"R{n}.{encBasis b}"
  | .proj4 => "P4" | .polar => "Pol" | .spherical => "Sph"
  | .rgb => "Rgb" | .rgba => "Rgba" | .linRgb => "Lin" | .hsl => "Hsl" | .hsla => "Hsla"
  | .unit => "U"
  | .r2r n s d => s!"RR{n}.{encBasis s}.{encBasis d}"
  | .r2p s => s!"RP.{encBasis s}"

def decTag (s : String) : Option Tag :=
  match s.splitOn "." with
  | ["P4"] => some .proj4 | ["Pol"] => some .polar | ["Sph"] => some .spherical
  | ["Rgb"] => some .rgb | ["Rgba"] => some .rgba | ["Lin"] => some .linRgb
  | ["Hsl"] => some .hsl | ["Hsla"] => some .hsla | ["U"] => some .unit
  | ["RP", b] => (decBasis b).map .r2p
  | [r, b] =>
    if r.startsWith "R" then do
      let n ← (r.drop 1).toString.toNat?
      let b ← decBasis b
      pure (.real n b)
    else none
  | [r, s, d] =>
    if r.startsWith "RR" then do
      let n ← (r.drop 2).toString.toNat?
      let s ← decBasis s
      let d ← decBasis d
      pure (.r2r n s d)
    else none
  | _ => none

def op1Name (o : Op1) : String :=
  match o with
  | .to t => "to:" ++ encTag t
  | _ => ((op1Names.find? (·.2 == o)).map (·.1)).getD "?"

def op2Name (o : Op2) : String := ((op2Names.find? (·.2 == o)).map (·.1)).getD "?"
def op3Name (o : Op3) : String := ((op3Names.find? (·.2 == o)).map (·.1)).getD "?"

def encExpr : Expr → String
  | .var i => s!"v{i}"
  | .un o a => op1Name o ++ "," ++ encExpr a
  | .bin o a b => op2Name o ++ "," ++ encExpr a ++ "," ++ encExpr b
  | .ter o a b c => op3Name o ++ "," ++ encExpr a ++ "," ++ encExpr b ++ "," ++ encExpr c

def decOp1 (t : String) : Option Op1 :=
  if t.startsWith "to:" then (decTag (t.drop 3).toString).map .to
  else (op1Names.find? (·.1 == t)).map (·.2)

/-- Prefix parser: returns the expression and the remaining tokens. -/
def decToks : Nat → List String → Option (Expr × List String)
  | 0, _ => none
  | _, [] => none
  | fuel + 1, t :: rest =>
    if t.startsWith "v" && ((t.drop 1).toString.toNat?).isSome then
      some (.var ((t.drop 1).toString.toNat?.getD 0), rest)
    else match decOp1 t with
      | some o => do
        let (a, r) ← decToks fuel rest
        pure (.un o a, r)
      | none =>
        match op2Names.find? (·.1 == t) with
        | some (_, o) => do
          let (a, r) ← decToks fuel rest
          let (b, r) ← decToks fuel r
          pure (.bin o a b, r)
        | none =>
          match op3Names.find? (·.1 == t) with
          | some (_, o) => do
            let (a, r) ← decToks fuel rest
            let (b, r) ← decToks fuel r
            let (c, r) ← decToks fuel r
            pure (.ter o a b c, r)
          | none => none

def decExpr (s : String) : Option Expr :=
  let toks := s.splitOn ","
  match decToks (toks.length + 1) toks with
  | some (e, []) => some e
  | _ => none

/-! ### Enumeration -/

def toTargets : List Tag :=
  [.real 3 b1, .real 3 b2, .real 2 b1, .real 3 .unit, .real 2 .unit, .rgb, .proj4, .r2r 3 b1 b2, .r2r 3 b2 b1,
   .r2p b1, .unit]

def ops1 : List Op1 := op1Names.map (·.2) ++ toTargets.map .to
def ops2 : List Op2 := op2Names.map (·.2)

def atoms : List Expr := (List.range ctx.length).map .var
/-- candidates for the `t` of lerp and the arguments of `spherical`: f32, i32, Angle -/
def tAtoms : List Expr := [.var 0, .var 1, .var 2]

def headName : Expr → String
  | .var _ => "var"
  | .un o _ => match o with | .to _ => "to" | _ => op1Name o
  | .bin o _ _ => op2Name o
  | .ter o _ _ _ => op3Name o

def kindName : Ty → String
  | .sc s => rsSc s
  | .angle => "angle"
  | .vec s _ _ => "vec" ++ (if s == .f32 then "" else rsSc s)
  | .pt .. => "pt"
  | .col s _ _ => "col" ++ (if s == .f32 then "" else rsSc s)
  | .mat .. => "mat"
  | .pair .. => "pair"
  | .arr .. | .arr2 _ => "arr"
  | .unit => "unit"

def children : Expr → List Expr
  | .var _ => []
  | .un _ a => [a]
  | .bin _ a b => [a, b]
  | .ter _ a b c => [a, b, c]

def verdictWords : Judgement → String × String
  | .accept _ => ("accept", "-")
  | .misuse m => ("reject", m.name)
  | .other => ("reject", "ill-sorted")

/-- operands of tuple formation (tuples only matter as `Lerp` operands): s, v1, v2, c1 -/
def pairAtoms : List Expr := [.var 0, .var 3, .var 4, .var 12]

/-- All programs with exactly one operator applied to variables. -/
def level2 (_ : Unit) : List Expr :=
  (ops1.flatMap fun o => atoms.map fun a => Expr.un o a) ++
  (ops2.flatMap fun o => atoms.flatMap fun a => atoms.filterMap fun b =>
    if o == .pairOf && !(pairAtoms.contains a && pairAtoms.contains b) then none else some (Expr.bin o a b)) ++
  (atoms.flatMap fun a => atoms.flatMap fun b => tAtoms.map fun t => Expr.ter .lerp a b t) ++
  (tAtoms.flatMap fun a => tAtoms.flatMap fun b => tAtoms.map fun c => Expr.ter .spherical a b c) ++
  (atoms.flatMap fun a => atoms.flatMap fun b => tAtoms.map fun t => Expr.ter .dvdt a b t) ++
  -- clamp(a, b, c): all (a, b) with c ∈ {a, b}
  (atoms.flatMap fun a => atoms.flatMap fun b => [Expr.ter .clamp a b a, Expr.ter .clamp a b b])

/-- Is this accepted one-operator program allowed to serve as a compound operand?  (Keeps the
number of operand types small: conversions only of a few variables, one pair, one raw array.) -/
def repCandidate : Expr → Bool
  | .un (.to t) (.var i) =>
    [(3, Tag.real 3 b2), (3, .rgb), (3, .proj4), (5, .real 3 b1), (5, .real 2 .unit), (7, .real 3 b2), (7, .real 2 b1),
     (16, .r2r 3 b2 b1), (16, .r2p b1), (16, .unit), (16, .real 3 b1), (21, .r2r 3 b1 b2)].contains (i, t)
  | .un .field0 _ => false                                -- raw arrays are not operands of interest
  | .bin .pairOf (.var i) (.var j) => (i == 3 || i == 4) && j == 12   -- (v1, c1), (v2, c1)
  | _ => true

/-- Accepted one-operator programs, at most `k` per result type (with different head operators):
the compound operands of the nested programs. -/
def representatives (k : Nat) : List (Expr × Ty) := Id.run do
  let mut out : Array (Expr × Ty) := #[]
  for e in level2 () do
    if repCandidate e then
      match infer Γ e with
      | some t =>
        let same := out.toList.filter (·.2 == t)
        if same.length < k && !(same.any fun (e', _) => headName e' == headName e) then
          out := out.push (e, t)
      | none => pure ()
  return out.toList

/-- Nested programs: an operator applied to operands of which at least one is compound. -/
def level3 (k : Nat) : List Expr :=
  let reps := (representatives k).map (·.1)
  let all := atoms ++ reps
  ((ops1.filter (· != .field0)).flatMap fun o => reps.map fun a => Expr.un o a) ++
  ((ops2.filter (· != .pairOf)).flatMap fun o =>
    (reps.flatMap fun a => all.map fun b => Expr.bin o a b) ++
    (atoms.flatMap fun a => reps.map fun b => Expr.bin o a b)) ++
  (reps.flatMap fun a => all.flatMap fun b => [Expr.ter .lerp a b (.var 0)]) ++
  (atoms.flatMap fun a => reps.map fun b => Expr.ter .lerp a b (.var 0))

def fnv (s : String) : UInt64 :=
  s.toList.foldl (fun h c => (h ^^^ c.toNat.toUInt64) * 0x100000001b3) 0xcbf29ce484222325

structure Prog where
  id : Nat
  e : Expr
  v : Judgement
  deriving Inhabited

def kindSig (p : Prog) : String :=
  ",".intercalate ((children p.e).map fun c => match infer Γ c with | some t => kindName t | none => "?")

def stratum (p : Prog) : String :=
  s!"{p.e.depth}/{headName p.e}/{(verdictWords p.v).2}"

/-- The full, deterministic programme list (ids are positions in it). -/
def allProgs (_ : Unit) : List Prog :=
  let es := level2 () ++ level3 1
  (es.zipIdx).map fun (e, i) => { id := i, e := e, v := classify Γ e }

/-! ### Near-miss variants of accepted nested programs

The property speaks of a misuse and "the twin that differs only in having matching tags".  Read
backwards: from every *accepted* nested program, replace the variables of one operand by their
sibling of another tag (`v1 ↔ v2`, `p1 ↔ p2`, `c1 ↔ c2`, `c4 ↔ c5`, `m12 ↔ m21`, `mp1 ↔ mp2`,
`s ↔ a`, …).  These are the programs that start to compile when the *result type* of an API entry
loses or widens its tag (e.g. `c4.add(&c5.sub(&c5))` when `<Color<[u8;N],Sp> as Affine>::Diff` forgets `Sp`). -/

def sibling : Nat → Option Nat
  | 0 => some 2 | 2 => some 0 | 1 => some 0
  | 3 => some 4 | 4 => some 3 | 6 => some 3 | 5 => some 3
  | 7 => some 8 | 8 => some 7 | 9 => some 7
  | 10 => some 11 | 11 => some 10
  | 12 => some 13 | 13 => some 12 | 14 => some 12
  | 15 => some 23 | 23 => some 15
  | 16 => some 17 | 17 => some 16 | 18 => some 16
  | 19 => some 20 | 20 => some 19
  | 21 => some 24 | 24 => some 21 | 22 => some 16
  | _ => none

def substAll : Expr → Expr
  | .var i => .var ((sibling i).getD i)
  | .un o a => .un o (substAll a)
  | .bin o a b => .bin o (substAll a) (substAll b)
  | .ter o a b c => .ter o (substAll a) (substAll b) (substAll c)

def variantsOf : Expr → List Expr
  | .var _ => []
  | .un o a => [.un o (substAll a)]
  | .bin o a b => [.bin o (substAll a) b, .bin o a (substAll b)]
  | .ter o a b c => [.ter o (substAll a) b c, .ter o a (substAll b) c, .ter o a b (substAll c)]

/-- Variants of all accepted nested programs (each once). -/
def nearMisses (ps : List Prog) : List Prog := Id.run do
  let mut seen : Std.HashSet String := {}
  let mut out : Array Prog := #[]
  let mut next := 1000000
  for p in ps do
    match p.v with
    | .accept _ =>
      if p.e.depth > 2 then
        for e in variantsOf p.e do
          let k := encExpr e
          if !seen.contains k then
            seen := seen.insert k
            out := out.push { id := next, e := e, v := classify Γ e }
            next := next + 1
    | _ => pure ()
  return out.toList

/-- Keep the first program of every expression. -/
def dedupe (ps : List Prog) : List Prog := Id.run do
  let mut seen : Std.HashSet String := {}
  let mut out : Array Prog := #[]
  for p in ps do
    let k := encExpr p.e
    if !seen.contains k then
      seen := seen.insert k
      out := out.push p
  return out.toList

/-- thorough: the complete enumeration (every one-operator program, every nested program, every
near-miss variant).
quick: every one-operator program; every nested program that the model accepts; every near-miss variant;
a quarter of the other nested programs it rejects as a misuse and a sixteenth of the nested ill-sorted
ones (by hash + seed). -/
def select (thorough : Bool) (seed : Nat) : List Prog :=
  let ps := allProgs ()
  let near := nearMisses ps
  if thorough then dedupe (ps ++ near)
  else
    dedupe <| near ++ ps.filter fun p =>
      p.e.depth ≤ 2 ||
      (match p.v with
       | .accept _ => true
       | .misuse _ => ((fnv (encExpr p.e)).toNat + seed) % 4 == 0
       | .other => ((fnv (encExpr p.e)).toNat + seed) % 16 == 0)

def encodeSpaces (s : String) : String := s.replace " " "~"
def decodeSpaces (s : String) : String := s.replace "~" " "

def progLine (p : Prog) : String :=
  let (v, c) := verdictWords p.v
  s!"prog {p.id} {v} {c} {encExpr p.e} {encodeSpaces (rsBody p.e)}"

/-- Front-door programs outside the expression language (`Spec/TypeFrontDoors.lean`), in the `prog` line
format with `raw:<k>` in the expression slot so that the harness treats them like any other program. -/
def rawLines : List String :=
  (TypeFrontDoors.frontDoors.zipIdx).map fun ((_, acc, cls, body), k) =>
    s!"prog {950000 + k} {if acc then "accept" else "reject"} {cls} raw:{k} {encodeSpaces body}"

/-! ### Verdicts -/

/-- The rustc error codes that reject a program for a type / trait / visibility reason — exactly the
codes observed on the complete enumeration; any other code (syntax, name resolution E0425/E0433, inference
E0282/E0283, arity E0061 …) means the *printer* produced a bad program and is a DIFF. -/
def typeErrorCodes : List String :=
  ["E0308", "E0599", "E0369", "E0368", "E0277", "E0600", "E0271", "E0423", "E0616", "E0610",
   "E0080"]   -- E0080: a `const { assert!(..) }` of the crate failed (post-monomorphisation)

/-- Which rejections the *syntactic form* of an API entry can produce.  E0599 ("no method named …") is only
possible for method-call syntax; a free function or an operator that is rejected with E0599, or a method that is
"rejected" by a binary-operator error, is a printer bug, not an agreeing reject. -/
def codesOf1 : Op1 → List String
  | .neg => ["E0600", "E0277"]
  | .degs | .rads | .turns | .asin | .acos | .rotateX | .rotateY | .rotateZ | .translate | .scale =>
    ["E0308"]                                   -- free functions: only an argument mismatch
  | .angleCtor => ["E0423"]                     -- private tuple-struct constructor
  | .angleFrom => ["E0308", "E0277"]
  | .field0 => ["E0616", "E0610"]               -- private field / field access on a primitive
  | .render => ["E0271", "E0308", "E0277"]
  | .transpose => ["E0599", "E0080"]
  | _ => ["E0599", "E0308", "E0277"]            -- methods
def codesOf2 : Op2 → List String
  | .add | .sub | .mul | .div | .rem => ["E0369", "E0277", "E0308", "E0271"]   -- E0271: `f32 * Vector` where Vector: Linear<Scalar = f32>
  | .addAssign | .subAssign | .mulAssign | .divAssign => ["E0368", "E0277", "E0308"]
  | .polar | .atan2 | .orientY | .orientZ => ["E0308"]
  | .pairOf => []
  | _ => ["E0599", "E0308", "E0277"]
def codesOf3 : Op3 → List String
  | .spherical => ["E0308"]
  | _ => ["E0599", "E0308", "E0277"]

def possibleCodes : Expr → List String
  | .var _ => []
  | .un o a => codesOf1 o ++ possibleCodes a
  | .bin o a b => codesOf2 o ++ possibleCodes a ++ possibleCodes b
  | .ter o a b c => codesOf3 o ++ possibleCodes a ++ possibleCodes b ++ possibleCodes c

/-- Every API entry of the language except `Angle(x)`, which never compiles by design (its rejection is pinned
to E0423 by `codesOf1`). -/
def liveOps : List String :=
  ((op1Names.map (·.1)).filter (· != "angleCtor")) ++ ["to"] ++ op2Names.map (·.1) ++ op3Names.map (·.1)

/-- Liveness: `impl` lists the operators that occur in at least one program rustc ACCEPTED in this run.
An operator that is never accepted would make all its "agreeing rejects" meaningless (e.g. a trait that the
generated prelude forgot to import: every call is then E0599, and the model, rejecting the misuses, "agrees").
Since all generated files share one prelude, one accepted call of a method also shows that its trait is in
scope for every other call, so the remaining E0599s are genuine "no impl for this receiver". -/
def handleLive (impl : List String) : Retro.Drv.Verdict :=
  let missing := liveOps.filter fun o => !impl.contains o
  if missing.isEmpty then Verdict.ok ["liveness"]
  else Verdict.mkDiff s!"no program using these API entries was accepted by rustc in this run: {missing}" ["liveness"]

/-- A front-door program: the expected verdict comes from the table in `Spec/TypeFrontDoors.lean` (never
from the case line); rustc accepting a listed misuse is a SPEC failure of the property, rustc rejecting a
twin (or rejecting a misuse with a non-type error) breaks the correspondence. -/
def handleRaw (k : Nat) (src : String) (impl : List String) : Retro.Drv.Verdict :=
  match TypeFrontDoors.frontDoors[k]? with
  | none => bad "front-door index"
  | some (name, acc, cls, body) =>
    let tags := ["front-door", name, if acc then "accept" else "reject:" ++ cls]
    if src != body then Verdict.mkDiff s!"case source differs from the front-door table: {body}" tags
    else
    match impl with
    | ["ok"] =>
      if acc then Verdict.ok (tags ++ ["rustc-ok"])
      else Verdict.mkSpec cls s!"compiles although it commits {cls} through a front door ({name}): {body}" (tags ++ ["rustc-ok"])
    | "err" :: codes =>
      let typeish := !codes.isEmpty && codes.all fun c => typeErrorCodes.contains c
      if acc then Verdict.mkDiff s!"front-door twin {name} is rejected by rustc with {codes}: {body}" tags
      else if typeish then Verdict.ok (tags ++ ["rustc-type-error"])
      else Verdict.mkDiff s!"front-door program {name} is rejected with a non-type error {codes} (bad program text?): {body}" tags
    | _ => bad "implementation output"

def handleProg (sx : String) (rest impl : List String) : Retro.Drv.Verdict :=
    match decExpr sx with
    | none => bad "expression"
    | some e =>
      let src := decodeSpaces (rest.getD 0 (encodeSpaces (rsBody e)))
      let v := classify Γ e
      let (vw, cls) := verdictWords v
      let tags := [s!"d{e.depth}", headName e, if vw == "accept" then "accept" else "reject:" ++ cls]
      let tags := if cls == "ill-sorted" then tags ++ ["ill-sorted"] else tags
      -- the printed source must be the model's rendering of the parsed expression
      if src != rsBody e then Verdict.mkDiff s!"case source differs from the model's rendering: {rsBody e}" tags
      else
      match impl with
      | ["ok"] =>
        match v with
        | .accept _ => Verdict.ok (tags ++ ["rustc-ok"]).reverse
        | .misuse m =>
          Verdict.mkSpec m.name s!"compiles although it commits {m.name}: {rsExpr e}" (tags ++ ["rustc-ok"]).reverse
        | .other =>
          Verdict.mkDiff s!"model knows no such operation but rustc accepts: {rsExpr e}" (tags ++ ["rustc-ok"]).reverse
      | "err" :: codes =>
        let typeish := !codes.isEmpty && codes.all fun c => typeErrorCodes.contains c
        let plausible := codes.all fun c => (possibleCodes e).contains c
        let tags := tags ++ [if !typeish then "rustc-other-error"
                             else if codes.contains "E0080" then "rustc-const-assert"
                             else if codes == ["E0599"] then "rustc-no-method" else "rustc-type-error"]
        match v with
        | .accept t =>
          Verdict.mkDiff s!"model accepts ({rsTy t}) but rustc rejects with {codes}: {rsExpr e}" tags.reverse
        | _ =>
          if typeish && plausible then Verdict.ok tags.reverse
          else if typeish then
            Verdict.mkDiff s!"rustc rejects with {codes}, which the syntactic form of these API entries cannot produce (printer bug?): {rsExpr e}" tags.reverse
          else Verdict.mkDiff s!"rustc rejects with a non-type error {codes} (printer bug?): {rsExpr e}" tags.reverse
      | _ => bad "implementation output"

def handle (case impl : List String) : Retro.Drv.Verdict :=
  match case with
  | ["live"] => handleLive impl
  | "prog" :: _id :: _v :: _c :: sx :: rest =>
    if sx.startsWith "raw:" then
      handleRaw ((sx.drop 4).toNat?.getD 1000000) (decodeSpaces (rest.getD 0 "")) impl
    else handleProg sx rest impl
  | _ => bad "unknown op"

def emit (args : List String) : IO UInt32 := do
  let thorough := args.getD 0 "quick" == "thorough" || args.getD 0 "quick" == "all"
  let seed := (args.getD 1 "1").toNat?.getD 1
  let out ← IO.getStdout
  for p in select thorough seed do
    out.putStrLn (progLine p)
  for l in rawLines do
    out.putStrLn l
  return 0

/-- The hand-written corpus of misuse / twin pairs as case lines (`corpus/C10/pairs.case`). -/
def corpus : IO UInt32 := do
  let mut i := 0
  let mut bad := 0
  IO.println "# C10 corpus: one minimal program per misuse class and API entry point, each followed by its twin."
  IO.println "# Generated by `lean/.lake/build/bin/drv_c10 corpus` from lean/Retro/Spec/TypeCorpus.lean; do not edit."
  for p in TypeCorpus.pairs do
    IO.println s!"# {p.label}"
    IO.println (progLine { id := 900000 + 2 * i, e := p.bad, v := classify Γ p.bad })
    IO.println (progLine { id := 900001 + 2 * i, e := p.good, v := classify Γ p.good })
    if classify Γ p.bad != .misuse p.cls then
      bad := bad + 1
      IO.eprintln s!"pair '{p.label}': model does not classify the misuse as {p.cls.name}"
    match classify Γ p.good with
    | .accept _ => pure ()
    | _ => bad := bad + 1; IO.eprintln s!"pair '{p.label}': model does not accept the twin"
    i := i + 1
  return (if bad == 0 then 0 else 1)

def stats : IO UInt32 := do
  let ps := allProgs ()
  let cnt (f : Prog → Bool) := (ps.filter f).length
  IO.println s!"all {ps.length} depth2 {cnt (·.e.depth ≤ 2)} accept {cnt fun p => match p.v with | .accept _ => true | _ => false} misuse {cnt fun p => match p.v with | .misuse _ => true | _ => false} other {cnt (·.v == .other)}"
  IO.println s!"reps {(representatives 1).length}"
  IO.println s!"near-misses {(nearMisses ps).length} quick {(select false 1).length} thorough {(select true 1).length}"
  return 0

def main (args : List String) : IO UInt32 :=
  match args with
  | [] => runMain handle
  | "emit" :: rest => emit rest
  | ["prelude"] => do
    for l in prelude do IO.println l
    IO.println ("PARAMS " ++ params)
    return 0
  | ["stats"] => stats
  | ["corpus"] => corpus
  | _ => do
    IO.eprintln "usage: drv_c10 [emit <tier> <seed> | prelude | corpus | stats]"
    return 2

end Retro.Drv.C10
