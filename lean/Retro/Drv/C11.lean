/-
Driver for C11: one case line is a *history* (constructor + nested operation sequence, see
harness/src/bin/c11.rs).  Two independent walks over the same tokens:

  * `runModel` executes `Retro.Model.Buf` and produces the token list the implementation must
    print (DIFF when it does not);
  * `runSpec` replays the implementation's own tokens against the plain grid of
    `Retro.Spec.Grid` (SPEC with a stable key when they violate the property).
-/
import Retro.Drv.Common
import Retro.Model.Buf
import Retro.Spec.Grid

namespace Retro.Drv.C11
open Retro Retro.Drv

def u32Lim : Nat := 4294967296

def joinNat (l : List Nat) : String := ",".intercalate (l.map toString)

/-! ### Case-line syntax -/

inductive RectForm where
  | all
  | corners (l t r b : Nat)
  | tuple (hk : String) (ha hb : Nat) (vk : String) (va vb : Nat)
  deriving Repr, Inhabited

def parseRect : List String → Option (RectForm × List String)
  | "A" :: rest => some (.all, rest)
  | "P" :: l :: t :: r :: b :: rest =>
    match l.toNat?, t.toNat?, r.toNat?, b.toNat? with
    | some l, some t, some r, some b => some (.corners l t r b, rest)
    | _, _, _, _ => none
  | "T" :: hk :: ha :: hb :: vk :: va :: vb :: rest =>
    match ha.toNat?, hb.toNat?, va.toNat?, vb.toNat? with
    | some ha, some hb, some va, some vb => some (.tuple hk ha hb vk va vb, rest)
    | _, _, _, _ => none
  | _ => none

def nats : Nat → List String → Option (List Nat × List String)
  | 0, rest => some ([], rest)
  | n + 1, t :: rest =>
    match t.toNat?, nats n rest with
    | some a, some (as, r) => some (a :: as, r)
    | _, _ => none
  | _ + 1, [] => none

/-! ### Model side -/

def boundsOf (k : String) (a b : Nat) : Option (Buf.Bound × Buf.Bound) :=
  match k with
  | "F" => some (.unb, .unb)
  | "R" => some (.incl a, .excl b)
  | "RI" => some (.incl a, .incl b)
  | "FR" => some (.incl a, .unb)
  | "TO" => some (.unb, .excl b)
  | "TOI" => some (.unb, .incl b)
  | "XE" => some (.excl a, .excl b)
  | "XI" => some (.excl a, .incl b)
  | "XU" => some (.excl a, .unb)
  | _ => none

def modelRect : RectForm → Option (Outcome Buf.Rect)
  | .all => some (.ok Buf.Rect.full)
  | .corners l t r b => some (.ok (Buf.Rect.ofCorners l t r b))
  | .tuple hk ha hb vk va vb =>
    match boundsOf hk ha hb, boundsOf vk va vb with
    | some (hs, he), some (vs, ve) => some (Buf.Rect.ofBounds hs he vs ve)
    | _, _ => none

/-- Panic sites of the model -> the class names the harness derives from the Rust messages. -/
def modelClass (_m : String) : String :=
  -- Only WHETHER an operation panics is compared with the implementation, never the wording or the site of
  -- the panic: a reworded assertion message (or an explicit assert in front of an index panic) is not a
  -- change of behaviour the property speaks about. The harness maps every panic message to `any` as well.
  "any"

structure MSt where
  root : List Nat
  toks : List String
  out : Array String := #[]
  halted : Bool := false
  bad : Option String := none
  deriving Inhabited

namespace MSt
def emit (st : MSt) (rest : List String) (tok : String) : MSt :=
  { st with toks := rest, out := st.out.push tok }
def emitRoot (st : MSt) (rest : List String) (tok : String) (root : List Nat) : MSt :=
  { st with toks := rest, out := st.out.push tok, root := root }
def halt (st : MSt) (m : String) : MSt :=
  { st with out := st.out.push ("panic:" ++ modelClass m), halted := true }
def broken (st : MSt) (m : String) : MSt :=
  { st with bad := some m, halted := true }
end MSt

def wrap32 (n : Nat) : Nat := n % u32Lim

partial def runModel (rw : Bool) (v : Buf.View) (st : MSt) : MSt :=
  if st.halted then st else
  match st.toks with
  | [] => st
  | "end" :: rest => { st with toks := rest }
  | "get" :: x :: y :: rest =>
    match x.toNat?, y.toNat? with
    | some x, some y =>
      match Buf.get st.root v x y with
      | .ok (some a) => runModel rw v (st.emit rest s!"some:{a}")
      | .ok none => runModel rw v (st.emit rest "none")
      | .panic m => st.halt m
    | _, _ => st.broken "get"
  | "idx" :: x :: y :: rest =>
    match x.toNat?, y.toNat? with
    | some x, some y =>
      match Buf.indexPt st.root v x y with
      | .ok a => runModel rw v (st.emit rest s!"{a}")
      | .panic m => st.halt m
    | _, _ => st.broken "idx"
  | "row" :: i :: rest =>
    match i.toNat? with
    | some i =>
      match Buf.rowIndex st.root v i with
      | .ok r => runModel rw v (st.emit rest ("r:" ++ joinNat r))
      | .panic m => st.halt m
    | none => st.broken "row"
  | "rows" :: rest =>
    match Buf.rows st.root v with
    | .ok rs => runModel rw v (st.emit rest s!"rows:{rs.length}={"/".intercalate (rs.map joinNat)}")
    | .panic m => st.halt m
  | "iter" :: rest =>
    match Buf.iter st.root v with
    | .ok r => runModel rw v (st.emit rest ("it:" ++ joinNat r))
    | .panic m => st.halt m
  | "dims" :: rest | "dbg" :: rest =>
    -- `dbg`: the harness smoke-tests `Debug` and then prints what `dims` prints
    let c := if Buf.isContiguous v then 1 else 0
    let e := if Buf.isEmpty v then 1 else 0
    runModel rw v (st.emit rest s!"d:{v.w},{v.h},{v.stride},{c},{e}")
  | "isub" :: rest | "sub" :: rest =>
    let isMut := st.toks.head? == some "sub"
    if isMut && !rw then st.broken "sub on a read-only view" else
    match parseRect rest with
    | none => st.broken "rect"
    | some (rf, rest) =>
      match modelRect rf with
      | none => st.broken "range kind"
      | some (.panic m) => st.halt m
      | some (.ok rc) =>
        match Buf.slice v rc with
        | .panic m => st.halt m
        | .ok child =>
          let st' := runModel isMut child (st.emit rest "[")
          if st'.halted then st' else runModel rw v { st' with out := st'.out.push "]" }
  | "asr" :: rest | "asm" :: rest | "asri" :: rest | "asmi" :: rest =>
    -- the wrapper's trait impl and the inherent method are the same model function
    let isMut := st.toks.head? == some "asm" || st.toks.head? == some "asmi"
    if isMut && !rw then st.broken "asm on a read-only view" else
    match Buf.asSlice v with
    | .panic m => st.halt m
    | .ok child =>
      let st' := runModel isMut child (st.emit rest "[")
      if st'.halted then st' else runModel rw v { st' with out := st'.out.push "]" }
  | op :: rest =>
    if !rw then st.broken s!"write op {op} on a read-only view" else
    match op with
    | "set" =>
      match nats 3 rest with
      | some ([x, y, a], rest) =>
        match Buf.setPoint st.root v x y a with
        | .ok r => runModel rw v (st.emitRoot rest "ok" r)
        | .panic m => st.halt m
      | _ => st.broken "set"
    | "dmut" =>
      -- `Buf2::data_mut()[i] = a`: the view is the owned root (`off = 0`, `len = |root|`)
      match nats 2 rest with
      | some ([i, a], rest) =>
        match Buf.dataSet st.root v i a with
        | .ok r => runModel rw v (st.emitRoot rest "ok" r)
        | .panic m => st.halt m
      | _ => st.broken "dmut"
    | "gset" =>
      match nats 3 rest with
      | some ([x, y, a], rest) =>
        match Buf.getMutSet st.root v x y a with
        | .ok (some r) => runModel rw v (st.emitRoot rest "some" r)
        | .ok none => runModel rw v (st.emit rest "none")
        | .panic m => st.halt m
      | _ => st.broken "gset"
    | "rset" =>
      match nats 3 rest with
      | some ([i, j, a], rest) =>
        match Buf.rowSet st.root v i j a with
        | .ok r => runModel rw v (st.emitRoot rest "ok" r)
        | .panic m => st.halt m
      | _ => st.broken "rset"
    | "rowsm" | "iterm" =>
      match nats 1 rest with
      | some ([a], rest) =>
        match Buf.rowWindows v with
        | .panic m => st.halt m
        | .ok starts =>
          let vals := fun y => (List.range v.w).map fun x => wrap32 (a + y * v.w + x)
          match Buf.rowsMutWrite st.root v vals with
          | .panic m => st.halt m
          | .ok r =>
            let tok := if op == "rowsm" then "rl:" ++ joinNat (starts.map fun _ => v.w)
                       else s!"n:{starts.length * v.w}"
            runModel rw v (st.emitRoot rest tok r)
      | _ => st.broken op
    | "fill" =>
      match nats 1 rest with
      | some ([a], rest) =>
        match Buf.fill st.root v a with
        | .ok r => runModel rw v (st.emitRoot rest "ok" r)
        | .panic m => st.halt m
      | _ => st.broken "fill"
    | "fillw" =>
      match nats 1 rest with
      | some ([a], rest) =>
        match Buf.fillWith st.root v (fun x y => wrap32 (wrap32 (a + wrap32 (y * 1000)) + x)) with
        | .ok r => runModel rw v (st.emitRoot rest "ok" r)
        | .panic m => st.halt m
      | _ => st.broken "fillw"
    | "copys" =>
      match nats 4 rest with
      | some ([w, h, s, n], rest) =>
        match Buf.sliceNew w h s n with
        | .panic m => st.halt m
        | .ok src =>
          match Buf.copyFrom st.root v ((List.range n).map (5000 + ·)) src with
          | .ok r => runModel rw v (st.emitRoot rest "ok" r)
          | .panic m => st.halt m
      | _ => st.broken "copys"
    | "copym" =>
      match nats 8 rest with
      | some ([w, h, s, n, l, t, r, b], rest) =>
        match Buf.sliceNew w h s n with
        | .panic m => st.halt m
        | .ok srcRoot =>
          match Buf.slice srcRoot (Buf.Rect.ofCorners l t r b) with
          | .panic m => st.halt m
          | .ok src =>
            match Buf.copyFrom st.root v ((List.range n).map (5000 + ·)) src with
            | .ok r => runModel rw v (st.emitRoot rest "ok" r)
            | .panic m => st.halt m
      | _ => st.broken "copym"
    | "copyb" | "copybv" =>
      match nats 2 rest with
      | some ([w, h], rest) =>
        match Buf.buf2NewWith w h (fun x y => 7000 + 100 * y + x) with
        | .panic m => st.halt m
        | .ok (src, srcRoot) =>
          match Buf.copyFrom st.root v srcRoot src with
          | .ok r => runModel rw v (st.emitRoot rest "ok" r)
          | .panic m => st.halt m
      | _ => st.broken "copyb"
    | _ => st.broken s!"unknown op {op}"

/-- Expected output tokens of a `seq` case, or a driver-side parse problem. -/
def modelSeq (toks : List String) : Except String (List String) :=
  let finish (st : MSt) (isBuf : Bool) (built : Bool) : Except String (List String) :=
    match st.bad with
    | some m => .error m
    | none =>
      let data := if isBuf && !built then "-" else joinNat st.root
      .ok (st.out.toList ++ ["data:" ++ data])
  match toks with
  | "new" :: rest =>
    match nats 2 rest with
    | some ([w, h], rest) =>
      match Buf.buf2New w h (0 : Nat) with
      | .panic m => finish (MSt.halt { root := [], toks := [] } m) true false
      | .ok (v, root) => finish (runModel true v { root := root, toks := rest, out := #["ok"] }) true true
    | _ => .error "new"
  | "newfrom" :: rest =>
    match nats 3 rest with
    | some ([w, h, n], rest) =>
      match Buf.buf2NewFrom w h ((List.range n).map (1000 + ·)) with
      | .panic m => finish (MSt.halt { root := [], toks := [] } m) true false
      | .ok (v, root) => finish (runModel true v { root := root, toks := rest, out := #["ok"] }) true true
    | _ => .error "newfrom"
  | "newwith" :: rest =>
    match nats 2 rest with
    | some ([w, h], rest) =>
      match Buf.buf2NewWith w h (fun x y => 100 * y + x + 1) with
      | .panic m => finish (MSt.halt { root := [], toks := [] } m) true false
      | .ok (v, root) => finish (runModel true v { root := root, toks := rest, out := #["ok"] }) true true
    | _ => .error "newwith"
  | kind :: rest =>
    if kind != "ms" && kind != "is" then .error "constructor" else
    match nats 4 rest with
    | some ([w, h, s, n], rest) =>
      let root := (List.range n).map (1000 + ·)
      match Buf.sliceNew w h s n with
      | .panic m => finish (MSt.halt { root := root, toks := [] } m) false false
      | .ok v => finish (runModel (kind == "ms") v { root := root, toks := rest, out := #["ok"] }) false true
    | _ => .error "ms/is"
  | [] => .error "empty"

/-! ### Spec side: the implementation's tokens against the plain grid -/

open Retro.Spec.Grid in
structure SSt where
  g : Grid Nat
  toks : List String
  impl : List String
  fail : Option (String × String) := none
  stop : Bool := false
  tags : List String := []
  depth : Nat := 0
  deriving Inhabited

namespace SSt
def tag (st : SSt) (t : String) : SSt := if st.tags.contains t then st else { st with tags := t :: st.tags }
def failWith (st : SSt) (key msg : String) : SSt :=
  { st with fail := st.fail.orElse (fun _ => some (key, msg)), stop := true }
def halt (st : SSt) : SSt := { st with stop := true }
end SSt

def isPanic (t : String) : Bool := t.startsWith "panic:"

/-- Half-open `[lo, hi)` meaning of a range form over a dimension of size `dim` (unbounded arithmetic). -/
def specRange (k : String) (a b dim : Nat) : Option (Nat × Nat) :=
  match k with
  | "F" => some (0, dim)
  | "R" => some (a, b)
  | "RI" => some (a, b + 1)
  | "FR" => some (a, dim)
  | "TO" => some (0, b)
  | "TOI" => some (0, b + 1)
  | "XE" => some (a + 1, b)
  | "XI" => some (a + 1, b + 1)
  | "XU" => some (a + 1, dim)
  | _ => none

/-- `(l, t, r, b)` -/
def specRect (rf : RectForm) (w h : Nat) : Option (Nat × Nat × Nat × Nat) :=
  match rf with
  | .all => some (0, 0, w, h)
  | .corners l t r b => some (l, t, r, b)
  | .tuple hk ha hb vk va vb =>
    match specRange hk ha hb w, specRange vk va vb h with
    | some (l, r), some (t, b) => some (l, t, r, b)
    | _, _ => none

def parseList (s : String) : List Nat := (s.splitOn ",").filterMap String.toNat?

/-- "rows:N=a,b/c,d" -> (N, rows) -/
def parseRowsTok (t : String) : Option (Nat × List (List Nat)) :=
  if !t.startsWith "rows:" then none else
  match ((t.drop 5).toString.splitOn "=") with
  | [n, body] =>
    match n.toNat? with
    | some n => some (n, if n == 0 then [] else (body.splitOn "/").map parseList)
    | none => none
  | _ => none

open Retro.Spec.Grid in
partial def runSpec (rw : Bool) (p : Win) (pitch : Nat) (st : SSt) : SSt :=
  if st.stop then st else
  match st.toks with
  | [] => st
  | "end" :: rest => { st with toks := rest }
  | op :: rest =>
    match st.impl with
    | [] => st.halt
    | tok :: impl =>
      let st := (st.tag ("op:" ++ op))
      let st := if p.w == 0 then st.tag "zero-width" else st
      let st := if p.h == 0 then st.tag "zero-height" else st
      let next (rest : List String) (g : Grid Nat) : SSt := { st with toks := rest, impl := impl, g := g }
      -- a legitimate panic: nothing more to replay
      let legit : SSt := ({ st with impl := impl }.tag ("panic")).halt
      match op with
      | "get" | "idx" | "set" | "gset" =>
        let nargs := if op == "get" || op == "idx" then 2 else 3
        match nats nargs rest with
        | some (x :: y :: more, rest) =>
          let a := more.headD 0
          if p.inside x y then
            match readCell st.g p x y with
            | none => st.failWith "spec-window-outside-storage" s!"{op} {x} {y}"
            | some cur =>
              let want := match op with
                | "get" => s!"some:{cur}" | "idx" => s!"{cur}" | "set" => "ok" | _ => "some"
              if tok == want then
                runSpec rw p pitch (next rest (if nargs == 3 then writeCell st.g p x y a else st.g))
              else if isPanic tok then st.failWith "inbounds-panic" s!"{op} ({x},{y}) inside {p.w}x{p.h} gave {tok}"
              else st.failWith "read-mismatch" s!"{op} ({x},{y}): implementation {tok}, grid {want}"
          else
            let st := st.tag "oob-access"
            if isPanic tok then legit
            else if (op == "get" || op == "gset") && tok == "none" then runSpec rw p pitch (next rest st.g)
            else st.failWith "oob-accepted" s!"{op} ({x},{y}) outside {p.w}x{p.h} gave {tok}"
        | _ => st.halt
      | "row" =>
        match nats 1 rest with
        | some ([i], rest) =>
          if i < p.h then
            if p.w == 0 then
              -- the property only speaks about rows() for zero-width views
              let st := st.tag "zero-width-row-index"
              if isPanic tok then legit
              else if tok == "r:" then runSpec rw p pitch (next rest st.g)
              else st.failWith "read-mismatch" s!"row {i} of a zero-width view gave {tok}"
            else
              match readRow st.g p i with
              | none => st.failWith "spec-window-outside-storage" s!"row {i}"
              | some r =>
                if tok == "r:" ++ joinNat r then runSpec rw p pitch (next rest st.g)
                else if isPanic tok then st.failWith "inbounds-panic" s!"row {i} of {p.w}x{p.h} gave {tok}"
                else st.failWith "read-mismatch" s!"row {i}: implementation {tok}, grid r:{joinNat r}"
          else
            let st := st.tag "oob-access"
            if isPanic tok then legit
            else if i ≥ u32Lim then st.failWith "row-index-truncated" s!"row index {i} >= height {p.h} returned {tok}"
            else st.failWith "oob-accepted" s!"row index {i} >= height {p.h} returned {tok}"
        | _ => st.halt
      | "rset" =>
        match nats 3 rest with
        | some ([i, j, a], rest) =>
          if i < p.h && j < p.w then
            if tok == "ok" then runSpec rw p pitch (next rest (writeCell st.g p j i a))
            else st.failWith "inbounds-panic" s!"rset [{i}][{j}] inside {p.w}x{p.h} gave {tok}"
          else
            let st := st.tag "oob-access"
            if isPanic tok then legit
            else if i ≥ u32Lim then st.failWith "row-index-truncated" s!"row index {i} >= height {p.h} accepted"
            else st.failWith "oob-accepted" s!"rset [{i}][{j}] outside {p.w}x{p.h} gave {tok}"
        | _ => st.halt
      | "rows" =>
        if isPanic tok then st.failWith "inbounds-panic" s!"rows() of {p.w}x{p.h} gave {tok}" else
        match parseRowsTok tok, window st.g p with
        | some (n, rs), some want =>
          if n > p.h then st.failWith "rows-more-than-height" s!"rows() yielded {n} rows, height {p.h}"
          else if p.w == 0 then
            if rs.all (·.isEmpty) then runSpec rw p pitch (next rest st.g)
            else st.failWith "row-length" "non-empty row of a zero-width view"
          else if n < p.h then st.failWith "rows-fewer-than-height" s!"rows() yielded {n} rows, height {p.h}"
          else if rs.any (·.length != p.w) then st.failWith "row-length" s!"a row of rows() has length != {p.w}"
          else if rs != want then st.failWith "read-mismatch" s!"rows(): implementation {tok}"
          else runSpec rw p pitch (next rest st.g)
        | _, none => st.failWith "spec-window-outside-storage" "rows"
        | none, _ => st.halt
      | "iter" =>
        if isPanic tok then st.failWith "inbounds-panic" s!"iter() of {p.w}x{p.h} gave {tok}" else
        match window st.g p with
        | some want =>
          if tok == "it:" ++ joinNat want.flatten then runSpec rw p pitch (next rest st.g)
          else st.failWith "read-mismatch" s!"iter(): implementation {tok}"
        | none => st.failWith "spec-window-outside-storage" "iter"
      | "dmut" =>
        match nats 2 rest with
        | some ([i, a], rest) =>
          let pw := max pitch 1
          if i < (toFlat st.g).length then
            if tok == "ok" then runSpec rw p pitch (next rest (setCell st.g (i % pw) (i / pw) a))
            else st.failWith "inbounds-panic" s!"data_mut()[{i}] gave {tok}"
          else if isPanic tok then legit
          else st.failWith "oob-accepted" s!"data_mut()[{i}] beyond the storage gave {tok}"
        | _ => st.halt
      | "dims" | "dbg" =>
        match ((tok.drop 2).toString.splitOn ",").map String.toNat? with
        | [some w, some h, some s, some _c, some e] =>
          let wantE := if p.w == 0 || p.h == 0 then 1 else 0
          if w == p.w && h == p.h && s == pitch && e == wantE then runSpec rw p pitch (next rest st.g)
          else st.failWith "dims-wrong" s!"dims {tok} for window {p.w}x{p.h} pitch {pitch}"
        | _ => st.failWith "dims-wrong" s!"dims gave {tok}"
      | "rowsm" | "iterm" =>
        match nats 1 rest with
        | some ([a], rest) =>
          if isPanic tok then st.failWith "inbounds-panic" s!"{op} on {p.w}x{p.h} gave {tok}" else
          let g' := writeAll st.g p (fun x y => (a + y * p.w + x) % u32Lim)
          if op == "iterm" then
            if tok == s!"n:{p.w * p.h}" then runSpec rw p pitch (next rest g')
            else st.failWith "rows-mut-count" s!"iter_mut() visited {tok}, window has {p.w * p.h}"
          else
            let lens := parseList (tok.drop 3).toString
            if lens.length > p.h then st.failWith "rows-mut-more-than-height" s!"rows_mut() yielded {lens.length} rows, height {p.h}"
            else if p.w == 0 then
              if lens.all (· == 0) then runSpec rw p pitch (next rest g') else st.failWith "row-length" "rows_mut row of zero-width view not empty"
            else if lens.length < p.h then st.failWith "rows-fewer-than-height" s!"rows_mut() yielded {lens.length} rows, height {p.h}"
            else if lens.any (· != p.w) then st.failWith "row-length" s!"a row of rows_mut() has length != {p.w}"
            else runSpec rw p pitch (next rest g')
        | _ => st.halt
      | "fill" | "fillw" =>
        match nats 1 rest with
        | some ([a], rest) =>
          if tok != "ok" then st.failWith "inbounds-panic" s!"{op} on {p.w}x{p.h} gave {tok}" else
          let f : Nat → Nat → Nat := if op == "fill" then fun _ _ => a else fun x y => (a + y * 1000 + x) % u32Lim
          runSpec rw p pitch (next rest (writeAll st.g p f))
        | _ => st.halt
      | "copym" =>
        match nats 8 rest with
        | some ([w, h, s, n, l, t, r, b], rest) =>
          let srcWin : Win := { x0 := 0, y0 := 0, w := w, h := h }
          let src : Grid Nat := ofFlat s ((List.range n).map (5000 + ·))
          if !(holds w h s n) then
            if isPanic tok then legit else st.failWith "ctor-accepts-invalid" s!"MutSlice2::new(({w},{h}),{s},len {n}) accepted"
          else if !(srcWin.validRect l t r b) then
            if isPanic tok then legit else st.failWith "invalid-rect-accepted" s!"source slice [{l},{r})x[{t},{b}) outside {w}x{h} accepted"
          else if r - l != p.w || b - t != p.h then
            if isPanic tok then legit else st.failWith "copy-dims-mismatch-accepted" s!"copy_from {r - l}x{b - t} into {p.w}x{p.h} gave {tok}"
          else if tok != "ok" then st.failWith "inbounds-panic" s!"{op} matching dims gave {tok}"
          else
            let g' := writeAll st.g p (fun x y => (cell? src (l + x) (t + y)).getD 0)
            runSpec rw p pitch (next rest g')
        | _ => st.halt
      | "copys" | "copyb" | "copybv" =>
        match nats (if op == "copys" then 4 else 2) rest with
        | some (w :: h :: more, rest) =>
          let s := if op == "copys" then more.headD 0 else w
          let n := if op == "copys" then more.getD 1 0 else w * h
          let srcOk := holds w h s n
          let src : Grid Nat :=
            if op == "copys" then ofFlat s ((List.range n).map (5000 + ·))
            else (List.range h).map fun y => (List.range w).map fun x => 7000 + 100 * y + x
          if !srcOk then
            if isPanic tok then legit else st.failWith "ctor-accepts-invalid" s!"Slice2::new(({w},{h}),{s},len {n}) accepted"
          else if w != p.w || h != p.h then
            if isPanic tok then legit else st.failWith "copy-dims-mismatch-accepted" s!"copy_from {w}x{h} into {p.w}x{p.h} gave {tok}"
          else if tok != "ok" then st.failWith "inbounds-panic" s!"{op} matching dims gave {tok}"
          else
            let g' := writeAll st.g p (fun x y => (cell? src x y).getD 0)
            runSpec rw p pitch (next rest g')
        | _ => st.halt
      | "sub" | "isub" =>
        match parseRect rest with
        | none => st.halt
        | some (rf, rest) =>
          match specRect rf p.w p.h with
          | none => st.halt
          | some (l, t, r, b) =>
            if p.validRect l t r b then
              if tok == "[" then
                let child := p.sub l t r b
                let st1 : SSt := { st with toks := rest, impl := impl, depth := st.depth + 1 }
                let st1 := st1.tag s!"depth{st.depth + 1}"
                let st1 := if r - l < p.w || b - t < p.h then st1.tag "proper-subrect" else st1
                let st2 := runSpec (op == "sub") child pitch st1
                if st2.stop then st2 else
                match st2.impl with
                | "]" :: impl2 => runSpec rw p pitch { st2 with impl := impl2, depth := st.depth }
                | _ => st2.halt
              else if isPanic tok then
                if t == b && b == p.h then
                  st.failWith "empty-bottom-slice-panics" s!"slice of the empty rect [{l},{r})x[{t},{b}) at the bottom edge of {p.w}x{p.h} gave {tok}"
                else st.failWith "valid-rect-panics" s!"slice [{l},{r})x[{t},{b}) inside {p.w}x{p.h} gave {tok}"
              else st.halt
            else
              let st := st.tag "invalid-rect"
              if isPanic tok then legit
              else st.failWith "invalid-rect-accepted" s!"slice [{l},{r})x[{t},{b}) outside {p.w}x{p.h} accepted"
      | "asm" | "asr" | "asmi" | "asri" =>
        if tok == "[" then
          let st2 := runSpec (op == "asm" || op == "asmi") p pitch { st with toks := rest, impl := impl, depth := st.depth + 1 }
          if st2.stop then st2 else
          match st2.impl with
          | "]" :: impl2 => runSpec rw p pitch { st2 with impl := impl2, depth := st.depth }
          | _ => st2.halt
        else st.failWith "inbounds-panic" s!"{op} gave {tok}"
      | _ => st.halt

open Retro.Spec.Grid in
/-- Spec walk of a whole `seq` case. Returns (failure, tags). -/
def specSeq (toks impl : List String) : Option (String × String) × List String :=
  match toks with
  | kind :: rest =>
    let nargs := match kind with | "new" | "newwith" => 2 | "newfrom" => 3 | _ => 4
    match nats nargs rest with
    | some (w :: h :: more, rest) =>
      let isBuf := kind == "new" || kind == "newfrom" || kind == "newwith"
      let s := if isBuf then w else more.headD 0
      let n := if kind == "newfrom" then more.headD 0 else if isBuf then w * h else more.getD 1 0
      let flat : List Nat :=
        match kind with
        | "new" => List.replicate (w * h) 0
        | "newfrom" => (List.range (w * h)).map (1000 + ·)
        | "newwith" => (List.range h).flatMap fun y => (List.range w).map fun x => 100 * y + x + 1
        | _ => (List.range n).map (1000 + ·)
      let valid := if isBuf then decide (w * h ≤ n) else holds w h s n
      let tags := [kind] ++ (if s > w then ["strided"] else []) ++
        (if !isBuf && valid && h > 0 && n > (h - 1) * s + w then ["surplus"] else []) ++
        (if rest.isEmpty then ["ctor-only"] else [])
      match impl with
      | [] => (none, tags)
      | tok :: impl =>
        if !valid then
          if isPanic tok then (none, "ctor-rejected" :: tags)
          else (some ("ctor-accepts-invalid", s!"{kind} ({w},{h}) stride {s} over {n} elements accepted"), tags)
        else if tok != "ok" then
          (some ("ctor-rejects-valid", s!"{kind} ({w},{h}) stride {s} over {n} elements gave {tok}"), tags)
        else
          let st : SSt := { g := ofFlat s flat, toks := rest, impl := impl, tags := tags }
          let st := runSpec (kind != "is") { x0 := 0, y0 := 0, w := w, h := h } s st
          -- frame: the final storage is the grid, whatever happened (a panicking operation writes nothing)
          let st :=
            match st.fail, st.impl.getLast? with
            | none, some last =>
              if last.startsWith "data:" then
                let want := "data:" ++ joinNat (toFlat st.g)
                if last == want then st
                else st.failWith "write-frame" s!"final storage {last}, grid predicts {want}"
              else st
            | _, _ => st
          (st.fail, st.tags)
    | _ => (none, [])
  | [] => (none, [])

/-! ### Zero-sized-element cases (huge dimensions, arithmetic only) -/

def unitModel (toks : List String) : Option String :=
  let cls (m : String) := "panic:" ++ modelClass m
  match toks with
  | "ctor" :: rest =>
    match nats 4 rest with
    | some ([w, h, s, n], _) =>
      match Buf.sliceNew w h s n with
      | .ok v => some s!"d:{v.w},{v.h},{v.stride}"
      | .panic m => some (cls m)
    | _ => none
  | "new" :: rest =>
    match nats 2 rest with
    | some ([w, h], _) =>
      -- `Buf.buf2New` without materialising the vector
      match Buf.mulU32 w h with
      | .panic m => some (cls m)
      | .ok n =>
        match Buf.innerNew w h w n with
        | .panic m => some (cls m)
        | .ok () => some s!"d:{w},{h},{w} n:{n}"
    | _ => none
  | "newfrom" :: rest =>
    match nats 3 rest with
    | some ([w, h, n], _) =>
      -- `Buf.buf2NewFrom` on `n` unit items, without materialising them
      if w * h > Buf.isizeMax then some (cls "w * h cannot exceed isize::MAX")
      else if min n (w * h) ≠ w * h then some (cls "insufficient items in iterator")
      else
        match Buf.innerNew w h w (w * h) with
        | .panic m => some (cls m)
        | .ok () => some s!"d:{w},{h},{w} n:{w * h}"
    | _ => none
  | "slice" :: rest =>
    match nats 2 rest with
    | some ([w, h], rest) =>
      match parseRect rest with
      | some (rf, _) =>
        match modelRect rf with
        | some (.ok rc) =>
          -- the vector itself is not materialised: only its length matters to `slice`
          match Buf.mulU32 w h with
          | .panic m => some (cls m)
          | .ok n =>
            match Buf.innerNew w h w n with
            | .panic m => some (cls m)
            | .ok () =>
              match Buf.slice { w := w, h := h, stride := w, off := 0, len := n } rc with
              | .ok v => some s!"d:{v.w},{v.h},{v.stride}"
              | .panic m => some (cls m)
        | some (.panic m) => some (cls m)
        | none => none
      | none => none
    | _ => none
  | "row" :: rest =>
    match nats 3 rest with
    | some ([w, h, i], _) =>
      match Buf.mulU32 w h with
      | .panic m => some (cls m)
      | .ok n =>
        match Buf.innerNew w h w n with
        | .panic m => some (cls m)
        | .ok () =>
          match Buf.rowWindow { w := w, h := h, stride := w, off := 0, len := n } i with
          | .ok (_, l) => some s!"r:{l}"
          | .panic m => some (cls m)
    | _ => none
  | "get" :: rest =>
    match nats 4 rest with
    | some ([w, h, x, y], _) =>
      match Buf.mulU32 w h with
      | .panic m => some (cls m)
      | .ok n =>
        let v : Buf.View := { w := w, h := h, stride := w, off := 0, len := n }
        match Buf.toIndexChecked v x y with
        | .ok (some i) => some (if i < n then "some" else cls "index out of bounds")
        | .ok none => some "none"
        | .panic m => some (cls m)
    | _ => none
  | _ => none

open Retro.Spec.Grid in
def unitSpec (toks impl : List String) : Option (String × String) × List String :=
  let tok := impl.headD ""
  match toks with
  | "ctor" :: rest =>
    match nats 4 rest with
    | some ([w, h, s, n], _) =>
      -- the size is computed in usize (7b7718a): judged for every size, also beyond u32
      let bigTag := if h == 0 || (h - 1) * s + w < u32Lim then [] else ["size-beyond-u32"]
      if holds w h s n then
        (if isPanic tok then some ("ctor-rejects-valid", s!"({w},{h}) stride {s} over {n} gave {tok}") else none, ["unit-ctor", "valid"] ++ bigTag)
      else
        (if isPanic tok then none
         else some (if bigTag.isEmpty then "ctor-accepts-invalid" else "ctor-size-u32-wrap", s!"({w},{h}) stride {s} over {n} accepted"),
         ["unit-ctor", "invalid"] ++ bigTag)
    | _ => (none, [])
  | "new" :: rest =>
    match nats 2 rest with
    | some ([w, h], _) =>
      if w * h < u32Lim then
        (if tok == s!"d:{w},{h},{w}" && impl.getD 1 "" == s!"n:{w * h}" then none
         else some ("ctor-rejects-valid", s!"Buf2::new(({w},{h})) gave {tok}"), ["unit-new", "fits"])
      else (none, ["unit-new", "count-beyond-u32"])
    | _ => (none, [])
  | "newfrom" :: rest =>
    match nats 3 rest with
    | some ([w, h, n], _) =>
      if n < w * h then
        (if isPanic tok then none else some ("ctor-accepts-invalid", s!"new_from(({w},{h})) with {n} items gave {tok}"), ["unit-newfrom", "too-few-items"])
      else if w * h < u32Lim then
        (if tok == s!"d:{w},{h},{w}" then none else some ("ctor-rejects-valid", s!"new_from(({w},{h})) with {n} items gave {tok}"), ["unit-newfrom", "fits"])
      else (none, ["unit-newfrom", "count-beyond-u32"])
    | _ => (none, [])
  | "slice" :: rest =>
    match nats 2 rest with
    | some ([w, h], rest) =>
      if w * h ≥ u32Lim then (none, ["unit-slice"]) else
      match parseRect rest with
      | some (rf, _) =>
        match specRect rf w h with
        | some (l, t, r, b) =>
          let p : Win := { x0 := 0, y0 := 0, w := w, h := h }
          if p.validRect l t r b then
            if tok == s!"d:{r - l},{b - t},{w}" then (none, ["unit-slice", "valid-rect"])
            else if t == b && b == h then
              (some ("empty-bottom-slice-panics", s!"slice [{l},{r})x[{t},{b}) of {w}x{h} gave {tok}"), ["unit-slice"])
            else (some ("valid-rect-panics", s!"slice [{l},{r})x[{t},{b}) of {w}x{h} gave {tok}"), ["unit-slice"])
          else
            (if isPanic tok then none else some ("invalid-rect-accepted", s!"slice [{l},{r})x[{t},{b}) of {w}x{h} gave {tok}"), ["unit-slice", "invalid-rect"])
        | none => (none, [])
      | none => (none, [])
    | _ => (none, [])
  | "row" :: rest =>
    match nats 3 rest with
    | some ([w, h, i], _) =>
      if w * h ≥ u32Lim then (none, ["unit-row"])
      else if i < h then
        if w == 0 then (none, ["unit-row", "zero-width-row-index"])
        else (if tok == s!"r:{w}" then none else some ("inbounds-panic", s!"row {i} of {w}x{h} gave {tok}"), ["unit-row", "in-bounds"])
      else if isPanic tok then (none, ["unit-row", "oob-access"])
      else if i ≥ u32Lim then (some ("row-index-truncated", s!"row index {i} >= height {h} returned {tok}"), ["unit-row", "oob-access"])
      else (some ("oob-accepted", s!"row index {i} >= height {h} returned {tok}"), ["unit-row", "oob-access"])
    | _ => (none, [])
  | "get" :: rest =>
    match nats 4 rest with
    | some ([w, h, x, y], _) =>
      if w * h ≥ u32Lim then (none, ["unit-get"])
      else if x < w && y < h then
        (if tok == "some" then none else some ("inbounds-panic", s!"get ({x},{y}) of {w}x{h} gave {tok}"), ["unit-get", "in-bounds"])
      else (if tok == "none" || isPanic tok then none else some ("oob-accepted", s!"get ({x},{y}) of {w}x{h} gave {tok}"), ["unit-get", "oob-access"])
    | _ => (none, [])
  | _ => (none, [])

/-! ### Entry point -/

/-- The property leaves the *number* of (empty) rows `rows()`/`rows_mut()` yield on a zero-width
view open ("at most height()"): such tokens are compared up to that number. The oracle still
checks the bound. -/
def normTok (t : String) : String :=
  if t.startsWith "rows:" then
    match (t.drop 5).toString.splitOn "=" with
    | [_, body] => if body.toList.all (· == '/') then "rows:_=" else t
    | _ => t
  else if t.startsWith "rl:" then
    if (t.drop 3).toString.toList.all (fun c => c == '0' || c == ',') then "rl:_" else t
  else t

def handle (case impl : List String) : Verdict :=
  match case with
  | "seq" :: toks =>
    match modelSeq toks with
    | .error m => bad m
    | .ok want =>
      let (sf, tags) := specSeq toks impl
      let v : Verdict := { tags := tags }
      let v := v.withDiff (impl.map normTok != want.map normTok) s!"model {" ".intercalate want}"
      match sf with
      | some (k, m) => v.withSpec true k m
      | none => v
  | "unit" :: toks =>
    match unitModel toks with
    | none => bad "unit"
    | some want =>
      let (sf, tags) := unitSpec toks impl
      let v : Verdict := { tags := tags }
      let v := v.withDiff (" ".intercalate impl != want) s!"model {want}"
      match sf with
      | some (k, m) => v.withSpec true k m
      | none => v
  | _ => bad "unknown op"

end Retro.Drv.C11
