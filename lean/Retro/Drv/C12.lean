import Retro.Drv.Common
import Retro.Drv.F32Native
import Retro.Model.Tex
import Retro.Model.FloatFallback
import Retro.Spec.Tex

/-!
Driver for C12.  Case lines (see harness/src/bin/c12.rs):

  new <dw> <dh>                                  -> "<wmask> <hmask>" | panic
  abs <rep|cl|on> <b|s> <dw> <dh> <u> <v>        -> "<u>,<v>" | panic      (sample_abs)
  rel <rep|cl|on> <b|s> <dw> <dh> <u> <v>        -> R A   (sample(tc) ; sample_abs(w*u, h*v)), each "<u>,<v>" | panic:…
  dig <rep|cl|on> <dw> <dh> <v> <start> <count>  -> "<fnv> <npanic> <noob>"  block of u bit patterns
-/
namespace Retro.Drv.C12
open Retro Retro.F32 Retro.Tex Retro.Drv

def implPanicClass (t : String) : String :=
  if t.startsWith "panic:" then
    let m := (t.drop 6).toString
    -- only WHETHER the implementation panics is compared, never the wording of the message
    let _ := m
    "any"
  else "none"

def modelPanicClass (m : String) : String :=
  let _ := m
  "any"

/-- Render a model outcome the way the harness prints an index. -/
def outStr : Outcome (Nat × Nat) → String
  | .ok (u, v) => s!"{u},{v}"
  | .panic m => "panic:" ++ modelPanicClass m

/-- Normalise an implementation token: indices stay, panic messages become their class. -/
def implStr (t : String) : String :=
  if t.startsWith "panic:" then "panic:" ++ implPanicClass t else t

def parsePair? (t : String) : Option (Int × Int) :=
  match t.splitOn "," with
  | [a, b] => match a.toInt?, b.toInt? with
    | some x, some y => some (x, y)
    | _, _ => none
  | _ => none

/-- Branch label of a coordinate. -/
def coordTag (b : UInt32) : String :=
  if isNaN b then "nan"
  else match toRat? b with
    | none => "inf"
    | some q =>
      if q == 0 then (if signBit b then "negzero" else "zero")
      else if ratAbs q ≥ 2147483648 then "huge"
      else if expField b == 0 then "subnormal"
      else if (q.floor : Rat) == q then (if q < 0 then "negint" else "int")
      else if q < 0 then "negfrac" else "frac"

def runAbs (smp : String) (t : Texture) (u v : UInt32) : Option (Outcome (Nat × Nat)) :=
  if smp == "rep" then
    some (match RepeatPot.new t with
      | .panic m => .panic m
      | .ok s => repeatSampleAbs s t u v)
  else if smp == "cl" then some (clampSampleAbs t u v)
  else if smp == "on" then some (onceSampleAbs t u v)
  else none

def runRel (smp : String) (t : Texture) (u v : UInt32) : Option (Outcome (Nat × Nat)) :=
  if smp == "rep" then
    some (match RepeatPot.new t with
      | .panic m => .panic m
      | .ok s => repeatSample s t u v)
  else if smp == "cl" then some (clampSample t u v)
  else if smp == "on" then some (onceSample t u v)
  else none

/-- Spec oracle for one absolute-coordinate sample, judged on the implementation's token only.
Returns `(key, message)` of the first violated clause. -/
def specAbs0 (smp : String) (dw dh : Nat) (u v : UInt32) (impl : String) : Option (String × String) :=
  let nonEmpty := dw > 0 && dh > 0
  let pot := isPow2 dw && isPow2 dh
  let qu := toRat? u
  let qv := toRat? v
  let name := if smp == "rep" then "repeat" else if smp == "cl" then "clamp" else "once"
  let applicable :=
    if smp == "rep" then nonEmpty && pot
    else if smp == "cl" then nonEmpty
    else -- unchecked sampler: only in-range coordinates are specified
      match qu, qv with
      | some a, some b => nonEmpty && Spec.Tex.inRange dw a && Spec.Tex.inRange dh b
      | _, _ => false
  -- a repeating sampler must not come into existence for a non-power-of-two texture (of any size)
  if smp == "rep" && !pot then
    -- any panic is a rejection (the wording of the assertion is not part of the property)
    if impl.startsWith "panic:" then none
    else some (if dw > 16777216 || dh > 16777216 then "repeat-new-accepts-non-pot-wide" else "repeat-new-accepts-non-pot",
      s!"SamplerRepeatPot::new accepted a {dw}x{dh} texture: {impl}")
  else if !applicable then none
  else if impl.startsWith "panic:" then
    some (name ++ "-panics", s!"{name} sampler panicked: {impl}")
  else
    match parsePair? impl with
    | none => some (name ++ "-malformed", s!"unreadable output {impl}")
    | some (iu, iv) =>
      if iu < 0 || iv < 0 || iu ≥ dw || iv ≥ dh then
        some (name ++ "-out-of-bounds", s!"texel ({iu},{iv}) outside {dw}x{dh}")
      else
        let want (w : Nat) (q : Option Rat) : Option Nat :=
          match q with
          | none => none
          | some q =>
            if smp == "rep" then (if Spec.Tex.below2p31 q then some (Spec.Tex.repeatIdx w q) else none)
            else if smp == "cl" then some (Spec.Tex.clampIdx w q)
            else some (Spec.Tex.onceIdx q)
        -- Beyond 2^24 texels an f32 coordinate no longer resolves single texels (ulp ≥ 2) and the
        -- clamp bound `tex.w - 1.0` is itself rounded: an index within one coordinate-ulp of the
        -- exact one is inside the representational ambiguity (reported as AMB by the caller).
        let tol (w : Nat) : Int := if smp == "cl" && w > 16777216 then ((pow2 (Nat.log2 w - 23) : Nat) : Int) else 0
        let offBy (w : Nat) (q : Option Rat) (i : Int) : Int :=
          match want w q with | some e => if (e : Int) ≥ i then (e : Int) - i else i - (e : Int) | none => 0
        let du := offBy dw qu iu
        let dv := offBy dh qv iv
        let badU := du > tol dw
        let badV := dv > tol dh
        if !(badU || badV) && (du > 0 || dv > 0) then
          some ("AMB", s!"texel ({iu},{iv}) within coordinate resolution of the exact one on a {dw}x{dh} texture")
        else if badU || badV then
          some (name ++ "-wrong-texel",
            s!"texel ({iu},{iv}), expected ({(want dw qu).map toString |>.getD "*"},{(want dh qv).map toString |>.getD "*"})")
        else none

/-- For the repeating sampler the property fixes the texel only "for every coordinate below 2^31 in magnitude";
beyond that (and for ±∞ / NaN) it demands no panic and an in-bounds texel, which the spec oracle checks: WHICH
texel comes out there is not compared with the model. -/
def repBeyond (smp : String) (cs : List UInt32) : Bool :=
  smp == "rep" && cs.any fun c => match toRat? c with | some q => !Spec.Tex.below2p31 q | none => true

/-- Beyond 2^24 texels per side `width as f32` and `w - 1.0` are rounded: failures of the clamping
sampler there are one separate, recorded class. -/
def specAbs (smp : String) (dw dh : Nat) (u v : UInt32) (impl : String) : Option (String × String) :=
  match specAbs0 smp dw dh u v impl with
  | none => none
  | some (k, m) =>
    if k == "AMB" then some (k, m)
    else if smp == "cl" && (dw > 16777216 || dh > 16777216) then some ("clamp-wide-texture", k ++ ": " ++ m)
    else some (k, m)

/-- Fold an oracle result into a verdict (`AMB` = inside the coordinate-resolution band). -/
def applySpec (vd : Verdict) (r : Option (String × String)) : Verdict :=
  match r with
  | none => vd
  | some (k, msg) =>
    if k == "AMB" then { vd with amb := true, tags := "wide-coordinate-resolution" :: vd.tags }
    else vd.withSpec true k msg

def fnvFold (h : UInt64) : Outcome (Nat × Nat) → UInt64
  | .ok (u, v) => fnvStep (fnvStep h (UInt32.ofNat u)) (UInt32.ofNat v)
  | .panic _ => fnvStep h 0xFFFFFFFF

def handle (case impl : List String) : Verdict :=
  match case with
  | ["new", dw, dh] =>
    match dw.toNat?, dh.toNat? with
    | some dw, some dh =>
      let t := Texture.ofDims dw dh
      let pot := isPow2 dw && isPow2 dh
      let tags := ["new", if pot then "pot" else "non-pot"]
      match RepeatPot.new t with
      | .panic m =>
        let v := Verdict.ok (tags ++ ["panic"])
        let v := v.withDiff (implPanicClass (impl.getD 0 "") != modelPanicClass m) s!"model panics: {m}"
        let v := v.withSpec (pot && (impl.getD 0 "").startsWith "panic:") "repeat-new-panics" "SamplerRepeatPot::new panicked for power-of-two dimensions"
        v.withSpec (!pot && !(impl.getD 0 "").startsWith "panic:") "repeat-new-accepts-non-pot" s!"new accepted {dw}x{dh}: {impl}"
      | .ok s =>
        let v := Verdict.ok tags
        let v := v.withDiff (impl != [toString s.wMask, toString s.hMask]) s!"model {s.wMask} {s.hMask}"
        let v := v.withSpec (!pot && !(impl.getD 0 "").startsWith "panic:") "repeat-new-accepts-non-pot" s!"new accepted {dw}x{dh}: {impl}"
        v.withSpec (pot && impl != [toString (dw - 1), toString (dh - 1)]) "repeat-new-mask" s!"masks {impl} for {dw}x{dh}"
    | _, _ => bad "new"
  | ["abs", smp, kind, dw, dh, u, v] =>
    match dw.toNat?, dh.toNat?, parseF32Bits? u, parseF32Bits? v with
    | some dw, some dh, some ub, some vb =>
      let t := Texture.ofDims dw dh
      match runAbs smp t ub vb with
      | none => bad "sampler"
      | some m =>
        let it := impl.getD 0 ""
        let tags := [smp, "kind-" ++ kind, "u-" ++ coordTag ub, "v-" ++ coordTag vb] ++
          (if m.isOk then [] else ["panic"]) ++ (if dw == 0 || dh == 0 then ["empty"] else [])
        -- empty textures are outside the property's quantifier: counted, not compared (a rewrite of
        -- the clamp that no longer panics on `0.0.clamp(0.0, -1.0)` is harmless)
        if dw == 0 || dh == 0 then Verdict.mkAmb tags else
        let vd := Verdict.ok tags
        let beyond := repBeyond smp [ub, vb] && !it.startsWith "panic:" && m.isOk
        let vd := if beyond then vd.addTag "beyond-2^31" else vd
        let vd := vd.withDiff (!beyond && implStr it != outStr m) s!"model {outStr m}"
        applySpec vd (specAbs smp dw dh ub vb it)
    | _, _, _, _ => bad "abs"
  | ["rel", smp, kind, dw, dh, u, v] =>
    match dw.toNat?, dh.toNat?, parseF32Bits? u, parseF32Bits? v with
    | some dw, some dh, some ub, some vb =>
      let t := Texture.ofDims dw dh
      let su := mul t.w ub
      let sv := mul t.h vb
      match runRel smp t ub vb, runAbs smp t su sv with
      | some mr, some ma =>
        let r := impl.getD 0 ""
        let a := impl.getD 1 ""
        let tags := ["rel", smp, "kind-" ++ kind, "su-" ++ coordTag su, "sv-" ++ coordTag sv] ++
          (if mr.isOk then [] else ["panic"])
        let vd := Verdict.ok tags
        let beyond := repBeyond smp [su, sv] && !r.startsWith "panic:" && !a.startsWith "panic:" && mr.isOk && ma.isOk
        let vd := if beyond then vd.addTag "beyond-2^31" else vd
        let vd := vd.withDiff (!beyond && implStr r != outStr mr) s!"relative: model {outStr mr}"
        let vd := vd.withDiff (!beyond && implStr a != outStr ma) s!"scaled absolute: model {outStr ma}"
        -- property: relative entry point = absolute one at the coordinate scaled by the texture size
        let vd := vd.withSpec (implStr r != implStr a) "relative-not-scaled-absolute" s!"sample gave {r}, sample_abs of the scaled coordinate gave {a}"
        applySpec vd (specAbs smp dw dh su sv r)
      | _, _ => bad "sampler"
    | _, _, _, _ => bad "rel"
  | ["sib", be, smp, kdw, kdh, u, v] =>
    -- sample_abs in another feature configuration: same model, that back end's `floor`
    match kdw.toNat?, kdh.toNat?, parseF32Bits? u, parseF32Bits? v with
    | some dw, some dh, some ub, some vb =>
      let t := Texture.ofDims dw dh
      let floorF : UInt32 → UInt32 :=
        if be == "fallback" then FloatFallback.floor else if be == "mm" then FloatFallback.mmFloor else F32.floor
      let m : Option (Outcome (Nat × Nat)) :=
        if smp == "rep" then
          some (match RepeatPot.new t with
            | .panic msg => .panic msg
            | .ok s => repeatSampleAbsF floorF s t ub vb)
        else if smp == "cl" then some (clampSampleAbsF floorF t ub vb)
        else none
      match m with
      | none => bad "sampler"
      | some m =>
        let it := impl.getD 0 ""
        let vd := Verdict.ok ["sib", be, smp, "u-" ++ coordTag ub, "v-" ++ coordTag vb]
        let beyond := repBeyond smp [ub, vb] && !it.startsWith "panic:" && m.isOk
        let vd := vd.withDiff (!beyond && implStr it != outStr m) s!"model {outStr m}"
        match specAbs smp dw dh ub vb it with
        | some (k, msg) => if k == "AMB" then applySpec vd (some (k, msg)) else vd.withSpec true (be ++ "-" ++ k) msg
        | none => vd
    | _, _, _, _ => bad "sib"
  | ["wide", smp, dw, dh, u, v] =>
    -- u8 texels holding (x + 7y) % 251
    match dw.toNat?, dh.toNat?, parseF32Bits? u, parseF32Bits? v with
    | some dw, some dh, some ub, some vb =>
      let t := Texture.ofDims dw dh
      match runAbs smp t ub vb with
      | none => bad "sampler"
      | some m =>
        let it := impl.getD 0 ""
        let want := match m with
          | .ok (iu, iv) => toString ((iu + 7 * iv) % 251)
          | .panic msg => "panic:" ++ modelPanicClass msg
        let vd := Verdict.ok (["wide", smp, "u-" ++ coordTag ub] ++ (if m.isOk then [] else ["panic"]))
        let vd := vd.withDiff (implStr it != want) s!"model {want}"
        -- spec: no panic (the texel value only identifies the column modulo 251, so in-bounds and
        -- right-texel are judged through the value the spec index would hold)
        -- the texel value identifies the column only modulo 251: look for the candidate index nearest
        -- to the expected one (at most 8 texels below it; 0 or the far edge for NaN / ±∞) that holds
        -- the value read
        let candAxis (w : Nat) (q : Option Rat) : List Nat :=
          let down (e : Nat) : List Nat := (List.range 9).filterMap fun a => if a ≤ e then some (e - a) else none
          match q with
          | some q =>
            down (if smp == "rep" then Spec.Tex.repeatIdx w q else if smp == "cl" then Spec.Tex.clampIdx w q else Spec.Tex.onceIdx q)
          | none => 0 :: down (w - 1)
        let fake := if it.startsWith "panic:" then it else
          let cands := (candAxis dw (toRat? ub)).flatMap fun a => (candAxis dh (toRat? vb)).map fun b => (a, b)
          match cands.find? (fun (a, b) => toString ((a + 7 * b) % 251) == it) with
          | some (a, b) => s!"{a},{b}"
          | none => s!"{dw},{dh}"
        applySpec vd (specAbs smp dw dh ub vb fake)
    | _, _, _, _ => bad "wide"
  | ["dig", smp, dw, dh, v, start, count] =>
    match dw.toNat?, dh.toNat?, parseF32Bits? v, parseHex? start, count.toNat? with
    | some dw, some dh, some vb, some start, some count =>
      let t := Texture.ofDims dw dh
      match runAbs smp t 0 vb with
      | none => bad "sampler"
      | some _ =>
        -- Digest channel: native Float32 per-axis index for u (the exact model costs ~10 µs per
        -- point), the v axis once with the exact model; cross-checked against the exact model on a
        -- sub-sample of every block.
        let masks := match RepeatPot.new t with | .ok s => some s | .panic _ => none
        let potOk := smp != "rep" || masks.isSome
        let hiBits := sub t.w one
        let hiOk := smp != "cl" || (le 0 hiBits && le 0 (sub t.h one))
        if !(potOk && hiOk) then
          -- every sample of the block panics in the same way (not generated; exact path)
          let (h, np) := (List.range count).foldl (fun (acc : UInt64 × Nat) i =>
            match runAbs smp t (UInt32.ofNat (start + i)) vb with
            | some o => (fnvFold acc.1 o, if o.isOk then acc.2 else acc.2 + 1)
            | none => acc) (fnvInit, 0)
          let vd := Verdict.ok ["dig", smp, "exact-path"]
          let vd := vd.withDiff (impl.getD 0 "" != hex16 h) s!"digest: model {hex16 h}"
          vd.withDiff (impl.getD 1 "" != toString np) s!"panic count: model {np}"
        else
        let wMask : UInt32 := match masks with | some s => UInt32.ofNat s.wMask | none => 0
        let ivO : Outcome Nat :=
          if smp == "rep" then .ok (repeatAxis (match masks with | some s => s.hMask | none => 0) vb)
          else if smp == "cl" then clampAxis t.h vb
          else .ok (onceAxis vb)
        let (vOk, ivw) : Bool × UInt32 := match ivO with
          | .ok iv => (iv < dh, UInt32.ofNat iv)
          | .panic _ => (false, 0)
        let axis : UInt32 → UInt32 :=
          if smp == "rep" then Native.repeatAxis wMask
          else if smp == "cl" then Native.clampAxis (Float32.ofBits hiBits)
          else Native.onceAxis
        let dwU : UInt32 := UInt32.ofNat dw
        let rec go (n : Nat) (b : UInt32) (h : UInt64) (np : Nat) : UInt64 × Nat :=
          match n with
          | 0 => (h, np)
          | n + 1 =>
            let iu := axis b
            if vOk && iu < dwU then go n (b + 1) (fnvStep (fnvStep h iu) ivw) np
            else go n (b + 1) (fnvStep h 0xFFFFFFFF) (np + 1)
        let (h, np) := go count (UInt32.ofNat start) fnvInit 0
        let stepN := if count > 64 then count / 64 else 1
        let exactOk := (List.range 64).all fun k =>
          let ub := UInt32.ofNat (start + (k * stepN) % count)
          let iu := axis ub
          match runAbs smp t ub vb with
          | some (.ok (eu, ev)) => vOk && iu < dwU && eu == iu.toNat && ev == ivw.toNat
          | some (.panic _) => !(vOk && iu < dwU)
          | none => false
        let vd := Verdict.ok ["dig", smp, if np > 0 then "has-panics" else "no-panics"]
        -- a block of the repeating sampler that reaches |u| ≥ 2^31 (or ±∞ / NaN), or whose fixed v does: WHICH
        -- texel comes out there is outside the property; the digest is not compared (the counters below are)
        let magBeyond (b : Nat) : Bool := b % 2147483648 ≥ 0x4f000000
        let beyond := smp == "rep" && (magBeyond start || magBeyond (start + count - 1) || repBeyond smp [vb])
        let vd := if beyond then vd.addTag "beyond-2^31" else vd
        let vd := vd.withDiff (!exactOk) "native channel differs from the exact model inside this block"
        let vd := vd.withDiff (!beyond && impl.getD 0 "" != hex16 h) s!"digest: model {hex16 h}"
        let vd := vd.withDiff (impl.getD 1 "" != toString np) s!"panic count: model {np}"
        -- spec on the implementation's own counters: repeat/clamp never panic, never leave the texture
        let inp := (impl.getD 1 "").toNat?.getD 0
        let ioob := (impl.getD 2 "").toNat?.getD 0
        let iwrong := (impl.getD 3 "").toNat?.getD 0
        let name := if smp == "rep" then "repeat" else if smp == "cl" then "clamp" else "once"
        let guarded := smp != "on" && dw > 0 && dh > 0 && (smp == "cl" || (isPow2 dw && isPow2 dh))
        let vd := vd.withSpec (guarded && inp > 0) (name ++ "-panics") s!"{inp} coordinates in block {start} panic"
        let vd := vd.withSpec (guarded && ioob > 0) (name ++ "-out-of-bounds") s!"{ioob} coordinates in block give a texel outside the texture"
        vd.withSpec (iwrong > 0) (name ++ "-wrong-texel") s!"{iwrong} coordinates in block address the wrong texel (harness-side integer oracle)"
    | _, _, _, _, _ => bad "dig"
  | _ => bad "unknown op"

end Retro.Drv.C12
