/-
Driver for C13 (harness/src/bin/c13.rs): model `Retro.Model.Pnm` vs implementation (DIFF), and the
oracle of `Retro.Spec.Pnm` / `Retro.Spec.Grid` on the implementation's own output (SPEC).
-/
import Retro.Drv.Common
import Retro.Model.Pnm
import Retro.Spec.Pnm
import Retro.Spec.Grid

namespace Retro.Drv.C13
open Retro Retro.Drv Retro.Pnm

def pixHex (px : List Pixel) : String := bytesToHex (px.flatMap pixelBytes)

def toPixels : List UInt8 → List Pixel
  | r :: g :: b :: rest => (r, g, b) :: toPixels rest
  | _ => []

def errTok : Err → String
  | .unexpectedEnd => "err:end"
  | .invalidNumber => "err:num"
  | .unsupported a b => "err:unsup:" ++ bytesToHex [a, b]

/-- Model result of `parse_pnm` as the harness prints it. -/
def parseTok (bytes : List UInt8) : List String :=
  match parsePnm bytes with
  | .panic m => ["panic:" ++ m]
  | .ok (.error e) => [errTok e]
  | .ok (.ok (v, px)) => ["ok", toString v.w, toString v.h, pixHex px]

def isPanic (t : String) : Bool := t.startsWith "panic:"

/-- Oracle for one decode result (tokens `ok W H hex` | `err:*` | `panic:*`): never a panic; on `ok`
the pixel count is `W*H`, and `(W, H)` are the dimensions announced by the header. -/
def judgeDecode (bytes : List UInt8) (res : List String) : Option (String × String) :=
  match res with
  | [t] =>
    if isPanic t then some ("parse-panics", s!"decoding gave {t}") else none
  | ["ok", w, h, hex] =>
    match w.toNat?, h.toNat?, parseHexBytes? hex with
    | some w, some h, some px =>
      if px.length != 3 * (w * h) then some ("pixel-count-wrong", s!"{px.length / 3} pixels for {w}x{h}")
      else
        match Spec.Pnm.headerDims bytes with
        | some (hw, hh) =>
          if (hw, hh) != (w, h) then some ("dims-not-header", s!"image {w}x{h}, header says {hw}x{hh}") else none
        | none => none
    | _, _, _ => some ("malformed-output", "cannot read the implementation's result")
  | _ => some ("malformed-output", "cannot read the implementation's result")

def resultKind (res : List String) : String :=
  match res with
  | "ok" :: _ => "ok"
  | [t] => if isPanic t then "panic" else t.takeWhile (· != ':') |>.toString |> fun s => if s == "err" then (if t.startsWith "err:unsup" then "err:unsup" else t) else t
  | _ => "?"

def formatTag (bytes : List UInt8) : String :=
  match bytes with
  | 80 :: d :: _ => if 49 ≤ d && d ≤ 55 then "P" ++ String.singleton (Char.ofNat d.toNat) else "Px"
  | _ => "no-magic"

/-- Two decode results agree if both are images with the same content, or both are REJECTIONS — whatever
error each names (the property says "or an error", not which one). -/
def sameDecode (a b : List String) : Bool :=
  match a, b with
  | [x], [y] => if x.startsWith "err:" && y.startsWith "err:" then true else x == y
  | _, _ => a == b

def handle (case impl : List String) : Verdict :=
  match case with
  | "parse" :: hex :: expect =>
    match parseHexBytes? hex with
    | none => bad "hex"
    | some bytes =>
      let want := parseTok bytes
      -- a panic aborts the harness op before the read_pnm comparison: the panic is the result
      let panicked := (impl.getLast?.map isPanic).getD false
      let res := if panicked then impl else impl.dropLast
      let rd := if panicked then "rd:same" else impl.getLast?.getD ""
      let tags := [formatTag bytes, resultKind res] ++
        (match expect with | "exp" :: _ => ["expected-image"] | _ => ["arbitrary-bytes"]) ++
        (match Spec.Pnm.headerDims bytes with
         | some (w, h) => (if w == 0 || h == 0 then ["zero-dim"] else []) ++ (if w * h > 4294967295 then ["product-overflow"] else [])
         | none => ["no-standard-header"])
      let v : Verdict := { tags := tags }
      let v := v.withDiff (!sameDecode res want) s!"model {" ".intercalate want}"
      let v := if res != want && sameDecode res want then v.addTag "error-kind-differs" else v
      let v := v.withSpec (rd != "rd:same") "read-pnm-differs" "read_pnm and parse_pnm disagree on the same bytes"
      let v := match judgeDecode bytes res with
        | some (k, m) => v.withSpec true k m
        | none => v
      match expect with
      | ["exp", w, h, px] =>
        v.withSpec (res != ["ok", w, h, px]) "decode-wrong" s!"expected image {w}x{h}, got {" ".intercalate (res.take 3)}"
      | _ => v
  | ["pair", hexT, hexB] =>
    match parseHexBytes? hexT, parseHexBytes? hexB with
    | some bt, some bb =>
      let (r1, r2) := Retro.splitAt "|" impl
      let v : Verdict := { tags := ["pair", formatTag bt, formatTag bb] }
      let v := v.withDiff (!sameDecode r1 (parseTok bt) || !sameDecode r2 (parseTok bb)) s!"model {" ".intercalate (parseTok bt)} | {" ".intercalate (parseTok bb)}"
      let v := match judgeDecode bt r1, judgeDecode bb r2 with
        | some (k, m), _ => v.withSpec true k m
        | _, some (k, m) => v.withSpec true k m
        | none, none => v
      let v := v.withSpec (r1.head? != some "ok" || r2.head? != some "ok") "valid-image-rejected" s!"text: {r1.headD ""}, binary: {r2.headD ""}"
      v.withSpec (r1 != r2) "text-binary-differ" "text and binary encodings of the same image decode differently"
    | _, _ => bad "hex"
  | "write" :: rest | "writem" :: rest | "writeb" :: rest | "save" :: rest | "savem" :: rest | "saveb" :: rest =>
    -- save*/: the same view through save_ppm + load_pnm on a temp file: same bytes, same image
    let parsed : Option (Nat × Nat × Nat × Nat × Nat × Nat × Nat × Nat × List UInt8) :=
      match case with
      | [_, w, h, s, n, l, t, r, b, px] =>
        match [w, h, s, n, l, t, r, b].map String.toNat?, parseHexBytes? px with
        | [some w, some h, some s, some n, some l, some t, some r, some b], some px => some (w, h, s, n, l, t, r, b, px)
        | _, _ => none
      | [_, w, h, px] =>
        match w.toNat?, h.toNat?, parseHexBytes? px with
        | some w, some h, some px => some (w, h, w, w * h, 0, 0, w, h, px)
        | _, _, _ => none
      | _ => none
    let _ := rest
    match parsed with
    | none => bad "write"
    | some (w, h, s, n, l, t, r, b, pxb) =>
      let root := toPixels pxb
      -- model
      let modelOut : Outcome (List UInt8) :=
        match Buf.sliceNew w h s n with
        | .panic m => .panic m
        | .ok v =>
          match Buf.slice v (Buf.Rect.ofCorners l t r b) with
          | .panic m => .panic m
          | .ok c => writePpm root c
      let want : List String :=
        match modelOut with
        | .panic m => ["panic:" ++ m]
        | .ok bytes => ["w:" ++ bytesToHex bytes, "p:" ++ " ".intercalate (parseTok bytes)]
      let implJoined : List String :=
        match impl with
        | wtok :: ptok :: more => [wtok, " ".intercalate (ptok :: more)]
        | other => other
      let tags := [case.headD "", if s > w then "strided" else "dense", if r - l < w || b - t < h then "sub-view" else "whole",
        if r - l == 0 || b - t == 0 then "zero-dim" else "non-empty"]
      let v : Verdict := { tags := tags }
      let v := v.withDiff (implJoined != want) s!"model {" ".intercalate (want.map fun s => (s.take 60).toString)}"
      -- oracle: the plain grid window, printed by the independent printer
      let g := Spec.Grid.ofFlat s root
      let win : Spec.Grid.Win := { x0 := l, y0 := t, w := r - l, h := b - t }
      match Spec.Grid.window g win with
      | none => v
      | some rows =>
        let content := rows.flatten
        let file := Spec.Pnm.ppm (r - l) (b - t) content
        let v := v.withSpec (implJoined.headD "" != "w:" ++ bytesToHex file) "ppm-bytes-wrong" "write_ppm output is not the PPM file of the view"
        v.withSpec (implJoined.getD 1 "" != "p:" ++ " ".intercalate ["ok", toString (r - l), toString (b - t), pixHex content])
          "roundtrip-mismatch" s!"reading back gave {((implJoined.getD 1 "").take 40).toString}"
  | ["loaderr", kind] =>
    -- the model has no file system: a missing path is Err(Io) (From<io::Error>), a directory is some Err
    -- (File::open succeeds, the first read fails, read_pnm's map_while(ok) ends the stream: UnexpectedEnd)
    let tok := impl.headD ""
    let v : Verdict := { tags := ["loaderr", kind] }
    let v := v.withDiff (if kind == "missing" then impl != ["err:io"] else !(tok.startsWith "err:") || impl.length != 1)
      s!"expected an error, got {" ".intercalate impl}"
    v.withSpec (isPanic tok) "load-panics" s!"load_pnm of a {kind} path gave {tok}"
  | ["rsnum", bits, hex] =>
    match parseHexBytes? hex with
    | none => bad "hex"
    | some tok =>
      let m := if bits == "8" then u8Max else if bits == "16" then u16Max else u32Max
      let want := match parseUnsigned m tok with
        | .ok v => s!"ok:{v}"
        | .error .unexpectedEnd => "empty"
        | .error _ => "invalid"
      (Verdict.ok ["rsnum", (want.takeWhile (· != ':')).toString]).withDiff (impl != [want]) s!"model {want}"
  | ["rsws"] =>
    let want := String.ofList ((List.range 256).map fun b => if isWs (UInt8.ofNat b) then '1' else '0')
    (Verdict.ok ["rsws"]).withDiff (impl != [want]) "is_ascii_whitespace table differs"
  | ["rsdec", n] =>
    match n.toNat? with
    | some n => (Verdict.ok ["rsdec"]).withDiff (impl != [bytesToHex (decimal n)]) s!"model {bytesToHex (decimal n)}"
    | none => bad "rsdec"
  | [op, k, hex] =>
    if op != "readshort" && op != "readfail" then bad "unknown op" else
    match k.toNat?, parseHexBytes? hex with
    | some k, some bytes =>
      -- short reads do not change the byte stream; an io::Error ends it (read_pnm: map_while(io::Result::ok))
      let seen := if op == "readfail" then bytes.take k else bytes
      let want := parseTok seen
      -- readshort carries a trailing `rd:same|rd:diff`: the implementation's own parse_pnm on the same bytes
      let rd := if op == "readshort" then impl.getLast?.getD "" else "rd:same"
      let impl := if op == "readshort" then impl.dropLast else impl
      let v : Verdict := { tags := [op, formatTag bytes, resultKind impl] }
      let v := v.withDiff (!sameDecode impl want) s!"model {" ".intercalate want}"
      let v := v.withSpec (rd != "rd:same") "read-pnm-differs" "read_pnm from a reader that delivers the bytes in small pieces and parse_pnm disagree on the same bytes"
      match judgeDecode seen impl with
      | some (key, m) => v.withSpec true key m
      | none => v
    | _, _ => bad "read op"
  | _ => bad "unknown op"

end Retro.Drv.C13
