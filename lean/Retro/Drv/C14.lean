import Retro.Drv.Common
import Retro.Model.Obj
import Retro.Model.ParseF32

namespace Retro.Drv.C14
open Retro Retro.Obj Retro.Drv

/-- NaN payloads and signs collapsed; everything else is its 8 hex digits. -/
def canonBits (b : UInt32) : String := if F32.isNaN b then "nan" else hex8 b
def canonTok (t : String) : String :=
  match parseF32Bits? t with
  | some b => if t.length == 8 then canonBits b else t
  | none => t

def kindStr : Kind → String
  | .vertex => "vertex" | .texcoord => "texcoord" | .normal => "normal"

/-- The model's result in the harness' output vocabulary (without the trailing build flag). -/
def renderModel : Outcome (Except Err Mesh) → List String
  | .panic s => ["panic:" ++ s]
  | .ok (.error (.unsupportedItem c)) => ["err", "unsupported", toString c]
  | .ok (.error .unexpectedEnd) => ["err", "end"]
  | .ok (.error .invalidValue) => ["err", "invalid"]
  | .ok (.error (.indexOutOfBounds k i)) => ["err", "oob", kindStr k, toString i]
  | .ok (.ok m) =>
    ["ok", toString m.verts.length, toString m.faces.length]
      ++ m.verts.flatMap (fun (x, y, z) => [canonBits x, canonBits y, canonBits z])
      ++ m.faces.flatMap (fun (a, b, c) => [toString a, toString b, toString c])
      ++ [match build m with | .ok _ => "bok" | .panic _ => "bpanic"]

def resultTag : List String → String
  | "ok" :: "0" :: "0" :: _ => "ok-empty"
  | "ok" :: _ :: "0" :: _ => "ok-verts-only"
  | "ok" :: _ => "ok-mesh"
  | "err" :: "unsupported" :: _ => "err-unsupported"
  | "err" :: "end" :: _ => "err-end"
  | "err" :: "invalid" :: _ => "err-invalid"
  | "err" :: "oob" :: k :: _ => "err-oob-" ++ k
  | "err" :: "io" :: _ => "err-io"
  | _ => "panic"

/-- Spec oracle on the implementation's own output for arbitrary bytes:
never panics; on `ok` every index is below the vertex count and `build()` succeeded. -/
def specTotal (v : Verdict) (impl : List String) : Verdict :=
  match impl with
  | "ok" :: nv :: nf :: rest =>
    match nv.toNat?, nf.toNat? with
    | some nv, some nf =>
      let idx := (rest.drop (3 * nv)).take (3 * nf)
      let bad := idx.any fun t => match t.toNat? with | some i => i ≥ nv | none => true
      let v := v.withSpec (idx.length != 3 * nf) "malformed-output" "face list shorter than announced"
      let v := v.withSpec bad "index-out-of-range" s!"Ok(builder) with a face index >= {nv} vertices"
      v.withSpec (rest.getLast? != some "bok") "build-panics" "Ok(builder) whose build() panics"
    | _, _ => v.withSpec true "malformed-output" "counts"
  | "err" :: _ => v
  | t :: _ =>
    if t.startsWith "panic:" then v.withSpec true "parse-panics" s!"parse_obj panicked: {t}"
    else v.withSpec true "malformed-output" t
  | [] => v.withSpec true "malformed-output" "empty"

def byteTags (bs : List UInt8) : List String :=
  (if bs.any (· ≥ 0x80) then ["nonascii"] else [])
  ++ (if bs.any (· == 0x0D) then ["cr"] else [])
  ++ (if bs.any (· == 47) then ["slash"] else [])

def optBits : Option UInt32 → List String
  | some b => ["some", canonBits b]
  | none => ["none"]

/-- `Display for Error` (io.rs:256-271) as UTF-8 bytes; the `char` of `UnsupportedItem` is below U+0100. -/
def displayBytes : Err → List UInt8
  | .unsupportedItem c =>
    "unsupported item type '".toUTF8.toList ++
      (if c < 0x80 then [UInt8.ofNat c] else [UInt8.ofNat (0xC0 + c / 64), UInt8.ofNat (0x80 + c % 64)]) ++ [39]
  | .unexpectedEnd => "unexpected end of input".toUTF8.toList
  | .invalidValue => "invalid numeric value".toUTF8.toList
  | .indexOutOfBounds k i => (kindStr k ++ " index out of bounds: " ++ toString i).toUTF8.toList

/-- Model result with the detail tokens of the reader ops: `| <Display hex> <source() is Some>`. -/
def renderDetail (r : Outcome (Except Err Mesh)) : List String :=
  renderModel r ++ (match r with
    | .ok (.error e) => ["|", bytesToHex (displayBytes e), "0"]
    | _ => [])

def ioErrTokens : List String :=
  ["err", "io", "BrokenPipe", "|", bytesToHex "I/O error: boom".toUTF8.toList, "1"]

/-- `read_obj` from a reader that fails after `cut` bytes (io.rs:98-108): the parser pulls bytes
lazily, line by line; a parse error in a line completed before the failure is returned without the
reader being touched again, otherwise the I/O error wins over whatever the truncated text gave. -/
def readFailing (bs : List UInt8) (cut : Nat) : List String :=
  let pre := bs.take cut
  let complete := (pre.reverse.dropWhile (· != 10)).reverse     -- up to and including the last '\n'
  match foldLines ParseF32.parseF32 {} (splitLines complete) with
  | .ok (.error e) => renderDetail (.ok (.error e))
  | .panic s => ["panic:" ++ s]
  | .ok (.ok _) => ioErrTokens

def stripDetail (impl : List String) : List String := impl.takeWhile (· != "|")

/-- What the property determines about a result: an accepted mesh is compared token by token; two
REJECTIONS agree whatever error each names (the property says "returns an error", not which one: a parser
that reports the same malformed line as `InvalidValue` instead of `UnexpectedEnd` still satisfies it). -/
def differs (impl model : List String) : Bool :=
  if impl.head? == some "err" && model.head? == some "err" then false
  -- input the model REJECTS and the implementation accepts (e.g. a reader that skips `g` / `usemtl` lines instead
  -- of reporting an unsupported item): the property allows either outcome for input that is not well-formed; the
  -- spec oracle still requires every index of the accepted mesh to be valid and build() to succeed
  else if impl.head? == some "ok" && model.head? == some "err" then false
  else impl != model

/-- Tag for rejections that name different errors (diagnostic only). -/
def kindTag (impl model : List String) : List String :=
  if impl.head? == some "err" && model.head? == some "err" && impl != model then ["error-kind-differs"]
  else if impl.head? == some "ok" && model.head? == some "err" then ["accepts-more-than-model"] else []

def handle (case impl : List String) : Verdict :=
  match case with
  | ["obj", mode, hex] =>
    match parseHexBytes? hex with
    | none => bad "hex"
    | some bs =>
      let m := renderModel (parseObj ParseF32.parseF32 bs)
      let implC := impl.map canonTok
      let v := Verdict.ok ([resultTag m, mode] ++ byteTags bs ++ kindTag implC m)
      let v := v.withDiff (differs implC m) s!"model {" ".intercalate (m.take 12)}"
      specTotal v impl
  | "objw" :: mode :: hex :: nv :: nf :: rest =>
    match parseHexBytes? hex, nv.toNat?, nf.toNat? with
    | some bs, some nv, some nf =>
      let m := renderModel (parseObj ParseF32.parseF32 bs)
      let implC := impl.map canonTok
      let v := Verdict.ok ([resultTag m, mode] ++ byteTags bs ++ kindTag implC m)
      let v := v.withDiff (differs implC m) s!"model {" ".intercalate (m.take 12)}"
      let v := specTotal v impl
      -- faithfulness: exactly what the generator listed (from the case line, not from the model)
      let wantV := (rest.take (3 * nv)).map canonTok
      let wantF := (rest.drop (3 * nv)).take (3 * nf)
      match implC with
      | "ok" :: inv :: inf :: irest =>
        let v := v.withSpec (inv != toString nv) "wellformed-vertex-count" s!"{inv} vertices, file lists {nv}"
        let v := v.withSpec (inf != toString nf) "wellformed-face-count" s!"{inf} faces, file lists {nf}"
        let v := v.withSpec (irest.take (3 * nv) != wantV) "wellformed-vertex-mismatch" "vertex positions differ from the written coordinates"
        v.withSpec ((irest.drop (3 * nv)).take (3 * nf) != wantF) "wellformed-face-mismatch" "faces differ from the written one-based indices minus one"
      | _ => v.withSpec true "wellformed-rejected" s!"well-formed file not accepted: {" ".intercalate (impl.take 4)}"
    | _, _, _ => bad "objw"
  | ["objbig", _, nv] =>
    -- implementation against itself: `ok nv 50 | ok nv 50 | ok nv 50 | 1 1`
    let v := Verdict.ok ["objbig"]
    let want := s!"ok {nv} 50"
    let secs := (" ".intercalate impl).splitOn " | "
    let v := v.withSpec (secs.getD 0 "" != want) "wellformed-rejected" s!"parse_obj on a large well-formed file: {secs.getD 0 ""}, expected {want}"
    let v := v.withSpec (secs.getD 1 "" != want || secs.getD 2 "" != want || secs.getD 3 "" != "1 1") "read-obj-differs"
      s!"read_obj / load_obj disagree with parse_obj on the same {nv}-vertex file: {secs.getD 1 ""} / {secs.getD 2 ""}"
    v
  | [op, arg, hex] =>
    if op == "objr" || op == "objs" || op == "objf" || op == "objio" then
      match parseHexBytes? hex with
      | none => bad "hex"
      | some bs =>
        let m := if op == "objio" then readFailing bs (arg.toNat?.getD 0)
                 else renderDetail (parseObj ParseF32.parseF32 bs)
        let implC := impl.map canonTok
        let v := Verdict.ok ([op, resultTag (stripDetail m)] ++ (if m == ioErrTokens then ["io-error"] else []))
        -- gating: the result up to the detail tokens; the Display text and source() of an error are not part of
        -- the property (a reworded message is not a change of behaviour): they only set a tag
        let v := v.withDiff (differs (stripDetail implC) (stripDetail m)) s!"model {" ".intercalate (m.take 12)}"
        let v := if implC != m then v.addTag "error-text-differs" else v
        let v := specTotal v (stripDetail impl)
        v.withSpec (op == "objio" && impl.head? == some "ok") "io-error-not-reported"
          "read_obj returned Ok although the reader failed"
    else bad "unknown op"
  | ["objmiss", _] =>
    let m := ["err", "io", "NotFound", "|", "pre", "1"]
    let v := (Verdict.ok ["objmiss"]).withDiff (differs (stripDetail impl) (stripDetail m)) s!"model {m}"
    let v := specTotal v (stripDetail impl)
    v.withSpec (impl.head? != some "err") "missing-file-not-reported" "load_obj of a missing path did not return Err"
  | ["f32", hex] =>
    match parseHexBytes? hex with
    | none => bad "hex"
    | some bs =>
      let m := optBits (ParseF32.parseF32 bs)
      let tag := match m with
        | ["none"] => "f32-reject"
        | [_, "nan"] => "f32-nan"
        | [_, b] => if b == "7f800000" || b == "ff800000" then "f32-inf"
                    else if b == "00000000" || b == "80000000" then "f32-zero"
                    else if (parseF32Bits? b).any (fun x => F32.expField x == 0) then "f32-subnormal" else "f32-normal"
        | _ => "?"
      (Verdict.ok [tag]).withDiff (impl.map canonTok != m) s!"model {m}"
  | ["usz", hex] =>
    match parseHexBytes? hex with
    | none => bad "hex"
    | some bs =>
      let m := match parseUsize bs with | some n => ["some", toString n] | none => ["none"]
      (Verdict.ok [if m.length == 1 then "usz-reject" else "usz-accept"]).withDiff (impl != m) s!"model {m}"
  | _ => bad "unknown op"

end Retro.Drv.C14
