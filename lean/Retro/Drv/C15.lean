import Retro.Drv.Common
import Retro.Model.Lathe
import Retro.Model.Platonic
import Retro.Spec.Solid

namespace Retro.Drv.C15
open Retro Retro.Drv Retro.Solid

structure Parsed where
  mesh : Solid.Mesh
  bits : Array UInt32            -- 6 per vertex
  finite : Bool

def parseImpl (impl : List String) : Option Parsed := do
  let a := impl.toArray
  let nv ← (← a[0]?).toNat?
  let nf ← (← a[1]?).toNat?
  if a.size != 2 + 6 * nv + 3 * nf then none
  let mut bits : Array UInt32 := Array.mkEmpty (6 * nv)
  for i in [0:6 * nv] do
    bits := bits.push (← parseF32Bits? a[2 + i]!)
  let mut finite := true
  let mut verts : Array Vtx := Array.mkEmpty nv
  for i in [0:nv] do
    let g (k : Nat) : Int := match fix? bits[6 * i + k]! with | some x => x | none => 0
    if (List.range 6).any fun k => (fix? bits[6 * i + k]!).isNone then finite := false
    verts := verts.push { p := (g 0, g 1, g 2), n := (g 3, g 4, g 5) }
  let mut faces : Array (Nat × Nat × Nat) := Array.mkEmpty nf
  for i in [0:nf] do
    let b := 2 + 6 * nv + 3 * i
    faces := faces.push ((← a[b]!.toNat?), (← a[b + 1]!.toNat?), (← a[b + 2]!.toNat?))
  return { mesh := { verts := verts, faces := faces }, bits := bits, finite := finite }

/-- What the case asks for: ideal surface, closedness, expected Euler characteristic, and the
model's face list and vertex count. -/
structure Expect where
  shape : Shape
  closed : Bool
  euler : Int := 2
  faces : List (Nat × Nat × Nat)
  nVerts : Nat
  /-- (secs, nPoints) when the vertices come in lathe rings -/
  rings : Option (Nat × Nat) := none
  /-- expected merged vertex / non-degenerate face counts (Platonic solids) -/
  counts : Option (Nat × Nat) := none
  /-- the model's statement of which vertices coincide: a class label per vertex index -/
  classOf : Option (Array Nat) := none
  tags : List String := []

def fixTok (t : String) : Option Int := (parseF32Bits? t).bind fix?
def ratTok (t : String) : Option Rat := (parseF32Bits? t).bind F32.toRat?

def latheExpect (shape : Shape) (closed : Bool) (euler : Int) (nPoints secs : Nat) (capped : Bool)
    (tags : List String) (cl : Lathe.Closure := {}) : Expect :=
  { shape := shape, closed := closed, euler := euler
    faces := Lathe.faces nPoints secs capped
    nVerts := Lathe.vertCount nPoints secs capped
    rings := some (secs, nPoints)
    classOf := some ((Array.range (Lathe.vertCount nPoints secs capped)).map (Lathe.ident nPoints secs cl))
    tags := tags ++ (if secs == 3 then ["secs-min"] else []) ++ (if capped then ["capped"] else []) }

def platMesh : String → Option (Platonic.Mesh × Nat × Nat)
  | "tetra" => some (Platonic.tetra, 4, 4)
  | "octa" => some (Platonic.octa, 6, 8)
  | "dodeca" => some (Platonic.dodeca, 20, 36)
  | "icosa" => some (Platonic.icosa, 12, 20)
  | _ => none

def expectOf (case : List String) : Option Expect :=
  match case with
  | ["plat", name] => do
    let (m, v, f) ← platMesh name
    some { shape := .unitSphere, closed := true, faces := m.faces, nVerts := m.verts.length,
           counts := some (v, f), tags := [name], classOf := some m.coordIndex.toArray }
  | ["box", a, b, c, d, e, f] => do
    let l : I3 := (← fixTok a, ← fixTok b, ← fixTok c)
    let r : I3 := (← fixTok d, ← fixTok e, ← fixTok f)
    some { shape := .box l r, closed := true, faces := Platonic.boxFaces, nVerts := 24,
           counts := some (8, 12), tags := ["box"], classOf := some ((Platonic.boxVerts.map (·.1)).toArray) }
  | ["sphere", secs, segs, r] => do
    let secs ← secs.toNat?; let segs ← segs.toNat?
    some (latheExpect (.sphere (← fixTok r)) true 2 (Lathe.spherePoints segs) secs false
      (["sphere"] ++ if segs == 2 then ["segs-min"] else []) { poleBottom := true, poleTop := true })
  | ["torus", major, minor, bigR, r] => do
    let major ← major.toNat?; let minor ← minor.toNat?
    some (latheExpect (.torus (← fixTok bigR) (← fixTok r)) true 0 (Lathe.torusPoints minor) major false
      (["torus"] ++ if minor == 3 then ["segs-min"] else []) { wrap := true })
  | ["cyl", secs, segs, capped, r] => do
    let secs ← secs.toNat?; let segs ← segs.toNat?
    let r ← fixTok r
    some (latheExpect (.cone r r) (capped == "1") 2 (Lathe.conePoints segs) secs (capped == "1")
      (["cyl"] ++ if segs == 1 then ["segs-min"] else []))
  | ["cone", secs, segs, capped, base, apex] => do
    let secs ← secs.toNat?; let segs ← segs.toNat?
    let base ← fixTok base; let apex ← fixTok apex
    some (latheExpect (.cone base apex) (capped == "1") 2 (Lathe.conePoints segs) secs (capped == "1")
      (["cone"] ++ (if segs == 1 then ["segs-min"] else []) ++ (if base == 0 || apex == 0 then ["pointed"] else []))
      { poleBottom := base == 0, poleTop := apex == 0 })
  | ["capsule", secs, body, cap, r] => do
    let secs ← secs.toNat?; let body ← body.toNat?; let cap ← cap.toNat?
    some (latheExpect (.capsule (← fixTok r)) true 2 (Lathe.capsulePoints body cap) secs false
      (["capsule"] ++ if body == 1 || cap == 1 then ["segs-min"] else []) { poleBottom := true, poleTop := true })
  | "lathe" :: secs :: capped :: a0 :: a1 :: n :: rest => do
    let secs ← secs.toNat?; let n ← n.toNat?
    let a0 ← ratTok a0; let a1 ← ratTok a1
    if rest.length != 4 * n then none
    let r := rest.toArray
    let mut prof : Array (Int × Int) := #[]
    for i in [0:n] do
      prof := prof.push (← fixTok r[4 * i]!, ← fixTok r[4 * i + 1]!)
    let full := a1 - a0 == 1
    -- closed only as a full revolution with caps (the generated profiles never touch the axis)
    some (latheExpect (.rings secs n prof) (full && capped == "1") 2 n secs (capped == "1")
      ["lathe", if full then "full-turn" else "partial-az"] { seam := full })
  | _ => none

/-- `|c − sign·√sq| ≤ tol` for a finite binary32 `c` given exactly. -/
def surdClose (c : Rat) (s : Platonic.Surd) (tol : Rat) : Bool :=
  -- compare squares: |c² − sq| ≤ tol·(2√sq + tol) is implied by |c² − sq| ≤ tol (all values ≤ ~2 here)
  (Platonic.sgn c == s.sign || ratAbs c ≤ tol && s.sq ≤ tol * tol) && ratAbs (c * c - s.sq) ≤ tol

/-- Correspondence of the Platonic models: every vertex component within `tol` of the table value.
Scale-free solids (|coordinates| ≤ 2). -/
def platVertsAgree (bits : Array UInt32) (m : Platonic.Mesh) (tol : Rat) : Option String := Id.run do
  let vs := m.verts.toArray
  for i in [0:vs.size] do
    let v := vs[i]!
    let comps := [v.pos.1, v.pos.2.1, v.pos.2.2, v.normal.1, v.normal.2.1, v.normal.2.2]
    let mut k := 0
    for s in comps do
      match F32.toRat? bits[6 * i + k]! with
      | none => return some s!"vertex {i} component {k} not finite"
      | some c =>
        if !surdClose c s tol then
          return some s!"vertex {i} component {k}: impl {ratApprox c}, model {s.sign}·√{ratApprox s.sq}"
      k := k + 1
  return none

/-- Ring structure predicted by the lathe model (theorems `ring_on_circle`, `ring_normal_unit`):
inside a ring the height and the normal's y are constant (bit-exact: the rotation copies y), and
x²+z² is constant up to rounding. -/
def ringsAgree (p : Parsed) (secs nPoints : Nat) (s : Int) : Option String := Id.run do
  -- `s`: radial scale max(Sx, Sz)
  let n := secs + 1
  for j in [0:nPoints] do
    let v0 := p.mesh.verts[j * n]!
    let r0 := v0.p.1 * v0.p.1 + v0.p.2.2 * v0.p.2.2
    let m0 := v0.n.1 * v0.n.1 + v0.n.2.2 * v0.n.2.2
    for i in [1:n] do
      let v := p.mesh.verts[j * n + i]!
      if v.p.2.1 != v0.p.2.1 then return some s!"ring {j}: height changes at column {i}"
      if v.n.2.1 != v0.n.2.1 then return some s!"ring {j}: normal y changes at column {i}"
      let r := v.p.1 * v.p.1 + v.p.2.2 * v.p.2.2
      -- the incremental rotation accumulates about one rounding per column: the tolerance grows with the column
      -- count beyond 100 columns (1e-5 of the squared scale up to 100 sectors, 1e-7 per sector after that)
      if 100000 * iabs (r - r0) > s * s * (max 100 secs : Nat) / 100 then return some s!"ring {j}: radius changes at column {i}"
      let m := v.n.1 * v.n.1 + v.n.2.2 * v.n.2.2
      if 10000 * iabs (m - m0) > one * one then return some s!"ring {j}: normal radial length changes at column {i}"
  return none

/-- Cap vertices duplicate their source ring's positions exactly and carry (0, ∓1, 0). -/
def capsAgree (p : Parsed) (secs nPoints : Nat) : Option String := Id.run do
  let ringV := Lathe.ringVertCount nPoints secs
  for k in [0:2 * (secs + 1)] do
    let v := p.mesh.verts[ringV + k]!
    let src := p.mesh.verts[Lathe.capSource nPoints secs k]!
    if v.p != src.p then return some s!"cap vertex {k} is not a copy of vertex {Lathe.capSource nPoints secs k}"
    let want : I3 := (0, if k < secs + 1 then -one else one, 0)
    if v.n != want then return some s!"cap vertex {k} normal"
  return none

/-- Do the geometric coincidences of the real mesh (`rep`, from coordinates) form exactly the
partition the model states (`cls`)?  Both are turned into "first index of my class". -/
def partitionAgrees (rep cls : Array Nat) : Option String := Id.run do
  if rep.size != cls.size then return some "sizes differ"
  for i in [0:rep.size] do
    let mut first := i
    for j in [0:i] do
      if first == i && cls[j]! == cls[i]! then first := j
    if first != rep[i]! then
      return some s!"vertex {i}: coincides with vertex {rep[i]!} in the mesh, model class starts at {first}"
  return none

/-- `Box::cube(side)` is `Box { (-l,-l,-l), (l,l,l) }` with `l = 0.5 * side` (platonic.rs:174-180);
`Box::default()` is `cube(1.0)`: rewritten to the `box` case with the corners rounded as in f32. -/
def normalizeCase (case : List String) : List String :=
  let cube (side : Rat) : List String :=
    let l := F32.ofRat (side / 2)
    let nl := F32.ofRat (-(F32.toRatD l))
    ["box", hex8 nl, hex8 nl, hex8 nl, hex8 l, hex8 l, hex8 l]
  match case with
  | ["cube", s] => match ratTok s with | some q => cube q | none => case
  | ["boxdef"] => cube 1
  | _ => case

def handleN (case impl : List String) : Verdict :=
  match expectOf case with
  | none => bad "case"
  | some ex =>
    let op := case.headD "?"
    let tags := ex.tags ++ [if ex.closed then "closed" else "open"]
    match impl with
    | [t] =>
      if t.startsWith "panic:" then
        (Verdict.mkDiff "model does not panic" tags).withSpec true "build-panics" s!"{op} build() panicked: {t}"
      else bad "impl output"
    | _ =>
    match parseImpl impl with
    | none => (Verdict.mkDiff "malformed implementation output" tags)
    | some p =>
      let m := p.mesh
      let nv := m.verts.size
      let v := Verdict.ok tags
      -- ---------------- correspondence with the model
      let v := v.withDiff (nv != ex.nVerts) s!"vertex count: impl {nv}, model {ex.nVerts}"
      -- faces are compared as a MULTISET of oriented triangles: the order in which faces are emitted and which
      -- of its three corners a face starts with are not behaviour the property speaks about (the winding is)
      let canonFace (f : Nat × Nat × Nat) : Nat × Nat × Nat :=
        let (a, b, c) := f
        if a ≤ b && a ≤ c then (a, b, c) else if b ≤ a && b ≤ c then (b, c, a) else (c, a, b)
      let faceKey (f : Nat × Nat × Nat) : Nat := (f.1 * 1000003 + f.2.1) * 1000003 + f.2.2
      let canonFaces (fs : List (Nat × Nat × Nat)) : Array Nat := ((fs.map (faceKey ∘ canonFace)).toArray.qsort (· < ·))
      let sameFaces := canonFaces m.faces.toList == canonFaces ex.faces
      let v := if sameFaces && m.faces.toList != ex.faces then v.addTag "face-order-differs" else v
      let v := v.withDiff (!sameFaces) s!"face set differs (impl {m.faces.size} faces, model {ex.faces.length})"
      -- ---------------- spec oracle on the implementation's output
      let v := v.withSpec (!p.finite) "non-finite" "a coordinate or normal component is NaN or infinite"
      let v := v.withSpec (!indicesValid m) "index-out-of-range" "a face index is not below the vertex count"
      if v.spec.isSome then v else
      -- a lathe turned through a PARTIAL azimuth range (0.1..0.9 of a turn) must not close up: on every
      -- ring of positive radius the first and the last column are 2r·sin(π·Δ) apart, i.e. chord² ≥ 0.38 r²
      let v := match case with
        | "lathe" :: secs :: _ :: a0 :: a1 :: n :: _ =>
          match secs.toNat?, n.toNat?, ratTok a0, ratTok a1 with
          | some secs, some n, some a0, some a1 =>
            let d := a1 - a0
            if d < 1 / 10 || d > 9 / 10 || nv < n * (secs + 1) then v
            else
              match (List.range n).find? (fun j =>
                  let p0 := m.verts[j * (secs + 1)]!.p
                  let p1 := m.verts[j * (secs + 1) + secs]!.p
                  let r2 := p0.1 * p0.1 + p0.2.2 * p0.2.2
                  let c2 := (p0.1 - p1.1) * (p0.1 - p1.1) + (p0.2.2 - p1.2.2) * (p0.2.2 - p1.2.2)
                  r2 > 0 && 10 * c2 < 3 * r2) with
              | some j => v.withSpec true "azimuth-extent-wrong"
                  s!"ring {j}: first and last column (nearly) coincide although the lathe spans {ratApprox d} of a turn"
              | none => v
          | _, _, _, _ => v
        | _ => v
      if v.spec.isSome then v else
      let ax := axisScales m
      let s := scaleOf m
      let sr := max ax.1 ax.2.2
      let v := match (List.range nv).find? (fun i => !unitNormal m.verts[i]!.n) with
        | some i => v.withSpec true "normal-not-unit" s!"vertex {i}: | |n|² − 1 | > 2e-3"
        | none => v
      let rep := representatives m ax
      -- lathe solids step round the axis incrementally: the rounding of `secs` steps accumulates in a corner
      let noiseK := match ex.rings with | some (secs, _) => max 1 (secs / 8) | none => 1
      let v := match wrongSide m rep noiseK with
        | some (k, i) => v.withSpec true "normal-wrong-side" s!"face {k}: normal of vertex {i} is not on the side of (b−a)×(c−a)"
        | none => v
      let edges := directedEdges m rep
      let v := v.withSpec (!windingConsistent edges) "winding-inconsistent" "a directed edge is used by two faces"
      -- tolerances relative to the solid's own size, never below a few ulps of the coordinates
      let floor := s / 1048576
      let t := max (ex.shape.size / 1000) floor
      let ty := max (ax.2.1 / 1000) floor
      let v := match (List.range nv).find? (fun i => !onSurface ex.shape t ty m.verts[i]!.p) with
        | some i => v.withSpec true "off-surface" s!"vertex {i} is not on the intended surface"
        | none => v
      let v := match ex.shape with
        | .box l r => v.withSpec (!boxCornersPresent m l r) "box-corner-missing" "a corner of the box is not a vertex"
        | _ => v
      let v :=
        if ex.closed then
          let v := v.withSpec (!watertight nv edges) "not-watertight" "after merging coincident vertices some edge is not shared by exactly two faces in opposite directions"
          let chi := eulerChar nv edges
          let v := v.withSpec (chi != ex.euler) "euler-characteristic" s!"V−E+F = {chi}, expected {ex.euler}"
          v.withSpec (signedVolume6 m rep ≤ 0) "inward-winding" "signed volume is not positive: faces wound clockwise seen from outside"
        else v
      let v := match ex.counts with
        | some (cv, cf) =>
          let gotV := countDistinct (edges.map fun k => k / nv)
          v.withSpec (gotV != cv || edges.size / 3 != cf) "solid-counts" s!"{gotV} distinct vertices / {edges.size / 3} faces, expected {cv} / {cf}"
        | none => v
      -- ---------------- correspondence, geometric part
      if v.diff.isSome then v else
      let v := match ex.classOf with
        | some cls => match partitionAgrees rep cls with
          | some msg => v.withDiff true ("coincident vertices: " ++ msg)
          | none => v
        | none => v
      if v.diff.isSome then v else
      match ex.rings, case with
      | some (secs, nPoints), _ =>
        let v := match ringsAgree p secs nPoints sr with
          | some msg => v.withDiff true msg
          | none => v
        if Lathe.hasCaps nPoints (ex.tags.contains "capped") then
          match capsAgree p secs nPoints with
          | some msg => v.withDiff true msg
          | none => v
        else v
      | none, ["plat", name] =>
        match platMesh name with
        | some (pm, _, _) =>
          match platVertsAgree p.bits pm (1 / 100000) with
          | some msg => v.withDiff true msg
          | none => v
        | none => v
      | none, ["box", a, b, c, d, e, f] =>
        match ratTok a, ratTok b, ratTok c, ratTok d, ratTok e, ratTok f with
        | some a, some b, some c, some d, some e, some f =>
          -- lerp(l, r, 1) = l + (r − l) is rounded twice: compare within 1e-6 of the box's scale
          let sc := ratMax (ratMax (ratAbs a) (ratAbs d)) (ratMax (ratMax (ratAbs b) (ratAbs e)) (ratMax (ratAbs c) (ratAbs f)))
          let pm := Platonic.box (a, b, c) (d, e, f)
          let bad := (List.range 24).find? fun i =>
            let mv := pm.verts.getD i default
            let want : List Rat := [a + (d - a) * (Platonic.boxCoords.getD (Platonic.boxVerts.getD i default).1 default).1,
                                    b + (e - b) * (Platonic.boxCoords.getD (Platonic.boxVerts.getD i default).1 default).2.1,
                                    c + (f - c) * (Platonic.boxCoords.getD (Platonic.boxVerts.getD i default).1 default).2.2]
            let got := (List.range 3).map fun k => F32.toRatD p.bits[6 * i + k]!
            let nrm := [mv.normal.1, mv.normal.2.1, mv.normal.2.2]
            let gotN := (List.range 3).map fun k => F32.toRatD p.bits[6 * i + 3 + k]!
            (got.zip want).any (fun (g, w) => ratAbs (g - w) > sc / 1000000)
              || (gotN.zip nrm).any (fun (g, w) => !surdClose g w (1 / 1000000))
          match bad with
          | some i => v.withDiff true s!"box vertex {i} differs from the model"
          | none => v
        | _, _, _, _, _, _ => v
      | none, _ => v

def handle (case impl : List String) : Verdict :=
  let v := handleN (normalizeCase case) impl
  match case with
  | ["cube", _] => v.addTag "cube"
  | ["boxdef"] => v.addTag "box-default"
  | _ => v

end Retro.Drv.C15
