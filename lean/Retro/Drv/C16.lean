/-
C16 model driver: runs the colour model (Retro/Model/Color.lean) on each case, compares with the
implementation's output (DIFF) and judges the implementation's own output against the property
(SPEC, `Retro.Spec.Color`).
-/
import Retro.Drv.Common
import Retro.Model.Color
import Retro.Spec.Color

namespace Retro.Drv.C16
open Retro Retro.Color Retro.Drv

/-- Digest step of the block ops (harness `mix`): one xor-multiply per 32-bit word. -/
@[inline] def mix (h : UInt64) (w : UInt32) : UInt64 := (h ^^^ w.toUInt64) * 0x100000001b3

def tolF : Rat := 1 / 10000

def rat? (t : String) : Option Rat := (parseF32Bits? t).bind F32.toRat?
def rats? (ts : List String) : Option (List Rat) := ts.mapM rat?
def ints? (ts : List String) : Option (List Int) := ts.mapM String.toInt?

def isPanic (t : String) : Bool := t.startsWith "panic:"

/-- Class of an implementation panic message (first token of the output that starts with `panic:`). -/
def panicClass (t : String) : String :=
  let m := (t.drop 6).toString
  if m.startsWith "channel_oob" then "channel oob"
  else if m.startsWith "internal_error:_entered_unreachable" then "unreachable"
  else if m.startsWith "attempt_to_add_with_overflow" then "attempt to add with overflow"
  else "other:" ++ m

/-- Value printed by `debug_assert!(…, "channel oob: {ch:?}")`, classified. -/
def oobKind (t : String) : String :=
  let m := (t.drop 6).toString
  let v := (m.drop 13).toString   -- after "channel_oob:_"
  if v.startsWith "inf" || v.startsWith "NaN" || v.startsWith "-inf" then "not-finite"
  else if v.startsWith "1.0000" then "exceeds-one"
  else if v.startsWith "-" then "negative"
  else "other"

def word3 (c : Int × Int × Int) : UInt32 :=
  UInt32.ofNat (c.1.toNat * 65536 + c.2.1.toNat * 256 + c.2.2.toNat)

def triple : List Int → Option (Int × Int × Int)
  | [a, b, c] => some (a, b, c)
  | _ => none

def fmt3 (c : Int × Int × Int) : List String := [toString c.1, toString c.2.1, toString c.2.2]
def fmt4 (c : Int × Int × Int × Int) : List String :=
  [toString c.1, toString c.2.1, toString c.2.2.1, toString c.2.2.2]
def fmtB3 (c : UInt8 × UInt8 × UInt8) : List String := [toString c.1, toString c.2.1, toString c.2.2]
def fmtB4 (c : UInt8 × UInt8 × UInt8 × UInt8) : List String :=
  [toString c.1, toString c.2.1, toString c.2.2.1, toString c.2.2.2]

def isU8 (x : Int) : Bool := 0 ≤ x && x ≤ 255

/-- distance of `x` to the complement of / to the interval `[0,1]` (how clearly an assertion decides) -/
def unitMargin (x : Rat) : Rat := ratMin (ratAbs x) (ratAbs (x - 1))

def closeR (a b tol : Rat) : Bool := ratAbs (a - b) ≤ tol
/-- hues are compared on the circle: 0 and 1 are the same hue -/
def closeHue (a b tol : Rat) : Bool := closeR a b tol || ratAbs (a - b) ≥ 1 - tol

/-! ### 8-bit blocks -/

/-- (digest, maxerr, nbad, first bad, gray violations, panics) of the model over RGB indices
`start .. start+count`, same walk as the harness. -/
def d8rtLoop : Nat → Nat → UInt64 → UInt64
  | 0, _, h => h
  | n + 1, i, h =>
    let r : Int := (i / 65536 % 256 : Nat)
    let g : Int := (i / 256 % 256 : Nat)
    let b : Int := (i % 256 : Nat)
    let hsl := toHsl8 r g b
    let h := match toRgb8 hsl.1 hsl.2.1 hsl.2.2 with
      | .ok rgb => mix (mix h (word3 hsl)) (word3 rgb)
      | .panic _ => mix (mix h 0xffffffff) 0xffffffff
    d8rtLoop n (i + 1) h

def d8hrLoop : Nat → Nat → UInt64 → UInt64
  | 0, _, h => h
  | n + 1, i, h =>
    let h := match toRgb8 ((i / 65536 % 256 : Nat) : Int) ((i / 256 % 256 : Nat) : Int) ((i % 256 : Nat) : Int) with
      | .ok rgb => mix h (word3 rgb)
      | .panic _ => mix h 0xffffffff
    d8hrLoop n (i + 1) h

def u8of (w : UInt32) (sh : UInt32) : UInt8 := (w >>> sh).toUInt8

def dpackLoop : Nat → UInt32 → UInt64 → UInt64
  | 0, _, h => h
  | n + 1, w, h =>
    let r := u8of w 24; let g := u8of w 16; let b := u8of w 8; let a := u8of w 0
    let p0 := toRgbU32 r g b
    let p1 := toRgbaU32 r g b a
    let p2 := toArgbU32 r g b a
    let m0 := match rgbToRgba r g b with | (x, y, z, t) => fromBeBytes x y z t
    let m1 := match rgbaToRgb r g b a with | (x, y, z) => fromBeBytes 0 x y z
    dpackLoop n (w + 1) (mix (mix (mix (mix (mix h p0) p1) p2) m0) m1)

def daddInner (d : Int) : Nat → Nat → UInt64 → UInt64
  | 0, _, h => h
  | n + 1, c, h =>
    let h := match addColor [(c : Int), (c : Int), 255 - (c : Int)] [d, 0, d] with
      | [x, y, z] => mix h (word3 (x, y, z))
      | _ => mix h 0xffffffff
    daddInner d n (c + 1) h

def daddLoop : Nat → Int → UInt64 → UInt64
  | 0, _, h => h
  | n + 1, d, h => daddLoop n (d + 1) (daddInner d 256 0 h)

/-! ### float cases -/

/-- tolerance for the saturation: the implementation's divisor `1 - |2l - 1|` carries an absolute
rounding error of a few 2^-24, which the division amplifies by `1 / divisor`. -/
def satTol (l : Rat) : Rat :=
  let den := 1 - ratAbs (2 * l - 1)
  if den ≤ 0 then 1000 else tolF + (3 / 10000000) / den

def handleFRgb2Hsl (r g b : Rat) (impl : List String) : Verdict :=
  let inRange := Spec.Color.inUnit3 r g b
  let gray := r == g && g == b
  let tags := [if !inRange then "rgb-out-of-range" else if gray then "gray"
               else if Spec.Color.maxR r g b == r then (if g ≥ b then "max-r-upper" else "max-r-wrap")
               else if Spec.Color.maxR r g b == g then "max-g" else "max-b"]
  let v := Verdict.ok tags
  -- out-of-range input is outside the property ("any in-range RGB colour"): what the code does with it
  -- (assert, clamp, garbage) is not compared with the model
  if !inRange then v else
  let model := toHslF r g b
  -- how clearly the model's assertion decides
  let mh := hueF r g b; let ms := satF r g b; let ml := lightF r g b
  let stol := satTol ml
  let clear := unitMargin mh > tolF && unitMargin ms > stol && unitMargin ml > tolF
  match impl with
  | [p] =>
    if !isPanic p then bad "frgb2hsl output" else
    let v := v.addTag "impl-panic-to-hsl"
    let v := match model with
      | .panic _ => v
      | .ok _ => v.withDiff clear s!"implementation panics ({p}), model gives ({ratApprox mh}, {ratApprox ms}, {ratApprox ml})"
    if inRange then
      let k := oobKind p
      let key := if panicClass p != "channel oob" then "to-hsl-f32-panic"
        else if k == "not-finite" then "to-hsl-f32-saturation-not-finite"
        else if k == "exceeds-one" then "to-hsl-f32-saturation-exceeds-one"
        else "to-hsl-f32-assert"
      v.withSpec true key s!"in-range RGB ({ratApprox r}, {ratApprox g}, {ratApprox b}) panics in to_hsl: {p}"
    else v
  | ih :: is_ :: il :: rest =>
    match rat? ih, rat? is_, rat? il with
    | some h', some s', some l' =>
      let v := match model with
        | .panic _ => v.withDiff clear s!"model panics (channel oob), implementation returns ({ratApprox h'}, {ratApprox s'}, {ratApprox l'})"
        | .ok (h, s, l) =>
          let v := v.withDiff (!closeHue h h' tolF) s!"hue: impl {ratApprox h'} model {ratApprox h}"
          let v := v.withDiff (!closeR s s' stol) s!"saturation: impl {ratApprox s'} model {ratApprox s}"
          v.withDiff (!closeR l l' tolF) s!"lightness: impl {ratApprox l'} model {ratApprox l}"
      -- spec on the implementation's HSL
      let v := v.withSpec (inRange && !(Spec.Color.inUnit3 h' s' l')) "hslf-out-of-range"
        s!"to_hsl of in-range RGB gives ({ratApprox h'}, {ratApprox s'}, {ratApprox l'})"
      let v := v.withSpec (inRange && gray && !(s' == 0 && closeR l' r (1 / 1000000))) "gray-f32"
        s!"gray {ratApprox r} -> s = {ratApprox s'}, l = {ratApprox l'}"
      -- second stage: the implementation's to_rgb of its own HSL
      match rest with
      | [p] =>
        if !isPanic p then bad "frgb2hsl second stage" else
        let v := v.addTag "impl-panic-to-rgb"
        -- the model, run on the implementation's HSL, must panic too unless the channel is on the edge
        let v := match toRgbF h' s' l' with
          | .panic _ => v
          | .ok (x, y, z) =>
            v.withDiff (unitMargin x > tolF && unitMargin y > tolF && unitMargin z > tolF)
              s!"implementation panics in to_rgb ({p}), model gives ({ratApprox x}, {ratApprox y}, {ratApprox z})"
        v.withSpec inRange "to-rgb-f32-panic" s!"to_rgb(to_hsl(c)) panics for in-range c: {p}"
      | [ir, ig, ib] =>
        match rat? ir, rat? ig, rat? ib with
        | some r', some g', some b' =>
          let v := match toRgbF h' s' l' with
            | .panic _ => v.withDiff true "model panics in to_rgb of the implementation's HSL"
            | .ok (x, y, z) =>
              v.withDiff (!(closeR x r' tolF && closeR y g' tolF && closeR z b' tolF))
                s!"to_rgb: impl ({ratApprox r'}, {ratApprox g'}, {ratApprox b'}) model ({ratApprox x}, {ratApprox y}, {ratApprox z})"
          v.withSpec (inRange && !(closeR r r' tolF && closeR g g' tolF && closeR b b' tolF)) "rtf-error"
            s!"round trip ({ratApprox r}, {ratApprox g}, {ratApprox b}) -> ({ratApprox r'}, {ratApprox g'}, {ratApprox b'})"
        | _, _, _ =>
          (v.withDiff true "non-finite RGB from to_rgb").withSpec inRange "rtf-not-finite" "round trip returns a non-finite channel"
      | _ => bad "frgb2hsl output length"
    | _, _, _ =>
      let v := v.withDiff (match model with | .ok _ => true | .panic _ => clear) "non-finite HSL from the implementation"
      v.withSpec inRange "hslf-not-finite" s!"to_hsl returns a non-finite channel: {ih} {is_} {il}"
  | _ => bad "frgb2hsl output"

def sextantTag (h : Rat) : String :=
  let k := HasTruncI.truncI (h * 6)
  let fr := h * 6 - ((h * 6).floor : Int)
  -- within a few ulp of a sextant boundary (k/6 is not a float, so "on" the boundary means this)
  let nearB := fr < 1 / 100000 || fr > 1 - 1 / 100000
  s!"sextant-{if k ≤ 5 then k else 5}{if nearB then "-boundary" else ""}"

def handleFHsl2Rgb (h s l : Rat) (impl : List String) : Verdict :=
  let inRange := Spec.Color.inUnit3 h s l
  let tags := [if inRange then sextantTag h else "hsl-out-of-range", if l ≤ 1/2 then "dark-half" else "light-half"]
  let v := Verdict.ok tags
  -- out-of-range input is outside the property ("every in-range HSL colour"): not compared with the model
  if !inRange then v else
  let model := toRgbF h s l
  -- exact channel values before the assertion, to measure how clearly it decides
  let c := chromaF s l; let m := offsetF c l; let x := secondF c (h * 6)
  let clear := unitMargin m > tolF && unitMargin (c + m) > tolF && unitMargin (x + m) > tolF
  match impl with
  | [p] =>
    if !isPanic p then bad "fhsl2rgb output" else
    let v := v.addTag "impl-panic"
    let v := match model with
      | .panic _ => v   -- both panic; the wording / site of the panic is not compared
      | .ok _ => v.withDiff clear s!"implementation panics ({p}), model does not"
    v.withSpec inRange "to-rgb-f32-panic" s!"in-range HSL ({ratApprox h}, {ratApprox s}, {ratApprox l}) panics: {p}"
  | [ir, ig, ib] =>
    match rat? ir, rat? ig, rat? ib with
    | some r', some g', some b' =>
      let v := match model with
        | .panic _ => v.withDiff clear s!"model panics, implementation returns ({ratApprox r'}, {ratApprox g'}, {ratApprox b'})"
        | .ok (r, g, b) =>
          v.withDiff (!(closeR r r' tolF && closeR g g' tolF && closeR b b' tolF))
            s!"impl ({ratApprox r'}, {ratApprox g'}, {ratApprox b'}) model ({ratApprox r}, {ratApprox g}, {ratApprox b})"
      let v := v.withSpec (inRange && !(Spec.Color.inUnit3 r' g' b')) "rgbf-out-of-range"
        s!"to_rgb of in-range HSL gives ({ratApprox r'}, {ratApprox g'}, {ratApprox b'})"
      -- independent oracle: the textbook piecewise-linear HSL -> RGB
      match Spec.Color.hslToRgbRef h s l with
      | (r, g, b) =>
        v.withSpec (inRange && !(closeR r r' tolF && closeR g g' tolF && closeR b b' tolF)) "rgbf-wrong-colour"
          s!"hsl ({ratApprox h}, {ratApprox s}, {ratApprox l}) -> ({ratApprox r'}, {ratApprox g'}, {ratApprox b'}), reference ({ratApprox r}, {ratApprox g}, {ratApprox b})"
    | _, _, _ => (v.withDiff true "non-finite RGB").withSpec inRange "rgbf-not-finite" "to_rgb returns a non-finite channel"
  | _ => bad "fhsl2rgb output"

/-! ### float -> 8 bit -/

/-- spec of `(c.clamp(0,1) * 255) as u8` for one channel, on the implementation's byte -/
def toU8SpecOk (bits : UInt32) (out : Int) : Bool :=
  match F32.toRat? bits with
  | none => if F32.isNaN bits then out == 0 else if F32.signBit bits then out == 0 else out == 255
  | some v =>
    if v ≤ 0 then out == 0
    else if v ≥ 1 then out == 255
    else
      -- truncation of the once-rounded product: out ≤ fl(255 v) < out + 1, fl within 2^-23 relative
      let p := v * 255
      let e := p * ratPow2 (-23)
      isU8 out && (out : Rat) ≤ p + e && p - e < (out : Rat) + 1

/-! ### gamma conversion: `powf` is a parameter of the model (libm), represented by Lean's binary64
`Float.pow` on the exact f32 constants; compared within 2e-6 relative (f32 rounding is 6e-8) -/

def ratToFloat (q : Rat) : Float := Float.ofInt q.num / Float.ofNat q.den

/-- `GAMMA: f32 = 2.2` and `INV_GAMMA: f32 = 1.0 / GAMMA` as the f32 values the code uses. -/
def gammaF32 : Rat := F32.toRatD (F32.ofRat gamma)
def invGammaF32 : Rat := F32.toRatD (F32.ofRat (1 / gammaF32))

def powModel (x e : Rat) : Float := Float.pow (ratToFloat x) (ratToFloat e)

def closeF (impl : Rat) (model : Float) : Bool :=
  let d := (ratToFloat impl - model).abs
  d ≤ 2e-6 * model.abs + 1e-37

/-- round-trip tolerance of to_srgb ∘ to_linear and back: the two exponents multiply to 1 ± 2^-23, so
x^(1+δ) − x ≤ δ·max|x ln x| ≈ 4.4e-8; the intermediate and final f32 roundings add < 2.5e-7·x.
1e-6 leaves a factor 3 (observed maximum on the real code: 6e-8). -/
def gammaRtTol : Rat := 1 / 1000000

def handleFGamma (xs : List Rat) (impl : List String) : Verdict :=
  match xs, rats? impl with
  | [x0, x1, x2], some [l0, l1, l2, s0, s1, s2, a0, a1, a2, b0, b1, b2] =>
    let inR := Spec.Color.inUnit3 x0 x1 x2
    let xl := [(x0, l0, s0, a0, b0), (x1, l1, s1, a1, b1), (x2, l2, s2, a2, b2)]
    let v := Verdict.ok [if xs.any (· == 0) || xs.any (· == 1) then "gamma-endpoint" else "gamma-inside"]
    -- correspondence with the pow model
    let v := v.withDiff (!(xl.all fun (x, l, s, _, _) => closeF l (powModel x gammaF32) && closeF s (powModel x invGammaF32)))
      s!"to_linear/to_srgb differ from pow(x, 2.2f) / pow(x, 1/2.2f): {impl.take 6}"
    -- spec on the implementation's numbers only
    let v := v.withSpec (inR && !(xl.all fun (x, l, s, _, _) => (x != 0 || (l == 0 && s == 0)) && (x != 1 || (l == 1 && s == 1))))
      "gamma-fixpoint" "to_linear / to_srgb do not fix 0 and 1"
    let v := v.withSpec (inR && !(xl.all fun (x, l, s, _, _) => 0 ≤ l && l ≤ x && x ≤ s && s ≤ 1))
      "gamma-range" s!"expected 0 <= to_linear(x) <= x <= to_srgb(x) <= 1: {impl.take 6}"
    let slack : Rat := 1 + ratPow2 (-23)
    let mono := xl.all fun (x, l, s, _, _) => xl.all fun (y, l', s', _, _) => !(x < y) || (l ≤ l' * slack && s ≤ s' * slack)
    let v := v.withSpec (inR && !mono) "gamma-not-monotone" s!"inputs {xs.map ratApprox} -> {impl.take 6}"
    v.withSpec (inR && !(xl.all fun (x, _, _, a, b) => closeR a x gammaRtTol && closeR b x gammaRtTol))
      "gamma-roundtrip" s!"to_srgb(to_linear(x)) or to_linear(to_srgb(x)) off by more than 1e-6: {impl.drop 6}"
  | _, _ => (Verdict.mkDiff "non-finite or malformed fgamma output").withSpec true "gamma-not-finite" s!"{impl}"

def okOr {β : Type} (d : β) : Outcome β → β
  | .ok v => v
  | .panic _ => d

/-- the 17 (8-bit) accessor/gray tokens of a colour with channels `c` (4 of them), via the model -/
def accModel {β : Type} (c : List β) (d : β) : List β :=
  let c3 := c.take 3
  let at_ (l : List β) (i : Nat) := okOr d (channel l i)
  [at_ c3 idxR, at_ c3 idxG, at_ c3 idxB, at_ c idxR, at_ c idxG, at_ c idxB, at_ c idxA,
   at_ c3 idxH, at_ c3 idxS, at_ c3 idxL, at_ c idxH, at_ c idxS, at_ c idxL, at_ c idxA] ++ grayC (c.getD 0 d)

def accNames : List String :=
  ["rgb.r", "rgb.g", "rgb.b", "rgba.r", "rgba.g", "rgba.b", "rgba.a", "hsl.h", "hsl.s", "hsl.l",
   "hsla.h", "hsla.s", "hsla.l", "hsla.a", "gray[0]", "gray[1]", "gray[2]"]

/-- documented channel of each accessor, as positions in the case's channel list (spec side) -/
def accSpecIdx : List Nat := [0, 1, 2, 0, 1, 2, 3, 0, 1, 2, 0, 1, 2, 3, 0, 0, 0]

def firstMismatch (names : List String) (impl spec : List String) : Option String :=
  ((names.zip (impl.zip spec)).find? fun (_, (i, w)) => i != w).map fun (n, (i, w)) => s!"{n} returned {i}, documented channel holds {w}"

def dsubLoop : Nat → Nat → UInt64 → UInt64
  | 0, _, h => h
  | n + 1, i, h =>
    let a : Int := (i / 256 : Nat); let b : Int := (i % 256 : Nat)
    let diff := subColor [b, a, b] [a, b, 255 - a]
    dsubLoop n (i + 1) (diff.foldl (fun h x => mix h (UInt32.ofNat (x % 4294967296).toNat)) h)

def handle (case impl : List String) : Verdict :=
  match case with
  | ["rgb2hsl", r, g, b] =>
    match ints? [r, g, b] with
    | some [r, g, b] =>
      let gray := r == g && g == b
      let hsl := toHsl8 r g b
      let tags := [if gray then "gray8" else if max3 r g b == r then "max-r" else if max3 r g b == g then "max-g" else "max-b",
                   if hsl.2.2 ≤ 128 then "l<=128" else "l>128"]
      let want := match toRgb8 hsl.1 hsl.2.1 hsl.2.2 with
        | .ok rgb => fmt3 hsl ++ fmt3 rgb
        | .panic _ => fmt3 hsl ++ ["panic:any"]
      let implN := impl.map fun t => if isPanic t then "panic:any" else t
      let v := (Verdict.ok tags).withDiff (implN != want) s!"model {want}"
      if impl.any isPanic then v.withSpec true "rgb8-panic" s!"8-bit round trip panics: {impl}"
      else match ints? impl with
        | some [h', s', l', r', g', b'] =>
          let _ := h'
          let v := v.withSpec (gray && !(s' == 0 && l' == r)) "gray8" s!"gray {r} -> s = {s'}, l = {l'}"
          let err := max (max (r - r').natAbs (g - g').natAbs) (b - b').natAbs
          v.withSpec (err > 8) "rt8-error" s!"round trip error {err} > 8: ({r},{g},{b}) -> ({r'},{g'},{b'})"
        | _ => bad "rgb2hsl output"
    | _ => bad "rgb2hsl"
  | ["hsl2rgb", h, s, l] =>
    match ints? [h, s, l] with
    | some [h, s, l] =>
      let k := Int.tdiv (h * 6) 256
      let tags := [s!"sextant8-{k}", if l ≤ 128 then "l<=128" else "l>128"]
      let want := match toRgb8 h s l with
        | .ok rgb => fmt3 rgb
        | .panic _ => ["panic:any"]
      let implN := impl.map fun t => if isPanic t then "panic:any" else t
      let v := (Verdict.ok tags).withDiff (implN != want) s!"model {want}"
      let v := v.withSpec (impl.any isPanic) "hsl8-panic" s!"8-bit HSL ({h},{s},{l}) panics: {impl}"
      match ints? impl with
      | some [r', g', b'] =>
        -- grays: s = 0 gives r = g = b = l
        v.withSpec (s == 0 && !(r' == l && g' == l && b' == l)) "gray8-back" s!"hsl({h},0,{l}) -> ({r'},{g'},{b'})"
      | _ => v
    | _ => bad "hsl2rgb"
  | ["d8rt", start, count] =>
    match start.toNat?, count.toNat? with
    | some start, some count =>
      let h := d8rtLoop count start fnvInit
      let v := (Verdict.ok ["d8rt"]).withDiff (impl.getD 0 "" != hex16 h) s!"digest: model {hex16 h}"
      match ints? (impl.drop 1) with
      | some [maxerr, nbad, first, ngray, npanic] =>
        let v := v.withSpec (npanic > 0) "rgb8-panic" s!"{npanic} RGB triples panic in the block, first index {first}"
        let v := v.withSpec (nbad > 0 || maxerr > 8) "rt8-error" s!"{nbad} RGB triples with round-trip error > 8 (max {maxerr}), first index {first}"
        v.withSpec (ngray > 0) "gray8" s!"{ngray} grays with s != 0 or l changed"
      | _ => bad "d8rt output"
    | _, _ => bad "d8rt"
  | ["d8hr", start, count] =>
    match start.toNat?, count.toNat? with
    | some start, some count =>
      let h := d8hrLoop count start fnvInit
      let v := (Verdict.ok ["d8hr"]).withDiff (impl.getD 0 "" != hex16 h) s!"digest: model {hex16 h}"
      match ints? (impl.drop 1) with
      | some [npanic, first] => v.withSpec (npanic > 0) "hsl8-panic" s!"{npanic} HSL triples panic in the block, first index {first}"
      | _ => bad "d8hr output"
    | _, _ => bad "d8hr"
  | ["rgba8", w] =>
    match parseHex? w with
    | some n =>
      let r : Int := (n / 16777216 % 256 : Nat); let g : Int := (n / 65536 % 256 : Nat)
      let b : Int := (n / 256 % 256 : Nat); let a : Int := (n % 256 : Nat)
      let hs := toHsla8 r g b a
      let back := match hslaToRgba8 hs.1 hs.2.1 hs.2.2.1 hs.2.2.2 with
        | .ok c => fmt4 c
        | .panic _ => ["panic:any"]
      let want := fmt3 (rgbaToRgb r g b a) ++ fmt4 (rgbToRgba r g b) ++ fmt4 hs ++ fmt3 (rgbaToRgb r g b a) ++ back
      let implN := impl.map fun t => if isPanic t then "panic:any" else t
      let v := (Verdict.ok ["rgba8"]).withDiff (implN != want) s!"model {want}"
      let i (k : Nat) : Int := (impl.getD k "").toInt?.getD (-1)
      let v := v.withSpec (!(i 0 == r && i 1 == g && i 2 == b)) "rgba-to-rgb" "Color4::to_rgb changed a channel"
      let v := v.withSpec (!(i 3 == r && i 4 == g && i 5 == b && i 6 == 255)) "rgb-to-rgba" "Color3::to_rgba changed a channel or alpha != 0xFF"
      let v := v.withSpec (i 10 != a) "hsla-alpha" "to_hsla changed alpha"
      let v := v.withSpec (!(i 11 == r && i 12 == g && i 13 == b)) "hsla-to-hsl" "Color4<Hsla>::to_hsl changed a channel"
      v.withSpec (impl.length == 18 && i 17 != a) "hsla-alpha" "Hsla::to_rgba changed alpha"
    | none => bad "rgba8"
  | ["pack", w] =>
    match parseHex? w with
    | some n =>
      let w32 := UInt32.ofNat n
      let r := u8of w32 24; let g := u8of w32 16; let b := u8of w32 8; let a := u8of w32 0
      let want := [hex8 (toRgbU32 r g b), hex8 (toRgbaU32 r g b a), hex8 (toArgbU32 r g b a)]
      let v := (Verdict.ok ["pack"]).withDiff (impl != want) s!"model {want}"
      -- documented byte order, by arithmetic on the case word
      let spec := [toHex 8 (n / 256), toHex 8 n, toHex 8 (n % 256 * 16777216 + n / 256)]
      v.withSpec (impl != spec) "pack-byte-order" s!"documented order gives {spec}"
    | none => bad "pack"
  | ["dpack", start, count] =>
    match start.toNat?, count.toNat? with
    | some start, some count =>
      let h := dpackLoop count (UInt32.ofNat start) fnvInit
      let v := (Verdict.ok ["dpack"]).withDiff (impl.getD 0 "" != hex16 h) s!"digest: model {hex16 h}"
      v.withSpec (impl.getD 1 "" != "0") "pack-byte-order" s!"{impl.getD 1 ""} words in the block are not in the documented byte order"
    | _, _ => bad "dpack"
  | ["frgb2hsl", r, g, b] =>
    match rats? [r, g, b] with
    | some [r, g, b] => handleFRgb2Hsl r g b impl
    | _ => bad "frgb2hsl"
  | ["fhsl2rgb", h, s, l] =>
    match rats? [h, s, l] with
    | some [h, s, l] => handleFHsl2Rgb h s l impl
    | _ => bad "fhsl2rgb"
  | ["fhue", s, l] =>
    match rats? [s, l] with
    | some [s, l] =>
      let v := Verdict.ok ["fhue"]
      if impl.any isPanic then
        let clear := unitMargin (offsetF (chromaF s l) l) > tolF && unitMargin (chromaF s l + offsetF (chromaF s l) l) > tolF
        (v.withDiff clear "implementation panics").withSpec true "to-rgb-f32-panic" s!"hue 0/1 with in-range s, l panics: {impl}"
      else match rats? impl, toRgbF 1 s l, toRgbF 0 s l with
        | some [a1, a2, a3, b1, b2, b3], .ok (x1, x2, x3), .ok (y1, y2, y3) =>
          let v := v.withDiff (!(closeR a1 x1 tolF && closeR a2 x2 tolF && closeR a3 x3 tolF)) "hue 1 differs from model"
          let v := v.withDiff (!(closeR b1 y1 tolF && closeR b2 y2 tolF && closeR b3 y3 tolF)) "hue 0 differs from model"
          v.withSpec (!(closeR a1 b1 tolF && closeR a2 b2 tolF && closeR a3 b3 tolF)) "hue-one-ne-zero"
            s!"hsl(1,s,l) = ({ratApprox a1},{ratApprox a2},{ratApprox a3}) but hsl(0,s,l) = ({ratApprox b1},{ratApprox b2},{ratApprox b3})"
        | some _, _, _ => v.withDiff true "model panics or malformed output"
        | none, _, _ => (v.withDiff true "non-finite").withSpec true "rgbf-not-finite" "hue 0/1 returns a non-finite channel"
    | _ => bad "fhue"
  | "frgba" :: cs =>
    let sibBad := impl.contains "sib=0"
    let impl := impl.filter fun t => !t.startsWith "sib="
    match rats? cs with
    | some [r, g, b, a] =>
      -- channel moves are compared exactly (bit patterns); conversions are covered by frgb2hsl/fhsl2rgb
      let v := Verdict.ok ["frgba"]
      let one := "3f800000"
      let v := v.withDiff (impl.take 10 != cs.take 3 ++ cs.take 3 ++ [one] ++ cs.take 3) "channel move differs from model"
      let v := v.withSpec (impl.take 3 != cs.take 3) "rgba-to-rgb" "Color4f::to_rgb changed a channel"
      let v := v.withSpec ((impl.drop 3).take 4 != cs.take 3 ++ [one]) "rgb-to-rgba" "Color3f::to_rgba changed a channel or alpha != 1.0"
      let v := v.withSpec ((impl.drop 7).take 3 != cs.take 3) "hsla-to-hsl" "Color4f<Hsla>::to_hsl changed a channel"
      -- to_hsla / Hsla::to_rgba: alpha is the last token of each group when no panic
      let rest := impl.drop 10
      let (g1, rest) := if isPanic (rest.getD 0 "") then ([rest.getD 0 ""], rest.drop 1) else (rest.take 4, rest.drop 4)
      let g2 := rest
      let alphaOk (grp : List String) : Bool := grp.length != 4 || grp.getD 3 "" == cs.getD 3 ""
      let v := v.withSpec (!(alphaOk g1 && alphaOk g2)) "hsla-alpha" "alpha changed by to_hsla / to_rgba"
      let _ := (r, g, b, a)
      -- panics in these conversions are judged by frgb2hsl / fhsl2rgb on the same code path
      let v := v.withSpec sibBad "four-channel-door-differs"
        "Color4f::to_hsla / Color4f<Hsla>::to_rgba disagree with to_hsl / to_rgb on the colour channels of the same colour"
      if g1.any isPanic || g2.any isPanic then v.addTag "frgba-panic" else v
    | _ => bad "frgba"
  | "tou8" :: cs =>
    match cs.mapM parseF32Bits? with
    | some [c0, c1, c2, c3] =>
      let want := fmtB3 (toColor3 c0 c1 c2) ++ fmtB4 (toColor4of3 c0 c1 c2) ++ fmtB3 (toColor3of4 c0 c1 c2 c3) ++ fmtB4 (toColor4 c0 c1 c2 c3)
      let special := [c0, c1, c2, c3].any fun c => match F32.toRat? c with | none => true | some v => v ≤ 0 || v ≥ 1
      let v := (Verdict.ok [if special then "tou8-clamped" else "tou8-inside"]).withDiff (impl != want) s!"model {want}"
      match ints? impl with
      | some [a0, a1, a2, b0, b1, b2, b3, d0, d1, d2, e0, e1, e2, e3] =>
        let ok := toU8SpecOk c0 a0 && toU8SpecOk c1 a1 && toU8SpecOk c2 a2
          && toU8SpecOk c0 b0 && toU8SpecOk c1 b1 && toU8SpecOk c2 b2 && b3 == 255
          && toU8SpecOk c0 d0 && toU8SpecOk c1 d1 && toU8SpecOk c2 d2
          && toU8SpecOk c0 e0 && toU8SpecOk c1 e1 && toU8SpecOk c2 e2 && toU8SpecOk c3 e3
        v.withSpec (!ok) "to-u8-clamp" s!"float -> 8-bit conversion does not clamp/scale: {impl}"
      | _ => (v.withDiff true "malformed output").withSpec true "to-u8-panic" s!"{impl}"
    | _ => bad "tou8"
  | "add3" :: rest | "add4" :: rest =>
    match ints? rest with
    | some xs =>
      let n := xs.length / 2
      let cs := xs.take n; let ds := xs.drop n
      let sums := (cs.zip ds).map fun (c, d) => c + d
      let tag := if sums.any (· > i32Max) then "add-i32-overflow" else if sums.any (fun s => s < 0 || s > 255) then "add-saturates" else "add-plain"
      let want := (addColor cs ds).map toString
      let implN := impl.map fun t => if isPanic t then "panic:any" else t
      let v := (Verdict.ok [tag]).withDiff (implN != want) s!"model {want}"
      if impl.any isPanic then v.withSpec true "sat-add-i32-overflow" s!"Affine::add panics instead of saturating: {impl}"
      else
        let spec := sums.map fun s => toString (Spec.Color.satU8 s)
        v.withSpec (impl != spec) "sat-add-wrong" s!"saturated sum is {spec}"
    | none => bad "add"
  | ["dadd", d0, count] =>
    match d0.toInt?, count.toNat? with
    | some d0, some count =>
      let h := daddLoop count d0 fnvInit
      let v := (Verdict.ok [if d0 + count > i32Max - 255 then "dadd-overflow" else "dadd"]).withDiff (impl.getD 0 "" != hex16 h) s!"digest: model {hex16 h}"
      let v := v.withSpec (impl.getD 1 "" != "0") "sat-add-wrong" s!"{impl.getD 1 ""} sums in the block are not saturated"
      v.withSpec (impl.getD 2 "" != "0") "sat-add-i32-overflow" s!"{impl.getD 2 ""} additions in the block panic"
    | _, _ => bad "dadd"
  | ["acc8", w] =>
    match parseHex? w with
    | some n =>
      let c : List String := [n / 16777216 % 256, n / 65536 % 256, n / 256 % 256, n % 256].map toString
      let v := (Verdict.ok ["acc8"]).withDiff (impl != accModel c "?") s!"model {accModel c "?"}"
      let spec := accSpecIdx.map fun i => c.getD i "?"
      match firstMismatch accNames impl spec with
      | some m => v.withSpec true "accessor-wrong-channel" m
      | none => v.withSpec (impl.length != 17) "accessor-wrong-channel" "malformed output"
    | none => bad "acc8"
  | "facc" :: cs =>
    if cs.length != 4 then bad "facc" else
    let z := "00000000"
    let want := accModel cs "?" ++ (rgbaToRgb (cs.getD 0 "") (cs.getD 1 "") (cs.getD 2 "") (cs.getD 3 "") |> fun (a, b, c) => [a, b, c])
      ++ (zeroColor (β := Nat) 3 ++ zeroColor (β := Nat) 4).map fun _ => z
    let v := (Verdict.ok ["facc"]).withDiff (impl != want) s!"model {want}"
    let spec := accSpecIdx.map fun i => cs.getD i "?"
    let v := match firstMismatch accNames (impl.take 17) spec with
      | some m => v.withSpec true "accessor-wrong-channel" m
      | none => v
    let v := v.withSpec ((impl.drop 17).take 3 != cs.take 3) "rgba-to-rgb" "Color4f::to_rgb does not keep r, g, b bit for bit"
    v.withSpec (impl.drop 20 != List.replicate 7 z) "zero-not-zero" s!"Linear::zero() is not all +0.0: {impl.drop 20}"
  | "sub3" :: rest | "sub4" :: rest =>
    match ints? rest, ints? impl with
    | some xs, some out =>
      let n := xs.length / 2
      let cs := xs.take n; let ds := xs.drop n
      let diff := subColor ds cs
      let sat := (addColor cs diff) != ds
      let v := (Verdict.ok [if sat then "sub-add-saturates" else "sub-add-exact"]).withDiff (out != diff ++ addColor cs diff) s!"model {diff ++ addColor cs diff}"
      let v := v.withSpec (out.take n != (ds.zip cs).map fun (d, c) => d - c) "sub-wrong" s!"d.sub(c) is not d - c per channel: {out.take n}"
      v.withSpec (out.drop n != ds) "sub-add-not-inverse" s!"c.add(d.sub(c)) = {out.drop n}, expected d = {ds}"
    | _, _ => bad "sub"
  | ["dsub"] =>
    let h := dsubLoop 65536 0 fnvInit
    let v := (Verdict.ok ["dsub"]).withDiff (impl.getD 0 "" != hex16 h) s!"digest: model {hex16 h}"
    v.withSpec (impl.getD 1 "" != "0") "sub-wrong" s!"{impl.getD 1 ""} of the 2^16 channel pairs: difference wrong or adding it back is not the identity"
  | "fgamma" :: cs =>
    match rats? cs with
    | some xs => handleFGamma xs impl
    | none => bad "fgamma"
  | _ => bad "unknown op"

end Retro.Drv.C16
