/-
C17 driver: runs the generic spline model at `XRat` (exact rationals + NaN/±∞) against the
implementation's output, and judges the implementation's output with the independent spec
(`Retro.Spec.Spline`: Bernstein form, piecewise curve, bisection trace) at `Rat`.
-/
import Retro.Drv.Common
import Retro.Model.XRat
import Retro.Model.Spline
import Retro.Spec.Spline

namespace Retro.Drv.C17
open Retro Retro.Spline Retro.Drv

/-- `f32 as u32` on special values: NaN ↦ 0, +∞ saturates, −∞ ↦ 0. -/
instance : HasFloorInt XRat where
  floorInt
    | .fin q => q.floor
    | .nan => 0
    | .pinf => 4294967296
    | .ninf => -1

def dimOf : String → Option Nat
  | "s" => some 1 | "ang" => some 1
  | "v2" => some 2 | "p2" => some 2
  | "v3" => some 3 | "p3" => some 3 | "c3" => some 3
  | "c4" => some 4
  | _ => none

def parseWords (ts : List String) : Option (List UInt32) := ts.mapM parseF32Bits?

/-- Split into rows of `d` (fuel = length). -/
def chunk {β : Type} (d : Nat) (l : List β) : List (List β) :=
  let rec go : Nat → List β → List (List β)
    | 0, _ => []
    | _, [] => []
    | f + 1, l => l.take d :: go f (l.drop d)
  if d == 0 then [] else go l.length l

def xvec (ws : List UInt32) : List XRat := ws.map XRat.ofBits
def rvec (ws : List UInt32) : List Rat := ws.map F32.toRatD

def maxAbs (ws : List UInt32) : Rat := ws.foldl (fun m w => ratMax m (ratAbs (F32.toRatD w))) 0

/-- Does the implementation's word agree with the model's value? -/
def cmpComp (m : XRat) (b : UInt32) (tol : Rat) : Bool :=
  match m with
  | .fin q => match F32.toRat? b with
    | some v => ratAbs (v - q) ≤ tol
    | none => false
  | .nan => F32.isNaN b
  | .pinf => b == 0x7F800000
  | .ninf => b == 0xFF800000

def xstr : XRat → String
  | .fin q => ratApprox q
  | .nan => "NaN" | .pinf => "inf" | .ninf => "-inf"

def wstr (b : UInt32) : String :=
  match F32.toRat? b with
  | some v => ratApprox v
  | none => if F32.isNaN b then "NaN" else if F32.signBit b then "-inf" else "inf"

def cmpVec (what : String) (m : List XRat) (impl : List UInt32) (tol : Rat) : Option String :=
  if m.length != impl.length then some s!"{what}: model has {m.length} components, impl {impl.length}"
  else
    let rec go : List XRat → List UInt32 → Nat → Option String
      | x :: xs, b :: bs, i =>
        if cmpComp x b tol then go xs bs (i + 1)
        else some s!"{what}[{i}]: impl {wstr b} model {xstr x} tol {ratApprox tol}"
      | _, _, _ => none
    go m impl 0

/-- Spec-side comparison of implementation words against exact rationals. -/
def nearVec (want : List Rat) (impl : List UInt32) (tol : Rat) : Bool :=
  want.length == impl.length &&
  (want.zip impl).all fun (q, b) => match F32.toRat? b with
    | some v => ratAbs (v - q) ≤ tol
    | none => false

def exactVec (want : List UInt32) (impl : List UInt32) : Bool :=
  want.length == impl.length &&
  (want.zip impl).all fun (a, b) => a == b || (F32.toRat? a).isSome && F32.toRat? a == F32.toRat? b

inductive TClass where
  | le0 | ge1 | mid (q : Rat) | nan

def tClass : XRat → TClass
  | .nan => .nan
  | .pinf => .ge1
  | .ninf => .le0
  | .fin q => if q ≤ 0 then .le0 else if 1 ≤ q then .ge1 else .mid q

def specMap4 (f : Rat → Rat → Rat → Rat → Rat) (p : List (List Rat)) : List Rat :=
  match p with
  | [p0, p1, p2, p3] => Spec.Spline.map4 f p0 p1 p2 p3
  | _ => []

def minMax4 (p : List (List Rat)) : List (Rat × Rat) :=
  match p with
  | [p0, p1, p2, p3] =>
    Spec.Spline.map4 (fun a b c d => (ratMin (ratMin a b) (ratMin c d), ratMax (ratMax a b) (ratMax c d))) p0 p1 p2 p3
  | _ => []

def inBox (box : List (Rat × Rat)) (impl : List UInt32) (eps : Rat) : Bool :=
  box.length == impl.length &&
  (box.zip impl).all fun ((lo, hi), b) => match F32.toRat? b with
    | some v => lo - eps ≤ v && v ≤ hi + eps
    | none => false

def isPanic (impl : List String) : Bool := (impl.getD 0 "").startsWith "panic:"

def kindTag (k : String) : String := "k:" ++ k

/-! ### bez -/

def handleBez (kind : String) (rest impl : List String) : Verdict :=
  match dimOf kind with
  | none => bad "kind"
  | some dim =>
    match parseWords (rest.take (4 * dim)), (rest.getD (4 * dim) "").length == 8, parseF32Bits? (rest.getD (4 * dim) "") with
    | some ws, true, some tb =>
      let t := XRat.ofBits tb
      let m := maxAbs ws
      let tol := m / 10000
      let tolT := 6 * tol
      let xs := chunk dim (xvec ws)
      match xs with
      | [p0, p1, p2, p3] =>
        let tc := tClass t
        let tag := match tc with | .le0 => "t<=0" | .ge1 => "t>=1" | .mid _ => "interior" | .nan => "t-nan"
        let v := Verdict.ok [kindTag kind, tag]
        if isPanic impl then
          (v.withDiff true "model does not panic").withSpec true "bezier-panic" s!"panic for finite control points: {impl.getD 0 ""}"
        else
        match parseWords impl with
        | none => v.withDiff true "unparsable implementation output"
        | some iw =>
          if iw.length != 3 * dim then v.withDiff true "wrong number of output words" else
          let ev := iw.take dim
          let fa := (iw.drop dim).take dim
          let ta := iw.drop (2 * dim)
          -- correspondence
          let d := (cmpVec "eval" (bezEval p0 p1 p2 p3 t) ev tol).orElse fun _ =>
                   (cmpVec "fast_eval" (bezFast p0 p1 p2 p3 t) fa tol).orElse fun _ =>
                   cmpVec "tangent" (bezTangent p0 p1 p2 p3 t) ta tolT
          let v := match d with | some msg => v.withDiff true msg | none => v
          -- spec oracle (implementation output and case only)
          let rp := chunk dim (rvec ws)
          let w0 := ws.take dim
          let w3 := ws.drop (3 * dim)
          match tc with
          | .nan => v
          | .le0 =>
            let v := v.withSpec (!(exactVec w0 ev && exactVec w0 fa)) "eval-end-not-control-point" "t <= 0 but eval/fast_eval is not the first control point"
            v.withSpec (!nearVec (specMap4 (fun a b c d => Spec.Spline.bernsteinDeriv a b c d 0) rp) ta tolT) "tangent-not-derivative" "tangent at t <= 0 is not 3(p1-p0)"
          | .ge1 =>
            let v := v.withSpec (!(exactVec w3 ev && exactVec w3 fa)) "eval-end-not-control-point" "t >= 1 but eval/fast_eval is not the last control point"
            v.withSpec (!nearVec (specMap4 (fun a b c d => Spec.Spline.bernsteinDeriv a b c d 1) rp) ta tolT) "tangent-not-derivative" "tangent at t >= 1 is not 3(p3-p2)"
          | .mid q =>
            let bern := specMap4 (fun a b c d => Spec.Spline.bernstein a b c d q) rp
            let v := v.withSpec (!nearVec bern ev tol) "eval-not-bernstein" "eval differs from the Bernstein form"
            let v := v.withSpec (!nearVec bern fa tol) "fast-eval-not-bernstein" "fast_eval differs from the Bernstein form"
            let v := v.withSpec (!nearVec (rvec ev) fa (2 * tol)) "evaluators-disagree" "eval and fast_eval disagree"
            let v := v.withSpec (!inBox (minMax4 rp) ev (tol / 10)) "eval-outside-bbox" "eval left the bounding box of the control points"
            v.withSpec (!nearVec (specMap4 (fun a b c d => Spec.Spline.bernsteinDeriv a b c d q) rp) ta tolT) "tangent-not-derivative" "tangent differs from the derivative of the Bernstein form"
      | _ => bad "points"
    | _, _, _ => bad "bez words"

/-! ### spl -/

def validLen (n : Nat) : Bool := 4 ≤ n && n % 3 == 1

/-- distance of `x` to the nearest integer -/
def fracDist (x : Rat) : Rat :=
  let f := x - (x.floor : Int)
  ratMin f (1 - f)

def specCurve (pts : List (List Rat)) (t : Rat) : List Rat :=
  (Spec.Spline.curve Rat.floor pts t).getD []

def specTan (pts : List (List Rat)) (t : Rat) : List Rat :=
  (Spec.Spline.curveTangent Rat.floor pts t).getD []

def okVec (o : Outcome (List XRat)) : List XRat := match o with | .ok v => v | .panic _ => []

def handleSpl (kind : String) (rest impl : List String) : Verdict :=
  match dimOf kind, (rest.getD 0 "").toNat? with
  | some dim, some n =>
    let body := rest.drop 1
    match parseWords (body.take (n * dim)), parseF32Bits? (body.getD (n * dim) "") with
    | some ws, some tb =>
      let t := XRat.ofBits tb
      let pts := chunk dim (xvec ws)
      let pts := if n == 0 then [] else pts
      match splineNew pts with
      | .panic _ =>
        let v := Verdict.ok [kindTag kind, "malformed"]
        let rejected := isPanic impl   -- whether it panics, not the wording of the message
        (v.withDiff (!rejected) "model: new() panics").withSpec (!isPanic impl) "new-accepts-malformed" s!"BezierSpline::new accepted {n} points"
      | .ok pts =>
        let segs := (n - 1) / 3
        let m := maxAbs ws
        let tol := m / 10000
        let tolT := 6 * tol
        let tc := tClass t
        let v := Verdict.ok [kindTag kind, s!"segs{segs}"]
        if isPanic impl then
          match splineEval pts t, splineTangent pts t with
          | .ok _, .ok _ => (v.withDiff true "model does not panic").withSpec true "spline-panic" s!"panic on a valid spline: {impl.getD 0 ""}"
          | _, _ => v.withSpec true "spline-panic" s!"panic on a valid spline: {impl.getD 0 ""}"
        else
        match parseWords impl with
        | none => v.withDiff true "unparsable implementation output"
        | some iw =>
          if iw.length != 2 * dim then v.withDiff true "wrong number of output words" else
          let ev := iw.take dim
          let ta := iw.drop dim
          -- how close is t*segs to an interior join (where the tangent may legitimately
          -- come from either neighbouring segment)
          let nearJoin : Bool := match t with
            | .fin q =>
              let x := q * (segs : Rat)
              0 < q && q < 1 && fracDist x ≤ 2 / 1000000 && 1/2 < x && x < (segs : Rat) - 1/2
            | _ => false
          let delta : Rat := 4 / (1000000 * (segs : Rat))
          let tanOk (model : XRat → List XRat) : Option String :=
            match cmpVec "tangent" (model t) ta tolT with
            | none => none
            | some msg =>
              if nearJoin then
                match t with
                | .fin q =>
                  if (cmpVec "tangent" (model (.fin (q - delta))) ta tolT).isNone
                    || (cmpVec "tangent" (model (.fin (q + delta))) ta tolT).isNone then none else some msg
                | _ => some msg
              else some msg
          let d := match splineEval pts t, splineTangent pts t with
            | .ok me, .ok _ =>
              (cmpVec "eval" me ev tol).orElse fun _ => tanOk fun t => okVec (splineTangent pts t)
            | .panic s, _ => some s!"model panics: {s}"
            | _, .panic s => some s!"model panics: {s}"
          let v := match d with | some msg => v.withDiff true msg | none => v
          let v := if nearJoin then v.addTag "near-join" else v
          -- spec oracle
          let rp := chunk dim (rvec ws)
          let first := ws.take dim
          let last := ws.drop ((n - 1) * dim)
          match tc with
          | .nan => v.addTag "t-nan"
          | .le0 =>
            let v := v.addTag "t<=0"
            let v := v.withSpec (!exactVec first ev) "spline-end-not-control-point" "t <= 0 but eval is not the first control point"
            v.withSpec (!nearVec (specTan rp 0) ta tolT) "spline-tangent-not-derivative" "tangent at t <= 0"
          | .ge1 =>
            let v := v.addTag "t>=1"
            let v := v.withSpec (!exactVec last ev) "spline-end-not-control-point" "t >= 1 but eval is not the last control point"
            v.withSpec (!nearVec (specTan rp 1) ta tolT) "spline-tangent-not-derivative" "tangent at t >= 1"
          | .mid q =>
            let x := q * (segs : Rat)
            let k := min x.floor.toNat (segs - 1)
            let v := v.addTag (if k == 0 then "seg-first" else if k + 1 == segs then "seg-last" else "seg-mid")
            let v := v.withSpec (!nearVec (specCurve rp q) ev tol) "spline-not-on-curve" s!"eval differs from the cubic of segment {k}"
            let v :=
              if x == (x.floor : Int) then
                -- exactly on a knot: must be the control point itself
                let knot := (ws.drop (3 * k * dim)).take dim
                (v.addTag "knot-exact").withSpec (!exactVec knot ev) "knot-not-control-point" s!"eval at t = {k}/{segs} is not control point {3 * k}"
              else v
            let tOk := nearVec (specTan rp q) ta tolT ||
              (nearJoin && (nearVec (specTan rp (q - delta)) ta tolT || nearVec (specTan rp (q + delta)) ta tolT))
            v.withSpec (!tOk) "spline-tangent-not-derivative" "tangent differs from the derivative of the segment's cubic"
    | _, _ => bad "spl words"
  | _, _ => bad "spl header"

/-! ### rays -/

def pairUp {β : Type} : List β → List (β × β)
  | a :: b :: rest => (a, b) :: pairUp rest
  | _ => []

/-- `BezierSpline::from_rays`: the model builds the control points with `fromRays`, the oracle
with the independent `Spec.hermitePoints`; evaluation is then judged exactly as for `spl`. -/
def handleRays (kind : String) (rest impl : List String) : Verdict :=
  match dimOf kind, (rest.getD 0 "").toNat? with
  | some dim, some n =>
    let body := rest.drop 1
    match parseWords (body.take (2 * n * dim)), parseF32Bits? (body.getD (2 * n * dim) "") with
    | some ws, some tb =>
      let t := XRat.ofBits tb
      let xrays := pairUp (chunk dim (xvec ws))
      let v := Verdict.ok [kindTag kind, "rays", s!"rays{n}"]
      match fromRays xrays with
      | .panic _ =>
        let v := v.addTag "malformed"
        let rejected := isPanic impl   -- whether it panics, not the wording of the message
        (v.withDiff (!rejected) "model: from_rays panics (fewer than two rays)").withSpec (n ≥ 2 && isPanic impl) "from-rays-panic" "from_rays panicked on two or more rays"
      | .ok pts =>
        if isPanic impl then
          (v.withDiff true "model does not panic").withSpec (n ≥ 2) "from-rays-panic" s!"from_rays/eval panicked: {impl.getD 0 ""}"
        else
        match parseWords impl with
        | none => v.withDiff true "unparsable implementation output"
        | some iw =>
          if iw.length != 2 * dim then v.withDiff true "wrong number of output words" else
          let ev := iw.take dim
          let ta := iw.drop dim
          let m := maxAbs ws
          let tol := 2 * m / 10000
          let tolT := 6 * tol
          let segs := n - 1
          let nearJoin : Bool := match t with
            | .fin q =>
              let x := q * (segs : Rat)
              0 < q && q < 1 && fracDist x ≤ 2 / 1000000 && 1/2 < x && x < (segs : Rat) - 1/2
            | _ => false
          -- correspondence: model spline on the model's control points
          let d := match splineEval pts t, splineTangent pts t with
            | .ok me, .ok mt =>
              (cmpVec "eval" me ev tol).orElse fun _ => cmpVec "tangent" mt ta tolT
            | .panic msg, _ => some s!"model panics: {msg}"
            | _, .panic msg => some s!"model panics: {msg}"
          let v := match d with | some msg => v.withDiff true msg | none => v
          let v := if nearJoin then v.addTag "near-join" else v
          -- oracle: the Hermite curve the rays denote
          let rrays := pairUp (chunk dim (rvec ws))
          let hp := Spec.Spline.hermitePoints rrays
          match tClass t with
          | .nan => v.addTag "t-nan"
          | .le0 => (v.addTag "t<=0").withSpec (!exactVec (ws.take dim) ev) "from-rays-not-through-point" "t <= 0: not the first ray's point"
          | .ge1 => (v.addTag "t>=1").withSpec (!exactVec ((ws.drop (2 * (n - 1) * dim)).take dim) ev) "from-rays-not-through-point" "t >= 1: not the last ray's point"
          | .mid q =>
            let v := v.addTag "interior"
            let v := v.withSpec (!nearVec (specCurve hp q) ev tol) "from-rays-not-on-curve" "eval differs from the Hermite cubic through the rays"
            let x := q * (segs : Rat)
            let v :=
              if x == (x.floor : Int) then
                -- exactly on a knot: the k-th ray's point, and the tangent is three times its direction
                let k := x.floor.toNat
                let pk := (ws.drop (2 * k * dim)).take dim
                let vk := rvec ((ws.drop ((2 * k + 1) * dim)).take dim)
                let v := (v.addTag "knot-exact").withSpec (!exactVec pk ev) "from-rays-not-through-point" s!"eval at knot {k} is not ray {k}'s point"
                v.withSpec (!nearVec (vk.map (· * 3)) ta tolT) "from-rays-tangent" s!"tangent at knot {k} is not 3·direction"
              else v
            -- no exemption near joins: the curve from_rays builds is C1, the tangent is continuous
            let tOk := nearVec (specTan hp q) ta tolT
            v.withSpec (!tOk) "from-rays-tangent" "tangent differs from the derivative of the Hermite segment"
    | _, _ => bad "rays words"
  | _, _ => bad "rays header"

/-! ### apx -/

/-- Driver-side `halt`: answers with the implementation's logged decisions, in call order, and
records the exact error vector it was asked about. -/
structure HaltSt where
  decisions : List Bool
  errs : List (List XRat) := []
  underflow : Bool := false

def haltReplay (s : HaltSt) (err : List XRat) : Bool × HaltSt :=
  match s.decisions with
  | d :: ds => (d, { s with decisions := ds, errs := err :: s.errs })
  | [] => (true, { s with errs := err :: s.errs, underflow := true })

def lenSqr (v : List Rat) : Rat := v.foldl (fun acc x => acc + x * x) 0

def sq (x : Rat) : Rat := x * x

/-- `some true/false` when `|err| < thr` is decided with a margin of `delta`, else `none`. -/
def clearDecision (l2 thr delta : Rat) : Option Bool :=
  if thr > delta && l2 < sq (thr - delta) then some true
  else if l2 > sq (thr + delta) then some false
  else none

def parseCalls (dim : Nat) : Nat → List String → Option (List (List UInt32 × Bool))
  | 0, _ => some []
  | k + 1, ts =>
    match parseWords (ts.take dim), ts.getD dim "" with
    | some e, d =>
      if d != "0" && d != "1" then none else
      match parseCalls dim k (ts.drop (dim + 1)) with
      | some rest => some ((e, d == "1") :: rest)
      | none => none
    | none, _ => none

def midRat (a b : Rat) : Rat := a + (b - a) * (1 / 2)

def handleApx (kind : String) (rest impl : List String) : Verdict :=
  match dimOf kind, (rest.getD 0 "").toNat? with
  | some dim, some n =>
    let body := rest.drop 1
    match parseWords (body.take (n * dim)), parseF32Bits? (body.getD (n * dim) "") with
    | some ws, some thrB =>
      let pts := chunk dim (xvec ws)
      let v := Verdict.ok [kindTag kind, s!"segs{(n - 1) / 3}"]
      if !validLen n then bad "apx on malformed spline" else
      if isPanic impl then
        (v.withDiff true "model does not panic").withSpec true "approximate-panic" s!"{impl.getD 0 ""}"
      else
      let m := maxAbs ws
      let tol := m / 10000
      let tolE := m / 100000
      -- thr may be +inf (halt always true) : treat as a huge rational
      let thr : Rat := match F32.toRat? thrB with | some q => q | none => ratPow2 200
      match (impl.getD 0 "").toNat? with
      | none => v.withDiff true "count"
      | some cnt =>
        match parseWords ((impl.drop 1).take (cnt * dim)), (impl.getD (1 + cnt * dim) "").toNat? with
        | some pw, some ncalls =>
          match parseCalls dim ncalls (impl.drop (2 + cnt * dim)) with
          | none => v.withDiff true "call log"
          | some calls =>
            let ipts := chunk dim pw
            let decisions := calls.map (·.2)
            -- model, following the implementation's halt answers
            let v :=
              match approximate pts haltReplay { decisions := decisions } with
              | .panic s => v.withDiff true s!"model panics: {s}"
              | .ok (pieces, mpts, st) =>
                let v := v.withDiff (st.underflow || !st.decisions.isEmpty) s!"halt called {calls.length} times by the implementation, {st.errs.length} times by the model (underflow {st.underflow})"
                let v := v.withDiff (mpts.length != cnt) s!"point count: impl {cnt} model {mpts.length}"
                let v := match (mpts.zip ipts).findSome? (fun (mp, ip) => cmpVec "point" mp ip tol) with
                  | some msg => v.withDiff true msg
                  | none => v
                -- error vectors handed to halt, and the decisions taken on them
                let merrs := st.errs.reverse
                let v := match (merrs.zip calls).findSome? (fun (p : List XRat × List UInt32 × Bool) => cmpVec "halt argument" p.1 p.2.1 tolE) with
                  | some msg => v.withDiff true msg
                  | none => v
                let inBand := merrs.any fun me =>
                  (clearDecision (lenSqr (me.filterMap XRat.toRat?)) thr tolE).isNone
                let wrong := (merrs.zip calls).any fun (p : List XRat × List UInt32 × Bool) =>
                  match clearDecision (lenSqr (p.1.filterMap XRat.toRat?)) thr tolE with
                  | some want => want != p.2.2
                  | none => false
                let v := v.withDiff wrong "a halt decision contradicts the exact error by more than the band"
                let v := if inBand then v.addTag "decision-in-band" else v
                let atBound := pieces.any (·.dep == 0)
                let v := v.addTag (if atBound then "depth-bound-hit" else "all-halted")
                v.addTag (if pieces.length ≤ 1 then "pieces=1" else if pieces.length ≤ 16 then "pieces<=16"
                  else if pieces.length ≤ 256 then "pieces<=256" else "pieces>256")
            -- spec oracle: implementation output and case only
            let rp := chunk dim (rvec ws)
            let first := ws.take dim
            let last := ws.drop ((n - 1) * dim)
            let v := v.withSpec (cnt < 2) "approx-too-short" "fewer than two points"
            let v := v.withSpec (!exactVec first (pw.take dim)) "approx-first-point" "output does not start at the first control point"
            let v := v.withSpec (!exactVec last (pw.drop ((cnt - 1) * dim))) "approx-last-point" "output does not end at the last control point"
            -- harness self-check: each logged decision is the stated criterion on the logged argument
            let v := v.withDiff (calls.any fun (e, d) =>
              match clearDecision (lenSqr (rvec e)) thr (thr / 100000) with
              | some want => want != d && (F32.toRat? thrB).isSome
              | none => false) "harness halt closure inconsistent with its own argument"
            -- the pieces implied by the decisions under the documented depth bound
            let (ivals, unread, okb) := Spec.Spline.bisect midRat (10 + Nat.log2 n) 0 1 decisions
            let v := v.withSpec (!okb || !unread.isEmpty || ivals.length + 1 != cnt) "approx-piece-not-justified"
              s!"{cnt} points cannot be produced by bisection to depth {10 + Nat.log2 n} with the halt answers given ({calls.length} calls, {ivals.length} pieces)"
            -- every point lies on the curve at the start of its piece
            let offCurve := (ivals.zip ipts).any fun ((a, _, _), ip) => !nearVec (specCurve rp a) ip tol
            v.withSpec offCurve "approx-point-off-curve" "an output point is not the curve point at its dyadic parameter"
        | _, _ => v.withDiff true "unparsable implementation output"
    | _, _ => bad "apx words"
  | _, _ => bad "apx header"

/-! ### sstep -/

def handleSstep (tb : UInt32) (impl : List String) : Verdict :=
  let t := XRat.ofBits tb
  let tc := tClass t
  let tag := match tc with | .le0 => "t<=0" | .ge1 => "t>=1" | .mid _ => "interior" | .nan => "t-nan"
  let v := Verdict.ok ["sstep", tag]
  match parseWords impl with
  | some [a, b] =>
    -- `10 + t*(6t - 15)` cancels: a few ulp of 15 survive (smootherstep can reach 1 + 2e-7 in f32)
    let tol : Rat := 5 / 1000000
    let v := v.withDiff (!cmpComp (smoothstep t) a tol) s!"smoothstep: impl {wstr a} model {xstr (smoothstep t)}"
    let v := v.withDiff (!cmpComp (smootherstep t) b tol) s!"smootherstep: impl {wstr b} model {xstr (smootherstep t)}"
    match tc with
    | .nan => v
    | .le0 => v.withSpec (!(exactVec [0] [a] && exactVec [0] [b])) "step-end" "not 0 for t <= 0"
    | .ge1 => v.withSpec (!(exactVec [0x3F800000] [a] && exactVec [0x3F800000] [b])) "step-end" "not 1 for t >= 1"
    | .mid _ =>
      let inside (w : UInt32) : Bool := match F32.toRat? w with | some q => -tol ≤ q && q ≤ 1 + tol | none => false
      v.withSpec (!(inside a && inside b)) "step-range" "outside [0,1]"
  | _ => v.withDiff true "unparsable implementation output"

def handle (case impl : List String) : Verdict :=
  match case with
  | "bez" :: kind :: rest => handleBez kind rest impl
  | "spl" :: kind :: rest => handleSpl kind rest impl
  | "apx" :: kind :: rest => handleApx kind rest impl
  | "rays" :: kind :: rest => handleRays kind rest impl
  | ["sstep", t] =>
    match parseF32Bits? t with
    | some tb => handleSstep tb impl
    | none => bad "sstep"
  | _ => bad "unknown op"

end Retro.Drv.C17
