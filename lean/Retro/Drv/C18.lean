/-
C18 driver: the angle model at `Rat` with `π := f32 PI`, the coordinate-change skeletons fed with
the `std` trig values the harness reports, and the spec oracle on the implementation's output.
-/
import Retro.Drv.Common
import Retro.Model.Angle

namespace Retro.Drv.C18
open Retro Retro.Angle Retro.Drv

/-- `core::f32::consts::PI` as an exact rational. -/
def piF : Rat := F32.toRatD 0x40490fdb
/-- π to 30 digits, for reducing angles modulo a turn in the oracle. -/
def piHi : Rat := 3141592653589793238462643383279 / 1000000000000000000000000000000

def rat? (t : String) : Option Rat := (parseF32Bits? t).bind F32.toRat?
def bits? (t : String) : Option UInt32 := parseF32Bits? t
def isNaNTok (t : String) : Bool := match parseF32Bits? t with | some b => F32.isNaN b | none => false

def rmax3 (a b c : Rat) : Rat := ratMax (ratAbs a) (ratMax (ratAbs b) (ratAbs c))

def tiny : Rat := ratPow2 (-140)

/-- relative closeness -/
def relClose (impl model rel : Rat) : Bool := ratAbs (impl - model) ≤ rel * ratAbs model + tiny
def absClose (impl model tol : Rat) : Bool := ratAbs (impl - model) ≤ tol

/-- distance of two angles on the circle -/
def angDist (a b : Rat) : Rat :=
  let d := (a - b) / (2 * piHi)
  let f := d - (roundNearestEven d : Int)
  ratAbs f * (2 * piHi)

def parseAll (ts : List String) : Option (List Rat) := ts.mapM rat?

def splitBar (impl : List String) : List String × List String := Retro.splitAt "|" impl

def isPanic (impl : List String) : Bool := (impl.getD 0 "").startsWith "panic:"

def fmt (l : List Rat) : String := " ".intercalate (l.map ratApprox)

/-! ### scalar ops -/

def handleConv (u : String) (a : Rat) (impl : List String) : Verdict :=
  let v := Verdict.ok ["conv", "from-" ++ u]
  match parseAll impl with
  | some [r, d, t] =>
    let x : Rat := if u == "deg" then degs piF a else if u == "turn" then turns piF a else rads a
    let rel : Rat := 1 / 100000
    let v := v.withDiff (!(relClose r (toRads x) rel && relClose d (toDegs piF x) rel && relClose t (toTurns piF x) rel))
      s!"impl {fmt [r, d, t]} model {fmt [toRads x, toDegs piF x, toTurns piF x]}"
    -- oracle: the same angle in every unit, and back to where it came from
    let back := if u == "deg" then d else if u == "turn" then t else r
    let v := v.withSpec (!relClose back a rel) "unit-roundtrip" s!"{u}: {ratApprox a} came back as {ratApprox back}"
    v.withSpec (!(relClose d (t * 360) rel && relClose r (t * (2 * piHi)) rel && relClose (d * piHi) (r * 180) rel))
      "unit-inconsistent" s!"rads {ratApprox r} degs {ratApprox d} turns {ratApprox t} do not describe one angle"
  | _ => (v.withDiff true "non-finite or malformed output").withSpec true "unit-nonfinite" "conversion of a finite angle is not finite"

/-- Round to the nearest `f32` (ties to even), as an exact rational. -/
def rn (q : Rat) : Rat := F32.toRatD (F32.ofRat q)

/-- Least non-negative remainder `x − ⌊x/m⌋·m` for `m > 0`, written out for the oracle (no model code). -/
def specRem (x m : Rat) : Rat := x - ((x / m).floor : Int) * m

def handleWrap (a mn mx : Rat) (impl : List String) : Verdict :=
  let m := mx - mn
  match wrap a mn mx with
  | none =>
    -- the model itself says NaN (zero span): `x % 0.0`
    let v := Verdict.ok ["wrap", "degenerate"]
    v.withDiff (!isNaNTok (impl.getD 0 "")) "model: wrap into an empty interval (max = min) is NaN"
  | some w =>
    let s := rmax3 a mn mx
    let tol := s * ratPow2 (-18) + tiny
    -- a few ulps of the quantities the last two additions work on
    let ulpTol := 4 * ratPow2 (-23) * ratMax s (ratAbs m) + tiny
    -- the same model function on the operands as `f32` holds them: `self.0 - min.0`, `max.0 - min.0`
    let xf := rn (a - mn)
    let mf := rn (mx - mn)
    let wfO : Option Rat := (remEuclid xf mf).map (mn + ·)
    let q := (a - mn) / m
    let revs := ratAbs q
    let tags := ["wrap", if m < 0 then "reversed" else if revs < 1 && 0 ≤ q then "inside" else if revs < 100 then "few-revs" else "many-revs",
                 if a < mn then "below" else "at-or-above"]
    let v := Verdict.ok tags
    let v := if a == mx then v.addTag "input=max" else if a == mn then v.addTag "input=min" else v
    match parseAll impl with
    | some [iw] =>
      let lo := mn
      let hi := mn + ratAbs m
      let nearEdge := ratAbs (w - lo) ≤ tol || ratAbs (hi - w) ≤ tol
      -- Either the exact value (loose: rewrites may round differently), or – this is the only way
      -- the *other* end of the interval is acceptable – the exact value for the rounded operands.
      let wf := wfO.getD w
      let close := absClose iw w tol || (wfO.isSome && absClose iw wf ulpTol)
      let v := v.withDiff (!close) s!"impl {ratApprox iw} model {ratApprox w} (on rounded operands {ratApprox wf}) tol {ratApprox tol}"
      let v := if nearEdge then v.addTag "near-boundary" else v
      let v := if absClose iw w tol then v else v.addTag "other-end-by-operand-rounding"
      if m < 0 then v else
      -- oracle: inside [min, max], the top only by rounding, congruent to the input
      let eps := ratMax (ratAbs mn) (ratAbs mx) * ratPow2 (-21) + tiny
      let v := v.withSpec (!(mn - eps ≤ iw && iw ≤ mx + eps)) "wrap-outside-interval"
        s!"wrap({ratApprox a}; {ratApprox mn}, {ratApprox mx}) = {ratApprox iw}"
      -- `max` itself is legitimate only as a rounding artefact: the exact representative
      -- r = a − k·span ∈ [min, max) lies within a few ulps of max, or it does so for the operands
      -- rounded to f32 (then `self − min` / `max − min` were inexact).
      let r := mn + specRem (a - mn) m
      let topByRounding := mx - r ≤ ulpTol || (0 < mf && mf - specRem xf mf ≤ ulpTol)
      let v := if mx ≤ iw then v.addTag "returned-max" else v
      -- strictly ABOVE max (one ulp, through the rounding of `max − min` and of the final sum) is outside even
      -- the closed interval the property allows: its own key (a recorded finding of the unchanged code)
      let v := v.withSpec (mx < iw && iw ≤ mx + eps) "wrap-above-max"
        s!"wrap({ratApprox a}; {ratApprox mn}, {ratApprox mx}) = {ratApprox iw} is ABOVE max by {ratApprox (iw - mx)}"
      -- BELOW min is impossible even in f32: the remainder is ≥ 0 and rounding the sum cannot cross the representable
      -- `min` (`Props.C18.wrap_f32_in_range`, `wrap_f32_bounded`), so no slack at the lower end either
      let v := v.withSpec (0 < m && iw < mn && mn - eps ≤ iw) "wrap-below-min"
        s!"wrap({ratApprox a}; {ratApprox mn}, {ratApprox mx}) = {ratApprox iw} is BELOW min by {ratApprox (mn - iw)}"
      let v := v.withSpec (mx ≤ iw && iw ≤ mx + eps && !topByRounding) "wrap-upper-bound-returned"
        s!"wrap({ratApprox a}; {ratApprox mn}, {ratApprox mx}) returned the excluded upper bound {ratApprox iw}; the representative in [min, max) is {ratApprox r}, {ratApprox (mx - r)} below max"
      let tolq := tol / m
      if tolq ≥ 1 / 4 then v.addTag "congruence-unresolvable" else
      let k := (iw - a) / m
      let dist := ratAbs (k - (roundNearestEven k : Int))
      v.withSpec (dist > tolq) "wrap-not-congruent"
        s!"wrap({ratApprox a}; {ratApprox mn}, {ratApprox mx}) = {ratApprox iw} differs from the input by {ratApprox k} interval lengths (margin {ratApprox (dist - tolq)})"
    | _ => (v.withDiff true "non-finite or malformed output").withSpec (0 < m) "wrap-nonfinite" "wrap of a finite angle into a proper interval is not finite"

/-- `wrapu <unit> a min max`: the three angles are built with the unit's constructor; the
implementation reports the wrapped value and the three constructed radian values. -/
def handleWrapU (u : String) (a mn mx : Rat) (impl : List String) : Verdict :=
  match parseAll (impl.drop 1) with
  | some [ar, mnr, mxr] =>
    let mk (x : Rat) : Rat := if u == "deg" then degs piF x else if u == "turn" then turns piF x else rads x
    let rel : Rat := 1 / 1000000
    let v := (handleWrap ar mnr mxr (impl.take 1)).addTag ("unit-" ++ u)
    v.withDiff (!(relClose ar (mk a) rel && relClose mnr (mk mn) rel && relClose mxr (mk mx) rel))
      s!"constructors: impl {fmt [ar, mnr, mxr]} model {fmt [mk a, mk mn, mk mx]}"
  | _ => (Verdict.mkDiff "non-finite or malformed output" ["wrap"]).withSpec true "wrap-nonfinite" "not finite"

def exactEq (impl : String) (model : Rat) : Bool :=
  match rat? impl with | some v => v == model | none => false

def handleClamp (a mn mx : Rat) (impl : List String) : Verdict :=
  match aclamp a mn mx with
  | .panic _ =>
    let v := Verdict.ok ["clamp", "min>max"]
    v.withDiff (!isPanic impl) "model: clamp panics (min > max)"
  | .ok c =>
    let v := Verdict.ok ["clamp", if a < mn then "below" else if mx < a then "above" else "inside"]
    if isPanic impl then (v.withDiff true "model does not panic").withSpec true "clamp-panic" "clamp panicked with min <= max" else
    let v := v.withDiff (!exactEq (impl.getD 0 "") c) s!"impl {impl} model {ratApprox c}"
    match rat? (impl.getD 0 "") with
    | some iv =>
      let v := v.withSpec (!(mn ≤ iv && iv ≤ mx)) "clamp-outside" "clamp result outside [min, max]"
      v.withSpec (mn ≤ a && a ≤ mx && iv != a) "clamp-moved-inside-value" "clamp changed a value already inside"
    | none => v.withSpec true "clamp-nonfinite" "not finite"

def handleMinMax (a b : Rat) (impl : List String) : Verdict :=
  let v := Verdict.ok ["minmax"]
  let v := v.withDiff (!(exactEq (impl.getD 0 "") (amin a b) && exactEq (impl.getD 1 "") (amax a b))) s!"impl {impl} model {fmt [amin a b, amax a b]}"
  match parseAll impl with
  | some [lo, hi] =>
    v.withSpec (!(lo ≤ a && lo ≤ b && a ≤ hi && b ≤ hi && (lo == a || lo == b) && (hi == a || hi == b))) "minmax-wrong" "min/max do not act on the magnitude"
  | _ => v.withSpec true "minmax-nonfinite" "not finite"

def handleOps (a b s : Rat) (impl : List String) : Verdict :=
  let v := Verdict.ok ["ops"]
  match parseAll impl with
  | some [ad, sb, ng, ml, dv, rm] =>
    let rel := ratPow2 (-22)
    -- `a % 0` is NaN in the model (`none`); a finite output can then not agree
    let remOk := match arem a b with | some r => rm == r | none => false
    let model := [aadd a b, asub a b, aneg a, amul a s, adiv a s, (arem a b).getD 0]
    let ok := relClose ad (aadd a b) rel && relClose sb (asub a b) rel && ng == aneg a && relClose ml (amul a s) rel
      && relClose dv (adiv a s) rel && remOk
    let v := v.withDiff (!ok) s!"impl {fmt [ad, sb, ng, ml, dv, rm]} model {fmt model}"
    -- oracle: the operators are those of the underlying magnitude
    let v := v.withSpec (!(relClose ad (a + b) rel && relClose sb (a - b) rel && ng == -a)) "ops-additive" "add/sub/neg"
    let v := v.withSpec (!(relClose ml (a * s) rel && relClose dv (a / s) rel)) "ops-scaling" "mul/div by a scalar"
    -- a % b : |r| < |b|, sign of a, a - r a multiple of b
    let k := (a - rm) / b
    v.withSpec (!(ratAbs rm < ratAbs b && (rm == 0 || (rm < 0) == (a < 0)) && k == ((k.floor : Int) : Rat))) "ops-rem" "remainder"
  | _ => (v.withDiff true "non-finite or malformed output").withSpec true "ops-nonfinite" "not finite"

/-- Split the implementation's tokens into the groups separated by `|`. -/
def groups (impl : List String) : List (List String) :=
  let rec go : Nat → List String → List (List String)
    | 0, l => [l]
    | f + 1, l =>
      let (a, b) := splitBar l
      if b.isEmpty && !l.contains "|" then [a] else a :: go f b
  go impl.length impl

/-- `opsu`: operators, the `Affine`/`Linear` trait methods, `lerp`, max/min, and the results read
back in degrees and turns. -/
def handleOpsU (a b s : Rat) (impl : List String) : Verdict :=
  let v := Verdict.ok ["opsu"]
  match (groups impl).map parseAll with
  | [some [ad, sb, ng, ml, dv], some [tad, tsb, tng, tml, tz, lp], some [da, db, dsum, ddif, ta, tmul, tdiv], some [mx, mn]] =>
    let rel := ratPow2 (-22)
    let sc := ratAbs a + ratAbs b
    let tolL := sc * (1 + ratAbs s) * ratPow2 (-20) + tiny
    let okOps := relClose ad (aadd a b) rel && relClose sb (asub a b) rel && ng == aneg a
      && relClose ml (amul a s) rel && relClose dv (adiv a s) rel
    let v := v.withDiff (!okOps) s!"operators: impl {fmt [ad, sb, ng, ml, dv]} model {fmt [aadd a b, asub a b, aneg a, amul a s, adiv a s]}"
    let v := v.withDiff (!(absClose lp (Retro.lerp a b s) tolL)) s!"lerp: impl {ratApprox lp} model {ratApprox (Retro.lerp a b s)}"
    let relU : Rat := 1 / 100000
    let tolD := relU * (ratAbs (toDegs piF a) + ratAbs (toDegs piF b)) + tiny
    let okU := relClose da (toDegs piF a) relU && relClose db (toDegs piF b) relU
      && absClose dsum (toDegs piF (aadd a b)) tolD && absClose ddif (toDegs piF (asub a b)) tolD
      && relClose ta (toTurns piF a) relU && relClose tmul (toTurns piF (amul a s)) relU
      && relClose tdiv (toTurns piF (adiv a s)) relU
    let v := v.withDiff (!okU) s!"unit read-back: impl {fmt [da, db, dsum, ddif, ta, tmul, tdiv]}"
    let v := v.withDiff (!(mx == amax a b && mn == amin a b)) s!"max/min: impl {fmt [mx, mn]} model {fmt [amax a b, amin a b]}"
    -- oracle (implementation output and case only)
    let v := v.withSpec (!(tad == ad && tsb == sb && tng == ng && tml == ml)) "affine-differs"
      "Affine::add/sub, Linear::neg/mul of Angle differ from the operators"
    let v := v.withSpec (tz != 0) "linear-zero" "Linear::zero() is not the zero angle"
    let v := v.withSpec (!(relClose ad (a + b) rel && relClose sb (a - b) rel && ng == -a && relClose ml (a * s) rel && relClose dv (a / s) rel))
      "ops-magnitude" "an operator does not act on the underlying magnitude"
    let v := v.withSpec (!absClose lp (a + (b - a) * s) tolL) "lerp-wrong" "lerp(a, b, t) is not a + (b - a) t"
    let tolDi := relU * (ratAbs da + ratAbs db) + tiny
    let v := v.withSpec (!(absClose dsum (da + db) tolDi && absClose ddif (da - db) tolDi)) "ops-unit-additive"
      s!"degrees: ({ratApprox da}) ± ({ratApprox db}) read back as {ratApprox dsum}, {ratApprox ddif}"
    let v := v.withSpec (!(relClose tmul (ta * s) relU && relClose tdiv (ta / s) relU)) "ops-unit-scaling"
      s!"turns: {ratApprox ta} scaled by {ratApprox s} read back as {ratApprox tmul}, {ratApprox tdiv}"
    let v := v.withSpec (!relClose da (ta * 360) relU) "unit-inconsistent" s!"degs {ratApprox da} vs turns {ratApprox ta}"
    v.withSpec (!(mn ≤ a && mn ≤ b && a ≤ mx && b ≤ mx && (mn == a || mn == b) && (mx == a || mx == b))) "minmax-wrong"
      "min/max do not act on the magnitude"
  | _ => (v.withDiff true "non-finite or malformed output").withSpec true "ops-nonfinite" "not finite"

/-- `front`: the `From`/`Into` impls must be the named conversions, bit for bit. -/
def handleFront (impl : List String) : Verdict :=
  let v := Verdict.ok ["front"]
  let halves (g : List String) : Bool :=
    let n := g.length / 2
    g.length % 2 == 0 && n > 0 && g.take n == g.drop n
  let gs := groups impl
  let v := v.withDiff (gs.length != 4) "malformed output"
  let names := ["Vec2::from(PolarVec) vs to_cart", "PolarVec::from(Vec2) vs to_polar",
                "Vec3::from(SphericalVec) vs to_cart", "SphericalVec::from(Vec3) vs to_spherical"]
  match (gs.zip names).find? (fun p => !halves p.1) with
  | some (_, name) => (v.withDiff true s!"model: From is the named conversion; {name}").withSpec true "from-differs" s!"{name} differ"
  | none => v

/-! ### trig -/

def handleSinCos (a : Rat) (impl : List String) : Verdict :=
  let (out, std) := splitBar impl
  let v := Verdict.ok ["sincos", if ratAbs a ≤ 7 then "one-turn" else "many-turns"]
  match parseAll (out.take 4), parseAll (std.take 2) with
  | some [s, c, s2, c2], some [ss, sc] =>
    let tol : Rat := 1 / 1000000
    let p := sinCos (fun _ => ss) (fun _ => sc) a
    let v := v.withDiff (!(absClose s ss tol && absClose c sc tol && absClose s2 p.1 tol && absClose c2 p.2 tol))
      s!"impl {fmt [s, c, s2, c2]} std {fmt [ss, sc]}"
    -- tan may be huge near the poles: compare where it is moderate
    let v := match rat? (out.getD 4 ""), rat? (std.getD 2 "") with
      | some t, some st => v.withDiff (!relClose t st (1 / 100000)) "tan differs from std"
      | _, _ => v
    let v := v.withSpec (!(s2 == s && c2 == c)) "sincos-differs" "sin_cos() differs from (sin(), cos())"
    v.withSpec (!absClose (s * s + c * c) 1 (1 / 100000)) "sincos-not-unit" s!"sin²+cos² = {ratApprox (s * s + c * c)}"
  | _, _ => (v.withDiff true "non-finite or malformed output").withSpec true "sincos-nonfinite" "not finite"

def handleInv (x _y : Rat) (impl : List String) : Verdict :=
  let (out, std) := splitBar impl
  let inRange := match asinChecked (fun _ => (0 : Rat)) x with | .ok _ => true | .panic _ => false
  let v := Verdict.ok ["inv", if inRange then "in-domain" else "out-of-domain"]
  let tol : Rat := 1 / 1000000
  let asn := out.getD 0 ""
  -- asin asserts its domain
  let v := v.withDiff ((asn == "P") != !inRange) s!"asin({ratApprox x}): impl {asn}, model {if inRange then "value" else "panic"}"
  let v := v.withSpec (inRange && asn == "P") "asin-panic-in-domain" "asin panicked inside [-1, 1]"
  let cmp (i s : String) : Bool :=
    match rat? i, rat? s with
    | some a, some b => absClose a b tol
    | none, none => true
    | _, _ => false
  let v := v.withDiff (!((asn == "P" || cmp asn (std.getD 0 "")) && cmp (out.getD 1 "") (std.getD 1 "") && cmp (out.getD 2 "") (std.getD 2 "")))
    s!"impl {out} std {std}"
  let half := piF / 2
  let v := match rat? asn with
    | some a => v.withSpec (!(-half ≤ a && a ≤ half)) "asin-range" "asin outside [-90°, 90°]"
    | none => v
  let v := match rat? (out.getD 1 "") with
    | some a => v.withSpec (!(0 ≤ a && a ≤ piF)) "acos-range" "acos outside [0°, 180°]"
    | none => v
  match rat? (out.getD 2 "") with
  | some a => v.withSpec (!(-piF ≤ a && a ≤ piF)) "atan2-range" "atan2 outside [-180°, 180°]"
  | none => v.withSpec true "atan2-nonfinite" "atan2 of finite arguments is not finite"

/-! ### coordinate changes -/

/-- Is the squared length comfortably inside the `f32` range (no underflow / overflow of `x·x`)? -/
def lenSqrRepresentable (l2 : Rat) : Bool := l2 == 0 || (ratPow2 (-80) ≤ l2 && l2 ≤ ratPow2 100)

def quadrant (x y : Rat) : String :=
  if x == 0 && y == 0 then "zero" else if x == 0 || y == 0 then "axis"
  else if 0 < x then (if 0 < y then "q1" else "q4") else (if 0 < y then "q2" else "q3")

def handlePolar (r az : Rat) (impl : List String) : Verdict :=
  let (out, std) := splitBar impl
  let v := Verdict.ok ["polar", if r == 0 then "r=0" else if r < 0 then "r<0" else "r>0",
    if -piF < az && az ≤ piF then "az-principal" else "az-many-turns"]
  if !lenSqrRepresentable (r * r) then Verdict.mkAmb ["polar", "out-of-range"] else
  match parseAll out, parseAll std with
  | some [x, y, r2, az2], some [s, c, q, atv] =>
    let rel : Rat := 1 / 100000
    let tolc := rel * ratAbs r + tiny
    -- skeleton on the std values
    let mc := polarToCart (fun _ => s) (fun _ => c) r az
    let mp := cartToPolar (fun _ => q) (fun _ _ => atv) x y
    let v := v.withDiff (!(absClose x mc.1 tolc && absClose y mc.2 tolc)) s!"to_cart: impl {fmt [x, y]} model {fmt [mc.1, mc.2]}"
    let v := v.withDiff (!relClose (q * q) (dot2 x y) (4 * rel)) s!"harness sqrt value {ratApprox q} is not the root of the model's argument {ratApprox (dot2 x y)}"
    let v := v.withDiff (!(relClose r2 mp.1 rel && absClose az2 mp.2 rel)) s!"to_polar: impl {fmt [r2, az2]} model {fmt [mp.1, mp.2]}"
    -- oracle
    let v := v.withSpec (!relClose (x * x + y * y) (r * r) (4 * rel)) "polar-cart-length" s!"|to_cart(polar({ratApprox r}, …))| ≠ |r|"
    let v := v.withSpec (!relClose r2 (ratAbs r) (2 * rel)) "polar-radius" s!"radius after the round trip {ratApprox r2}, expected {ratApprox (ratAbs r)}"
    let v := v.withSpec (!(-piF ≤ az2 && az2 ≤ piF)) "azimuth-range" s!"azimuth {ratApprox az2} outside [-180°, 180°]"
    if r == 0 then v else
    let want := if r < 0 then az + piHi else az
    let tolA := rel * ratMax 1 (ratAbs az) * 4
    v.withSpec (angDist az2 want > tolA) "polar-roundtrip-azimuth" s!"azimuth {ratApprox az} came back as {ratApprox az2}"
  | _, _ => (v.withDiff true "non-finite or malformed output").withSpec true "polar-nonfinite" "not finite"

def handleCart2 (x y : Rat) (impl : List String) : Verdict :=
  let (out, std) := splitBar impl
  let v := Verdict.ok ["cart2", quadrant x y]
  if !lenSqrRepresentable (dot2 x y) then Verdict.mkAmb ["cart2", "out-of-range"] else
  match parseAll out, parseAll std with
  | some [r, az, x2, y2], some [q, atv, s, c] =>
    let l2 := dot2 x y
    let rel : Rat := 1 / 100000
    let mp := cartToPolar (fun _ => q) (fun _ _ => atv) x y
    let mc := polarToCart (fun _ => s) (fun _ => c) r az
    let tolc := rel * ratAbs r + tiny
    let v := v.withDiff (!relClose (q * q) l2 (4 * rel)) s!"harness sqrt value {ratApprox q} is not the root of the model's argument {ratApprox l2}"
    let v := v.withDiff (!(relClose r mp.1 rel && absClose az mp.2 rel)) s!"to_polar: impl {fmt [r, az]} model {fmt [mp.1, mp.2]}"
    let v := v.withDiff (!(absClose x2 mc.1 tolc && absClose y2 mc.2 tolc)) s!"to_cart: impl {fmt [x2, y2]} model {fmt [mc.1, mc.2]}"
    -- oracle
    let v := v.withSpec (!relClose (r * r) l2 (4 * rel)) "radius-not-length" s!"r = {ratApprox r}, |v|² = {ratApprox l2}"
    let v := v.withSpec (!(-piF ≤ az && az ≤ piF)) "azimuth-range" s!"azimuth {ratApprox az} outside [-180°, 180°]"
    let v := v.withSpec (x == 0 && y == 0 && az != 0) "azimuth-of-zero" "zero vector must map to zero azimuth"
    -- the azimuth points along v: (c, s) = (cos az, sin az) by std
    let v := v.withSpec (l2 != 0 && !(ratAbs (x * s - y * c) ≤ 4 * rel * r && 0 < x * c + y * s)) "azimuth-direction"
      s!"azimuth {ratApprox az} does not point along ({ratApprox x}, {ratApprox y})"
    let tolv := 4 * rel * r + tiny
    v.withSpec (!(absClose x2 x tolv && absClose y2 y tolv)) "cart-polar-cart" s!"({ratApprox x}, {ratApprox y}) came back as ({ratApprox x2}, {ratApprox y2})"
  | _, _ => (v.withDiff true "non-finite or malformed output").withSpec true "cart2-nonfinite" "not finite"

def handleSph (r az alt : Rat) (impl : List String) : Verdict :=
  let (out, std) := splitBar impl
  let half := piF / 2
  let principal := -piF < az && az ≤ piF && -half ≤ alt && alt ≤ half
  let v := Verdict.ok ["sph", if r == 0 then "r=0" else if r < 0 then "r<0" else "r>0",
    if principal then "principal" else "non-principal"]
  if !lenSqrRepresentable (r * r) then Verdict.mkAmb ["sph", "out-of-range"] else
  match parseAll out, parseAll std with
  | some [x, y, z, r2, az2, alt2], some [saz, caz, sal, cal, q, atv, p, bt] =>
    let rel : Rat := 1 / 100000
    let tolc := rel * ratAbs r + tiny
    let sinF := fun a => if a == az then saz else sal
    let cosF := fun a => if a == az then caz else cal
    let mc := sphToCart sinF cosF r az alt
    let d3 := dot3 x y z
    let sqrtF := fun a => if a == d3 then q else p
    let atanF := fun yy xx => if yy == y && xx == p then bt else atv
    let ms := cartToSph sqrtF atanF x y z
    let v := v.withDiff (!(absClose x mc.1 tolc && absClose y mc.2.1 tolc && absClose z mc.2.2 tolc))
      s!"to_cart: impl {fmt [x, y, z]} model {fmt [mc.1, mc.2.1, mc.2.2]}"
    let v := v.withDiff (!(relClose (q * q) d3 (4 * rel) && absClose (p * p) (x * x + z * z) (4 * rel * d3 + tiny)))
      "harness sqrt values are not the roots of the model's arguments"
    -- on the y axis (x = z = 0) the azimuth is atan2(±0, ±0): it depends on the signs of the zeros,
    -- which the rational model does not carry
    let onAxis := x == 0 && z == 0
    let v := if onAxis then v.addTag "az-signed-zero" else v
    let v := v.withDiff (!(relClose r2 ms.1 rel && (onAxis || absClose az2 ms.2.1 rel) && absClose alt2 ms.2.2 rel))
      s!"to_spherical: impl {fmt [r2, az2, alt2]} model {fmt [ms.1, ms.2.1, ms.2.2]}"
    -- oracle
    let v := v.withSpec (!relClose (x * x + y * y + z * z) (r * r) (4 * rel)) "sph-cart-length" "|to_cart(spherical(r, …))| ≠ |r|"
    let v := v.withSpec (!relClose r2 (ratAbs r) (2 * rel)) "sph-radius" s!"radius after the round trip {ratApprox r2}, expected {ratApprox (ratAbs r)}"
    let v := v.withSpec (!(-piF ≤ az2 && az2 ≤ piF)) "azimuth-range" s!"azimuth {ratApprox az2} outside [-180°, 180°]"
    let v := v.withSpec (!(-half ≤ alt2 && alt2 ≤ half)) "altitude-range" s!"altitude {ratApprox alt2} outside [-90°, 90°]"
    if !(principal && 0 < r) then v else
    -- inverse on the principal range; azimuth is ill-conditioned near the poles
    let v := v.withSpec (ratAbs (alt2 - alt) > 20 * rel) "sph-roundtrip-altitude" s!"altitude {ratApprox alt} came back as {ratApprox alt2}"
    if ratAbs cal < 1 / 1000 then v.addTag "near-pole" else
    v.withSpec (angDist az2 az > 4 * rel / ratAbs cal) "sph-roundtrip-azimuth" s!"azimuth {ratApprox az} came back as {ratApprox az2}"
  | _, _ => (v.withDiff true "non-finite or malformed output").withSpec true "sph-nonfinite" "not finite"

def octant (x y z : Rat) : String :=
  let zeros := (if x == 0 then 1 else 0) + (if y == 0 then 1 else 0) + (if z == 0 then 1 else 0)
  if zeros == 3 then "zero" else if zeros == 2 then "axis" else if zeros == 1 then "plane"
  else s!"oct{if 0 < x then 1 else 0}{if 0 < y then 1 else 0}{if 0 < z then 1 else 0}"

def handleCart3 (x y z : Rat) (impl : List String) : Verdict :=
  let (out, std) := splitBar impl
  let half := piF / 2
  let v := Verdict.ok ["cart3", octant x y z]
  if !lenSqrRepresentable (dot3 x y z) || !lenSqrRepresentable (x * x + z * z) then Verdict.mkAmb ["cart3", "out-of-range"] else
  match parseAll out, parseAll std with
  | some [r, az, alt, x2, y2, z2], some [q, atv, p, bt, saz, caz, sal, cal] =>
    let d3 := dot3 x y z
    let h2 := x * x + z * z
    let rel : Rat := 1 / 100000
    let sqrtF := fun a => if a == d3 then q else p
    let atanF := fun yy xx => if yy == y && xx == p then bt else atv
    let ms := cartToSph sqrtF atanF x y z
    let sinF := fun a => if a == az then saz else sal
    let cosF := fun a => if a == az then caz else cal
    let mc := sphToCart sinF cosF r az alt
    let tolc := rel * ratAbs r + tiny
    let v := v.withDiff (!(relClose (q * q) d3 (4 * rel) && absClose (p * p) h2 (4 * rel * d3 + tiny)))
      "harness sqrt values are not the roots of the model's arguments"
    let v := v.withDiff (!(relClose r ms.1 rel && absClose az ms.2.1 rel && absClose alt ms.2.2 rel))
      s!"to_spherical: impl {fmt [r, az, alt]} model {fmt [ms.1, ms.2.1, ms.2.2]}"
    let v := v.withDiff (!(absClose x2 mc.1 tolc && absClose y2 mc.2.1 tolc && absClose z2 mc.2.2 tolc))
      s!"to_cart: impl {fmt [x2, y2, z2]} model {fmt [mc.1, mc.2.1, mc.2.2]}"
    -- oracle
    let v := v.withSpec (!relClose (r * r) d3 (4 * rel)) "radius-not-length" s!"r = {ratApprox r}, |v|² = {ratApprox d3}"
    let v := v.withSpec (!(-piF ≤ az && az ≤ piF)) "azimuth-range" s!"azimuth {ratApprox az} outside [-180°, 180°]"
    let v := v.withSpec (!(-half ≤ alt && alt ≤ half)) "altitude-range" s!"altitude {ratApprox alt} outside [-90°, 90°]"
    -- altitude has the sign of y, azimuth the sign of z
    let v := v.withSpec ((0 < y && alt < 0) || (y < 0 && 0 < alt)) "altitude-sign" "altitude does not follow y"
    let v := v.withSpec ((0 < z && az < 0) || (z < 0 && 0 < az)) "azimuth-sign" "azimuth does not follow z"
    let tolv := 4 * rel * r + tiny
    v.withSpec (!(absClose x2 x tolv && absClose y2 y tolv && absClose z2 z tolv)) "cart-sph-cart"
      s!"({fmt [x, y, z]}) came back as ({fmt [x2, y2, z2]})"
  | _, _ => (v.withDiff true "non-finite or malformed output").withSpec true "cart3-nonfinite" "not finite"

def handle (case impl : List String) : Verdict :=
  match case with
  | ["conv", u, a] =>
    match rat? a with | some a => handleConv u a impl | none => bad "conv"
  | ["wrapu", u, a, mn, mx] =>
    match rat? a, rat? mn, rat? mx with
    | some a, some mn, some mx => handleWrapU u a mn mx impl
    | _, _, _ => bad "wrapu"
  | ["wrap", a, mn, mx] =>
    match rat? a, rat? mn, rat? mx with
    | some a, some mn, some mx => handleWrap a mn mx impl
    | _, _, _ => bad "wrap"
  | ["clamp", a, mn, mx] =>
    match rat? a, rat? mn, rat? mx with
    | some a, some mn, some mx => handleClamp a mn mx impl
    | _, _, _ => bad "clamp"
  | ["minmax", a, b] =>
    match rat? a, rat? b with
    | some a, some b => handleMinMax a b impl
    | _, _ => bad "minmax"
  | ["ops", a, b, s] =>
    match rat? a, rat? b, rat? s with
    | some a, some b, some s => handleOps a b s impl
    | _, _, _ => bad "ops"
  | ["opsu", a, b, sc] =>
    match rat? a, rat? b, rat? sc with
    | some a, some b, some sc => handleOpsU a b sc impl
    | _, _, _ => bad "opsu"
  | "front" :: _ => handleFront impl
  | ["sincos", a] =>
    match rat? a with | some a => handleSinCos a impl | none => bad "sincos"
  | ["inv", x, y] =>
    match rat? x, rat? y with
    | some x, some y => handleInv x y impl
    | _, _ => bad "inv"
  | ["polar", r, az] =>
    match rat? r, rat? az with
    | some r, some az => handlePolar r az impl
    | _, _ => bad "polar"
  | ["cart2", x, y] =>
    match rat? x, rat? y with
    | some x, some y => handleCart2 x y impl
    | _, _ => bad "cart2"
  | ["sph", r, az, alt] =>
    match rat? r, rat? az, rat? alt with
    | some r, some az, some alt => handleSph r az alt impl
    | _, _, _ => bad "sph"
  | ["cart3", x, y, z] =>
    match rat? x, rat? y, rat? z with
    | some x, some y, some z => handleCart3 x y z impl
    | _, _, _ => bad "cart3"
  | _ => bad "unknown op"

end Retro.Drv.C18
