import Retro.Drv.Common
import Retro.Model.Rand

namespace Retro.Drv.C19
open Retro Retro.Rand Retro.Drv

def st? (t : String) : Option (BitVec 64) := (parseHex? t).map (BitVec.ofNat 64)
def stHex (s : BitVec 64) : String := toHex 16 s.toNat

def rat? (t : String) : Option Rat := (parseF32Bits? t).bind F32.toRat?

/-- a few ulp of the magnitudes involved in `unit*(end-start)+start` -/
def f32Tol (start stop : Rat) : Rat :=
  ratMax (ratMax (ratAbs start) (ratAbs stop)) (ratAbs (stop - start)) * ratPow2 (-21)

def pairs {α : Type} : List α → List (α × α)
  | a :: b :: rest => (a, b) :: pairs rest
  | _ => []

def panicClass (impl : String) : String :=
  if impl.startsWith "panic:" then
    let m := (impl.drop 6).toString
    -- only WHETHER the implementation panics is compared, never the wording of the message
    let _ := m
    "any"
  else "none"

def modelPanicClass (m : String) : String :=
  let _ := m
  "any"

/-- Compare float components with tolerance and the trailing state exactly. -/
def cmpFloats (model : List Rat) (tols : List Rat) (impl : List String) : Option String :=
  let rec go : List Rat → List Rat → List String → Nat → Option String
    | [], _, _, _ => none
    | m :: ms, tol :: ts, i :: is, k =>
      match rat? i with
      | none => some s!"component {k} not finite ({i})"
      | some v => if ratAbs (v - m) ≤ tol then go ms ts is (k+1)
                  else some s!"component {k}: impl {ratApprox v} model {ratApprox m}"
    | _, _, _, k => some s!"component {k} missing"
  go model tols impl 0

def handle0 (case impl : List String) : Verdict :=
  match case with
  | ["next", s] =>
    match st? s with
    | none => bad "state"
    | some x =>
      let y := step x
      let tags := [if x == 0 then "zero" else if x.toNat < 256 || (x &&& (x - 1)) == 0 then "edge" else "generic"]
      let v := Verdict.ok tags
      let v := v.withDiff (impl != [stHex y]) s!"model {stHex y}"
      v.withSpec (x != 0 && impl == [toHex 16 0]) "reaches-zero" "non-zero state steps to zero"
  | ["default"] =>
    (Verdict.ok ["default"]).withSpec (impl.getD 1 "" != "1") "default-seed" "Xorshift64::default() is not from_seed(DEFAULT_SEED)"
  | ["samples", s, n, a, b] =>
    match st? s, n.toNat?, a.toInt?, b.toInt? with
    | some x, some n, some a, some b =>
      -- n successive draws of the scalar distribution
      let r := (List.range n).foldl (fun (acc : Option (List Int × BitVec 64)) _ =>
        match acc with
        | none => none
        | some (vs, st) => match uniformI32 st a b with
          | .ok (v, st') => some (vs ++ [v], st')
          | .panic _ => none) (some ([], x))
      match r with
      | some (vs, st') =>
        let want := vs.map toString ++ [stHex st']
        (Verdict.ok ["samples"]).withDiff (impl != want) s!"model {want}"
      | none => bad "samples: model panics"
    | _, _, _, _ => bad "samples"
  | ["seq", s, n] =>
    match st? s, n.toNat? with
    | some x, some n =>
      let (_, h) := (List.range n).foldl (fun (acc : BitVec 64 × UInt64) _ =>
        let y := step acc.1
        let lo := UInt32.ofNat (y.toNat % 4294967296)
        let hi := UInt32.ofNat (y.toNat / 4294967296)
        (y, fnvStep (fnvStep acc.2 lo) hi)) (x, fnvInit)
      let v := Verdict.ok ["seq"]
      let v := v.withDiff (impl.getD 1 "" != hex16 h) s!"model digest {hex16 h}"
      v.withSpec (impl.getD 0 "" != "1") "seed-nondeterminism" "equal seeds gave different sequences"
    | _, _ => bad "seq"
  | ["ui32", s, a, b] =>
    match st? s, a.toInt?, b.toInt? with
    | some x, some a, some b =>
      let representable := 0 < b - a && b - a ≤ i32Max
      let tag := if representable then "width-ok" else if b - a ≤ 0 then "empty-range" else "width-overflow"
      -- the property speaks of ranges whose width is representable ("whenever the range width is
      -- representable"): for the others (the model panics, as the code does today) nothing is compared
      if !representable then Verdict.ok [tag, "outside-quantifier"] else
      match uniformI32 x a b with
      | .panic m =>
        let v := Verdict.ok [tag, "panic"]
        let v := v.withDiff (panicClass (impl.getD 0 "") != modelPanicClass m) s!"model panics: {m}"
        v.withSpec (representable) "ui32-panic" "panic for a representable width"
      | .ok (r, s') =>
        let v := Verdict.ok [tag]
        let v := v.withDiff (impl != [toString r, stHex s']) s!"model {r} {stHex s'}"
        match (impl.getD 0 "").toInt? with
        | some iv => v.withSpec (representable && !(a ≤ iv && iv < b)) "ui32-out-of-range" s!"{iv} not in [{a},{b})"
        | none => v.withSpec representable "ui32-panic" "panic for a representable width"
    | _, _, _ => bad "ui32"
  | ["uf32", s, a, b] =>
    match st? s, rat? a, rat? b with
    | some x, some a, some b =>
      let (r, s') := uniformRat x a b
      let m := mant s'
      let tag := if m == 0 then "mant-min" else if m ≥ 8388608 - 64 then "mant-top" else "mant-generic"
      let v := Verdict.ok [tag]
      match rat? (impl.getD 0 "") with
      | none => (v.withDiff true "impl not finite").withSpec true "uf32-not-finite" "sample not finite"
      | some iv =>
        let v := v.withDiff (ratAbs (iv - r) > f32Tol a b) s!"impl {ratApprox iv} model {ratApprox r}"
        let v := v.withDiff (impl.getD 1 "" != stHex s') s!"state: model {stHex s'}"
        if a < b && !(a ≤ iv && iv < b) then
          if iv == b && r < b then v.withSpec true "uniform-f32-returns-end" s!"sample equals end {ratApprox b} (exact value {ratApprox r})"
          else v.withSpec true "uf32-out-of-range" s!"{ratApprox iv} not in [{ratApprox a},{ratApprox b})"
        else v
    | _, _, _ => bad "uf32"
  | ["bern", s, p] =>
    match st? s, parseF32Bits? p with
    | some x, some pb =>
      match F32.toRat? pb with
      | none => Verdict.mkAmb ["p-nonfinite"]
      | some p =>
        let (r, s') := bernoulli x p
        let tag := if p ≤ 0 then "p<=0" else if p ≥ 1 then "p>=1" else "p-mid"
        let v := Verdict.ok [tag]
        let want := if r then "1" else "0"
        let v := v.withDiff (impl != [want, stHex s']) s!"model {want} {stHex s'}"
        let v := v.withSpec (p ≤ 0 && impl.getD 0 "" != "0") "bernoulli-p0-true" "Bernoulli(p<=0) returned true"
        v.withSpec (p ≥ 1 && impl.getD 0 "" != "1") "bernoulli-p1-false" "Bernoulli(p>=1) returned false"
    | _, _ => bad "bern"
  | "arr" :: s :: _n :: rest =>
    match st? s with
    | some x =>
      let rs := pairs (rest.filterMap String.toInt?)
      match uniformI32List x rs with
      | .panic m => (Verdict.ok ["arr", "panic"]).withDiff (!(impl.getD 0 "").startsWith "panic") s!"model panics {m}"
      | .ok (vs, s') =>
        let want := vs.map toString ++ [stHex s']
        let v := (Verdict.ok ["arr"]).withDiff (impl != want) s!"model {want}"
        let ivs := impl.take vs.length |>.filterMap String.toInt?
        let inRange := ivs.length == rs.length && (ivs.zip rs).all fun (iv, (a, b)) => a ≤ iv && iv < b
        v.withSpec (!inRange) "array-component-out-of-range" "component outside its own range"
    | none => bad "arr"
  | "vec3" :: s :: rest | "pt2" :: s :: rest =>
    match st? s with
    | some x =>
      let rs := pairs (rest.filterMap rat?)
      let (vs, s') := uniformRatList x rs
      let v := Verdict.ok ["vec"]
      let v := match cmpFloats vs (rs.map fun (a, b) => f32Tol a b) impl with
        | some m => v.withDiff true m
        | none => v
      v.withDiff (impl.getD vs.length "" != stHex s') s!"state: model {stHex s'}"
    | none => bad "vec"
  | ["pair", s, p, a, b] =>
    match st? s, rat? p, a.toInt?, b.toInt? with
    | some x, some p, some a, some b =>
      let (r, s1) := bernoulli x p
      match uniformI32 s1 a b with
      | .ok (iv, s2) =>
        let want := [if r then "1" else "0", toString iv, stHex s2]
        (Verdict.ok ["pair"]).withDiff (impl != want) s!"model {want}"
      | .panic m => (Verdict.ok ["pair", "panic"]).withDiff (!(impl.getD 0 "").startsWith "panic") s!"model panics {m}"
    | _, _, _, _ => bad "pair"
  | [op, s] =>
    match st? s with
    | none => bad "state"
    | some x =>
      let dim := if op == "disk" || op == "pdisk" || op == "circle" then 2 else 3
      let comps := (impl.take dim).map rat?
      if comps.any Option.isNone || impl.length != dim + 1 then
        (Verdict.mkDiff "non-finite or malformed output" [op]).withSpec true s!"{op}-not-finite" "non-finite sample"
      else
      let iv := comps.filterMap id
      if op == "circle" || op == "sphere" then
        -- raw sample then normalisation (recip_sqrt is a parameter of the model)
        -- the circle redraws a zero vector (/repo 66dde8c); the sphere normalises its first draw
        let (raw, s') := if op == "circle" then (circleRaw 8 x).getD (uniformRatList x (List.replicate dim (-1, 1)))
                         else uniformRatList x (List.replicate dim (-1, 1))
        let l2 := lenSqr iv
        let v := Verdict.ok [op]
        let v := v.withDiff (impl.getD dim "" != stHex s') s!"state: model {stHex s'}"
        -- impl must be parallel to raw: iv * |raw|² ≈ raw * (iv·raw)
        let dot := (iv.zip raw).foldl (fun acc (a, b) => acc + a * b) 0
        let rl2 := lenSqr raw
        let par := (iv.zip raw).all fun (a, b) => ratAbs (a * rl2 - b * dot) ≤ rl2 / 1000
        let v := v.withDiff (rl2 != 0 && !(par && dot > 0)) "impl not parallel to the model's raw sample"
        v.withSpec (ratAbs (l2 - 1) > 1/1000) s!"{op}-not-unit" s!"len² = {ratApprox l2}"
      else
        let fuel := 200
        let margin := rejectMargin dim fuel x
        let l2 := lenSqr iv
        let v := Verdict.ok [op]
        let v := v.withSpec (l2 > 1 + 1/1000000) s!"{op}-outside" s!"len² = {ratApprox l2}"
        if margin < 1/1000000 then { v with amb := true }
        else
          match rejectBall dim fuel x with
          | none => { v with amb := true }
          | some (mv, s') =>
            let v := v.addTag (if s' == (uniformRatList x (List.replicate dim (-1, 1))).2 then "accept-first" else "rejected-some")
            let v := v.withDiff (impl.getD dim "" != stHex s') s!"state: model {stHex s'}"
            v.withDiff (mv != iv) "sample differs from model"
  | ["fdig", a, b, m0, cnt] =>
    match parseF32Bits? a, parseF32Bits? b, m0.toNat?, cnt.toNat? with
    | some ab, some bb, some m0, some cnt =>
      let fa := Float32.ofBits ab
      let fb := Float32.ofBits bb
      let ra := F32.toRatD ab
      let rb := F32.toRatD bb
      -- digest of the bit-faithful model; classify out-of-range samples with the exact model
      let (h, atEnd, other) := (List.range cnt).foldl (fun (acc : UInt64 × Nat × Nat) i =>
        let m := m0 + i
        let v := uniformF32 m fa fb
        let inR := fa ≤ v && v < fb
        let (e, o) :=
          if inR then (acc.2.1, acc.2.2)
          else if v.toBits == bb && affine (unitRat m) ra rb < rb then (acc.2.1 + 1, acc.2.2)
          else (acc.2.1, acc.2.2 + 1)
        (fnvStep acc.1 v.toBits, e, o)) (fnvInit, 0, 0)
      let v := Verdict.ok ["fdig", if atEnd + other > 0 then "has-out-of-range" else "all-in-range"]
      let v := v.withDiff (impl.getD 0 "" != hex16 h) s!"digest: model {hex16 h}"
      let v := v.withDiff (impl.getD 3 "" != "0") "harness predecessor computation no longer matches step"
      let bad := (impl.getD 1 "").toNat?.getD 0
      let implAtEnd := (impl.getD 4 "").toNat?.getD 0
      let v := v.withDiff (bad != atEnd + other) s!"out-of-range count: model {atEnd + other}"
      -- the spec judgement uses the implementation's own numbers only
      if bad == 0 then v
      else if bad == implAtEnd then
        v.withSpec true "uniform-f32-returns-end" s!"{bad} mantissas in block give a sample equal to end; first m={impl.getD 2 ""}"
      else v.withSpec true "uf32-out-of-range" s!"{bad - implAtEnd} samples outside [start,end]; first bad m={impl.getD 2 ""}"
    | _, _, _, _ => bad "fdig"
  | _ => bad "unknown op"


/-- Composite distributions carry a trailing token `seq=1|0` from the harness: the implementation's own
component-by-component scalar draws from the same seed give the same sample and the same final state. -/
def handle (case impl : List String) : Verdict :=
  let seqBad := impl.contains "seq=0"
  let v := handle0 case (impl.filter fun t => !t.startsWith "seq=")
  v.withSpec seqBad "components-not-drawn-in-order"
    "the composite distribution does not equal drawing its components one at a time, in order, from the same generator state"

end Retro.Drv.C19
