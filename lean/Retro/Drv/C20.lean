import Retro.Drv.Common
import Retro.Drv.F32Native
import Retro.Model.FloatFallback
import Retro.Model.Tex
import Retro.Spec.Tex
import Retro.Spec.FloatSpec

/-!
Driver for C20 (case lines: see harness/src/bin/c20.rs).  Back ends: `std`, `libm`, `mm`, `fallback`
(builds of retrofire-core with that configuration) and `fbmod` (the always-compiled
`math::float::fallback` module called directly in the std build).
-/
namespace Retro.Drv.C20
open Retro Retro.F32 Retro.FloatFallback Retro.Drv Retro.Spec

/-! ### helpers -/

def bits? (t : String) : Option UInt32 :=
  if t.length == 8 then parseF32Bits? t else none

/-- Same float value: both NaN, both the same infinity, or equal finite values (−0 = +0). -/
def sameValue (a b : UInt32) : Bool :=
  if isNaN a || isNaN b then isNaN a && isNaN b
  else match toRat? a, toRat? b with
    | some x, some y => x == y
    | none, none => signBit a == signBit b
    | _, _ => false

/-- decimal / scientific literal ("4e-3", "2.5", "1") to a rational -/
def parseSci? (s : String) : Option Rat :=
  let (mant, ex) := match s.splitOn "e" with
    | [m] => (m, "0")
    | [m, e] => (m, e)
    | _ => ("", "")
  match ex.toInt? with
  | none => none
  | some e =>
    let (ip, fp) := match mant.splitOn "." with
      | [i] => (i, "")
      | [i, f] => (i, f)
      | _ => ("x", "")
    match (ip ++ fp).toNat? with
    | none => none
    | some n =>
      let e' : Int := e - fp.length
      some (if e' ≥ 0 then (n : Rat) * ((10 ^ e'.toNat : Nat) : Rat) else (n : Rat) / ((10 ^ (-e').toNat : Nat) : Rat))

def parseBound? (s : String) : Option (String × Rat) :=
  match s.splitOn ":" with
  | [k, v] => (parseSci? v).map fun b => (k, b)
  | _ => none

def inputTag (b : UInt32) : String :=
  if isNaN b then "nan"
  else match toRat? b with
    | none => "inf"
    | some q =>
      if q == 0 then (if signBit b then "negzero" else "zero")
      else if ratAbs q ≥ 2147483648 then "beyond-i32"
      else if ratAbs q ≥ 8388608 then "integral-big"
      else if expField b == 0 then "subnormal"
      else if (q.floor : Rat) == q then (if q < 0 then "negint" else "int")
      else if q < 0 then "negfrac" else "frac"

def panicClass (t : String) : String :=
  if t.startsWith "panic:" then
    let m := (t.drop 6).toString
    if m.startsWith "attempt_to_subtract" then "sub-overflow"
    else if m.startsWith "min_>_max" then "clamp"
    else "other:" ++ m
  else "none"

/-! ### models per back end -/

def floorModel (be : String) (x : UInt32) : UInt32 :=
  if be == "mm" then mmFloor x
  else if be == "fallback" || be == "fbmod" then FloatFallback.floor x
  else F32.floor x

/-- selected once per case, not per bit pattern -/
def floorNative (be : String) : UInt32 → UInt32 :=
  if be == "mm" then Native.mmFloor
  else if be == "fallback" || be == "fbmod" then Native.fallbackFloor
  else Native.floor

/-- std, the fallback (since e9e07c1; re-exported by libm) and micromath all use
`let r = x % m; if r < 0 { r + |m| } else { r }` (micromath with the test `r >= 0`); the two model
functions return the same bits (`Props.C20.mm_rem_euclid_eq_std_algorithm`). -/
def remEuclidModel (be : String) (x m : UInt32) : UInt32 :=
  if be == "mm" then mmRemEuclid x m else remEuclid x m

/-- which `round_up_to_half` a configuration compiles, and with which `floor` -/
def roundUpHalfModel (be : String) (x : UInt32) : UInt32 :=
  if be == "fallback" then roundUpHalfNoFp x
  else roundUpHalfFp (floorModel be) x

def canonBits (b : UInt32) : UInt32 := if isNaN b then canonNaN else b

/-! ### spec keys -/

def floorSpec (be : String) (a : UInt32) (impl : UInt32) : Option (String × String) :=
  match toRat? a with
  | none =>
    if isNaN a then none
    else if sameValue impl a then none
    else some (if be == "mm" then "mm-floor-saturates" else be ++ "-floor-wrong", s!"floor(±inf) = {hex8 impl}")
  | some q =>
    let ok := match toRat? impl with
      | some r => FloatSpec.isFloorOf q r
      | none => false
    if ok then none
    else if be == "mm" && ratAbs q ≥ 2147483648 then
      some ("mm-floor-saturates", s!"floor({ratApprox q}) = {hex8 impl}: micromath's floor goes through `as i32`")
    else some (be ++ "-floor-wrong", s!"floor({ratApprox q}) = {hex8 impl}")

def absSpec (be : String) (a : UInt32) (impl : UInt32) : Option (String × String) :=
  match toRat? a with
  | none =>
    if isNaN a then (if isNaN impl then none else some (be ++ "-abs-wrong", "abs(NaN) is not NaN"))
    else if impl == posInf then none else some (be ++ "-abs-wrong", s!"abs(±inf) = {hex8 impl}")
  | some q =>
    match toRat? impl with
    | some r => if FloatSpec.isAbsOf q r then none else some (be ++ "-abs-wrong", s!"abs({ratApprox q}) = {ratApprox r}")
    | none => some (be ++ "-abs-wrong", s!"abs({ratApprox q}) = {hex8 impl}")

/-- Domain: `x` finite, `m` finite and non-zero of either sign; the result is taken modulo `|m|`. -/
def remSpec (be : String) (x m impl : UInt32) : Option (String × String) :=
  match toRat? x, toRat? m with
  | some xv, some mv =>
    if mv == 0 then none
    else
      let am := ratAbs mv
      match toRat? impl with
      | none => some (be ++ "-rem-euclid-range", s!"rem_euclid({ratApprox xv}, {ratApprox mv}) = {hex8 impl}")
      | some r =>
        if !FloatSpec.remRange am r then
          some (be ++ "-rem-euclid-range", s!"rem_euclid({ratApprox xv}, {ratApprox mv}) = {ratApprox r} outside [0, |m|]")
        else if !FloatSpec.remCongruent xv am r then
          some (be ++ "-rem-euclid-congruence", s!"rem_euclid({ratApprox xv}, {ratApprox mv}) = {ratApprox r} is not congruent to x")
        else none
  | _, _ => none

def approxKey (be fn : String) : String :=
  if be == "mm" && fn == "powf" then "mm-powf-inaccurate" else s!"{be}-{fn}-error-bound"

def twoPi : Rat := 6283185307 / 1000000000

/-- relative accuracy demanded of `recip_sqrt` in the `rsq` op, per back end -/
def rsqEps (be : String) : Rat :=
  if be == "std" || be == "libm" then 1 / 1000000 else 35 / 10000

/-! ### the handler -/

/-- FNV digest of `g` over `count` consecutive bit patterns from `start` (a tight loop). -/
def foldDigest (g : UInt32 → UInt32) (start count : Nat) : UInt64 :=
  let rec go (n : Nat) (b : UInt32) (h : UInt64) : UInt64 :=
    match n with
    | 0 => h
    | n + 1 => go n (b + 1) (fnvStep h (g b))
  go count (UInt32.ofNat start) fnvInit

def handle (case impl : List String) : Verdict :=
  let i0 := impl.getD 0 ""
  match case with
  | ["x1", fn, be, a] =>
    match bits? a with
    | none => bad "x1"
    | some ab =>
      let (model, native) :=
        if fn == "floor" then (floorModel be ab, floorNative be ab) else (FloatFallback.abs ab, Native.abs ab)
      let tags := [fn, be, "in-" ++ inputTag ab]
      match bits? i0 with
      | none => (Verdict.mkDiff s!"unreadable output {i0}" tags).withSpec true (be ++ "-" ++ fn ++ "-wrong") s!"{fn} did not return a value: {i0}"
      | some ib =>
        let v := Verdict.ok tags
        let v := v.withDiff (!sameValue ib model) s!"model {hex8 model}"
        let v := v.withDiff (canonBits model != native) s!"native channel {hex8 native} differs from exact model {hex8 model}"
        match (if fn == "floor" then floorSpec be ab ib else absSpec be ab ib) with
        | some (k, m) => v.withSpec true k m
        | none => v
  | ["x2", "rem_euclid", be, x, m] =>
    match bits? x, bits? m with
    | some xb, some mb =>
      let model := remEuclidModel be xb mb
      let dom := match toRat? xb, toRat? mb with
        | some _, some mv => if mv > 0 then "m-pos" else if mv == 0 then "m-zero" else "m-neg"
        | _, _ => "non-finite"
      let tags := ["rem_euclid", be, dom, "x-" ++ inputTag xb]
      match bits? i0 with
      | none => (Verdict.mkDiff s!"unreadable output {i0}" tags).withSpec (dom == "m-pos" || dom == "m-neg") (be ++ "-rem-euclid-range") s!"no value: {i0}"
      | some ib =>
        let v := Verdict.ok tags
        let v := v.withDiff (!sameValue ib model) s!"model {hex8 model}"
        -- "behave the same in no_std builds as in std builds": every back end uses std's algorithm
        -- on exact `%`, so for finite x and finite non-zero m the value must be std's, exactly
        let v := match bits? (impl.getD 1 ""), toRat? xb, toRat? mb with
          | some sb, some _, some mv =>
            v.withSpec (mv != 0 && !sameValue ib sb) (be ++ "-rem-euclid-differs-from-std")
              s!"rem_euclid = {hex8 ib}, std gives {hex8 sb}"
          | _, _, _ => v
        match remSpec be xb mb ib with
        | some (k, msg) => v.withSpec true k msg
        | none => v
    | _, _ => bad "x2"
  | ["dx", fn, be, start, count] =>
    match parseHex? start, count.toNat? with
    | some start, some count =>
      let h := if fn == "floor" then foldDigest (floorNative be) start count else foldDigest Native.abs start count
      let v := Verdict.ok ["dx", fn, be]
      let v := v.withDiff (i0 != hex16 h) s!"digest: model {hex16 h}"
      let nwrong := (impl.getD 1 "").toNat?.getD 0
      let first := impl.getD 2 "-"
      let key :=
        if be == "mm" && fn == "floor" then
          -- blocks wholly beyond ±2^31 (or at the infinities) can only show the recorded saturation
          let lo := start % 2147483648
          if lo + count > 0x4F000000 then "mm-floor-saturates" else "mm-floor-wrong"
        else s!"{be}-{fn}-wrong"
      v.withSpec (nwrong > 0) key s!"{nwrong} wrong values in block, first at {first}"
    | _, _ => bad "dx"
  | "ap" :: fn :: be :: bound :: a :: rest =>
    match parseBound? bound, bits? a with
    | some (kind, bnd), some ab =>
      let i1 := impl.getD 1 ""
      let tags := ["ap", fn, be]
      match bits? i0, bits? i1 with
      | some ib, some sb =>
        match toRat? sb with
        | none => Verdict.mkAmb (tags ++ ["reference-not-finite"])
        | some want =>
          -- tan is compared away from its poles only (same guard as the sweeps)
          if fn == "tan" && ratAbs want > 10 then Verdict.mkAmb (tags ++ ["near-pole"]) else
          -- model of recip_sqrt for the Newton back ends (correspondence)
          let v := Verdict.ok tags
          let v :=
            if fn == "recip_sqrt" && (be == "fallback" || be == "fbmod" || be == "mm") then
              match recipSqrtRat ab, toRat? ib with
              | .ok (some r), some iv => v.withDiff (ratAbs (iv - r) > ratAbs r / 100000) s!"Newton model {ratApprox r}, impl {ratApprox iv}"
              | _, _ => v
            else v
          match toRat? ib with
          | none => v.withSpec true (approxKey be fn) s!"{fn}({a} {rest}) = {i0}, std {i1}"
          | some got =>
            if FloatSpec.errWithin kind bnd got want sb then v
            else if fn == "atan2" && FloatSpec.errWithin kind bnd (ratAbs (got - want)) twoPi 0x40C90FDB then
              v.withSpec true (be ++ "-atan2-branch-cut") s!"atan2({a} {rest}) = {ratApprox got}, std {ratApprox want}: a whole turn apart"
            else v.withSpec true (approxKey be fn) s!"{fn}({a} {rest}) = {ratApprox got}, std {ratApprox want}, bound {bound}"
      | _, _ => (Verdict.mkDiff s!"unreadable output {impl}" tags).withSpec true (approxKey be fn) s!"no value: {impl}"
    | _, _ => bad "ap"
  | "sw" :: fn :: be :: bound :: _ =>
    let nex := i0.toNat?.getD 0
    let nbranch := (impl.getD 1 "").toNat?.getD 0
    let n := (impl.getD 4 "").toNat?.getD 0
    let v := Verdict.ok ["sw", fn, be]
    -- a block that lies wholly inside the excluded neighbourhood of a pole of tan compares nothing
    if impl.length == 5 && n == 0 then Verdict.mkAmb ["sw", fn, be, "nothing-comparable"] else
    let v := v.withDiff (impl.length != 5) s!"unreadable sweep {impl}"
    let v := v.withSpec (nex > 0) (approxKey be fn) s!"{nex} of {n} points exceed {bound}; max error {impl.getD 2 ""} at {impl.getD 3 ""}"
    v.withSpec (nbranch > 0) (be ++ "-atan2-branch-cut") s!"{nbranch} of {n} points a whole turn away from std"
  | ["rsq", be, a] =>
    match bits? a with
    | none => bad "rsq"
    | some ab =>
      let dom := match toRat? ab with
        | some q => if q > 0 then (if expField ab == 0 then "subnormal" else "positive") else if q == 0 then "zero" else "negative"
        | none => "non-finite"
      let tags := ["rsq", be, dom]
      let hasModel := be == "fallback" || be == "fbmod" || be == "mm"
      if i0.startsWith "panic:" then
        let v := Verdict.ok (tags ++ ["panic"])
        let v := v.withDiff (hasModel && !(match recipSqrtRat ab with | .panic _ => i0.startsWith "panic:" | .ok _ => false)) "model does not panic here"
        v.withSpec (dom == "positive") (be ++ "-recip-sqrt-panics") s!"recip_sqrt panicked: {i0}"
      else
      match bits? i0 with
      | none => bad "rsq output"
      | some ib =>
        let v := Verdict.ok tags
        let v :=
          if hasModel then
            match recipSqrtRat ab with
            | .panic m => v.withDiff true s!"model panics: {m}"
            | .ok none => v
            | .ok (some r) =>
              match toRat? ib with
              | some iv => v.withDiff (dom != "zero" && ratAbs (iv - r) > ratAbs r / 100000) s!"Newton model {ratApprox r}, impl {ratApprox iv}"
              | none => v.withDiff (dom == "positive") s!"impl not finite, model {ratApprox r}"
          else v
        -- subnormal arguments are in the domain too (their reciprocal square root is an ordinary number around
        -- 1e19..1e22)
        if dom == "positive" || dom == "subnormal" then
          match toRat? ab, toRat? ib with
          | some x, some r =>
            v.withSpec (!FloatSpec.recipSqrtWithin (rsqEps be) x r) (be ++ "-recip_sqrt-error-bound") s!"r = {ratApprox r}: r²x − 1 = {ratApprox (r * r * x - 1)}"
          | _, _ => v.withSpec true (be ++ "-recip_sqrt-error-bound") s!"recip_sqrt not finite: {i0}"
        else v
  | ["rh", be, x] =>
    match bits? x with
    | none => bad "rh"
    | some xb =>
      let rhm := roundUpHalfModel be
      let usz (b : UInt32) : String := toString (toUsizeSat b)
      let x0 := rhm xb
      let x1 := rhm (add xb 0x41000000)          -- x + 8.0
      let y0 := rhm xb
      let y1 := rhm (add xb 0x40000000)          -- x + 2.0
      let n := toU32Sat (sub y1 y0)
      let want := [usz x0, usz x1, if n == 0 then "-" else usz y0, toString n]
      let tags := ["rh", be, "x-" ++ inputTag xb]
      let v := Verdict.ok tags
      let v := v.withDiff (impl != want) s!"model {want}"
      -- spec: where x + 1/2 is exact, the first covered pixel is ⌊x + 1/2⌋ in every configuration
      match toRat? xb with
      | some q =>
        if q ≥ -1/2 && q < 4194304 then
          -- exact since fix b772987 (Props.C20.round_up_to_half_exact): no ambiguity band needed
          let e := (q + 1/2).floor.toNat
          v.withSpec (i0 != toString e) (be ++ "-round-up-to-half") s!"first pixel {i0}, expected {e}"
        else v
      | none => v
  | ["tx", be, smp, kdw, kdh, u, v] =>
    -- texture addressing in configuration `be`: model = Retro.Model.Tex with that back end's floor;
    -- spec = floor(coordinate) mod size (repeat, |x| < 2^31) / clamped floor (clamp), in exact arithmetic
    match kdw.toNat?, kdh.toNat?, bits? u, bits? v with
    | some dw, some dh, some ub, some vb =>
      let t := Tex.Texture.ofDims dw dh
      let fl := floorModel be
      let m : Option (Outcome (Nat × Nat)) :=
        if smp == "rep" then
          some (match Tex.RepeatPot.new t with
            | .panic msg => .panic msg
            | .ok sm => Tex.repeatSampleAbsF fl sm t ub vb)
        else if smp == "cl" then some (Tex.clampSampleAbsF fl t ub vb)
        else none
      match m with
      | none => bad "tx sampler"
      | some m =>
        let tags := ["tx", be, smp, "u-" ++ inputTag ub, "v-" ++ inputTag vb]
        let want := match m with | .ok (a, b) => s!"{a},{b}" | .panic _ => "panic"
        let got := if i0.startsWith "panic:" then "panic" else i0
        -- repeat sampler beyond 2^31 (or ±∞ / NaN): which texel comes out is outside the property (C12); only
        -- "no panic, in bounds" is judged there, by the spec below
        let beyond := smp == "rep" && got != "panic" && want != "panic" &&
          [ub, vb].any (fun c => match toRat? c with | some q => !Spec.Tex.below2p31 q | none => true)
        let vd := (Verdict.ok (if beyond then tags ++ ["beyond-2^31"] else tags)).withDiff (!beyond && got != want) s!"model {want}"
        -- impl-only judgement
        if i0.startsWith "panic:" then vd.withSpec true (be ++ "-texel-panics") s!"sampler panicked: {i0}"
        else
          match i0.splitOn "," with
          | [a, b] =>
            match a.toNat?, b.toNat? with
            | some iu, some iv =>
              let exp (w : Nat) (cb : UInt32) : Option Nat :=
                match toRat? cb with
                | none => none
                | some q =>
                  if smp == "rep" then (if Spec.Tex.below2p31 q then some (Spec.Tex.repeatIdx w q) else none)
                  else some (Spec.Tex.clampIdx w q)
              let okAxis (w : Nat) (cb : UInt32) (i : Nat) : Bool :=
                i < w && (match exp w cb with | some e => e == i | none => true)
              vd.withSpec (!(okAxis dw ub iu && okAxis dh vb iv)) (be ++ "-texel-wrong")
                s!"texel ({iu},{iv}) on {dw}x{dh}, expected ({(exp dw ub).map toString |>.getD "*"},{(exp dh vb).map toString |>.getD "*"})"
            | _, _ => vd.withSpec true (be ++ "-texel-wrong") s!"unreadable {i0}"
          | _ => vd.withSpec true (be ++ "-texel-wrong") s!"unreadable {i0}"
    | _, _, _, _ => bad "tx"
  | ["wrap", be, a, lo, hi] =>
    -- Angle::wrap = min + rem_euclid(a − min, max − min) with the back end's rem_euclid
    match bits? a, bits? lo, bits? hi with
    | some ab, some lb, some hb =>
      -- (with the cap of the `fix:` for wrap-above-max: `if min < max && w > max { max } else { w }`)
      let w0 := add lb (remEuclidModel be (sub ab lb) (sub hb lb))
      -- std / fallback / libm: literally `F32.wrapStd`, the function of `Props.C18.wrap_f32_in_range`
      let model := if be == "mm" then (if lt lb hb && lt hb w0 then hb else w0) else F32.wrapStd ab lb hb
      let tags := ["wrap", be, "a-" ++ inputTag ab]
      match bits? i0 with
      | none => Verdict.mkDiff s!"unreadable output {i0}" tags
      | some ib =>
        let vd := (Verdict.ok tags).withDiff (!sameValue ib model) s!"model {hex8 model}"
        -- exactly std's result in every configuration (max is never returned where std returns min)
        let vd := match bits? (impl.getD 1 ""), toRat? ab, toRat? lb, toRat? hb with
          | some sb, some _, some lv, some hv =>
            vd.withSpec (lv < hv && !sameValue ib sb) (be ++ "-angle-wrap-differs-from-std") s!"wrap = {hex8 ib}, std gives {hex8 sb}"
          | _, _, _, _ => vd
        match toRat? ab, toRat? lb, toRat? hb with
        | some av, some lv, some hv =>
          if lv < hv then
            match toRat? ib with
            | none => vd.withSpec true (be ++ "-angle-wrap-range") s!"wrap({ratApprox av}) = {i0}"
            | some r =>
              let p := hv - lv
              -- float subtraction/addition of magnitudes up to max(|a|,|min|,|max|): a few ulps of that
              let tol := ratMax (ratMax (ratAbs av) (ratAbs lv)) (ratMax (ratAbs hv) 1) * ratPow2 (-20)
              let vd := vd.withSpec (r < lv - tol || r > hv + tol) (be ++ "-angle-wrap-range")
                s!"wrap({ratApprox av}, {ratApprox lv}, {ratApprox hv}) = {ratApprox r} outside the range"
              vd.withSpec (FloatSpec.distToInt ((r - av) / p) * p > tol) (be ++ "-angle-wrap-congruence")
                s!"wrap({ratApprox av}, {ratApprox lv}, {ratApprox hv}) = {ratApprox r} is not the same angle"
          else vd
        | _, _, _ => vd
    | _, _, _ => bad "wrap"
  | ["norm", be, x, y, z] =>
    match bits? x, bits? y, bits? z with
    | some xb, some yb, some zb =>
      let tags := ["norm", be]
      match toRat? xb, toRat? yb, toRat? zb with
      | some xv, some yv, some zv =>
        let l2 := xv * xv + yv * yv + zv * zv
        if l2 < ratPow2 (-100) || l2 > ratPow2 100 then Verdict.mkAmb (tags ++ ["extreme-length"])
        else
          match (impl.map bits?), impl.length with
          | [some ra, some rb, some rc], 3 =>
            let vd := Verdict.ok tags
            -- correspondence for the Newton back ends: len_sqr in f32, exact Newton step, scale
            let vd :=
              if be == "fallback" || be == "mm" then
                let l2b := add (add (mul xb xb) (mul yb yb)) (mul zb zb)
                match recipSqrtRat l2b, toRat? ra, toRat? rb, toRat? rc with
                | .ok (some s), some a, some b, some c =>
                  let close (m i : Rat) : Bool := ratAbs (i - m) ≤ ratAbs m / 100000 + ratPow2 (-60)
                  vd.withDiff (!(close (xv * s) a && close (yv * s) b && close (zv * s) c))
                    s!"Newton model ({ratApprox (xv * s)}, {ratApprox (yv * s)}, {ratApprox (zv * s)})"
                | _, _, _, _ => vd
              else vd
            match toRat? ra, toRat? rb, toRat? rc with
            | some a, some b, some c =>
              let eps : Rat := if be == "std" || be == "libm" then 1 / 100000 else 35 / 10000
              let n2 := a * a + b * b + c * c
              let vd := vd.withSpec (ratAbs (n2 - 1) > 2 * eps + eps * eps) (be ++ "-normalize-not-unit")
                s!"|normalize(v)|² = {ratApprox n2}"
              -- same direction: cross product negligible, dot product positive
              let cx := b * zv - c * yv
              let cy := c * xv - a * zv
              let cz := a * yv - b * xv
              let dot := a * xv + b * yv + c * zv
              vd.withSpec (dot ≤ 0 || cx * cx + cy * cy + cz * cz > l2 * n2 / 10000000000) (be ++ "-normalize-direction")
                "normalize(v) is not parallel to v"
            | _, _, _ => (Verdict.ok tags).withSpec true (be ++ "-normalize-not-unit") s!"non-finite result {impl}"
          | _, _ => (Verdict.mkDiff s!"unreadable output {impl}" tags).withSpec true (be ++ "-normalize-not-unit") s!"no value: {impl}"
      | _, _, _ => Verdict.mkAmb (tags ++ ["non-finite-input"])
    | _, _, _ => bad "norm"
  | "rs" :: op :: args =>
    let bs := args.filterMap bits?
    let b (i : Nat) : UInt32 := bs.getD i 0
    let tags := ["rs", op]
    let cmpBits (m : UInt32) : Verdict :=
      match bits? i0 with
      | some ib => (Verdict.ok tags).withDiff (!(sameFloat ib m)) s!"model {hex8 m}"
      | none => Verdict.mkDiff s!"unreadable {i0}, model {hex8 m}" tags
    let cmpStr (m : String) : Verdict := (Verdict.ok tags).withDiff (i0 != m) s!"model {m}"
    let cmpBool (m : Bool) : Verdict := cmpStr (if m then "1" else "0")
    if op == "floor" then cmpBits (F32.floor (b 0))
    else if op == "i32" then cmpStr (toString (toI32Sat (b 0)))
    else if op == "u32" then cmpStr (toString (toU32Sat (b 0)))
    else if op == "i64" then cmpStr (toString (toI64Sat (b 0)))
    else if op == "usize" then cmpStr (toString (toUsizeSat (b 0)))
    else if op == "i2u" then match (args.getD 0 "").toInt? with
      | some n => cmpStr (toString (i32ToU32 n))
      | none => bad "i2u"
    else if op == "i2f" then match (args.getD 0 "").toInt? with
      | some n => cmpBits (intToF32 n)
      | none => bad "i2f"
    else if op == "clamp" then
      match clamp (b 0) (b 1) (b 2) with
      | .ok m => cmpBits m
      | .panic _ => (Verdict.ok (tags ++ ["panic"])).withDiff (!i0.startsWith "panic:") "model panics (min > max or NaN bound)"
    else if op == "rem" then cmpBits (rem (b 0) (b 1))
    else if op == "mul" then cmpBits (mul (b 0) (b 1))
    else if op == "add" then cmpBits (add (b 0) (b 1))
    else if op == "sub" then cmpBits (sub (b 0) (b 1))
    else if op == "lt" then cmpBool (lt (b 0) (b 1))
    else if op == "le" then cmpBool (le (b 0) (b 1))
    else if op == "eq" then cmpBool (feq (b 0) (b 1))
    else bad "rs op"
  | ["drs", op, start, count] =>
    match parseHex? start, count.toNat? with
    | some start, some count =>
      let g : UInt32 → UInt32 :=
        if op == "floor" then Native.floor
        else if op == "i32" then fun b => (Native.f b).toInt32.toUInt32
        else fun b => (Native.f b).toUInt32
      -- the native channel is itself checked against the exact model on a sub-sample of the block
      let stepN := if count > 64 then count / 64 else 1
      let exactOk := (List.range 64).all fun k =>
        let bb := UInt32.ofNat (start + (k * stepN) % count)
        let e : UInt32 :=
          if op == "floor" then canonBits (F32.floor bb)
          else if op == "i32" then UInt32.ofNat (i32ToU32 (toI32Sat bb))
          else UInt32.ofNat (toU32Sat bb)
        e == g bb
      let h := foldDigest g start count
      let v := Verdict.ok ["drs", op]
      let v := v.withDiff (!exactOk) "native channel differs from the exact model inside this block"
      v.withDiff (i0 != hex16 h) s!"digest: model {hex16 h}"
    | _, _ => bad "drs"
  | _ => bad "unknown op"

end Retro.Drv.C20
