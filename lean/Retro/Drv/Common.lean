/-
Verdict lines printed by the model driver, one per case:

  <status> ; tags=<t1,t2,…> ; key=<finding key or -> ; <free text>

status ∈ OK | AMB | DIFF | SPEC | DIFF+SPEC
  DIFF  the implementation's output disagrees with the model (correspondence broken)
  SPEC  the implementation's output violates the property's spec oracle (a failing input)
  AMB   inside the property's own ambiguity band: not compared
-/
import Retro.Basic

namespace Retro.Drv

structure Verdict where
  diff : Option String := none
  spec : Option (String × String) := none   -- (key, message)
  amb  : Bool := false
  tags : List String := []
  deriving Inhabited

namespace Verdict
def ok (tags : List String := []) : Verdict := { tags := tags }
def mkAmb (tags : List String := []) : Verdict := { amb := true, tags := tags }
def mkDiff (msg : String) (tags : List String := []) : Verdict := { diff := some msg, tags := tags }
def mkSpec (key msg : String) (tags : List String := []) : Verdict := { spec := some (key, msg), tags := tags }
def addTag (v : Verdict) (t : String) : Verdict := { v with tags := t :: v.tags }
def withDiff (v : Verdict) (c : Bool) (msg : String) : Verdict :=
  if c && v.diff.isNone then { v with diff := some msg } else v
def withSpec (v : Verdict) (c : Bool) (key msg : String) : Verdict :=
  if c && v.spec.isNone then { v with spec := some (key, msg) } else v

def render (v : Verdict) : String :=
  let status :=
    match v.diff, v.spec with
    | some _, some _ => "DIFF+SPEC"
    | some _, none => "DIFF"
    | none, some _ => "SPEC"
    | none, none => if v.amb then "AMB" else "OK"
  let key := match v.spec with | some (k, _) => k | none => "-"
  let msg := (match v.diff with | some m => "diff: " ++ m ++ " " | none => "") ++
             (match v.spec with | some (_, m) => "spec: " ++ m | none => "")
  s!"{status} ; tags={",".intercalate v.tags.reverse} ; key={key} ; {msg}"
end Verdict

def bad (msg : String) : Verdict := Verdict.mkDiff ("driver cannot parse case: " ++ msg)

def parseInt? (s : String) : Option Int := s.toInt?
def parseNat? (s : String) : Option Nat := s.toNat?

def ratStr (q : Rat) : String := if q.den == 1 then toString q.num else s!"{q.num}/{q.den}"

/-- Decimal rendering of a rational to ~9 significant digits, for messages only. -/
def ratApprox (q : Rat) : String :=
  let f : Float := Float.ofInt q.num / Float.ofNat q.den
  toString f


/-- Main loop of a per-property model driver: reads "<case> => <impl output>" lines from stdin,
prints one verdict line per case. -/
partial def runLoop (h out : IO.FS.Stream) (f : List String → List String → Verdict) : IO Unit := do
  let line ← h.getLine
  if line.isEmpty then return ()
  let toks := words line
  if toks.isEmpty then runLoop h out f
  else
    let (case, impl) := Retro.splitAt "=>" toks
    out.putStrLn (f case impl).render
    runLoop h out f

def runMain (f : List String → List String → Verdict) : IO UInt32 := do
  runLoop (← IO.getStdin) (← IO.getStdout) f
  return 0

end Retro.Drv
