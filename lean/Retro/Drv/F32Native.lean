import Retro.Basic

/-!
Native `Float32` interpretations of the bit-level models, used **only** for the digest channel
(blocks of 2^12 … 2^20 consecutive bit patterns, where the exact `Rat` model at ~10 µs per point
would take hours for 2^32 patterns).  They are not what the theorems are about: every individual
(non-digest) case evaluates the exact model *and* the native one and reports a disagreement between
the two as a DIFF, so the native channel is continuously validated against the verified model on
all edge classes and random points.
-/
namespace Retro.Drv.Native

@[inline] def f (b : UInt32) : Float32 := Float32.ofBits b
@[inline] def canon (x : Float32) : UInt32 := if x.isNaN then 0x7FC00000 else x.toBits

/- float literals go through `OfScientific` at run time (slow): use bit-pattern constants -/
def c0 : Float32 := Float32.ofBits 0
def c1 : Float32 := Float32.ofBits 0x3F800000
def c2p23 : Float32 := Float32.ofBits 0x4B000000

/-- `f32::floor`. -/
@[inline] def floor (b : UInt32) : UInt32 := canon (f b).floor

/-- `fallback::abs`. -/
@[inline] def abs (b : UInt32) : UInt32 := canon (f (b &&& 0x7FFFFFFF))

/-- `fallback::floor` (float.rs:116-132). -/
@[inline] def fallbackFloor (b : UInt32) : UInt32 :=
  let x := f b
  let a := f (b &&& 0x7FFFFFFF)
  if !(a < c2p23) then canon x
  else
    let t := x.toInt32.toFloat32
    if t > x then canon (t - c1) else if t == x then canon x else canon t

/-- `mm::floor` (float.rs:43-51): the 2^23 guard, then micromath's `floor`. -/
@[inline] def mmFloor (b : UInt32) : UInt32 :=
  let x := f b
  let a := f (b &&& 0x7FFFFFFF)
  if !(a < c2p23) then canon x
  else
    let r := x.toInt32.toFloat32
    if x < r then canon (r - c1) else canon r

/-- tex.rs:136 one axis of the repeating sampler. -/
@[inline] def repeatAxis (mask : UInt32) (b : UInt32) : UInt32 :=
  (f b).floor.toInt32.toUInt32 &&& mask

/-- Rust `f32::clamp(0.0, hi)` then `floor` then `as u32` (hi ≥ 0 finite assumed by the caller). -/
@[inline] def clampAxis (hi : Float32) (b : UInt32) : UInt32 :=
  let x := f b
  let c := if x < c0 then c0 else if x > hi then hi else x
  c.floor.toUInt32

/-- tex.rs:214 `tc.u() as u32`. -/
@[inline] def onceAxis (b : UInt32) : UInt32 := (f b).toUInt32

end Retro.Drv.Native
