import Retro.Drv.Common
import Retro.Model.Raster
import Retro.Spec.Raster

namespace Retro.Drv.RasterCommon
open Retro Retro.Raster Retro.Drv
open Retro.Spec.Raster (P2 Cover classify)

/-- A row as printed by the harness. -/
structure Row where
  y : Nat
  x0 : Nat
  x1 : Nat
  n : Nat
  deriving Repr, DecidableEq

def covers (rows : List Row) (px py : Nat) : Nat :=
  rows.foldl (fun c r => if r.y == py && r.x0 ≤ px && px < r.x1 then c + 1 else c) 0

def modelRows (sl : List (Scanline Rat)) : List Row :=
  sl.map fun s => ⟨s.y, s.x0, s.x1, s.frags.length⟩

def centre (px py : Nat) : P2 := ⟨(px : Rat) + 1/2, (py : Rat) + 1/2⟩

/-- pixel range to scan: the triangle's bounding box plus two pixels -/
def scanBox (ps : List P2) : Nat × Nat × Nat × Nat :=
  let xmax := ps.foldl (fun m p => ratMax m p.x) 0
  let ymax := ps.foldl (fun m p => ratMax m p.y) 0
  (0, xmax.ceil.toNat + 3, 0, ymax.ceil.toNat + 3)

/-- A row that reaches beyond the scan box covers pixels far outside the triangle. -/
def rowBeyondBox (ps : List P2) (rows : List Row) : Option Row :=
  let (_, xb, _, yb) := scanBox ps
  rows.find? fun r => (r.x1 > xb && r.x1 > r.x0) || (r.y ≥ yb && r.x1 > r.x0)

/-- First pixel violating the coverage rule: (px, py, what). -/
def coverageViolation (eps : Rat) (p0 p1 p2 : P2) (rows : List Row) : Option (Nat × Nat × String) :=
  match rowBeyondBox [p0, p1, p2] rows with
  | some r => some (r.x1 - 1, r.y, "pixel-outside-covered")
  | none =>
  let (xa, xb, ya, yb) := scanBox [p0, p1, p2]
  (List.range (yb - ya)).findSome? fun dy =>
    let py := ya + dy
    let rowsHere := rows.filter (·.y == py)
    (List.range (xb - xa)).findSome? fun dx =>
      let px := xa + dx
      let n := covers rowsHere px py
      match classify eps p0 p1 p2 (centre px py) with
      | .inside => if n == 1 then none else some (px, py, if n == 0 then "pixel-missing" else "pixel-drawn-twice")
      | .outside => if n == 0 then none else some (px, py, "pixel-outside-covered")
      | .band => if n ≤ 1 then none else some (px, py, "pixel-drawn-twice")

/-- Pixels on which two row lists differ, that are not inside the tolerance band. -/
def coverageDiff (eps : Rat) (p0 p1 p2 : P2) (a b : List Row) : Option (Nat × Nat) × Nat :=
  match rowBeyondBox [p0, p1, p2] (a ++ b) with
  | some r => (some (r.x1 - 1, r.y), 0)
  | none =>
  let (xa, xb, ya, yb) := scanBox [p0, p1, p2]
  (List.range (yb - ya)).foldl (fun (acc : Option (Nat × Nat) × Nat) dy =>
    let py := ya + dy
    let ra := a.filter (·.y == py)
    let rb := b.filter (·.y == py)
    if ra == rb then acc else
    (List.range (xb - xa)).foldl (fun (acc : Option (Nat × Nat) × Nat) dx =>
      let px := xa + dx
      if covers ra px py == covers rb px py then acc
      else match classify eps p0 p1 p2 (centre px py) with
        | .band => (acc.1, acc.2 + 1)
        | _ => (acc.1.orElse fun _ => some (px, py), acc.2)) acc) (none, 0)

def parseRows (stride : Nat) : Nat → List String → List (Row × List String)
  | 0, _ => []
  | n + 1, y :: x0 :: x1 :: k :: rest =>
    let kk := k.toNat?.getD 0
    (⟨y.toNat?.getD 0, x0.toNat?.getD 0, x1.toNat?.getD 0, kk⟩, rest.take (kk * stride))
      :: parseRows stride n (rest.drop (kk * stride))
  | _, _ => []

end Retro.Drv.RasterCommon
