import Retro.Drv.Common
import Retro.Model.Render
import Retro.Model.F32Render
import Retro.Spec.Raster
import Retro.Spec.Ideal

/-! Shared by the C01/C02/C06/C07 drivers: scene parsing, the exact (ℚ) model run, ambiguity masks,
tolerance comparison of buffers, and the impl-only oracles. -/

namespace Retro.Drv.RenderCommon
open Retro Retro.Clip Retro.Raster Retro.Render Retro.Drv

structure Scene where
  door : String := "r"
  tgtFb : Bool := true
  w : Nat := 8
  h : Nat := 8
  vp : Nat × Nat × Nat × Nat := (0, 0, 8, 8)
  cull : String := "n"
  sort : String := "n"
  test : String := "l"
  cw : Bool := true
  dw : Bool := true
  sh : Nat := 0
  k : Nat := 1
  sel : Nat := 0
  proj : String := "none"
  zinit : UInt32 := 0
  verts : List (List UInt32) := []
  tris : List (Nat × Nat × Nat) := []
  hist : List (String × List Nat) := []
  deriving Inhabited

def chunks {α : Type} (n : Nat) : Nat → List α → List (List α)
  | 0, _ => []
  | fuel + 1, xs => if xs.isEmpty || n == 0 then [] else xs.take n :: chunks n fuel (xs.drop n)

partial def parseSections (s : Scene) : List String → Scene
  | [] => s
  | "v" :: nv :: rest =>
    let n := nv.toNat?.getD 0
    let stride := 4 + s.k
    let ws := (rest.take (n * stride)).map fun t => (parseF32Bits? t).getD 0
    parseSections { s with verts := chunks stride n ws } (rest.drop (n * stride))
  | "t" :: nt :: rest =>
    let n := nt.toNat?.getD 0
    let idx := (rest.take (3 * n)).map fun t => t.toNat?.getD 0
    let tris := (chunks 3 n idx).filterMap fun | [a, b, c] => some (a, b, c) | _ => none
    parseSections { s with tris := tris } (rest.drop (3 * n))
  | "h" :: nc :: rest =>
    let rec calls : Nat → List String → List (String × List Nat) → List (String × List Nat) × List String
      | 0, r, acc => (acc.reverse, r)
      | n + 1, srt :: m :: r, acc =>
        let mm := m.toNat?.getD 0
        calls n (r.drop mm) ((srt, (r.take mm).map fun t => t.toNat?.getD 0) :: acc)
      | _, r, acc => (acc.reverse, r)
    let (hs, r) := calls (nc.toNat?.getD 0) rest []
    parseSections { s with hist := hs } r
  | tok :: rest =>
    match tok.splitOn "=" with
    | [key, val] =>
      let s :=
        if key == "door" then { s with door := val }
        else if key == "tgt" then { s with tgtFb := val == "fb" || val == "fs" }
        else if key == "dims" then
          match val.splitOn "x" with
          | [a, b] => { s with w := a.toNat?.getD 0, h := b.toNat?.getD 0 }
          | _ => s
        else if key == "vp" then
          match (val.splitOn ",").map (·.toNat?.getD 0) with
          | [l, t, r, b] => { s with vp := (l, t, r, b) }
          | _ => s
        else if key == "cull" then { s with cull := val }
        else if key == "sort" then { s with sort := val }
        else if key == "test" then { s with test := val }
        else if key == "cw" then { s with cw := val == "1" }
        else if key == "dw" then { s with dw := val == "1" }
        else if key == "sh" then { s with sh := val.toNat?.getD 0 }
        else if key == "k" then { s with k := val.toNat?.getD 1 }
        else if key == "sel" then { s with sel := val.toNat?.getD 0 }
        else if key == "proj" then { s with proj := val }
        else if key == "zinit" then { s with zinit := (parseF32Bits? val).getD 0 }
        else s
      parseSections s rest
    | _ => parseSections s rest

def parseScene (case : List String) : Scene :=
  let s := parseSections {} (case.drop 1)
  if s.hist.isEmpty then { s with hist := [(s.sort, List.range s.tris.length)] } else s

/-- Implementation output sections. -/
structure ImplOut where
  panic : Option String := none
  stats : List Nat := []
  color : List UInt32 := []
  depth : Option (List UInt32) := none
  same : Bool := true
  cv : List UInt32 := []

def splitBars (ts : List String) : List (List String) :=
  let rec go : List String → List String → List (List String) → List (List String)
    | [], cur, acc => (cur.reverse :: acc).reverse
    | t :: rest, cur, acc => if t == "|" then go rest [] (cur.reverse :: acc) else go rest (t :: cur) acc
  go ts [] []

def parseImpl (impl : List String) : ImplOut :=
  match impl with
  | [] => { panic := some "no output" }
  | first :: _ =>
    if first.startsWith "panic" then { panic := some first }
    else
      match splitBars impl with
      | [st, col, dep, same, cv] =>
        { stats := st.filterMap String.toNat?
          color := col.filterMap parseF32Bits?
          depth := if dep == ["-"] then none else some (dep.filterMap parseF32Bits?)
          same := same == ["1"]
          cv := cv.filterMap parseF32Bits? }
      | _ => { panic := some "malformed output" }

def sentinelBits : UInt32 := 0xc5f30800
def sentinel : Rat := -7777

def ratOf (b : UInt32) : Rat := F32.toRatD b

/-- Viewport matrix of mat.rs:647-660 for bounds (l,t)..(r,b). -/
def viewportMat (vp : Nat × Nat × Nat × Nat) : Mat4 Rat :=
  let (l, t, r, b) := vp
  let dx : Rat := ((r : Rat) - l) / 2
  let dy : Rat := ((b : Rat) - t) / 2
  ⟨⟨dx, 0, 0, (l : Rat) + dx⟩, ⟨0, dy, 0, (t : Rat) + dy⟩, ⟨0, 0, 1, 0⟩, ⟨0, 0, 0, 1⟩⟩

def mkCtx (s : Scene) (sort : String) : Ctx :=
  { faceCull := if s.cull == "f" then some .front else if s.cull == "b" then some .back else none
    depthSort := if sort == "f" then some .frontToBack else if sort == "b" then some .backToFront else none
    depthTest := if s.test == "l" then some .less else if s.test == "g" then some .greater
                 else if s.test == "e" then some .equal else none
    colorWrite := s.cw
    depthWrite := s.dw }

/-- The harness fragment shader: optionally discards on a pixel checkerboard, else returns the
selected attribute component (smuggled bit-exactly through the colour word on the Rust side). -/
def shade (s : Scene) (frag : List Rat) : Option Rat :=
  let px := (nth0 frag).floor
  let py := (nth1 frag).floor
  if s.sh == 1 && (px + py) % 2 == 0 then none
  else some ((frag.drop (3 + s.sel)).headD 0)

/-- Clip-space vertices (position, attributes) the model starts from. -/
def clipVerts (s : Scene) (io : ImplOut) : List (Vec4 Rat × List Rat) :=
  let pos : List (List UInt32) :=
    if s.proj == "none" then s.verts.map (·.take 4) else chunks 4 s.verts.length io.cv
  (pos.zip s.verts).map fun (p, v) =>
    match p.map ratOf with
    | [x, y, z, w] => (⟨x, y, z, w⟩, (v.drop 4).map ratOf)
    | _ => (⟨0, 0, 0, 1⟩, [])

def nonFiniteInput (s : Scene) (io : ImplOut) : Bool :=
  s.verts.any (fun v => v.any fun b => !F32.isFinite b) || io.cv.any (fun b => !F32.isFinite b)

def initTarget (s : Scene) : Target Rat Rat :=
  { color := List.replicate s.h (List.replicate s.w sentinel)
    depth := if s.tgtFb then some (List.replicate s.h (List.replicate s.w (ratOf s.zinit))) else none }

def addStats (a b : Stats) : Stats :=
  { calls := a.calls + b.calls, primsI := a.primsI + b.primsI, primsO := a.primsO + b.primsO,
    vertsI := a.vertsI + b.vertsI, vertsO := a.vertsO + b.vertsO,
    fragsI := a.fragsI + b.fragsI, fragsO := a.fragsO + b.fragsO }

/-- Run the whole history on the exact model. -/
def runModel (s : Scene) (io : ImplOut) : Outcome (Target Rat Rat × Stats) :=
  let verts := clipVerts s io
  let m := viewportMat s.vp
  s.hist.foldl (fun (acc : Outcome (Target Rat Rat × Stats)) (call : String × List Nat) =>
    match acc with
    | .panic msg => .panic msg
    | .ok (t, st) =>
      let tris := call.2.filterMap fun i => s.tris[i]?
      -- a call that submits no triangle submits no vertex either (the harness passes `&[]`, `&[]`)
      let verts := if call.2.isEmpty then [] else verts
      match render (mkCtx s call.1) (shade s) m tris verts t with
      | .panic msg => .panic msg
      | .ok (t', st') => .ok (t', addStats st st')) (.ok (initTarget s, {}))

/-- Post-clip screen-space triangles of the scene (every history call draws a subset of these). -/
def screenTris (s : Scene) (io : ImplOut) : List (List Rat × List Rat × List Rat) :=
  let cverts := (clipVerts s io).map fun (p, a) => mkVert p a
  match lookupTris cverts s.tris with
  | .panic _ => []
  | .ok ts =>
    let m := viewportMat s.vp
    (clipTris ts).map fun t => (toScreen m t.a, toScreen m t.b, toScreen m t.c)

def p2 (v : List Rat) : Spec.Raster.P2 := ⟨nth0 v, nth1 v⟩

/-- Pixel is within `eps` of an edge of some post-clip screen triangle (internal fan edges included). -/
def edgeMasked (eps : Rat) (tris : List (List Rat × List Rat × List Rat)) (px py : Nat) : Bool :=
  let c : Spec.Raster.P2 := ⟨(px : Rat) + 1/2, (py : Rat) + 1/2⟩
  tris.any fun (a, b, cc) =>
    match Spec.Raster.classify eps (p2 a) (p2 b) (p2 cc) c with
    | .band => true
    | _ => false

/-- Model fragments (pixel, depth) of all non-culled post-clip triangles, for the depth-gap mask. -/
def modelFragDepths (s : Scene) (tris : List (List Rat × List Rat × List Rat)) : List (Nat × Nat × Rat) :=
  let ctx := mkCtx s "n"
  tris.flatMap fun (a, b, c) =>
    if culled ctx a b c then [] else
    (triFill a b c).flatMap fun sl =>
      (sl.frags.zip (List.range sl.frags.length)).map fun (f, i) => (sl.x0 + i, sl.y, nth2 f)

/-- Two surfaces compete at the pixel within `rel` relative depth: the depth test may go either way. -/
def depthMasked (rel : Rat) (frs : List (Nat × Nat × Rat)) (px py : Nat) : Bool :=
  let zs := frs.filterMap fun (x, y, z) => if x == px && y == py then some z else none
  match zs with
  | [] | [_] => false
  | _ =>
    let best := zs.foldl ratMax (zs.headD 0)
    (zs.filter fun z => ratAbs (best - z) ≤ ratAbs best * rel).length > 1

def inViewport (s : Scene) (px py : Nat) : Bool :=
  let (l, t, r, b) := s.vp
  Nat.min l r ≤ px && px < Nat.max l r && Nat.min t b ≤ py && py < Nat.max t b

def attrRange (s : Scene) : Rat :=
  let vals := s.verts.map fun v => ratOf ((v.drop (4 + s.sel)).headD 0)
  match vals with
  | [] => 1
  | v :: vs => vs.foldl ratMax v - vs.foldl ratMin v

def attrScale (s : Scene) : Rat :=
  (s.verts.map fun v => ratAbs (ratOf ((v.drop (4 + s.sel)).headD 0))).foldl ratMax 1

def pixelAt {β : Type} (buf : List β) (w : Nat) (px py : Nat) : Option β := buf[py * w + px]?

/-- Compare the implementation's buffers with the model's on pixels that are not masked.
Returns (first mismatch message, number of masked pixels, number compared). -/
def compareBuffers (s : Scene) (io : ImplOut) (t : Target Rat Rat)
    (masked : Nat → Nat → Bool) (depthRel : Rat := 1/500) (colDiv : Rat := 200) : Option String × Nat × Nat :=
  let tolC := attrRange s / colDiv + attrScale s / 10000
  (List.range s.h).foldl (fun (acc : Option String × Nat × Nat) py =>
    (List.range s.w).foldl (fun (acc : Option String × Nat × Nat) px =>
      if masked px py then (acc.1, acc.2.1 + 1, acc.2.2)
      else
        let mc := ((t.color[py]?).bind (·[px]?)).getD sentinel
        let ic := (pixelAt io.color s.w px py).getD 0
        let colBad : Option String :=
          if mc == sentinel then
            if ic == sentinelBits then none else some s!"pixel ({px},{py}): implementation wrote colour {hex8 ic}, model leaves it untouched"
          else if ic == sentinelBits then some s!"pixel ({px},{py}): implementation left the pixel untouched, model writes {ratApprox mc}"
          else match F32.toRat? ic with
            | none => some s!"pixel ({px},{py}): non-finite colour value"
            | some v => if ratAbs (v - mc) ≤ tolC then none else some s!"pixel ({px},{py}): colour {ratApprox v}, model {ratApprox mc}"
        let depBad : Option String :=
          match t.depth, io.depth with
          | some md, some idp =>
            let mz := ((md[py]?).bind (·[px]?)).getD 0
            let iz := (pixelAt idp s.w px py).getD 0
            match F32.toRat? iz with
            | none => some s!"pixel ({px},{py}): non-finite depth"
            | some v => if ratAbs (v - mz) ≤ ratAbs mz * depthRel + 1/1000000 then none
                        else some s!"pixel ({px},{py}): depth {ratApprox v}, model {ratApprox mz}"
          | none, none => none
          | _, _ => some "depth buffer presence differs"
        (acc.1.orElse fun _ => colBad.orElse fun _ => depBad, acc.2.1, acc.2.2 + 1)) acc) (none, 0, 0)

/-- Impl-only: every pixel outside the viewport rectangle still holds its initial colour and depth. -/
def outsideViewportTouched (s : Scene) (io : ImplOut) : Option (Nat × Nat) :=
  (List.range s.h).findSome? fun py =>
    (List.range s.w).findSome? fun px =>
      if inViewport s px py then none
      else
        let c := (pixelAt io.color s.w px py).getD sentinelBits
        let dOk := match io.depth with
          | some d => (pixelAt d s.w px py).getD s.zinit == s.zinit
          | none => true
        if c != sentinelBits || !dOk then some (px, py) else none

def nanDepth (io : ImplOut) : Bool :=
  match io.depth with
  | some d => d.any F32.isNaN
  | none => false

/-- Impl-only ideal-image oracle (C01). Returns first violation (key, message), pixels checked, skipped. -/
def idealViolation (s : Scene) (io : ImplOut) (edgeMask : Nat → Nat → Bool) :
    Option (String × String) × Nat × Nat :=
  let verts := clipVerts s io
  let (l, t, r, b) := s.vp
  let dx : Rat := ((r : Rat) - l) / 2
  let dy : Rat := ((b : Rat) - t) / 2
  let vpm := ((l : Rat) + dx, (t : Rat) + dy, dx, dy)
  let triData := s.tris.filterMap fun (i, j, k) =>
    match verts[i]?, verts[j]?, verts[k]? with
    | some (p0, a0), some (p1, a1), some (p2, a2) =>
      let g (a : List Rat) := (a.drop s.sel).headD 0
      let toV (p : Vec4 Rat) : Spec.Ideal.V4 := ⟨p.x, p.y, p.z, p.w⟩
      some (toV p0, toV p1, toV p2, g a0, g a1, g a2)
    | _, _, _ => none
  (List.range s.h).foldl (fun (acc : Option (String × String) × Nat × Nat) py =>
    (List.range s.w).foldl (fun (acc : Option (String × String) × Nat × Nat) px =>
      if !inViewport s px py then acc
      else if edgeMask px py then (acc.1, acc.2.1, acc.2.2 + 1)
      else
        let sx : Rat := (px : Rat) + 1/2
        let sy : Rat := (py : Rat) + 1/2
        let cls := triData.map fun (p0, p1, p2, a0, a1, a2) =>
          (Spec.Ideal.classify (1/50) vpm p0 p1 p2 a0 a1 a2 sx sy,
           ratMax a0 (ratMax a1 a2) - ratMin a0 (ratMin a1 a2))
        let ic := (pixelAt io.color s.w px py).getD 0
        let iz := io.depth.map fun d => (pixelAt d s.w px py).getD 0
        match Spec.Ideal.combine cls with
        | .skip => (acc.1, acc.2.1, acc.2.2 + 1)
        | .unchanged =>
          let bad := ic != sentinelBits || (match iz with | some z => z != s.zinit | none => false)
          (acc.1.orElse fun _ => if bad then some ("pixel-outside-all-visible-parts-written",
            s!"pixel ({px},{py}) lies outside every visible triangle part but was written") else none, acc.2.1 + 1, acc.2.2)
        | .value rw attr rng =>
          let tolA := rng / 200 + attrScale s / 10000
          let colBad : Option (String × String) :=
            if ic == sentinelBits then some ("visible-pixel-not-drawn", s!"pixel ({px},{py}) is unambiguously inside the nearest triangle's visible part but kept its previous colour")
            else match F32.toRat? ic with
              | none => some ("attribute-not-finite", s!"pixel ({px},{py}): non-finite attribute")
              | some v => if ratAbs (v - attr) ≤ tolA then none
                          else some ("attribute-not-perspective-correct", s!"pixel ({px},{py}): attribute {ratApprox v}, perspective-correct value {ratApprox attr}")
          let depBad : Option (String × String) :=
            match iz with
            | none => none
            | some zb => match F32.toRat? zb with
              | none => some ("depth-not-finite", s!"pixel ({px},{py}): non-finite depth")
              | some z => if ratAbs (z - rw) ≤ rw / 500 then none
                          else some ("depth-wrong", s!"pixel ({px},{py}): reciprocal depth {ratApprox z}, expected {ratApprox rw}")
          (acc.1.orElse fun _ => colBad.orElse fun _ => depBad, acc.2.1 + 1, acc.2.2)) acc) (none, 0, 0)

/-- Structural tags: clip status histogram etc. -/
def sceneTags (s : Scene) (io : ImplOut) : List String :=
  let cverts := (clipVerts s io).map fun (p, a) => mkVert p a
  let st := match lookupTris cverts s.tris with
    | .panic _ => []
    | .ok ts => ts.map fun (t : Tri Rat) => match status [t.a, t.b, t.c] with
      | .visible => "visible" | .hidden => "hidden" | .clipped => "clipped"
  let dedup := st.foldl (fun acc x => if acc.contains x then acc else x :: acc) []
  ["door-" ++ s.door, if s.tgtFb then "framebuf" else "colour-only",
   if s.vp == (0, 0, s.w, s.h) then "full-viewport" else "sub-viewport"] ++ dedup

/-! ### The Float32 channel for whole scenes (diagnostic, never gating; design/Float32.md) -/

/-- The first five `|`-separated sections of an implementation line (C06/C07 append sections of their own). -/
def parseImpl5 (impl : List String) : ImplOut :=
  match impl with
  | [] => parseImpl impl
  | first :: _ =>
    if first.startsWith "panic" then { panic := some first }
    else
      let joined := ((splitBars impl).take 5).foldl
        (fun (acc : Bool × List String) sec => if acc.1 then (false, sec) else (false, acc.2 ++ "|" :: sec)) (true, [])
      parseImpl joined.2

/-- Clip-space vertices as `Float32` words: the case's own when `proj=none`, else the clip vertices the
implementation printed (`io.cv`), exactly as the `Rat` model takes them (`clipVerts`). -/
def clipVertsF (s : Scene) (io : ImplOut) : List (Vec4 Float32 × List Float32) :=
  let pos : List (List UInt32) :=
    if s.proj == "none" then s.verts.map (·.take 4) else chunks 4 s.verts.length io.cv
  (pos.zip s.verts).map fun (p, v) =>
    match p.map Float32.ofBits with
    | [x, y, z, w] => (⟨x, y, z, w⟩, (v.drop 4).map Float32.ofBits)
    | _ => (⟨0, 0, 0, 1⟩, [])

/-- `Render.render` at native binary32 (`Model/F32Render.lean` `renderF`) over the whole history of the
scene, final colour and depth buffers compared with the implementation's bit for bit.
`none` = the channel cannot run the case (panic outcome, non-finite input, not a scene);
`some none` = bit-exact; `some (some msg)` = first differing pixel and both words. -/
def f32Scene (s : Scene) (io : ImplOut) : Option (Option String) :=
  if io.panic.isSome || nonFiniteInput s io then none else
  let verts := clipVertsF s io
  let m := F32R.viewportMatF s.vp
  let shade := F32R.shadeF s.sh s.sel
  let t0 := F32R.initTargetF s.w s.h sentinelBits (if s.tgtFb then some s.zinit else none)
  let run := s.hist.foldl (fun (acc : Outcome F32R.Tgt) (call : String × List Nat) =>
    match acc with
    | .panic msg => .panic msg
    | .ok t =>
      let tris := call.2.filterMap fun i => s.tris[i]?
      let verts := if call.2.isEmpty then [] else verts
      F32R.renderF (mkCtx s call.1) shade m tris verts t) (.ok t0)
  match run with
  | .panic msg => some (some s!"the Float32 run panics ({msg}), the implementation does not")
  | .ok t => some (F32R.compareF s.w t io.color io.depth)

/-- Shared by C01/C02/C06/C07: adds exactly one of `f32-bit-exact` / `f32-bits-differ` / `f32-skipped`
(nothing for non-scene ops such as C06 `huge`). Never changes the status; the first differing pixel is
appended to the message only of a verdict that is DIFF or SPEC for another reason. -/
def withF32 (case impl : List String) (v : Verdict) : Verdict :=
  if case.head? != some "scene" then v else
  match f32Scene (parseScene case) (parseImpl5 impl) with
  | none => v.addTag "f32-skipped"
  | some none => v.addTag "f32-bit-exact"
  | some (some m) =>
    let v := v.addTag "f32-bits-differ"
    let note := " [f32 channel: " ++ m ++ "]"
    match v.diff, v.spec with
    | some d, _ => { v with diff := some (d ++ note) }
    | none, some (k, sm) => { v with spec := some (k, sm ++ note) }
    | none, none => v

end Retro.Drv.RenderCommon
