/-
Model driver for the extra engine U01 (library utilities). One verdict per case; the case grammar is that of
`harness/src/bin/u01.rs`:

  varith N a.. b.. s        -> a+b, a-b (operator), Affine::sub, -a, a*s, s*a, dot, len_sqr, a==b, a==a,
                               op-assign flag, default/zero flag [, cross]
  proj N a.. b..            -> scalar_project, vector_project
  dist N p.. q.. r..        -> d²(p,q) d(p,q) d²(q,p) d(q,p) d(p,r) d(r,q)
  ptops N p.. v..           -> p+=v, p-=v, p+v, p-v, p-(v as point)
  vclamp|pclamp N x.. lo.. hi..
  vsum N k v..   splat N s   index N i v..
  iarith N a.. b.. s   uarith a a b b d d   iscalar a b   uscalar a d b   isum k v..
  approx a b eps   approxd a b   approxs la a.. lb b.. eps   approxv N a.. b.. eps   approxo ta a tb b eps
  meshnew nf nv faces verts   bld <script>   meshtf nf nv faces verts m(16)   meshvn nf nv faces verts
  sadd k (stats)×k   spersec stats   sperframe stats   hnum i o   hpct i o   htime nanos

Floats are compared with the exact `Rat` model within a tolerance derived from the magnitudes that enter the
computation (never bit for bit), integers / strings / panic-or-not exactly (never the panic MESSAGE).
Spec oracles use the case and the implementation's own output only.

Candidate findings (decision of the lead pending, see design/U01.md) are reported as AMB with a tag
`finding:<key>` — the two defects found while building U01, SPEC keys listed in known_findings.json (property U01).
-/
import Retro.Drv.Common
import Retro.Model.Util
import Retro.Model.MeshUtil
import Retro.Model.StatsUtil
import Retro.Model.XRat
import Retro.Spec.Util

namespace Retro.Drv.U01
open Retro Retro.Drv Retro.Util Retro.Mat Retro.MeshUtil Retro.StatsUtil

abbrev Q := Rat

/-! ### tokens -/

def x? (t : String) : Option XRat := (parseF32Bits? t).map XRat.ofBits
def f? (t : String) : Option Q := (parseF32Bits? t).bind F32.toRat?

def takeN {β : Type} (p : String → Option β) (n : Nat) (ts : List String) : Option (List β × List String) :=
  let hd := ts.take n
  if hd.length != n then none
  else match hd.mapM p with
    | some qs => some (qs, ts.drop n)
    | none => none

def floats := takeN f?
def xfloats := takeN x?
def intsN := takeN String.toInt?
def natsN := takeN String.toNat?

/-- split an output token list at every `|` -/
def groups (ts : List String) : List (List String) :=
  let (cur, acc) := ts.foldl (fun (st : List String × List (List String)) t =>
    if t == "|" then ([], st.2 ++ [st.1]) else (st.1 ++ [t], st.2)) ([], [])
  acc ++ [cur]

def isPanic (impl : List String) : Bool := (impl.head?.getD "").startsWith "panic:"

/-! ### float comparison -/

def eps23 : Q := ratPow2 (-23)
/-- tolerance factor: a few dozen ulps of the magnitude scale -/
def epsTol : Q := ratPow2 (-18)
def huge : Q := ratPow2 120
def tiny : Q := ratPow2 (-100)

def sumAbs (l : List Q) : Q := l.foldl (fun a x => a + ratAbs x) 0
def maxAbs (l : List Q) : Q := l.foldl (fun a x => ratMax a (ratAbs x)) 0

inductive Cmp where
  | ok
  | amb
  | diff (msg : String)

/-- Compare one implementation float with the model value `m`; `scale` bounds the magnitudes of the
intermediates (rounding error ≤ a few ulps of it). Overflow / underflow zones are ambiguous. -/
def cmp1 (what : String) (m scale : Q) (tok : String) : Cmp :=
  match x? tok with
  | none => .diff s!"{what}: token {tok}"
  | some (.fin v) =>
    if ratAbs (v - m) ≤ scale * epsTol then .ok
    else if scale != 0 && scale < tiny then .amb
    else .diff s!"{what}: impl {ratApprox v} model {ratApprox m} scale {ratApprox scale}"
  | some _ => if scale > huge then .amb else .diff s!"{what}: impl not finite ({tok}), model {ratApprox m}"

def cmpList (what : String) (ms scales : List Q) (toks : List String) : Cmp :=
  let rec go : List Q → List Q → List String → Nat → Bool → Cmp
    | [], _, _, _, amb => if amb then .amb else .ok
    | m :: ms, s :: ss, t :: ts, k, amb =>
      match cmp1 s!"{what}[{k}]" m s t with
      | .ok => go ms ss ts (k + 1) amb
      | .amb => go ms ss ts (k + 1) true
      | .diff msg => .diff msg
    | _, _, _, k, _ => .diff s!"{what}[{k}] missing"
  go ms scales toks 0 false

def Verdict.cmp (v : Verdict) : Cmp → Verdict
  | .ok => v
  | .amb => { v with amb := true }
  | .diff m => v.withDiff true m

def zipAbsSum (a b : List Q) : List Q := List.zipWith (fun x y => ratAbs x + ratAbs y) a b

/-- Rational approximation (relative error < 1e-12) of 1/√l for l > 0. Defined by ρ²·l = 1. -/
def recipSqrt (l : Q) : Q :=
  if l ≤ 0 then 0
  else
    let n := l.num.natAbs
    let d := l.den
    let k : Nat := 1000000000000000
    (Nat.sqrt (n * d * k * k) : Q) / ((n * k : Nat) : Q)
def sqrtQ (q : Q) : Q := if q ≤ 0 then 0 else q * recipSqrt q

/-! ### float vectors -/

def handleVarith (n : Nat) (f : List Q) (impl : List String) : Verdict :=
  let a := f.take n; let b := (f.drop n).take n; let s := f.getD (2 * n) 0
  let v := Verdict.ok ["varith", s!"dim{n}"]
  let out := impl
  let seg (k : Nat) := (out.drop (k * n)).take n
  let ab := zipAbsSum a b
  let v := Verdict.cmp v (cmpList "a+b" (vadd a b) ab (seg 0))
  let v := Verdict.cmp v (cmpList "a-b(op)" (vsubOp a b) ab (seg 1))
  let v := Verdict.cmp v (cmpList "Affine::sub" (vsub a b) ab (seg 2))
  let v := Verdict.cmp v (cmpList "-a" (vneg a) (a.map ratAbs) (seg 3))
  let sc := a.map fun x => ratAbs (x * s)
  let v := Verdict.cmp v (cmpList "a*s" (vmul a s) sc (seg 4))
  let v := Verdict.cmp v (cmpList "s*a" (vmul a s) sc (seg 5))
  let rest := out.drop (6 * n)
  let dotScale := sumAbs (List.zipWith (· * ·) a b) * 4
  let v := Verdict.cmp v (cmp1 "dot" (dot a b) dotScale (rest.getD 0 ""))
  let v := Verdict.cmp v (cmp1 "len_sqr" (lenSqr a) (lenSqr a * 4) (rest.getD 1 ""))
  let v := v.withDiff (rest.getD 2 "" != (if veq a b then "1" else "0")) "a == b differs from the model"
  -- spec oracles on the implementation's own output
  let v := v.withSpec (rest.getD 3 "" != "1") "vec-eq-not-reflexive" "a == a is false for a finite vector"
  let v := v.withSpec (rest.getD 4 "" != "1") "op-assign-mismatch" "`+=` / `-=` differ from `+` / `-`"
  let v := v.withSpec (rest.getD 5 "" != "1") "default-not-zero" "Default::default() or Linear::zero() is not the zero vector"
  let v := v.withSpec (seg 1 != seg 2) "sub-op-vs-affine-sub" "a - b (operator) and Affine::sub(a, b) differ on finite floats"
  let v := v.withSpec (seg 4 != seg 5) "scalar-mul-not-commutative" "a * s and s * a differ"
  let v := match f? (rest.getD 1 "") with
    | some l => v.withSpec (l < 0) "len-sqr-negative" "len_sqr < 0"
    | none => v
  if n == 3 then
    let c := rest.drop 6
    match a, b with
    | [a0, a1, a2], [b0, b1, b2] =>
      let m := cross (⟨a0, a1, a2⟩ : V3 Q) ⟨b0, b1, b2⟩
      let sA := maxAbs a; let sB := maxAbs b
      let scs := List.replicate 3 (2 * sA * sB)
      let v := Verdict.cmp v (cmpList "cross" [m.x, m.y, m.z] scs c)
      match c.mapM f? with
      | some [c0, c1, c2] =>
        -- the output is orthogonal to both inputs
        let tol := 12 * sA * sB * epsTol
        let da := c0 * a0 + c1 * a1 + c2 * a2
        let db := c0 * b0 + c1 * b1 + c2 * b2
        v.withSpec (ratAbs da > tol * sA || ratAbs db > tol * sB) "cross-not-orthogonal"
          s!"cross product not orthogonal to its arguments: c·a = {ratApprox da}, c·b = {ratApprox db}"
      | _ => v
    | _, _ => v
  else v

def handleProj (n : Nat) (f : List Q) (impl : List String) : Verdict :=
  let a := f.take n; let b := (f.drop n).take n
  let bb := dot b b
  let ab := dot a b
  let tag := if bb == 0 then "zero-divisor" else if ab == 0 then "orthogonal" else "generic"
  let v := Verdict.ok ["proj", tag]
  match impl.mapM x? with
  | none => bad "proj output"
  | some outs =>
    match scalarProject a b, vectorProject a b with
    | some s, some vp =>
      if bb < tiny || sumAbs (List.zipWith (· * ·) a b) > huge || bb > huge then { v with amb := true }
      else
        let tolS := (sumAbs (List.zipWith (· * ·) a b) * 4 / bb + ratAbs s) * epsTol
        match outs.mapM XRat.toRat? with
        | none => v.withDiff true "non-finite projection of finite vectors with a non-zero divisor"
        | some (is :: ivp) =>
          let v := v.withDiff (ratAbs (is - s) > tolS) s!"scalar_project: impl {ratApprox is} model {ratApprox s}"
          let okV := (List.zip (List.zip ivp vp) b).all fun ((i, m), bi) => ratAbs (i - m) ≤ ratAbs bi * tolS + ratAbs m * epsTol
          let v := v.withDiff (!okV || ivp.length != n) "vector_project differs from the model"
          -- spec: vector_project = other * scalar_project, parallel to `other`, residual orthogonal to `other`
          let v := v.withSpec (!(List.zip ivp b).all fun (i, bi) => ratAbs (i - bi * is) ≤ ratAbs (bi * is) * epsTol)
            "vector-project-not-scalar-times-other" "vector_project(v, u) is not u * scalar_project(v, u)"
          let resid := dot (vsub a ivp) b
          let tolR := (sumAbs (List.zipWith (· * ·) a b) * 8 + ratAbs is * bb * 4) * epsTol
          v.withSpec (ratAbs resid > tolR) "projection-residual-not-orthogonal"
            s!"(v - vector_project(v, u))·u = {ratApprox resid}, tolerance {ratApprox tolR}"
        | some [] => bad "proj output empty"
    | _, _ =>
      -- other = 0 exactly: 0/0, every output is NaN (no panic)
      let v := v.withDiff (!outs.all XRat.isNaN) "zero divisor: expected NaN in every component"
      v.withSpec (!outs.all XRat.isNaN) "project-onto-zero-not-nan" "projection onto the zero vector is not NaN"

def handleDist (n : Nat) (f : List Q) (impl : List String) : Verdict :=
  let p := f.take n; let q := (f.drop n).take n; let r := (f.drop (2 * n)).take n
  let v := Verdict.ok ["dist", if p == q then "equal" else "distinct"]
  match impl.mapM f? with
  | some [d2pq, dpq, d2qp, dqp, dpr, drq] =>
    let m := distanceSqr p q
    let sc := (sumAbs p + sumAbs q) * (sumAbs p + sumAbs q)
    let v := v.withDiff (ratAbs (d2pq - m) > sc * epsTol) s!"distance_sqr: impl {ratApprox d2pq} model {ratApprox m}"
    -- sqrt contract on the implementation's value: d ≥ 0 and d² = distance_sqr
    let v := v.withDiff (dpq < 0 || ratAbs (dpq * dpq - m) > sc * epsTol) s!"distance: impl {ratApprox dpq}, model d² = {ratApprox m}"
    -- spec oracles
    let v := v.withSpec (d2pq != d2qp || dpq != dqp) "distance-not-symmetric" "distance(p, q) ≠ distance(q, p)"
    let v := v.withSpec (p == q && (d2pq != 0 || dpq != 0)) "distance-self-not-zero" "distance(p, p) ≠ 0"
    let v := v.withSpec (p != q && m > tiny && (d2pq ≤ 0 || dpq ≤ 0)) "distance-zero-for-distinct" "distance of distinct points is not positive"
    let slack := (sumAbs p + sumAbs q + sumAbs r) * epsTol
    v.withSpec (dpq > dpr + drq + slack) "triangle-inequality" s!"d(p,q) = {ratApprox dpq} > d(p,r) + d(r,q) = {ratApprox (dpr + drq)}"
  | _ =>
    let big := (sumAbs p + sumAbs q + sumAbs r) > ratPow2 60
    if big then Verdict.mkAmb ["dist", "overflow-zone"] else v.withDiff true "distance output not finite"

def handlePtops (n : Nat) (f : List Q) (impl : List String) : Verdict :=
  let p := f.take n; let w := (f.drop n).take n
  let v := Verdict.ok ["ptops"]
  let seg (k : Nat) := (impl.drop (k * n)).take n
  let sc := zipAbsSum p w
  let v := Verdict.cmp v (cmpList "p+=v" (vadd p w) sc (seg 0))
  let v := Verdict.cmp v (cmpList "p-=v" (vsubOp p w) sc (seg 1))
  let v := Verdict.cmp v (cmpList "p+v" (vadd p w) sc (seg 2))
  let v := Verdict.cmp v (cmpList "p-v" (vsubOp p w) sc (seg 3))
  let v := Verdict.cmp v (cmpList "p-q" (vsub p w) sc (seg 4))
  let v := v.withSpec (seg 0 != seg 2 || seg 1 != seg 3) "op-assign-mismatch" "point `+=` / `-=` differ from `+` / `-`"
  v.withSpec (seg 3 != seg 4) "sub-op-vs-affine-sub" "p - v and p - (v as point) differ on finite floats"

def xEq (a b : XRat) : Bool := a == b

def handleClamp (who : String) (n : Nat) (f : List XRat) (impl : List String) : Verdict :=
  let x := f.take n; let lo := (f.drop n).take n; let hi := (f.drop (2 * n)).take n
  let valid := (List.zip lo hi).all fun (l, h) => decide (l ≤ h)
  let anyNaN := x.any XRat.isNaN
  let v := Verdict.ok [who, if valid then (if anyNaN then "nan-self" else "valid-range") else "invalid-range"]
  match vclamp x lo hi with
  | .panic _ =>
    let v := v.withDiff (!isPanic impl) "model panics (min > max or NaN bound), implementation returns"
    v.withSpec (!valid && !isPanic impl) "clamp-accepts-invalid-range" "clamp returned although some min > max or a bound is NaN (std contract: panic)"
  | .ok m =>
    if isPanic impl then
      (v.withDiff true "implementation panics, model clamps").withSpec valid "clamp-panics-valid-range" "clamp panics although min ≤ max in every component"
    else
      match impl.mapM x? with
      | some outs =>
        let v := v.withDiff (outs != m) "clamped vector differs from the model"
        -- spec: within [min, max], identity inside, NaN passes through
        let okAll := outs.length == n && (List.zip (List.zip outs x) (List.zip lo hi)).all fun ((o, xi), (l, h)) =>
          if xi.isNaN then o.isNaN
          else decide (l ≤ o) && decide (o ≤ h) && (if decide (l ≤ xi) && decide (xi ≤ h) then o == xi else (o == l || o == h))
        v.withSpec (valid && !okAll) "clamp-out-of-range" "a clamped component is outside [min, max], or an inside component was changed"
      | none => bad "clamp output"

def handleVsum (n k : Nat) (f : List Q) (impl : List String) : Verdict :=
  let vs := (List.range k).map fun j => (f.drop (j * n)).take n
  let m := vsum n vs
  let sc := (List.range n).map fun c => sumAbs (vs.map fun w => w.getD c 0)
  let v := Verdict.ok ["vsum", if k == 0 then "empty" else s!"k{k}"]
  let v := Verdict.cmp v (cmpList "sum" m sc impl)
  v.withSpec (k == 0 && impl.mapM f? != some (List.replicate n 0)) "sum-empty-not-zero" "the sum of no vectors is not the zero vector"

/-! ### integers -/

def outStr : Outcome (List Int) → List String
  | .ok l => l.map toString
  | .panic _ => ["P"]
def outStr1 : Outcome Int → List String
  | .ok x => [toString x]
  | .panic _ => ["P"]

/-- Spec for one integer group: the ℤ result `z` (per component) must be returned exactly when every
component is in range, and the operation must panic otherwise. -/
def intSpec (v : Verdict) (name : String) (z : List Int) (inRange : Int → Bool) (g : List String) : Verdict :=
  let fits := z.all inRange
  if g == ["P"] then v.withSpec fits "int-panics-in-range" s!"{name} panics although the exact result is representable"
  else
    let v := v.withSpec (!fits) "int-overflow-no-panic" s!"{name} returned although the exact result is not representable (overflow-checks profile)"
    v.withSpec (fits && g != z.map toString) "int-result-not-Z" s!"{name} differs from integer arithmetic"

def cmpGroups (v : Verdict) (names : List String) (model : List (List String)) (impl : List (List String)) : Verdict :=
  (List.zip names (List.zip model impl)).foldl (fun v (nm, (m, i)) =>
    v.withDiff (m != i) s!"{nm}: impl {i} model {m}") (v.withDiff (model.length != impl.length) "group count")

def handleIarith (n : Nat) (f : List Int) (impl : List String) : Verdict :=
  let a := f.take n; let b := (f.drop n).take n; let s := f.getD (2 * n) 0
  let g := groups impl
  let model := [outStr (viAdd a b), outStr (viSubOp a b), outStr (viSub a b), outStr (viNeg a), outStr (viMul a s),
                outStr (viMul a s), outStr1 (viDot a b), outStr1 (viDot a a), outStr1 (viScalarProject a b),
                [if a == b then "1" else "0"]]
  let names := ["a+b", "a-b(op)", "Affine::sub", "-a", "a*s", "s*a", "dot", "len_sqr", "scalar_project", "eq"]
  let anyP := model.any (· == ["P"])
  let v := Verdict.ok ["iarith", if anyP then "some-overflow" else "no-overflow"]
  let v := cmpGroups v names model g
  let gi (k : Nat) := g.getD k []
  let v := intSpec v "a + b" (List.zipWith (· + ·) a b) inI32 (gi 0)
  let v := intSpec v "Affine::sub" (List.zipWith (· - ·) a b) inI32 (gi 2)
  let v := intSpec v "-a" (a.map (- ·)) inI32 (gi 3)
  let v := intSpec v "a * s" (a.map (· * s)) inI32 (gi 4)
  let v := intSpec v "s * a" (a.map (· * s)) inI32 (gi 5)
  -- the `-` operator negates first: it also panics when a component of b is i32::MIN
  let subFits := (List.zipWith (· - ·) a b).all inI32 && b.all fun x => x != i32Min
  let v := if gi 1 == ["P"] then
      let v := v.withSpec subFits "int-panics-in-range" "a - b panics although a - b and -b are representable"
      if (List.zipWith (· - ·) a b).all inI32 && !subFits then v.addTag "note:sub-op-negates-min" else v
    else v.withSpec (gi 1 != (List.zipWith (· - ·) a b).map toString) "int-result-not-Z" "a - b differs from integer arithmetic"
  -- dot: if it returns, it is the ℤ dot product
  let z := (List.zipWith (· * ·) a b).foldl (· + ·) 0
  if gi 6 != ["P"] then v.withSpec (gi 6 != [toString z]) "int-result-not-Z" "dot differs from integer arithmetic" else v

def handleUarith (f : List Int) (impl : List String) : Verdict :=
  let a := f.take 2; let b := (f.drop 2).take 2; let d := (f.drop 4).take 2
  let g := groups impl
  let model := [outStr (vuAdd a d), outStr (vuSubOp a d), outStr (vuSub a b)]
  let v := Verdict.ok ["uarith", if model.any (· == ["P"]) then "some-overflow" else "no-overflow"]
  let v := cmpGroups v ["a+d", "a-d(op)", "Affine::sub"] model g
  let v := intSpec v "u32 vec + i32 vec" (List.zipWith (· + ·) a d) inU32 (g.getD 0 [])
  intSpec v "u32 vec Affine::sub" (List.zipWith (· - ·) a b) inI32 (g.getD 2 [])

/-! ### approx -/

/-- Is the comparison `|a − b| ≤ eps·max(|a|, 1)` too close to call against f32 rounding? -/
def approxMargin (a b eps : XRat) : Bool :=
  match a, b, eps with
  | .fin a, .fin b, .fin e =>
    let diff := ratAbs (a - b)
    let bound := e * ratMax (ratAbs a) 1
    -- `self - other` is exact for nearby operands (Sterbenz) and otherwise rounded once; `rel_eps * max` is rounded once
    ratAbs (diff - bound) ≤ (diff + ratAbs bound) * ratPow2 (-21) || diff > huge || ratAbs bound > huge
      || (diff != 0 && diff < tiny) || (bound != 0 && ratAbs bound < tiny)
  | _, _, _ => false

def b01 (b : Bool) : String := if b then "1" else "0"

def handleApprox (a b eps : XRat) (impl : List String) : Verdict :=
  let nonFin := !(a.isFin && b.isFin && eps.isFin)
  let m := approxEqEps a b eps
  let v := Verdict.ok ["approx", if nonFin then "non-finite" else if m then "equal" else "unequal"]
  let got := impl.getD 0 ""
  -- spec oracles (implementation's answer only)
  let v := v.withSpec ((a.isNaN || b.isNaN) && got != "0") "approx-nan-equal" "a NaN compares approximately equal"
  let v := v.withSpec (a == b && a.isFin && decide ((0 : XRat) ≤ eps) && eps.isFin && got != "1") "approx-not-reflexive"
    "a finite value is not approximately equal to itself for eps ≥ 0"
  let v := if a == .pinf && b.isFin && got == "1" then v.addTag "note:inf-approx-finite" else v
  if approxMargin a b eps then { v with amb := true }
  else v.withDiff (got != b01 m) s!"approx_eq_eps: impl {got} model {b01 m}"

def handleApproxList (tag : String) (a b : List XRat) (eps : XRat) (impl : List String) (copies : Nat) : Verdict :=
  let m := approxEqList a b eps
  let v := Verdict.ok [tag, if a.length != b.length then "length-mismatch" else if m then "equal" else "unequal"]
  let near := a.length == b.length && (List.zip a b).any fun (x, y) => approxMargin x y eps
  let v := v.withSpec (a.length != b.length && impl.any (· != "0")) "approx-length-mismatch-equal" "slices of different lengths compare approximately equal"
  let v := v.withSpec (impl.length != copies || !impl.all (· == impl.getD 0 "")) "approx-lifts-disagree" "vector / point / array lifts of approx_eq_eps disagree"
  if near then { v with amb := true }
  else v.withDiff (impl.getD 0 "" != b01 m) s!"approx_eq_eps (lifted): impl {impl.getD 0 ""} model {b01 m}"

/-! ### meshes -/

def faces? : List Nat → Option (List Face)
  | a :: b :: c :: rest => (faces? rest).map (⟨a, b, c⟩ :: ·)
  | [] => some []
  | _ => none

def v3s? {β : Type} : List β → Option (List (V3 β))
  | a :: b :: c :: rest => (v3s? rest).map (⟨a, b, c⟩ :: ·)
  | [] => some []
  | _ => none

/-- `nf nv faces(3nf) verts(3nv hex)` → faces, vertex tokens (kept as bit patterns), rest -/
def parseMesh (ts : List String) : Option (List Face × List String × List String) :=
  match ts with
  | nf :: nv :: rest =>
    match nf.toNat?, nv.toNat? with
    | some nf, some nv =>
      match natsN (3 * nf) rest with
      | some (fi, rest) =>
        let vt := rest.take (3 * nv)
        if vt.length != 3 * nv then none
        else (faces? fi).map fun fs => (fs, vt, rest.drop (3 * nv))
      | none => none
    | _, _ => none
  | _ => none

def faceToks (fs : List Face) : List String := fs.flatMap fun f => [toString f.a, toString f.b, toString f.c]

/-- the echo `Mesh::new` / `build` must produce: counts, faces, vertex bit patterns -/
def meshEcho (fs : List Face) (vt : List String) : List String :=
  [toString fs.length, toString (vt.length / 3)] ++ faceToks fs ++ vt

def unitVerts (vt : List String) : Option (List (V3 String × Unit)) := (v3s? vt).map fun l => l.map fun p => (p, ())

def handleMeshNew (fs : List Face) (vt : List String) (impl : List String) : Verdict :=
  let nv := vt.length / 3
  let valid := fs.all (Face.valid nv)
  let v := Verdict.ok ["meshnew", if valid then "valid" else "index-oob"]
  match unitVerts vt with
  | none => bad "meshnew verts"
  | some verts =>
    match meshNew fs verts with
    | .panic _ =>
      let v := v.withDiff (!isPanic impl) "model panics (index out of bounds), implementation returns"
      v.withSpec (!valid && !isPanic impl) "mesh-new-accepts-oob" "Mesh::new returned although a face index is ≥ verts.len()"
    | .ok m =>
      let want := meshEcho m.faces (m.verts.flatMap fun (p, _) => [p.x, p.y, p.z]) ++ ["rt=1"]
      let v := v.withDiff (impl != want) "Mesh::new output differs from the model"
      let v := v.withSpec (valid && isPanic impl) "mesh-new-rejects-valid" "Mesh::new panics although every index is < verts.len()"
      let v := v.withSpec (valid && !isPanic impl && impl.dropLast != meshEcho fs vt) "mesh-new-changes-data" "Mesh::new does not store the faces / vertices it was given, in order"
      v.withSpec (impl.getLast? == some "rt=0") "build-into-builder-not-id" "mesh.into_builder().build() differs from mesh"

/-- fold a builder script -/
def runScript (b : Mesh String Unit) : List String → Option (Mesh String Unit)
  | [] => some b
  | "f" :: x :: y :: z :: rest =>
    match x.toNat?, y.toNat?, z.toNat? with
    | some x, some y, some z => runScript (pushFace b x y z) rest
    | _, _, _ => none
  | "v" :: x :: y :: z :: rest => runScript (pushVert b ⟨x, y, z⟩ ()) rest
  | "F" :: k :: rest =>
    match k.toNat? with
    | some k =>
      match natsN (3 * k) rest with
      | some (fi, rest') =>
        match faces? fi with
        | some fs => if rest'.length < rest.length then runScript (pushFaces b fs) rest' else none
        | none => none
      | none => none
    | none => none
  | "V" :: k :: rest =>
    match k.toNat? with
    | some k =>
      let vt := rest.take (3 * k)
      let rest' := rest.drop (3 * k)
      match unitVerts vt with
      | some vs => if vt.length == 3 * k && rest'.length < rest.length then runScript (pushVerts b vs) rest' else none
      | none => none
    | none => none
  | _ => none
termination_by ts => ts.length
decreasing_by all_goals simp_all <;> omega

def handleBld (script : List String) (impl : List String) : Verdict :=
  match runScript builder script with
  | none => bad "bld script"
  | some b =>
    let g := groups impl
    let nv := b.verts.length
    let valid := b.faces.all (Face.valid nv)
    let v := Verdict.ok ["bld", if valid then "valid" else "index-oob"]
    let v := v.withDiff (g.getD 0 [] != [toString b.faces.length, toString nv]) "pending builder counts differ from the model"
    let vt := b.verts.flatMap fun (p, _) => [p.x, p.y, p.z]
    let want := match build b with
      | .ok m => meshEcho m.faces (m.verts.flatMap fun (p, _) => [p.x, p.y, p.z])
      | .panic _ => ["P"]
    let got := g.getD 1 []
    let v := v.withDiff (got != want) "build() differs from the model"
    -- spec: pushes append in order (the script's faces / vertices, concatenated), build validates
    let scriptFaces := b.faces   -- by construction of runScript: appended in script order
    let v := v.withSpec (valid && got != meshEcho scriptFaces vt) "builder-order" "build() does not return the pushed faces / vertices in push order"
    v.withSpec (!valid && got != ["P"]) "mesh-new-accepts-oob" "build() returned although a face index is ≥ verts.len()"

def m4? : List Q → Option (M4 Q)
  | [a, b, c, d, e, f, g, h, i, j, k, l, m, n, o, p] =>
    some ⟨⟨a, b, c, d⟩, ⟨e, f, g, h⟩, ⟨i, j, k, l⟩, ⟨m, n, o, p⟩⟩
  | _ => none

def absV3 (v : V3 Q) : V3 Q := ⟨ratAbs v.x, ratAbs v.y, ratAbs v.z⟩
def absV4 (v : V4 Q) : V4 Q := ⟨ratAbs v.x, ratAbs v.y, ratAbs v.z, ratAbs v.w⟩
def absM (m : M4 Q) : M4 Q := ⟨absV4 m.r0, absV4 m.r1, absV4 m.r2, absV4 m.r3⟩
def V3.toL (v : V3 Q) : List Q := [v.x, v.y, v.z]

def handleMeshTf (fs : List Face) (vt : List String) (mt : List String) (impl : List String) : Verdict :=
  match vt.mapM f?, mt.mapM f? with
  | some vq, some mq =>
    match v3s? vq, m4? mq with
    | some pos, some tf =>
      let b : Mesh Q Unit := ⟨fs, pos.map fun p => (p, ())⟩
      let m := transform tf b
      let nv := pos.length
      let v := Verdict.ok ["meshtf", if tf.r3 == ⟨0, 0, 0, 1⟩ then "affine" else "projective-row",
                           if fs.all (Face.valid nv) then "valid" else "index-oob"]
      let head := [toString fs.length, toString nv] ++ faceToks fs
      let v := v.withDiff (impl.take head.length != head) "transform changed the counts or the faces"
      let v := v.withSpec (impl.take head.length != head) "transform-changes-faces" "Builder::transform does not keep the faces / the vertex count"
      let want := m.verts.flatMap fun (p, _) => V3.toL p
      let scales := pos.flatMap fun p => V3.toL ((absM tf).applyPt (absV3 p))
      Verdict.cmp v (cmpList "apply_pt" want scales (impl.drop head.length))
    | _, _ => bad "meshtf shapes"
  | _, _ => bad "meshtf floats"

def dot3q (a b : V3 Q) : Q := a.x * b.x + a.y * b.y + a.z * b.z
def l1 (a : V3 Q) : Q := ratAbs a.x + ratAbs a.y + ratAbs a.z

/-- Σ over the faces of mult·(bound of the products inside the face's cross product): the magnitude that
enters vertex i's sum -/
def sumScale (pos : List (V3 Q)) (fs : List Face) (i : Nat) : Q :=
  fs.foldl (fun acc f => match pos[f.a]?, pos[f.b]?, pos[f.c]? with
    | some a, some b, some c =>
      -- every product inside the cross product of two edge vectors is at most this
      let m := maxAbs (V3.toL a ++ V3.toL b ++ V3.toL c)
      acc + (Spec.Util.mult f i : Q) * (8 * m * m)
    | _, _, _ => acc) 0

def handleMeshVn (fs : List Face) (vt : List String) (impl : List String) : Verdict :=
  match vt.mapM f? with
  | none => bad "meshvn floats"
  | some vq =>
  match v3s? vq with
  | none => bad "meshvn shapes"
  | some pos =>
    let nv := pos.length
    let valid := fs.all (Face.valid nv)
    let b : Mesh Q Unit := ⟨fs, pos.map fun p => (p, ())⟩
    let sums := (List.range nv).map fun i => Spec.Util.vertexSum pos fs i
    let unused := (List.range nv).filter fun i => !Spec.Util.used fs i
    let zeroSum := (List.range nv).filter fun i => Spec.Util.used fs i && (sums.getD i V3.zero).lenSqr == 0
    -- vertices whose exact sum is tiny compared with what entered it: f32 cancellation decides
    let nearZero := (List.range nv).any fun i =>
      let s := sums.getD i V3.zero
      let sc := sumScale pos fs i
      Spec.Util.used fs i && s.lenSqr ≤ sc * sc * ratPow2 (-30)
    let tags := ["meshvn", if !valid then "index-oob" else if !unused.isEmpty then "unused-vertex"
                           else if !zeroSum.isEmpty then "zero-sum" else "regular"]
    let v := Verdict.ok tags
    match withVertexNormals recipSqrt b with
    | .panic _ =>
      if isPanic impl then
        if valid then
          -- TODO(lead): candidate finding vertex-normals-zero-sum-panics — a valid mesh (every index in range) makes
          -- with_vertex_normals panic in the debug profile (NaN normals in release) when a vertex is used by no face
          -- or its face normals cancel. Recorded as a known finding (known_findings.json, property U01): outside the twenty properties, /repo is left as it is.
          (v.addTag "finding:vertex-normals-zero-sum-panics").withSpec true "vertex-normals-zero-sum-panics"
            "with_vertex_normals panics on a mesh whose indices are all in range (a vertex used by no face, or face normals that cancel)"
        else v
      else if valid && unused.isEmpty && nearZero then { v with amb := true }
      else v.withDiff true "model panics, implementation returns"
    | .ok m =>
      if isPanic impl then
        if nearZero then { v with amb := true } else v.withDiff true "implementation panics, model returns"
      else
        let head := [toString fs.length, toString nv] ++ faceToks fs
        let v := v.withDiff (impl.take head.length != head) "with_vertex_normals changed the counts or the faces"
        let v := v.withSpec (impl.take head.length != head) "vertex-normals-change-faces" "with_vertex_normals does not keep the faces / the vertex count"
        let body := impl.drop head.length
        -- per vertex: 3 position tokens (bit-exact), 3 normal tokens
        let rec go (i : Nat) (ms : List (V3 Q × V3 Q)) (vt : List String) (body : List String) (v : Verdict)
            (normals : List (V3 Q)) : Verdict × List (V3 Q) :=
          match ms, vt, body with
          | (_, n) :: ms, p0 :: p1 :: p2 :: vt, q0 :: q1 :: q2 :: n0 :: n1 :: n2 :: body =>
            let v := v.withDiff ([p0, p1, p2] != [q0, q1, q2]) s!"vertex {i}: position changed"
            let v := v.withSpec ([p0, p1, p2] != [q0, q1, q2]) "vertex-normals-change-positions" s!"vertex {i}: position changed"
            match f? n0, f? n1, f? n2 with
            | some a, some b, some c =>
              let im : V3 Q := ⟨a, b, c⟩
              let s := sums.getD i V3.zero
              let sc := sumScale pos fs i
              let amp := ratMax 1 (sc * recipSqrt s.lenSqr)
              let tol := amp * ratPow2 (-16)
              let d := im.sub n
              let v := v.withDiff (ratAbs d.x > tol || ratAbs d.y > tol || ratAbs d.z > tol)
                s!"vertex {i}: normal impl ({ratApprox a}, {ratApprox b}, {ratApprox c}) model ({ratApprox n.x}, {ratApprox n.y}, {ratApprox n.z})"
              -- spec (independent sum): unit length, parallel to and along the sum of the adjacent face normals
              let v := v.withSpec (ratAbs (im.lenSqr - 1) > 1 / 1000) "vertex-normal-not-unit" s!"vertex {i}: |n|² = {ratApprox im.lenSqr}"
              let cr := cross im s
              let par := l1 cr ≤ 4 * tol * sqrtQ s.lenSqr
              let v := v.withSpec (!(par && dot3q im s > 0)) "vertex-normal-direction"
                s!"vertex {i}: normal is not along the sum of the normals of the faces using it"
              go (i + 1) ms vt body v (normals ++ [im])
            | _, _, _ =>
              let v := (v.withDiff true s!"vertex {i}: normal not finite").withSpec true "vertex-normal-not-finite" s!"vertex {i}: non-finite normal"
              go (i + 1) ms vt body v normals
          | [], _, _ => (v, normals)
          | _, _, _ => (v.withDiff true "vertex list truncated", normals)
        let (v, normals) := go 0 m.verts vt body v []
        if nearZero then { v with diff := none, spec := none, amb := true } else
        -- planar mesh with consistently oriented faces: every normal is the plane normal
        match normals with
        | n0 :: rest =>
          let faceNs := fs.filterMap (Spec.Util.faceNormal? pos)
          let planar := match faceNs.find? (fun n => n.lenSqr != 0) with
            | some r => faceNs.all fun n => (cross n r).lenSqr == 0 && dot3q n r ≥ 0
            | none => false
          if planar then
            let v := v.addTag "planar"
            v.withSpec (rest.any fun n => l1 (n.sub n0) > 1 / 10000) "planar-normals-differ" "planar, consistently oriented mesh: vertex normals differ"
          else v
        | [] => v

/-! ### stats -/

def f32r (q : Q) : Q := F32.toRatD (F32.ofRat q)

def parseStats (ts : List String) : Option (Stats × List String) :=
  match ts with
  | t :: c :: f :: rest =>
    match t.toNat?, f? c, f? f, natsN 8 rest with
    | some t, some c, some f, some ([a, b, cc, d, e, ff, g, h], rest) =>
      some (⟨t, c, f, ⟨a, b⟩, ⟨cc, d⟩, ⟨e, ff⟩, ⟨g, h⟩⟩, rest)
    | _, _, _, _ => none
  | _ => none

def parseStatsN : Nat → List String → Option (List Stats)
  | 0, _ => some []
  | n + 1, ts =>
    match parseStats ts with
    | some (s, rest) => (parseStatsN n rest).map (s :: ·)
    | none => none

def counters (s : Stats) : List Nat := [s.objs.i, s.objs.o, s.prims.i, s.prims.o, s.verts.i, s.verts.o, s.frags.i, s.frags.o]

def relClose (a b : Q) (rel : Q) : Bool := ratAbs (a - b) ≤ ratMax (ratAbs a) (ratAbs b) * rel

def handleSadd (ss : List Stats) (impl : List String) : Verdict :=
  let v := Verdict.ok ["sadd", s!"k{ss.length}"]
  -- independent column sums
  let tSum := ss.foldl (fun a s => a + s.time) 0
  let cSums := (List.range 8).map fun k => ss.foldl (fun a s => a + (counters s).getD k 0) 0
  let overflow := tSum > durMax || cSums.any (· > usizeMax)
  match statsSum id Stats.default ss with
  | .panic _ =>
    let v := v.addTag "overflow"
    let v := v.withDiff (!isPanic impl) "model panics (overflow), implementation returns"
    v.withSpec (overflow && !isPanic impl) "stats-add-overflow-no-panic" "a counter or the duration overflowed without a panic (overflow-checks profile)"
  | .ok m =>
    if isPanic impl then
      (v.withDiff true "implementation panics, model adds").withSpec (!overflow) "stats-add-panics" "Stats += panics although no field overflows"
    else
      match parseStats impl with
      | some (i, rest) =>
        let v := v.withDiff (i.time != m.time || counters i != counters m) "time / counters differ from the model"
        let v := v.withDiff (!relClose i.calls m.calls epsTol || !relClose i.frames m.frames epsTol) "calls / frames differ from the model"
        let v := v.withSpec (i.time != tSum || counters i != cSums) "stats-add-not-componentwise" "Stats += is not the component-wise sum"
        let cs := ss.foldl (fun a s => a + s.calls) 0
        let fsum := ss.foldl (fun a s => a + s.frames) 0
        let v := v.withSpec (!relClose i.calls cs epsTol || !relClose i.frames fsum epsTol) "stats-add-not-componentwise" "calls / frames are not the sums"
        v.withSpec (rest != ["fresh=1"]) "stats-new-not-zero" "Stats::new() / default() is not all zero"
      | none => bad "sadd output"

/-- a `(x as f32 / secs) as usize` counter: within one unit plus f32 slack of the exact quotient -/
def perSecClose (impl : Nat) (exact : Q) : Bool :=
  let sat := (usizeMax : Q)
  if exact ≥ sat * (1 - ratPow2 (-20)) then impl == usizeMax || ratAbs ((impl : Q) - exact) ≤ 1 + exact * ratPow2 (-20)
  else ratAbs ((impl : Q) - exact) ≤ 1 + exact * ratPow2 (-20)

def handlePerSec (s : Stats) (impl : List String) : Verdict :=
  let v := Verdict.ok ["spersec", if s.time == 0 then "zero-time" else "timed"]
  match parseStats impl with
  | some (i, _) =>
    let secs : Q := if s.time == 0 then 1 else (s.time : Q) / 1000000000
    let m := perSec id s
    let v := v.withDiff (i.time != m.time) "per_sec().time is not one second"
    let v := v.withDiff (!relClose i.calls m.calls epsTol || !relClose i.frames m.frames epsTol) "per_sec calls / frames differ from the model"
    let okC := (List.zip (counters i) (counters s)).all fun (ic, sc) => perSecClose ic ((sc : Q) / secs)
    let v := v.withDiff (!okC) s!"per_sec counters: impl {counters i} model {counters m}"
    -- spec: the formulas, on the implementation's numbers
    let v := v.withSpec (i.time != 1000000000) "per-sec-time" "per_sec().time ≠ 1 s"
    v.withSpec (!relClose (i.calls * secs) s.calls epsTol || !relClose (i.frames * secs) s.frames epsTol) "per-sec-formula" "per_sec: calls·secs ≠ total calls"
  | none => if isPanic impl then Verdict.mkDiff "per_sec panics" ["spersec"] else bad "spersec output"

def handlePerFrame (s : Stats) (impl : List String) : Verdict :=
  let v := Verdict.ok ["sperframe", if s.frames < 1 then "frames<1" else if s.frames.den != 1 then "fractional-frames" else "frames>=1"]
  match parseStats impl with
  | some (i, _) =>
    let m := perFrame id s
    let fr := max1 s.frames
    let v := v.withDiff (counters i != counters m) s!"per_frame counters: impl {counters i} model {counters m}"
    let v := v.withDiff (i.frames != 1) "per_frame().frames ≠ 1"
    let v := v.withDiff (!relClose i.calls m.calls epsTol) "per_frame calls differ from the model"
    let tq := (s.time : Q) / fr
    let v := v.withDiff (ratAbs ((i.time : Q) - tq) > 2 + tq * ratPow2 (-20)) s!"per_frame time: impl {i.time} model {m.time}"
    -- spec: each counter is the integer quotient by the truncated frame count
    let k := (fr.floor).toNat
    v.withSpec (k ≥ 1 && counters i != (counters s).map (· / k)) "per-frame-formula" "per_frame counters are not total / ⌊max(frames, 1)⌋"
  | none => if isPanic impl then Verdict.mkDiff "per_frame panics" ["sperframe"] else bad "sperframe output"

def utf8Hex (cs : List Char) : String := bytesToHex (String.ofList cs).toUTF8.toList

def hexToChars (h : String) : Option (List Char) :=
  match parseHexBytes? h with
  | some bs => match String.fromUTF8? (ByteArray.mk bs.toArray) with
    | some s => some s.toList
    | none => none
  | none => none

def digitVal (c : Char) : Option Nat := if c.isDigit then some (c.toNat - 48) else none
def natOfChars (cs : List Char) : Option Nat :=
  if cs.isEmpty then none else cs.foldl (fun acc c => match acc, digitVal c with
    | some a, some d => some (a * 10 + d)
    | _, _ => none) (some 0)

/-- `I.F` → tenths -/
def tenthsOfChars (cs : List Char) : Option Nat :=
  match cs.reverse with
  | f :: '.' :: ip => match natOfChars ip.reverse, digitVal f with
    | some i, some d => some (i * 10 + d)
    | _, _ => none
  | _ => none

def trimL (cs : List Char) : List Char := cs.dropWhile (· == ' ')

/-- Parse what `human_num` printed back into an `HNum`. -/
def parseHNum (cs : List Char) : Option HNum :=
  let t := trimL cs
  match t.reverse with
  | u :: body =>
    if u == 'k' || u == 'M' || u == 'G' then
      let b := body.reverse
      if b.contains '.' then (tenthsOfChars b).map (HNum.dec · u) else (natOfChars b).map (HNum.int · u)
    else if t.contains 'e' then
      let mant := t.takeWhile (· != 'e')
      let ex := (t.dropWhile (· != 'e')).drop 1
      match tenthsOfChars mant, natOfChars ex with
      | some m, some e => some (HNum.exp m e)
      | _, _ => none
    else (natOfChars t).map HNum.plain
  | [] => none

/-- The promise of the format: what value may be printed for `n`. -/
def hnumPromise (n : Nat) (h : HNum) : Bool :=
  let q : Q := n
  match h with
  | .plain m => m == n && n < 1000
  | .dec t u =>
    let unit := unitValue u
    ((u == 'k' && 1000 ≤ n && n < 100000) || (u == 'M' && 1000000 ≤ n && n < 100000000) || (u == 'G' && 1000000000 ≤ n && n < 100000000000)) &&
      ratAbs ((t : Q) / 10 * unit - q) ≤ unit / 20 + q * ratPow2 (-21)
  | .int m u =>
    let unit := unitValue u
    ((u == 'k' && 100000 ≤ n && n < 1000000) || (u == 'M' && 100000000 ≤ n && n < 1000000000)) &&
      (m : Q) * unit ≤ q && q < ((m : Q) + 1) * unit
  | .exp t e =>
    100000000000 ≤ n && 10 ≤ t && t ≤ 99 && ratAbs ((t : Q) / 10 * ((10 ^ e : Nat) : Q) - q) ≤ ((10 ^ e : Nat) : Q) / 20

def splitSlash (cs : List Char) : Option (List Char × List Char) :=
  let rec go (pre : List Char) : List Char → Option (List Char × List Char)
    | ' ' :: '/' :: ' ' :: rest => some (pre.reverse, rest)
    | c :: rest => go (c :: pre) rest
    | [] => none
  go [] cs

def hnumTag : HNum → String
  | .plain _ => "plain" | .dec _ u => s!"dec-{u}" | .int _ u => s!"int-{u}" | .exp .. => "exp"

def handleHnum (i o : Nat) (impl : List String) : Verdict :=
  let tp : Throughput := ⟨i, o⟩
  let wantF := utf8Hex (tpChars f32r 10 tp)
  let wantE := utf8Hex (tpChars id 10 tp)
  let got := impl.getD 0 ""
  let v := Verdict.ok ["hnum", hnumTag (humanNum f32r i), hnumTag (humanNum f32r o)]
  let v := if got == wantF then v else if got == wantE then v.addTag "exact-rounding" else v.withDiff true s!"Display for Throughput: impl {got} model {wantF}"
  match hexToChars got with
  | some cs =>
    match splitSlash cs with
    | some (a, b) =>
      match parseHNum a, parseHNum b with
      | some ha, some hb =>
        let v := v.withSpec (!hnumPromise i ha || !hnumPromise o hb) "human-num-wrong-value"
          s!"human_num prints a value outside the rounding its format promises (or the wrong unit): {String.ofList cs}"
        -- TODO(lead): cosmetic candidate finding human-num-width — 99 950…99 999 (k, M, G) print six characters
        if a.length != 5 && a.length != 6 || b.length != 5 && b.length != 6 then v.withSpec true "human-num-width" "human_num output is neither 5 nor 6 characters wide"
        else if (a.length == 6 && i < 100000000000) || (b.length == 6 && o < 100000000000) then v.addTag "note:human-num-width-6"
        else v
      | _, _ => v.withSpec true "human-num-unparsable" s!"cannot read back what human_num printed: {String.ofList cs}"
    | none => v.withSpec true "human-num-unparsable" "no ` / ` separator"
  | none => v.withSpec true "human-num-unparsable" "not UTF-8"

def pctChars (rnd : Q → Q) (tp : Throughput) : List Char :=
  if tp.i == 0 then padLeft 10 ' ' ['-', '-']
  else
    let pct := rnd (rnd (100 * rnd (tp.o : Q)) / rnd (tp.i : Q))
    padLeft 9 ' ' (tenthsChars (tenthsOf pct)) ++ ['%']

def handleHpct (i o : Nat) (impl : List String) : Verdict :=
  let tp : Throughput := ⟨i, o⟩
  let got := impl.getD 0 ""
  let v := Verdict.ok ["hpct", if i == 0 then "no-input" else "percent"]
  let v := if got == utf8Hex (pctChars f32r tp) then v else if got == utf8Hex (pctChars id tp) then v.addTag "exact-rounding"
    else v.withDiff true s!"Display for Throughput (alternate): impl {got} model {utf8Hex (pctChars f32r tp)}"
  match hexToChars got with
  | some cs =>
    let t := trimL cs
    if i == 0 then v.withSpec (t != ['-', '-']) "percent-no-input" "no input items: `--` expected"
    else match t.reverse with
      | '%' :: body =>
        match tenthsOfChars body.reverse with
        | some tn =>
          let exact : Q := 100 * (o : Q) / (i : Q)
          v.withSpec (ratAbs ((tn : Q) / 10 - exact) > 1 / 20 + exact * ratPow2 (-20)) "percent-wrong-value" s!"printed {String.ofList t}, exact {ratApprox exact}"
        | none => v.withSpec true "percent-unparsable" (String.ofList cs)
      | _ => v.withSpec true "percent-unparsable" (String.ofList cs)
  | none => v.withSpec true "percent-unparsable" "not UTF-8"

/-- Parse what `human_time` printed. -/
def parseHTime (cs : List Char) : Option HTime :=
  let t := trimL cs
  match t.reverse with
  | 's' :: 'μ' :: body => (tenthsOfChars body.reverse).map HTime.us
  | 's' :: 'm' :: body => (tenthsOfChars body.reverse).map HTime.ms
  | 's' :: body =>
    let b := body.reverse
    if b.contains 'm' then
      let mins := b.takeWhile (· != 'm')
      let secs := (b.dropWhile (· != ' ')).drop 1
      match natOfChars mins, natOfChars secs with
      | some m, some s => some (HTime.minsec m s)
      | _, _ => none
    else (tenthsOfChars b).map HTime.secs
  | _ => none

def htimeTag : HTime → String
  | .us _ => "us" | .ms _ => "ms" | .secs _ => "s" | .minsec .. => "min"

def handleHtime (t : Nat) (impl : List String) : Verdict :=
  let got := impl.getD 0 ""
  let hF := humanTime f32r t
  let v := Verdict.ok ["htime", htimeTag hF]
  let v := if got == utf8Hex hF.chars then v else if got == utf8Hex (humanTime id t).chars then v.addTag "exact-rounding"
    else v.withDiff true s!"human_time: impl {got} model {utf8Hex hF.chars}"
  match hexToChars got with
  | some cs =>
    match parseHTime cs with
    | some h =>
      let secs : Q := (t : Q) / 1000000000
      let slack := secs * ratPow2 (-20)
      match h with
      | .us tn => v.withSpec (!(secs < 1001 / 1000000) || ratAbs (h.value - secs) > 1 / 20000000 + slack) "human-time-wrong-value" s!"{String.ofList cs} for {ratApprox secs} s"
        |>.addTag (if tn ≥ 10000 then "note:human-time-1000.0" else "us-regular")
      | .ms tn => v.withSpec (!(secs < 1001 / 1000) || ratAbs (h.value - secs) > 1 / 20000 + slack) "human-time-wrong-value" s!"{String.ofList cs} for {ratApprox secs} s"
        |>.addTag (if tn ≥ 10000 then "note:human-time-1000.0" else "ms-regular")
      | .secs _ => v.withSpec (!(secs < 60001 / 1000) || ratAbs (h.value - secs) > 1 / 20 + slack) "human-time-wrong-value" s!"{String.ofList cs} for {ratApprox secs} s"
      | .minsec m s =>
        -- the promise of `Mmin SSs`: whole minutes plus the remaining seconds, rounded to a second
        if s ≥ 60 || ratAbs (h.value - secs) > 1 / 2 + slack then
          -- TODO(lead): candidate finding human-time-minutes-rounded — minutes are ROUNDED (`{:.0}` of secs/60), not
          -- floored: 90 s prints "2min 30s", 119.7 s prints "2min 60s"; the repo test `human_times` pins "21min 34s"
          -- for 1234 s (= 20 min 34 s), so a repair needs a test edit. Recorded as a known finding (property U01).
          let off := ratAbs (h.value - secs)
          if (s ≥ 60 && off ≤ 1 / 2 + slack) || ratAbs (off - 60) ≤ 1 / 2 + slack then
            (v.addTag "finding:human-time-minutes-rounded").withSpec true "human-time-minutes-rounded"
              s!"{String.ofList cs} for {ratApprox secs} s: the minutes are rounded, not floored"
          else v.withSpec true "human-time-wrong-value" s!"{String.ofList cs} for {ratApprox secs} s"
        else v.addTag (if m == 0 then "min-zero" else "min-regular")
    | none => v.withSpec true "human-time-unparsable" (String.ofList cs)
  | none => v.withSpec true "human-time-unparsable" "not UTF-8"

/-! ### dispatch -/

def handle (case impl : List String) : Verdict :=
  match case with
  | "varith" :: n :: rest =>
    match n.toNat?, rest.mapM f? with
    | some n, some f => if f.length == 2 * n + 1 then handleVarith n f impl else bad "varith arity"
    | _, _ => bad "varith"
  | "proj" :: n :: rest =>
    match n.toNat?, rest.mapM f? with
    | some n, some f => if f.length == 2 * n then handleProj n f impl else bad "proj arity"
    | _, _ => bad "proj"
  | "dist" :: n :: rest =>
    match n.toNat?, rest.mapM f? with
    | some n, some f => if f.length == 3 * n then handleDist n f impl else bad "dist arity"
    | _, _ => bad "dist"
  | "ptops" :: n :: rest =>
    match n.toNat?, rest.mapM f? with
    | some n, some f => if f.length == 2 * n then handlePtops n f impl else bad "ptops arity"
    | _, _ => bad "ptops"
  | "vclamp" :: n :: rest | "pclamp" :: n :: rest =>
    match n.toNat?, rest.mapM x? with
    | some n, some f => if f.length == 3 * n then handleClamp (case.headD "") n f impl else bad "clamp arity"
    | _, _ => bad "clamp"
  | "vsum" :: n :: k :: rest =>
    match n.toNat?, k.toNat?, rest.mapM f? with
    | some n, some k, some f => if f.length == n * k then handleVsum n k f impl else bad "vsum arity"
    | _, _, _ => bad "vsum"
  | ["splat", n, s] =>
    match n.toNat? with
    | some n =>
      let want := List.replicate n s ++ ["1"]
      let v := (Verdict.ok ["splat"]).withDiff (impl != want) "splat differs from the model"
      v.withSpec (impl != want) "splat-not-broadcast" "splat(s) / Vector::from(s) is not s in every component"
    | none => bad "splat"
  | "index" :: n :: i :: rest =>
    match n.toNat?, i.toNat? with
    | some n, some i =>
      let want := match index rest i with
        | .ok x => [x]
        | .panic _ => ["P"]
      let g := groups impl
      let v := Verdict.ok ["index", if i < n then "in-range" else "out-of-range"]
      let v := v.withDiff (g != [want, want]) s!"index: impl {g} model {want}"
      let v := v.withSpec (i ≥ n && g.any (· != ["P"])) "index-oob-no-panic" "indexing past the dimension does not panic"
      v.withSpec (i < n && g.any (· != [rest.getD i ""])) "index-wrong-component" "v[i] is not the i-th component"
    | _, _ => bad "index"
  | "iarith" :: n :: rest =>
    match n.toNat?, rest.mapM String.toInt? with
    | some n, some f => if f.length == 2 * n + 1 then handleIarith n f impl else bad "iarith arity"
    | _, _ => bad "iarith"
  | "uarith" :: rest =>
    match rest.mapM String.toInt? with
    | some f => if f.length == 6 then handleUarith f impl else bad "uarith arity"
    | none => bad "uarith"
  | ["iscalar", a, b] =>
    match a.toInt?, b.toInt? with
    | some a, some b =>
      let model := [outStr1 (i32Add a b), outStr1 (i32Sub a b), outStr1 (i32Neg a), outStr1 (i32Mul a b), ["0"]]
      let g := groups impl
      let v := Verdict.ok ["iscalar", if model.any (· == ["P"]) then "some-overflow" else "no-overflow"]
      let v := cmpGroups v ["add", "sub", "neg", "mul", "zero"] model g
      let v := intSpec v "i32 add" [a + b] inI32 (g.getD 0 [])
      let v := intSpec v "i32 sub" [a - b] inI32 (g.getD 1 [])
      let v := intSpec v "i32 neg" [-a] inI32 (g.getD 2 [])
      intSpec v "i32 mul" [a * b] inI32 (g.getD 3 [])
    | _, _ => bad "iscalar"
  | ["uscalar", a, d, b] =>
    match a.toInt?, d.toInt?, b.toInt? with
    | some a, some d, some b =>
      let model := [outStr1 (u32AddSigned a d), outStr1 (u32Sub a b)]
      let g := groups impl
      let v := Verdict.ok ["uscalar", if model.any (· == ["P"]) then "some-overflow" else "no-overflow"]
      let v := cmpGroups v ["add", "sub"] model g
      let v := intSpec v "u32 + i32" [a + d] inU32 (g.getD 0 [])
      intSpec v "u32 - u32" [a - b] inI32 (g.getD 1 [])
    | _, _, _ => bad "uscalar"
  | "isum" :: k :: rest =>
    match k.toNat?, rest.mapM String.toInt? with
    | some k, some f =>
      let vs := (List.range k).map fun j => (f.drop (2 * j)).take 2
      let v := Verdict.ok ["isum", s!"k{k}"]
      match viSum 2 vs with
      | .ok m => v.withDiff (impl != m.map toString) s!"Sum: impl {impl} model {m}"
      | .panic _ => (v.addTag "overflow").withDiff (!isPanic impl) "model panics (overflow), implementation returns"
    | _, _ => bad "isum"
  | ["approx", a, b, e] =>
    match x? a, x? b, x? e with
    | some a, some b, some e => handleApprox a b e impl
    | _, _, _ => bad "approx"
  | ["approxd", a, b] =>
    match x? a, x? b, x? (impl.getD 1 "") with
    | some a, some b, some e =>
      let v := handleApprox a b e (impl.take 1)
      let v := v.addTag "default-eps"
      v.withDiff (impl.getD 1 "" != "358637bd") "relative_epsilon() is not 1e-6 (std backend)"
    | _, _, _ => bad "approxd"
  | "approxs" :: la :: rest =>
    match la.toNat? with
    | some la =>
      match xfloats la rest with
      | some (a, lb :: rest) =>
        match lb.toNat? with
        | some lb =>
          match xfloats lb rest with
          | some (b, [e]) => match x? e with
            | some e => handleApproxList "approxs" a b e impl 1
            | none => bad "approxs eps"
          | _ => bad "approxs b"
        | none => bad "approxs lb"
      | _ => bad "approxs a"
    | none => bad "approxs"
  | "approxv" :: n :: rest =>
    match n.toNat?, rest.mapM x? with
    | some n, some f => if f.length == 2 * n + 1 then handleApproxList "approxv" (f.take n) ((f.drop n).take n) (f.getD (2 * n) 0) impl 3 else bad "approxv arity"
    | _, _ => bad "approxv"
  | ["approxo", ta, a, tb, b, e] =>
    match x? a, x? b, x? e with
    | some a, some b, some e =>
      let oa := if ta == "1" then some a else none
      let ob := if tb == "1" then some b else none
      let m := approxEqOpt oa ob e
      let v := Verdict.ok ["approxo", s!"{ta}{tb}"]
      let v := v.withSpec (ta != tb && impl != ["0"]) "approx-option-some-none" "Some and None compare approximately equal"
      let v := v.withSpec (ta == "0" && tb == "0" && impl != ["1"]) "approx-option-none-none" "None is not approximately equal to None"
      if ta == "1" && tb == "1" && approxMargin a b e then { v with amb := true }
      else v.withDiff (impl != [b01 m]) s!"Option approx_eq_eps: impl {impl} model {b01 m}"
    | _, _, _ => bad "approxo"
  | "meshnew" :: rest =>
    match parseMesh rest with
    | some (fs, vt, []) => handleMeshNew fs vt impl
    | _ => bad "meshnew"
  | "bld" :: script => handleBld script impl
  | "meshtf" :: rest =>
    match parseMesh rest with
    | some (fs, vt, mt) => if mt.length == 16 then handleMeshTf fs vt mt impl else bad "meshtf matrix"
    | none => bad "meshtf"
  | "meshvn" :: rest =>
    match parseMesh rest with
    | some (fs, vt, []) => handleMeshVn fs vt impl
    | _ => bad "meshvn"
  | "sadd" :: k :: rest =>
    match k.toNat? with
    | some k => match parseStatsN k rest with
      | some ss => handleSadd ss impl
      | none => bad "sadd stats"
    | none => bad "sadd"
  | "spersec" :: rest =>
    match parseStats rest with
    | some (s, []) => handlePerSec s impl
    | _ => bad "spersec"
  | "sperframe" :: rest =>
    match parseStats rest with
    | some (s, []) => handlePerFrame s impl
    | _ => bad "sperframe"
  | ["hnum", i, o] =>
    match i.toNat?, o.toNat? with
    | some i, some o => handleHnum i o impl
    | _, _ => bad "hnum"
  | ["hpct", i, o] =>
    match i.toNat?, o.toNat? with
    | some i, some o => handleHpct i o impl
    | _, _ => bad "hpct"
  | ["htime", t] =>
    match t.toNat? with
    | some t => handleHtime t impl
    | none => bad "htime"
  | _ => bad "unknown op"

end Retro.Drv.U01
