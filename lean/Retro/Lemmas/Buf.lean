/-
Helper lemmas about `Retro.Model.Buf` (list plumbing and u32 arithmetic) used by `Retro.Props.C11`
and `Retro.Props.C13`.
-/
import Retro.Model.Buf
import Mathlib.Tactic.Linarith
import Mathlib.Tactic.SplitIfs

namespace Retro.Buf
open Retro

/-! ### Arithmetic -/

/-- A cell `(x, y)` of a `w × h` window with pitch `s ≥ w` lies strictly before the end of the last row. -/
theorem cell_lt {x y w h s : Nat} (hx : x < w) (hy : y < h) :
    y * s + x + 1 ≤ (h - 1) * s + w := by
  have : y * s ≤ (h - 1) * s := Nat.mul_le_mul_right s (by omega)
  omega

/-! ### The invariant `Inner::new` establishes -/

/-- The arithmetic content of the four assertions of `Inner::new` (see `innerNew_ok_iff`):
rows do not overlap and the last row ends inside the data. No representability side condition:
the size is computed in `usize` (buf.rs:497), so this holds in the release profile too. -/
def Fits (w h stride len : Nat) : Prop :=
  w ≤ stride ∧ (h = 0 ∨ (h - 1) * stride + w ≤ len)

instance (w h stride len : Nat) : Decidable (Fits w h stride len) := by unfold Fits; infer_instance

/-- Invariant of every view over a root storage of `n` elements. -/
def ViewInv (n : Nat) (v : View) : Prop :=
  Fits v.w v.h v.stride v.len ∧ v.off + v.len ≤ n

instance (n : Nat) (v : View) : Decidable (ViewInv n v) := by unfold ViewInv; infer_instance

theorem innerNew_ok_iff (w h s len : Nat) : innerNew w h s len = .ok () ↔ Fits w h s len := by
  unfold Fits
  by_cases h1 : w ≤ s
  · by_cases h0 : h = 0
    · subst h0; simp [innerNew, h1]
    · have hpos : 0 < h := by omega
      have hA : h ≤ 1 ∨ s ≤ (h - 1) * s := by
        rcases Nat.lt_or_ge 1 h with h2 | h2
        · right; exact Nat.le_mul_of_pos_left s (by omega)
        · left; omega
      have hB : w = 0 ∨ h - 1 ≤ (h - 1) * s := by
        rcases Nat.eq_zero_or_pos w with hw | hw
        · left; exact hw
        · right; exact Nat.le_mul_of_pos_right (h - 1) (by omega)
      by_cases hs : (h - 1) * s + w ≤ len
      · have c2 : h ≤ 1 ∨ s ≤ len := by omega
        have c3 : w = 0 ∨ h ≤ len := by omega
        simp [innerNew, h1, hpos, hs, c2, c3, h0]
      · simp only [innerNew, h1, hpos, hs, h0]
        split_ifs <;> simp_all
  · simp [innerNew, h1]

theorem innerNew_cases (w h s len : Nat) : innerNew w h s len = .ok () ∨ ∃ m, innerNew w h s len = .panic m := by
  cases hh : innerNew w h s len with
  | ok u => left; rfl
  | panic m => right; exact ⟨m, rfl⟩

/-- In-bounds coordinates of a view that `Fits` index inside its data. -/
theorem toIndex_inside {v : View} (hf : Fits v.w v.h v.stride v.len) {x y : Nat} (hx : x < v.w) (hy : y < v.h) :
    toIndex v x y = .ok (y * v.stride + x) ∧ y * v.stride + x < v.len := by
  obtain ⟨_, h2⟩ := hf
  have hc := cell_lt (s := v.stride) hx hy
  rcases h2 with h0 | h3
  · omega
  · exact ⟨rfl, by omega⟩

/-! ### `viewData` -/

section
variable {α : Type}

theorem viewData_length (root : List α) (v : View) (h : v.off + v.len ≤ root.length) :
    (viewData root v).length = v.len := by
  simp [viewData]; omega

theorem viewData_getElem? (root : List α) (v : View) (i : Nat) (hi : i < v.len) :
    (viewData root v)[i]? = root[v.off + i]? := by
  simp [viewData, hi]

/-- `data[start..][..n]` in terms of the root storage. -/
theorem viewData_window (root : List α) (v : View) (start n : Nat) (h : start + n ≤ v.len) :
    ((viewData root v).drop start).take n = (root.drop (v.off + start)).take n := by
  simp only [viewData, List.drop_take, List.take_take, List.drop_drop]
  congr 1
  omega

end

/-! ### `setRun` -/

section
variable {α : Type}

@[simp] theorem setRun_length (root : List α) (s : Nat) (vals : List α) :
    (setRun root s vals).length = root.length := by
  induction vals generalizing root s with
  | nil => rfl
  | cons a as ih => simp [setRun, ih]

/-- Cells outside `[s, s + |vals|)` keep their value. -/
theorem setRun_getElem?_outside (root : List α) (s : Nat) (vals : List α) (j : Nat)
    (h : j < s ∨ s + vals.length ≤ j) : (setRun root s vals)[j]? = root[j]? := by
  induction vals generalizing root s with
  | nil => rfl
  | cons a as ih =>
    simp only [setRun]
    rw [ih]
    · rw [List.getElem?_set_ne]; simp only [List.length_cons] at h; omega
    · simp only [List.length_cons] at h; omega

/-- Cells inside `[s, s + |vals|)` (and inside the list) receive the corresponding value. -/
theorem setRun_getElem?_inside (root : List α) (s : Nat) (vals : List α) (i : Nat)
    (hi : i < vals.length) (hroot : s + i < root.length) :
    (setRun root s vals)[s + i]? = vals[i]? := by
  induction vals generalizing root s i with
  | nil => simp at hi
  | cons a as ih =>
    simp only [setRun]
    cases i with
    | zero =>
      rw [setRun_getElem?_outside _ _ _ _ (by omega)]
      exact List.getElem?_set_self (by omega)
    | succ i =>
      have := ih (root.set s a) (s + 1) i (by simpa using hi) (by simp; omega)
      rw [show s + (i + 1) = s + 1 + i by omega, this]
      simp

/-! ### `chunkWindows`, `rowStartsOf` -/

/-- Closed form of `chunks(n)`: the `i`-th chunk starts at `i·n` and is `min n (rem − i·n)` long. -/
theorem chunkWindows_getElem? (n : Nat) (hn : 0 < n) (fuel start rem i : Nat) (hf : rem ≤ fuel) :
    (chunkWindows n fuel start rem)[i]? =
      if i * n < rem then some (start + i * n, min n (rem - i * n)) else none := by
  induction fuel generalizing start rem i with
  | zero =>
    have : rem = 0 := by omega
    subst this
    simp [chunkWindows]
  | succ fuel ih =>
    by_cases hr : rem = 0
    · subst hr; simp [chunkWindows]
    · simp only [chunkWindows, hr, if_false]
      cases i with
      | zero => simp; omega
      | succ i =>
        rw [List.getElem?_cons_succ, ih (start + n) (rem - n) i (by omega), Nat.succ_mul]
        by_cases hlt : i * n < rem - n
        · have : i * n + n < rem := by omega
          simp only [hlt, this, if_true]
          congr 2 <;> omega
        · have : ¬ i * n + n < rem := by omega
          simp [hlt, this]

theorem rowStartsOf_ok (w : Nat) (l : List (Nat × Nat)) (h : ∀ p ∈ l, w ≤ p.2) :
    rowStartsOf w l = .ok (l.map Prod.fst) := by
  induction l with
  | nil => rfl
  | cons p ps ih =>
    obtain ⟨s, n⟩ := p
    have h1 : w ≤ n := h (s, n) (by simp)
    simp [rowStartsOf, h1, ih (fun q hq => h q (by simp [hq]))]

/-- The chunk list `rows()`/`rows_mut()` walk, element-wise. -/
theorem rowChunks_getElem? (v : View) (i : Nat) :
    ((chunkWindows (max v.stride 1) v.len 0 v.len).take v.h)[i]? =
      if i < v.h ∧ i * max v.stride 1 < v.len
      then some (i * max v.stride 1, min (max v.stride 1) (v.len - i * max v.stride 1)) else none := by
  rw [List.getElem?_take, chunkWindows_getElem? _ (by omega) _ _ _ _ (Nat.le_refl _)]
  by_cases h1 : i < v.h <;> by_cases h2 : i * max v.stride 1 < v.len <;> simp [h1, h2]

/-- `rows()`/`rows_mut()` of a valid view of non-zero width visit exactly `h` rows, row `y`
starting at `y·stride` inside the view's data. -/
theorem rowWindows_pos {v : View} (hf : Fits v.w v.h v.stride v.len) (hw : 0 < v.w) :
    rowWindows v = .ok ((List.range v.h).map (· * v.stride)) := by
  have hs : max v.stride 1 = v.stride := by have := hf.1; omega
  have hrow : ∀ i, i < v.h → i * v.stride + v.w ≤ v.len := fun i hi => by
    have := (toIndex_inside hf (x := v.w - 1) (by omega) hi).2; omega
  have hall : ∀ p ∈ (chunkWindows (max v.stride 1) v.len 0 v.len).take v.h, v.w ≤ p.2 := by
    intro p hp
    obtain ⟨i, hi⟩ := List.getElem?_of_mem hp
    rw [rowChunks_getElem?, hs] at hi
    split_ifs at hi with hc
    · cases hi
      have := hrow i hc.1
      have := hf.1
      simp only; omega
  unfold rowWindows
  rw [rowStartsOf_ok _ _ hall]
  congr 1
  apply List.ext_getElem?
  intro i
  rw [List.getElem?_map, rowChunks_getElem?, hs, List.getElem?_map]
  by_cases hi : i < v.h
  · have := hrow i hi
    have h2 : i * v.stride < v.len := by omega
    simp [hi, h2]
  · simp [hi]

/-- Zero-width views: at most `h` rows are visited (all of them empty). -/
theorem rowWindows_zero_width {v : View} (hw : v.w = 0) :
    ∃ starts, rowWindows v = .ok starts ∧ starts.length ≤ v.h := by
  refine ⟨((chunkWindows (max v.stride 1) v.len 0 v.len).take v.h).map Prod.fst, ?_, ?_⟩
  · unfold rowWindows
    exact rowStartsOf_ok _ _ (fun p _ => by omega)
  · simp [List.length_take]

/-! ### `writeRows` -/

theorem writeRows_nil_rows (root : List α) (off : Nat) (starts : List Nat) (rows : List (List α))
    (h : ∀ r ∈ rows, r = []) : writeRows root off starts rows = root := by
  induction starts generalizing root rows with
  | nil => cases rows <;> rfl
  | cons s ss ih =>
    cases rows with
    | nil => rfl
    | cons r rs =>
      have : r = [] := h r (by simp)
      subst this
      simp only [writeRows, setRun]
      exact ih root rs (fun q hq => h q (by simp [hq]))

/-- Row-wise stores into non-overlapping rows `b + y·s` (`w ≤ s`): every addressed cell receives its
value, everything else is untouched, the length is preserved. -/
theorem writeRows_frame (off s w : Nat) (hws : w ≤ s) (n : Nat) :
    ∀ (root : List α) (b : Nat) (rows : List (List α)), rows.length = n → (∀ r ∈ rows, r.length = w) →
      (0 < n → off + b + (n - 1) * s + w ≤ root.length) →
      (writeRows root off ((List.range n).map (fun i => b + i * s)) rows).length = root.length ∧
      (∀ y x, y < n → x < w →
        (writeRows root off ((List.range n).map (fun i => b + i * s)) rows)[off + b + y * s + x]? =
          (rows[y]?).bind (·[x]?)) ∧
      (∀ j, (∀ y x, y < n → x < w → j ≠ off + b + y * s + x) →
        (writeRows root off ((List.range n).map (fun i => b + i * s)) rows)[j]? = root[j]?) := by
  induction n with
  | zero =>
    intro root b rows hl _ _
    have : rows = [] := List.length_eq_zero_iff.mp hl
    subst this
    simp [writeRows]
  | succ n ih =>
    intro root b rows hl hrw hfit
    cases rows with
    | nil => simp at hl
    | cons r rs =>
      have hr : r.length = w := hrw r (by simp)
      have hrs : rs.length = n := by simpa using hl
      have hfit0 : off + b + n * s + w ≤ root.length := by simpa using hfit (by omega)
      have hstarts : (List.range (n + 1)).map (fun i => b + i * s) =
          b :: (List.range n).map (fun i => (b + s) + i * s) := by
        rw [List.range_succ_eq_map, List.map_cons, List.map_map]
        simp only [Nat.zero_mul, Nat.add_zero, List.cons.injEq, true_and]
        apply List.map_congr_left
        intro i _
        simp only [Function.comp, Nat.succ_mul]; omega
      rw [hstarts]
      simp only [writeRows]
      have hfit' : 0 < n → off + (b + s) + (n - 1) * s + w ≤ (setRun root (off + b) r).length := by
        intro hn
        rw [setRun_length]
        have : n * s = (n - 1) * s + s := by
          conv_lhs => rw [show n = (n - 1) + 1 by omega]
          rw [Nat.succ_mul]
        omega
      obtain ⟨i1, i2, i3⟩ := ih (setRun root (off + b) r) (b + s) rs hrs (fun q hq => hrw q (by simp [hq])) hfit'
      refine ⟨by rw [i1, setRun_length], ?_, ?_⟩
      · intro y x hy hx
        cases y with
        | zero =>
          have hnot : ∀ y' x', y' < n → x' < w → off + b + 0 * s + x ≠ off + (b + s) + y' * s + x' := by
            intro y' x' _ _; omega
          rw [i3 _ hnot]
          simp only [Nat.zero_mul, Nat.add_zero, List.getElem?_cons_zero, Option.bind_some]
          have hys : n * s ≥ 0 := Nat.zero_le _
          exact setRun_getElem?_inside root (off + b) r x (by omega) (by omega)
        | succ y =>
          have := i2 y x (by omega) hx
          rw [List.getElem?_cons_succ, ← this]
          congr 1
          rw [Nat.succ_mul]; omega
      · intro j hj
        have hnot : ∀ y' x', y' < n → x' < w → j ≠ off + (b + s) + y' * s + x' := by
          intro y' x' hy' hx'
          have := hj (y' + 1) x' (by omega) hx'
          rw [Nat.succ_mul] at this; omega
        rw [i3 j hnot]
        apply setRun_getElem?_outside
        by_contra hcon
        have := hj 0 (j - (off + b)) (by omega) (by omega)
        omega
/-! ### `Buf2::new_with` -/

/-- The `(x, y)` counters of `Buf2::new_with`'s closure walk the cells in row-major order. -/
theorem newWithSeq_spec (w : Nat) (hw : 0 < w) (f : Nat → Nat → α) :
    ∀ (n x y : Nat), x < w →
      newWithSeq w f n x y = (List.range n).map (fun k => f ((x + k) % w) (y + (x + k) / w)) := by
  intro n
  induction n with
  | zero => intro x y _; rfl
  | succ n ih =>
    intro x y hx
    rw [List.range_succ_eq_map, List.map_cons, List.map_map]
    simp only [newWithSeq, Nat.add_zero, Nat.mod_eq_of_lt hx, Nat.div_eq_of_lt hx]
    congr 1
    by_cases he : x + 1 = w
    · rw [if_pos he, ih 0 (y + 1) hw]
      apply List.map_congr_left
      intro k _
      simp only [Function.comp, Nat.zero_add]
      have e : x + (k + 1) = k + w := by omega
      rw [e, Nat.add_mod_right, Nat.add_div_right _ hw]
      congr 1; omega
    · rw [if_neg he, ih (x + 1) y (by omega)]
      apply List.map_congr_left
      intro k _
      simp only [Function.comp]
      rw [show x + 1 + k = x + (k + 1) by omega]
end

end Retro.Buf
