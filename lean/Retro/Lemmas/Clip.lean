/-
Helper lemmas for C03 (frustum clipping) over an arbitrary linearly ordered field.
-/
import Retro.Model.Clip
import Mathlib.Tactic.Linarith
import Mathlib.Tactic.Ring
import Mathlib.Tactic.FieldSimp
import Mathlib.Algebra.Order.Field.Basic

namespace Retro.Lemmas.Clip
open Retro Retro.Clip

variable {K : Type} [Field K] [LinearOrder K] [IsStrictOrderedRing K]

/-- signed distance is linear along an edge -/
theorem signedDist_lerp (p : Plane K) (a b : Vec4 K) (t : K) :
    signedDist p (lerpPos a b t) = lerp (signedDist p a) (signedDist p b) t := by
  simp only [signedDist, lerpPos, lerp, dot4]; ring

/-- the crossing parameter lies strictly between 0 and 1 when the distances have opposite signs -/
theorem crossT_mem (d0 d1 : K) (h : d0 * d1 < 0) : 0 < -d0 / (d1 - d0) ∧ -d0 / (d1 - d0) < 1 := by
  rcases lt_trichotomy d0 0 with h0 | h0 | h0
  · have h1 : 0 < d1 := by
      by_contra hc; rw [not_lt] at hc
      nlinarith [mul_nonneg_of_nonpos_of_nonpos h0.le hc]
    have hd : 0 < d1 - d0 := by linarith
    constructor
    · apply div_pos <;> linarith
    · rw [div_lt_one hd]; linarith
  · subst h0; simp at h
  · have h1 : d1 < 0 := by
      by_contra hc; rw [not_lt] at hc
      nlinarith [mul_nonneg h0.le hc]
    have hd : d1 - d0 < 0 := by linarith
    constructor
    · apply div_pos_of_neg_of_neg <;> linarith
    · rw [div_lt_one_of_neg hd]; linarith

/-- the inserted vertex lies exactly on the plane -/
theorem lerp_crossT (d0 d1 : K) (h : d0 * d1 < 0) : lerp d0 d1 (-d0 / (d1 - d0)) = 0 := by
  have hne : d1 - d0 ≠ 0 := by
    intro he
    have : d1 = d0 := by linarith
    subst this
    nlinarith [mul_self_nonneg d1]
  unfold lerp; field_simp; ring

/-- a convex combination of two non-positive numbers is non-positive -/
theorem lerp_nonpos (x y t : K) (hx : x ≤ 0) (hy : y ≤ 0) (h0 : 0 ≤ t) (h1 : t ≤ 1) : lerp x y t ≤ 0 := by
  unfold lerp
  nlinarith [mul_nonneg h0 (neg_nonneg.mpr hy), mul_nonneg (sub_nonneg.mpr h1) (neg_nonneg.mpr hx)]

end Retro.Lemmas.Clip

namespace Retro.Lemmas.Clip
open Retro Retro.Clip
variable {K : Type} [Field K] [LinearOrder K] [IsStrictOrderedRing K]

/-- The outcode as a function of the six signed distances. -/
def ocOf (d0 d1 d2 d3 d4 d5 : K) : Nat :=
  (((((0 + (if 0 < d0 then 1 else 0)) + (if 0 < d1 then 2 else 0)) + (if 0 < d2 then 4 else 0))
    + (if 0 < d3 then 8 else 0)) + (if 0 < d4 then 16 else 0)) + (if 0 < d5 then 32 else 0)

def P0 : Plane K := ⟨⟨0, 0, -1, -1⟩, 1⟩
def P1 : Plane K := ⟨⟨0, 0, 1, -1⟩, 2⟩
def P2 : Plane K := ⟨⟨-1, 0, 0, -1⟩, 4⟩
def P3 : Plane K := ⟨⟨1, 0, 0, -1⟩, 8⟩
def P4 : Plane K := ⟨⟨0, -1, 0, -1⟩, 16⟩
def P5 : Plane K := ⟨⟨0, 1, 0, -1⟩, 32⟩

theorem planes_eq : (planes : List (Plane K)) = [P0, P1, P2, P3, P4, P5] := rfl

theorem outcode_eq (v : Vec4 K) :
    outcodeOf planes v = ocOf (signedDist P0 v) (signedDist P1 v) (signedDist P2 v)
      (signedDist P3 v) (signedDist P4 v) (signedDist P5 v) := by
  simp only [planes_eq, outcodeOf, List.foldl_cons, List.foldl_nil, planeOutcode, ocOf, P0, P1, P2, P3, P4, P5]
  rfl

theorem ocOf_bit (d0 d1 d2 d3 d4 d5 : K) :
    ((1 &&& ocOf d0 d1 d2 d3 d4 d5 == 0) = true ↔ ¬ 0 < d0) ∧
    ((2 &&& ocOf d0 d1 d2 d3 d4 d5 == 0) = true ↔ ¬ 0 < d1) ∧
    ((4 &&& ocOf d0 d1 d2 d3 d4 d5 == 0) = true ↔ ¬ 0 < d2) ∧
    ((8 &&& ocOf d0 d1 d2 d3 d4 d5 == 0) = true ↔ ¬ 0 < d3) ∧
    ((16 &&& ocOf d0 d1 d2 d3 d4 d5 == 0) = true ↔ ¬ 0 < d4) ∧
    ((32 &&& ocOf d0 d1 d2 d3 d4 d5 == 0) = true ↔ ¬ 0 < d5) := by
  unfold ocOf
  by_cases h0 : 0 < d0 <;> by_cases h1 : 0 < d1 <;> by_cases h2 : 0 < d2 <;>
  by_cases h3 : 0 < d3 <;> by_cases h4 : 0 < d4 <;> by_cases h5 : 0 < d5 <;>
  simp only [h0, h1, h2, h3, h4, h5, if_true, if_false] <;> decide

theorem ocOf_eq_zero (d0 d1 d2 d3 d4 d5 : K) :
    ocOf d0 d1 d2 d3 d4 d5 = 0 ↔ (d0 ≤ 0 ∧ d1 ≤ 0 ∧ d2 ≤ 0 ∧ d3 ≤ 0 ∧ d4 ≤ 0 ∧ d5 ≤ 0) := by
  unfold ocOf
  by_cases h0 : 0 < d0 <;> by_cases h1 : 0 < d1 <;> by_cases h2 : 0 < d2 <;>
  by_cases h3 : 0 < d3 <;> by_cases h4 : 0 < d4 <;> by_cases h5 : 0 < d5 <;>
  simp only [h0, h1, h2, h3, h4, h5, if_true, if_false] <;> simp_all [not_lt]

end Retro.Lemmas.Clip

namespace Retro.Lemmas.Clip
open Retro Retro.Clip
variable {K : Type} [Field K] [LinearOrder K] [IsStrictOrderedRing K]

/-- A clip vertex whose stored outcode is the outcode of its position (what `ClipVert::new` builds). -/
def WF (v : ClipVert K) : Prop := v.oc = outcodeOf planes v.pos

theorem mkVert_wf (pos : Vec4 K) (attr : List K) : WF (mkVert pos attr) := rfl

theorem mem_planes (p : Plane K) (hp : p ∈ (planes : List (Plane K))) :
    p = P0 ∨ p = P1 ∨ p = P2 ∨ p = P3 ∨ p = P4 ∨ p = P5 := by
  rw [planes_eq] at hp
  simpa using hp

/-- For a well-formed vertex, the stored-outcode test is the geometric test `d ≤ 0`. -/
theorem isInside_iff (p : Plane K) (hp : p ∈ (planes : List (Plane K))) (v : ClipVert K) (hwf : WF v) :
    isInside p v = true ↔ signedDist p v.pos ≤ 0 := by
  unfold isInside
  rw [hwf, outcode_eq, ← not_lt]
  obtain ⟨h0, h1, h2, h3, h4, h5⟩ := ocOf_bit (signedDist P0 v.pos) (signedDist P1 v.pos)
    (signedDist P2 v.pos) (signedDist P3 v.pos) (signedDist P4 v.pos) (signedDist P5 v.pos)
  rcases mem_planes p hp with rfl | rfl | rfl | rfl | rfl | rfl
  · exact h0
  · exact h1
  · exact h2
  · exact h3
  · exact h4
  · exact h5

theorem wf_oc_zero_iff (v : ClipVert K) (hwf : WF v) :
    v.oc = 0 ↔ ∀ p ∈ (planes : List (Plane K)), signedDist p v.pos ≤ 0 := by
  rw [hwf, outcode_eq, ocOf_eq_zero, planes_eq]
  simp only [List.mem_cons, List.mem_nil_iff, or_false, forall_eq_or_imp, forall_eq]

/-! ### Membership structure of the per-plane clip -/

theorem mem_clipEdge (p : Plane K) (v0 v1 u : ClipVert K) (h : u ∈ clipEdge p v0 v1) :
    (u = v0 ∧ isInside p v0 = true) ∨
    (u = crossing p v0 v1 ∧ signedDist p v0.pos * signedDist p v1.pos < 0) := by
  unfold clipEdge at h
  simp only at h
  by_cases hi : isInside p v0 = true <;> by_cases hc : signedDist p v0.pos * signedDist p v1.pos < 0 <;>
    simp [hi, hc] at h
  · rcases h with rfl | rfl
    · exact Or.inl ⟨rfl, hi⟩
    · exact Or.inr ⟨rfl, hc⟩
  · exact Or.inl ⟨h, hi⟩
  · exact Or.inr ⟨h, hc⟩

theorem mem_clipEdges (p : Plane K) (first : ClipVert K) (vs : List (ClipVert K)) (u : ClipVert K)
    (h : u ∈ clipEdges p first vs) :
    ∃ v0 ∈ vs, ∃ v1 ∈ first :: vs, u ∈ clipEdge p v0 v1 := by
  induction vs with
  | nil => simp [clipEdges] at h
  | cons v rest ih =>
    cases rest with
    | nil =>
      simp only [clipEdges] at h
      exact ⟨v, by simp, first, by simp, h⟩
    | cons w rest' =>
      simp only [clipEdges, List.mem_append] at h
      rcases h with h | h
      · exact ⟨v, by simp, w, by simp, h⟩
      · obtain ⟨v0, hv0, v1, hv1, hu⟩ := ih h
        refine ⟨v0, List.mem_cons_of_mem _ hv0, v1, ?_, hu⟩
        simp only [List.mem_cons] at hv1 ⊢
        rcases hv1 with h | h | h
        · exact Or.inl h
        · exact Or.inr (Or.inr (Or.inl h))
        · exact Or.inr (Or.inr (Or.inr h))

theorem mem_clipPlane (p : Plane K) (vs : List (ClipVert K)) (u : ClipVert K) (h : u ∈ clipPlane p vs) :
    ∃ v0 ∈ vs, ∃ v1 ∈ vs, u ∈ clipEdge p v0 v1 := by
  cases vs with
  | nil => simp [clipPlane] at h
  | cons v rest =>
    simp only [clipPlane] at h
    obtain ⟨v0, hv0, v1, hv1, hu⟩ := mem_clipEdges p v (v :: rest) u h
    refine ⟨v0, hv0, v1, ?_, hu⟩
    simp only [List.mem_cons] at hv1 ⊢
    rcases hv1 with h | h | h
    · exact Or.inl h
    · exact Or.inl h
    · exact Or.inr h

/-- Any predicate closed under edge crossings is preserved by a per-plane clip. -/
theorem clipPlane_preserves (Q : ClipVert K → Prop) (p : Plane K)
    (hQ : ∀ v0 v1, Q v0 → Q v1 → signedDist p v0.pos * signedDist p v1.pos < 0 → Q (crossing p v0 v1))
    (vs : List (ClipVert K)) (hvs : ∀ v ∈ vs, Q v) : ∀ u ∈ clipPlane p vs, Q u := by
  intro u hu
  obtain ⟨v0, hv0, v1, hv1, hu⟩ := mem_clipPlane p vs u hu
  rcases mem_clipEdge p v0 v1 u hu with ⟨rfl, _⟩ | ⟨rfl, hc⟩
  · exact hvs _ hv0
  · exact hQ v0 v1 (hvs _ hv0) (hvs _ hv1) hc

/-- After clipping against `p`, every vertex is on the inside of `p`. -/
theorem clipPlane_inside (p : Plane K) (hp : p ∈ (planes : List (Plane K))) (vs : List (ClipVert K))
    (hwf : ∀ v ∈ vs, WF v) : ∀ u ∈ clipPlane p vs, signedDist p u.pos ≤ 0 := by
  intro u hu
  obtain ⟨v0, hv0, v1, _, hu⟩ := mem_clipPlane p vs u hu
  rcases mem_clipEdge p v0 v1 u hu with ⟨rfl, hi⟩ | ⟨rfl, hc⟩
  · exact (isInside_iff p hp _ (hwf _ hv0)).mp hi
  · simp only [crossing, mkVert]
    rw [signedDist_lerp, lerp_crossT _ _ hc]

/-- Being inside another plane `q` is preserved: the new vertex is a convex combination. -/
theorem crossing_inside (p q : Plane K) (v0 v1 : ClipVert K)
    (h0 : signedDist q v0.pos ≤ 0) (h1 : signedDist q v1.pos ≤ 0)
    (hc : signedDist p v0.pos * signedDist p v1.pos < 0) :
    signedDist q (crossing p v0 v1).pos ≤ 0 := by
  simp only [crossing, mkVert]
  rw [signedDist_lerp]
  obtain ⟨ht0, ht1⟩ := crossT_mem _ _ hc
  exact lerp_nonpos _ _ _ h0 h1 ht0.le ht1.le

/-- The plane loop as a plain fold. -/
def clipAll (ps : List (Plane K)) (vs : List (ClipVert K)) : List (ClipVert K) :=
  ps.foldl (fun acc p => clipPlane p acc) vs

theorem clipAll_nil_right (ps : List (Plane K)) : clipAll ps ([] : List (ClipVert K)) = [] := by
  induction ps with
  | nil => rfl
  | cons p ps ih => simpa [clipAll, clipPlane] using ih

/-- The early `break` of clip.rs:275 does not change the result. -/
theorem clipPolygon_eq (ps : List (Plane K)) (vs : List (ClipVert K)) :
    clipPolygon ps vs = if ps = [] then [] else clipAll ps vs := by
  induction ps generalizing vs with
  | nil => simp [clipPolygon]
  | cons p ps ih =>
    cases ps with
    | nil => simp [clipPolygon, clipAll]
    | cons q ps' =>
      simp only [clipPolygon]
      by_cases he : (clipPlane p vs).isEmpty
      · have : clipPlane p vs = [] := List.isEmpty_iff.mp he
        simp [he, clipAll, this]
        have := clipAll_nil_right (K := K) (q :: ps')
        simpa [clipAll, clipPlane] using this.symm
      · simp only [he, Bool.false_eq_true, if_false]
        rw [ih]
        simp [clipAll]

end Retro.Lemmas.Clip
