/-
C15 helper (general closedness, all counts): the fan of a pole – an apex point `P` joined to
every edge of a ring – and the fillers of a band (polygon fans, apex fans).
-/
import Retro.Lemmas.ClosedBand

namespace Retro.Cyl
open Retro.Surface

/-- Edges of the triangles `(P, (r,i), (r,i+1))`, `i < S`. -/
def apexFwd (P : V) (r S : Nat) : List (V × V) :=
  (List.range S).flatMap fun i => [(P, (r, i)), ((r, i), (r, sm S i)), ((r, sm S i), P)]

/-- Edges of the triangles `((r,i), P, (r,i+1))`, `i < S`. -/
def apexBwd (P : V) (r S : Nat) : List (V × V) :=
  (List.range S).flatMap fun i => [((r, i), P), (P, (r, sm S i)), ((r, sm S i), (r, i))]

theorem mem_apexFwd {P : V} {r S : Nat} {e : V × V} :
    e ∈ apexFwd P r S ↔ ∃ i, i < S ∧
      (e = (P, (r, i)) ∨ e = ((r, i), (r, sm S i)) ∨ e = ((r, sm S i), P)) := by
  simp [apexFwd, List.mem_flatMap, List.mem_range]

theorem mem_apexBwd {P : V} {r S : Nat} {e : V × V} : e ∈ apexBwd P r S ↔ (e.2, e.1) ∈ apexFwd P r S := by
  obtain ⟨a, b⟩ := e
  simp only [apexBwd, List.mem_flatMap, List.mem_range, List.mem_cons, List.mem_nil_iff, or_false,
    Prod.mk.injEq, mem_apexFwd]
  constructor
  · rintro ⟨i, hi, h | h | h⟩
    · exact ⟨i, hi, Or.inl ⟨h.2, h.1⟩⟩
    · exact ⟨i, hi, Or.inr (Or.inr ⟨h.2, h.1⟩)⟩
    · exact ⟨i, hi, Or.inr (Or.inl ⟨h.2, h.1⟩)⟩
  · rintro ⟨i, hi, h | h | h⟩
    · exact ⟨i, hi, Or.inl ⟨h.2, h.1⟩⟩
    · exact ⟨i, hi, Or.inr (Or.inr ⟨h.2, h.1⟩)⟩
    · exact ⟨i, hi, Or.inr (Or.inl ⟨h.2, h.1⟩)⟩

def apexKey (P : V) (S : Nat) (e : V × V) : Nat :=
  if e.1 = P then e.2.2 else if e.2 = P then pm S e.1.2 else e.1.2

theorem apexFwd_nodup {P : V} {r S : Nat} (hP : P.1 ≠ r) (hS : 3 ≤ S) : (apexFwd P r S).Nodup := by
  have hne : ∀ i, (r, i) ≠ P := fun i h => hP (by rw [← h])
  refine nodup_flatMap_of_key _ _ (apexKey P S) List.nodup_range ?_ ?_
  · intro i _
    have h1 : sm S i ≠ i := sm_ne (by omega)
    have n1 : (P, (r, i)) ≠ ((r, i), (r, sm S i)) := fun h => hne i (Prod.mk.inj h).1.symm
    have n2 : (P, (r, i)) ≠ ((r, sm S i), P) := fun h => hne _ (Prod.mk.inj h).1.symm
    have n3 : ((r, i), (r, sm S i)) ≠ ((r, sm S i), P) := fun h => hne _ (Prod.mk.inj h).2
    simp [n1, n2, n3]
  · intro i _ e he
    simp only [List.mem_cons, List.mem_nil_iff, or_false] at he
    rcases he with rfl | rfl | rfl
    · simp [apexKey]
    · simp [apexKey, hne]
    · simp [apexKey, hne, pm_sm (S := S) (i := i) (by omega)]

end Retro.Cyl

namespace Retro.Cyl
open Retro.Surface

theorem apexFwd_has {P : V} {r S i : Nat} (hi : i < S) : fwd S r i ∈ apexFwd P r S :=
  mem_apexFwd.mpr ⟨i, hi, Or.inr (Or.inl rfl)⟩

theorem apexFwd_paired {P : V} {r S : Nat} (hS : 3 ≤ S) {e : V × V} (he : e ∈ apexFwd P r S) :
    (e.2, e.1) ∈ apexFwd P r S ∨ ∃ i, i < S ∧ e = fwd S r i := by
  obtain ⟨i, hi, h | h | h⟩ := mem_apexFwd.mp he <;> subst h
  · refine Or.inl (mem_apexFwd.mpr ⟨pm S i, pm_lt hi, Or.inr (Or.inr ?_)⟩)
    simp [sm_pm (S := S) (by omega) hi]
  · exact Or.inr ⟨i, hi, rfl⟩
  · exact Or.inl (mem_apexFwd.mpr ⟨sm S i, sm_lt hi, Or.inl rfl⟩)

theorem apexFwd_no_bwd {P : V} {r S : Nat} (hP : P.1 ≠ r) (hS : 3 ≤ S) (i : Nat) :
    bwd S r i ∉ apexFwd P r S := by
  intro h
  obtain ⟨k, _, h | h | h⟩ := mem_apexFwd.mp h <;> simp only [bwd, Prod.mk.injEq] at h
  · exact hP (by rw [← h.1])
  · obtain ⟨⟨_, h1⟩, _, h2⟩ := h
    subst h1
    exact sm_sm_ne hS h2.symm
  · exact hP (by rw [← h.2])

/-- An apex fan whose apex row lies outside the band's rows shares only ring edges with the band. -/
theorem apexFwd_sep {P : V} {r lo cnt S : Nat} (hP : P.1 < lo ∨ lo + cnt < P.1) {e : V × V}
    (he : e ∈ apexFwd P r S) (hb : e ∈ bandEdges lo cnt S) : onRing r e := by
  have hr := band_rows hb
  obtain ⟨i, _, h | h | h⟩ := mem_apexFwd.mp he <;> subst h
  · simp only at hr; omega
  · exact ⟨rfl, rfl⟩
  · simp only at hr; omega

theorem fillLo_apex {P : V} {lo cnt S : Nat} (hS : 3 ≤ S) (hP : P.1 < lo ∨ lo + cnt < P.1) :
    FillLo S lo (bandEdges lo cnt S) (apexFwd P lo S) where
  nodup := apexFwd_nodup (by omega) hS
  has := fun _ hi => apexFwd_has hi
  paired := fun _ he => apexFwd_paired hS he
  no_bwd := apexFwd_no_bwd (by omega) hS
  sep := fun _ he hb => apexFwd_sep hP he hb

theorem fillLo_fan {lo cnt S : Nat} (hS : 3 ≤ S) :
    FillLo S lo (bandEdges lo cnt S) (fanFwd lo S) where
  nodup := fanFwd_nodup lo S
  has := fun _ hi => fanFwd_boundary hS hi
  paired := fun _ he => fanFwd_paired he
  no_bwd := fun _ => fanFwd_no_backward hS
  sep := fun _ he _ => fanFwd_onRing he

end Retro.Cyl

namespace Retro.Cyl
open Retro.Surface

def apexKeyB (P : V) (S : Nat) (e : V × V) : Nat :=
  if e.2 = P then e.1.2 else if e.1 = P then pm S e.2.2 else e.2.2

theorem apexBwd_nodup {P : V} {r S : Nat} (hP : P.1 ≠ r) (hS : 3 ≤ S) : (apexBwd P r S).Nodup := by
  have hne : ∀ i, (r, i) ≠ P := fun i h => hP (by rw [← h])
  refine nodup_flatMap_of_key _ _ (apexKeyB P S) List.nodup_range ?_ ?_
  · intro i _
    have h1 : sm S i ≠ i := sm_ne (by omega)
    have n1 : ((r, i), P) ≠ (P, (r, sm S i)) := fun h => hne i (Prod.mk.inj h).1
    have n2 : ((r, i), P) ≠ ((r, sm S i), (r, i)) := fun h => hne i (Prod.mk.inj h).2.symm
    have n3 : (P, (r, sm S i)) ≠ ((r, sm S i), (r, i)) := fun h => hne _ (Prod.mk.inj h).1.symm
    simp [n1, n2, n3]
  · intro i _ e he
    simp only [List.mem_cons, List.mem_nil_iff, or_false] at he
    rcases he with rfl | rfl | rfl
    · simp [apexKeyB]
    · simp [apexKeyB, hne, pm_sm (S := S) (i := i) (by omega)]
    · simp [apexKeyB, hne]

/-- A list whose edges are the reverses of a lower filler's edges is an upper filler. -/
theorem fillHi_of_swap {S r : Nat} {B G T : List (V × V)} (hmem : ∀ e, e ∈ T ↔ (e.2, e.1) ∈ G)
    (hTn : T.Nodup) (hhas : ∀ i, i < S → fwd S r i ∈ G)
    (hpaired : ∀ e ∈ G, (e.2, e.1) ∈ G ∨ ∃ i, i < S ∧ e = fwd S r i)
    (hnob : ∀ i, bwd S r i ∉ G) (hsep : ∀ e ∈ T, e ∈ B → onRing r e) : FillHi S r B T where
  nodup := hTn
  has := fun i hi => (hmem _).mpr (hhas i hi)
  paired := by
    intro e he
    rcases hpaired _ ((hmem e).mp he) with h | ⟨i, hi, h⟩
    · exact Or.inl ((hmem _).mpr h)
    · refine Or.inr ⟨i, hi, ?_⟩
      simp only [fwd, Prod.mk.injEq] at h
      exact Prod.ext h.2 h.1
  no_fwd := fun i h => hnob i ((hmem _).mp h)
  sep := hsep

theorem fillHi_fan {lo cnt S : Nat} (hS : 3 ≤ S) :
    FillHi S (lo + cnt) (bandEdges lo cnt S) (fanBwd (lo + cnt) S) :=
  fillHi_of_swap (fun _ => mem_fanBwd) (fanBwd_nodup _ S) (fun _ hi => fanFwd_boundary hS hi)
    (fun _ he => fanFwd_paired he) (fun _ => fanFwd_no_backward hS)
    (fun e he _ => by
      have := fanFwd_onRing (mem_fanBwd.mp he)
      exact ⟨this.2, this.1⟩)

theorem fillHi_apex {P : V} {lo cnt S : Nat} (hS : 3 ≤ S) (hP : P.1 < lo ∨ lo + cnt < P.1) :
    FillHi S (lo + cnt) (bandEdges lo cnt S) (apexBwd P (lo + cnt) S) :=
  fillHi_of_swap (fun _ => mem_apexBwd) (apexBwd_nodup (by omega) hS) (fun _ hi => apexFwd_has hi)
    (fun _ he => apexFwd_paired hS he) (apexFwd_no_bwd (by omega) hS)
    (fun e he hb => by
      have hr := band_rows hb
      obtain ⟨i, _, h | h | h⟩ := mem_apexFwd.mp (mem_apexBwd.mp he)
      · simp only [Prod.mk.injEq] at h; have : e.2.1 = P.1 := by rw [h.1]
        omega
      · simp only [Prod.mk.injEq] at h
        exact ⟨by rw [h.2], by rw [h.1]⟩
      · simp only [Prod.mk.injEq] at h; have : e.1.1 = P.1 := by rw [h.2]
        omega)

end Retro.Cyl
