/-
C15 helper (general closedness, all counts): a band of quad rows `lo .. lo+cnt−1` (rings
`lo .. lo+cnt`) – the side surface shifted – with the facts of ClosedCyl transferred.
-/
import Retro.Lemmas.ClosedFan

namespace Retro.Cyl
open Retro.Surface

def shift (lo : Nat) (v : V) : V := (v.1 + lo, v.2)

/-- Directed edges of the quad rows `lo ≤ j < lo + cnt`. -/
def bandEdges (lo cnt S : Nat) : List (V × V) := mapEdges (shift lo) (sideEdges cnt S)

/-- forward / backward polygon edge of ring `r` -/
def fwd (S r i : Nat) : V × V := ((r, i), (r, sm S i))
def bwd (S r i : Nat) : V × V := ((r, sm S i), (r, i))

theorem mem_band {lo cnt S : Nat} {e : V × V} :
    e ∈ bandEdges lo cnt S ↔ ∃ e0 ∈ sideEdges cnt S, e = (shift lo e0.1, shift lo e0.2) := by
  unfold bandEdges mapEdges
  rw [List.mem_map]
  constructor
  · rintro ⟨e0, h, rfl⟩; exact ⟨e0, h, rfl⟩
  · rintro ⟨e0, h, rfl⟩; exact ⟨e0, h, rfl⟩

theorem shift_inj (lo : Nat) (x y : V) (h : shift lo x = shift lo y) : x = y := by
  obtain ⟨a, b⟩ := x; obtain ⟨c, d⟩ := y
  simp only [shift, Prod.mk.injEq] at h
  exact Prod.ext (by simp; omega) (by simp; omega)

theorem band_nodup (lo cnt : Nat) {S : Nat} (hS : 3 ≤ S) : (bandEdges lo cnt S).Nodup :=
  closedG_map_nodup (shift lo) (fun _ => True) _ (fun x y _ _ => shift_inj lo x y)
    (fun _ _ => ⟨trivial, trivial⟩) (sideEdges_nodup cnt hS)

theorem band_rows {lo cnt S : Nat} {e : V × V} (he : e ∈ bandEdges lo cnt S) :
    (lo ≤ e.1.1 ∧ e.1.1 ≤ lo + cnt) ∧ (lo ≤ e.2.1 ∧ e.2.1 ≤ lo + cnt) := by
  obtain ⟨e0, he0, rfl⟩ := mem_band.mp he
  obtain ⟨j, hj, i, _, hq⟩ := mem_sideEdges.mp he0
  simp only [quadEdges, List.mem_cons, List.mem_nil_iff, or_false] at hq
  rcases hq with rfl | rfl | rfl | rfl | rfl | rfl <;> simp [shift] <;> omega

theorem band_paired {lo cnt S : Nat} (hS : 3 ≤ S) {e : V × V} (he : e ∈ bandEdges lo cnt S) :
    (e.2, e.1) ∈ bandEdges lo cnt S ↔ ¬ (onRing lo e ∨ onRing (lo + cnt) e) := by
  obtain ⟨e0, he0, rfl⟩ := mem_band.mp he
  have h1 : ((shift lo e0.2, shift lo e0.1) ∈ bandEdges lo cnt S) ↔ (e0.2, e0.1) ∈ sideEdges cnt S := by
    rw [mem_band]
    constructor
    · rintro ⟨x, hx, hxe⟩
      simp only [Prod.mk.injEq] at hxe
      have a1 : x.1 = e0.2 := (shift_inj lo _ _ hxe.1).symm
      have a2 : x.2 = e0.1 := (shift_inj lo _ _ hxe.2).symm
      have : x = (e0.2, e0.1) := Prod.ext a1 a2
      rw [← this]; exact hx
    · intro h; exact ⟨(e0.2, e0.1), h, rfl⟩
  have h2 : ∀ r, onRing (r + lo) (shift lo e0.1, shift lo e0.2) ↔ onRing r e0 := by
    intro r; simp only [onRing, shift]; omega
  rw [h1, side_paired hS he0, Nat.add_comm lo cnt, ← h2 0, ← h2 cnt, Nat.zero_add]

theorem band_ringLo {lo cnt S : Nat} {e : V × V} (he : e ∈ bandEdges lo cnt S) (h : onRing lo e) :
    ∃ i, i < S ∧ e = bwd S lo i := by
  obtain ⟨e0, he0, rfl⟩ := mem_band.mp he
  have h0 : onRing 0 e0 := by simp only [onRing, shift] at h ⊢; omega
  obtain ⟨i, hi, rfl⟩ := side_ring0 he0 h0
  exact ⟨i, hi, by simp [bwd, shift]⟩

theorem band_ringHi {lo cnt S : Nat} {e : V × V} (he : e ∈ bandEdges lo cnt S) (h : onRing (lo + cnt) e) :
    ∃ i, i < S ∧ e = fwd S (lo + cnt) i := by
  obtain ⟨e0, he0, rfl⟩ := mem_band.mp he
  have h0 : onRing cnt e0 := by simp only [onRing, shift] at h ⊢; omega
  obtain ⟨i, hi, rfl⟩ := side_ringR he0 h0
  exact ⟨i, hi, by simp [fwd, shift, Nat.add_comm]⟩

/-- The lowest ring's backward edges and the highest ring's forward edges are band edges. -/
theorem band_has_bwd {lo cnt S i : Nat} (hc : 1 ≤ cnt) (hi : i < S) : bwd S lo i ∈ bandEdges lo cnt S :=
  mem_band.mpr ⟨((0, sm S i), (0, i)), quad_mem_side (j := 0) (by omega) hi (by simp [quadEdges]),
    by simp [bwd, shift]⟩

theorem band_has_fwd {lo cnt S i : Nat} (hc : 1 ≤ cnt) (hi : i < S) :
    fwd S (lo + cnt) i ∈ bandEdges lo cnt S := by
  refine mem_band.mpr ⟨((cnt, i), (cnt, sm S i)), quad_mem_side (j := cnt - 1) (by omega) hi ?_, by
    simp [fwd, shift, Nat.add_comm]⟩
  have : cnt - 1 + 1 = cnt := by omega
  simp [quadEdges, this]

end Retro.Cyl

namespace Retro.Cyl
open Retro.Surface

/-- `F` fills the lowest ring `r` of the band `B`: it contains the ring's forward polygon edges
(the reverses of the band's boundary there), is otherwise paired within itself, and shares no edge
with the band. -/
structure FillLo (S r : Nat) (B F : List (V × V)) : Prop where
  nodup : F.Nodup
  has : ∀ i, i < S → fwd S r i ∈ F
  paired : ∀ e ∈ F, (e.2, e.1) ∈ F ∨ ∃ i, i < S ∧ e = fwd S r i
  no_bwd : ∀ i, bwd S r i ∉ F
  sep : ∀ e ∈ F, e ∈ B → onRing r e

/-- `T` fills the highest ring `r` of the band `B` (orientation reversed). -/
structure FillHi (S r : Nat) (B T : List (V × V)) : Prop where
  nodup : T.Nodup
  has : ∀ i, i < S → bwd S r i ∈ T
  paired : ∀ e ∈ T, (e.2, e.1) ∈ T ∨ ∃ i, i < S ∧ e = bwd S r i
  no_fwd : ∀ i, fwd S r i ∉ T
  sep : ∀ e ∈ T, e ∈ B → onRing r e

/-- **Band + two fillers is closed**, any number of rows (also none), `S ≥ 3`. -/
theorem band_closed {lo cnt S : Nat} (hS : 3 ≤ S) {F T : List (V × V)}
    (hF : FillLo S lo (bandEdges lo cnt S) F) (hT : FillHi S (lo + cnt) (bandEdges lo cnt S) T)
    (hFT : ∀ e ∈ F, e ∉ T) : ClosedG (bandEdges lo cnt S ++ (F ++ T)) := by
  constructor
  · rw [List.nodup_append]
    refine ⟨band_nodup lo cnt hS, ?_, ?_⟩
    · rw [List.nodup_append]
      exact ⟨hF.nodup, hT.nodup, fun a ha b hb hab => hFT a ha (hab ▸ hb)⟩
    · intro a ha b hb hab
      subst hab
      rw [List.mem_append] at hb
      rcases hb with hb | hb
      · obtain ⟨i, _, rfl⟩ := band_ringLo ha (hF.sep a hb ha)
        exact hF.no_bwd i hb
      · obtain ⟨i, _, rfl⟩ := band_ringHi ha (hT.sep a hb ha)
        exact hT.no_fwd i hb
  · intro e he
    simp only [List.mem_append] at he ⊢
    rcases he with he | he | he
    · by_cases hb : onRing lo e ∨ onRing (lo + cnt) e
      · rcases hb with hb | hb
        · obtain ⟨i, hi, rfl⟩ := band_ringLo he hb
          exact Or.inr (Or.inl (hF.has i hi))
        · obtain ⟨i, hi, rfl⟩ := band_ringHi he hb
          exact Or.inr (Or.inr (hT.has i hi))
      · exact Or.inl ((band_paired hS he).mpr hb)
    · rcases hF.paired e he with h | ⟨i, hi, rfl⟩
      · exact Or.inr (Or.inl h)
      · by_cases hc : 1 ≤ cnt
        · exact Or.inl (band_has_bwd hc hi)
        · have : cnt = 0 := by omega
          subst this
          exact Or.inr (Or.inr (hT.has i hi))
    · rcases hT.paired e he with h | ⟨i, hi, rfl⟩
      · exact Or.inr (Or.inr h)
      · by_cases hc : 1 ≤ cnt
        · exact Or.inl (band_has_fwd hc hi)
        · have : cnt = 0 := by omega
          subst this
          exact Or.inr (Or.inl (hF.has i hi))

end Retro.Cyl
