/-
C15 helper (general closedness, all counts): list lemmas and the polymorphic form of
"closed and consistently wound".
-/
import Retro.Spec.Surface

namespace Retro.Surface

/-- `ClosedOriented` for an arbitrary vertex type. -/
structure ClosedG {α : Type} (edges : List (α × α)) : Prop where
  nodup : edges.Nodup
  paired : ∀ e ∈ edges, (e.2, e.1) ∈ edges

/-- A `flatMap` has no duplicates if a key function recovers the generating element. -/
theorem nodup_flatMap_of_key {α β : Type} (l : List α) (f : α → List β) (g : β → α)
    (hl : l.Nodup) (hf : ∀ x ∈ l, (f x).Nodup) (hg : ∀ x ∈ l, ∀ y ∈ f x, g y = x) :
    (l.flatMap f).Nodup := by
  induction l with
  | nil => simp
  | cons x xs ih =>
    rw [List.nodup_cons] at hl
    rw [List.flatMap_cons, List.nodup_append]
    refine ⟨hf x (by simp), ih hl.2 (fun y hy => hf y (by simp [hy]))
      (fun y hy => hg y (by simp [hy])), ?_⟩
    intro a ha b hb hab
    subst hab
    rw [List.mem_flatMap] at hb
    obtain ⟨x', hx', hax'⟩ := hb
    have h1 := hg x (by simp) a ha
    have h2 := hg x' (by simp [hx']) a hax'
    rw [h1] at h2
    subst h2
    exact hl.1 hx'

theorem flatMap_congr' {α β : Type} (l : List α) (f g : α → List β) (h : ∀ x ∈ l, f x = g x) :
    l.flatMap f = l.flatMap g := by
  induction l with
  | nil => rfl
  | cons x xs ih =>
    rw [List.flatMap_cons, List.flatMap_cons, h x (by simp), ih (fun y hy => h y (by simp [hy]))]

theorem nodup_map_on {α β : Type} (f : α → β) (l : List α)
    (hinj : ∀ a ∈ l, ∀ b ∈ l, f a = f b → a = b) (h : l.Nodup) : (l.map f).Nodup := by
  induction l with
  | nil => simp
  | cons x xs ih =>
    rw [List.nodup_cons] at h
    rw [List.map_cons, List.nodup_cons]
    refine ⟨?_, ih (fun a ha b hb => hinj a (by simp [ha]) b (by simp [hb])) h.2⟩
    intro hmem
    rw [List.mem_map] at hmem
    obtain ⟨y, hy, hfy⟩ := hmem
    have := hinj y (by simp [hy]) x (by simp) hfy
    subst this
    exact h.1 hy

/-- Image of an edge list under a vertex map. -/
def mapEdges {α β : Type} (f : α → β) (E : List (α × α)) : List (β × β) :=
  E.map fun e => (f e.1, f e.2)

/-- Closedness transfers along a vertex map that is injective on the vertices that occur. -/
theorem closedG_map {α β : Type} (f : α → β) (P : α → Prop) (E : List (α × α))
    (hinj : ∀ x y, P x → P y → f x = f y → x = y) (hP : ∀ e ∈ E, P e.1 ∧ P e.2)
    (h : ClosedG E) : ClosedG (mapEdges f E) := by
  constructor
  · unfold mapEdges
    refine nodup_map_on _ E ?_ h.nodup
    intro a ha b hb hab
    simp only [Prod.mk.injEq] at hab
    have h1 := hinj a.1 b.1 (hP a ha).1 (hP b hb).1 hab.1
    have h2 := hinj a.2 b.2 (hP a ha).2 (hP b hb).2 hab.2
    exact Prod.ext h1 h2
  · intro e he
    unfold mapEdges at he ⊢
    rw [List.mem_map] at he ⊢
    obtain ⟨e0, he0, rfl⟩ := he
    exact ⟨(e0.2, e0.1), h.paired e0 he0, rfl⟩

theorem closedG_map_nodup {α β : Type} (f : α → β) (P : α → Prop) (E : List (α × α))
    (hinj : ∀ x y, P x → P y → f x = f y → x = y) (hP : ∀ e ∈ E, P e.1 ∧ P e.2)
    (h : E.Nodup) : (mapEdges f E).Nodup := by
  unfold mapEdges
  refine nodup_map_on _ E ?_ h
  intro a ha b hb hab
  simp only [Prod.mk.injEq] at hab
  exact Prod.ext (hinj a.1 b.1 (hP a ha).1 (hP b hb).1 hab.1) (hinj a.2 b.2 (hP a ha).2 (hP b hb).2 hab.2)

theorem closedG_nat {E : List (Nat × Nat)} (h : ClosedG E) : ClosedOriented E := ⟨h.nodup, h.paired⟩

end Retro.Surface
