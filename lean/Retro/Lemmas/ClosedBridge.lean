/-
C15 helper (general closedness, all counts): the lathe index model (`Retro.Lathe`) after the
identification `ident` equals the coordinate surface of `Retro.Cyl` under the encoding
`(j, i) ↦ j·(secs+1) + i`.
-/
import Retro.Model.Lathe
import Retro.Lemmas.ClosedFan

namespace Retro.Lathe
open Retro.Surface Retro.Cyl

/-- vertex index of column `i` in ring `j` -/
def enc (secs : Nat) (v : Nat × Nat) : Nat := v.1 * (secs + 1) + v.2

theorem enc_inj (secs : Nat) (x y : Nat × Nat) (hx : x.2 < secs + 1) (hy : y.2 < secs + 1)
    (h : enc secs x = enc secs y) : x = y := by
  obtain ⟨a, b⟩ := x
  obtain ⟨c, d⟩ := y
  simp only [enc] at h hx hy
  have h1 : (a * (secs + 1) + b) / (secs + 1) = a := by
    rw [Nat.mul_comm, Nat.mul_add_div (by omega), Nat.div_eq_of_lt hx]; rfl
  have h2 : (c * (secs + 1) + d) / (secs + 1) = c := by
    rw [Nat.mul_comm, Nat.mul_add_div (by omega), Nat.div_eq_of_lt hy]; rfl
  have hac : a = c := by rw [← h1, ← h2, h]
  subst hac
  have : b = d := by omega
  subst this
  rfl

theorem div_enc {secs j i : Nat} (hi : i < secs + 1) : (j * (secs + 1) + i) / (secs + 1) = j := by
  rw [Nat.mul_comm, Nat.mul_add_div (by omega), Nat.div_eq_of_lt hi]; rfl

theorem mod_enc {secs j i : Nat} (hi : i < secs + 1) : (j * (secs + 1) + i) % (secs + 1) = i := by
  rw [Nat.mul_comm, Nat.mul_add_mod, Nat.mod_eq_of_lt hi]

/-- `i mod secs` for `i ≤ secs`, without `%`. -/
theorem mod_secs {secs i : Nat} (hs : 0 < secs) (hi : i ≤ secs) :
    i % secs = if i = secs then 0 else i := by
  split
  · rename_i h; subst h; exact Nat.mod_self _
  · exact Nat.mod_eq_of_lt (by omega)

/-- `ident` on a ring vertex with the plain seam closure: the column is reduced mod `secs`. -/
theorem ident_ring {np secs j i : Nat} (hs : 0 < secs) (hj : j < np) (hi : i ≤ secs) :
    ident np secs {} (j * (secs + 1) + i) = j * (secs + 1) + (if i = secs then 0 else i) := by
  have hlt : j * (secs + 1) + i < np * (secs + 1) := by
    have : (j + 1) * (secs + 1) ≤ np * (secs + 1) := Nat.mul_le_mul_right _ hj
    rw [Nat.add_mul, Nat.one_mul] at this
    omega
  unfold ident ringVertCount
  simp only [ge_iff_le, Nat.not_le.mpr hlt, if_false, Bool.false_and, Bool.or_self, if_true,
    Bool.false_eq_true]
  rw [div_enc (by omega), mod_enc (by omega), mod_secs hs hi]

end Retro.Lathe

namespace Retro.Lathe
open Retro.Surface Retro.Cyl

/-- `ident` on a bottom-cap vertex: the copy of column `k` of ring 0. -/
theorem ident_cap_bottom {np secs k : Nat} (hs : 0 < secs) (hk : k ≤ secs) :
    ident np secs {} (np * (secs + 1) + k) = 0 * (secs + 1) + (if k = secs then 0 else k) := by
  unfold ident ringVertCount capSource
  have h1 : np * (secs + 1) + k ≥ np * (secs + 1) := by omega
  have h2 : np * (secs + 1) + k - np * (secs + 1) = k := by omega
  simp only [h1, if_true, h2, show k < secs + 1 by omega, Bool.false_and, Bool.or_self,
    Bool.false_eq_true, if_false]
  have h3 : k / (secs + 1) = 0 := Nat.div_eq_of_lt (by omega)
  have h4 : k % (secs + 1) = k := Nat.mod_eq_of_lt (by omega)
  rw [h3, h4, mod_secs hs hk]

/-- `ident` on a top-cap vertex: the copy of column `k` of the last ring. -/
theorem ident_cap_top {np secs k : Nat} (hs : 0 < secs) (hn : 1 ≤ np) (hk : k ≤ secs) :
    ident np secs {} (np * (secs + 1) + (secs + 1) + k) =
      (np - 1) * (secs + 1) + (if k = secs then 0 else k) := by
  obtain ⟨m, rfl⟩ : ∃ m, np = m + 1 := ⟨np - 1, by omega⟩
  unfold ident ringVertCount capSource
  have h1 : (m + 1) * (secs + 1) + (secs + 1) + k ≥ (m + 1) * (secs + 1) := by omega
  have h2 : (m + 1) * (secs + 1) + (secs + 1) + k - (m + 1) * (secs + 1) = secs + 1 + k := by omega
  have h3 : ¬ (secs + 1 + k < secs + 1) := by omega
  have h4 : (m + 1) * (secs + 1) - (secs + 1) + (secs + 1 + k - (secs + 1)) = m * (secs + 1) + k := by
    rw [Nat.add_mul, Nat.one_mul]; omega
  simp only [ringVertCount, h1, if_true, h2, h3, if_false, h4, Bool.false_and, Bool.or_self,
    Bool.false_eq_true, Nat.add_sub_cancel]
  rw [div_enc (by omega), mod_enc (by omega), mod_secs hs hk]

end Retro.Lathe

namespace Retro.Lathe
open Retro.Surface Retro.Cyl

theorem dirEdges_map_flatMap {α : Type} (l : List α) (f : α → List Tri) (g : Tri → Tri) :
    dirEdges ((l.flatMap f).map g) = l.flatMap fun x => dirEdges ((f x).map g) := by
  induction l with
  | nil => rfl
  | cons x xs ih =>
    simp only [List.flatMap_cons, List.map_append, dirEdges, List.flatMap_append] at ih ⊢
    rw [ih]

theorem mapEdges_flatMap {α β γ : Type} (e : β → γ) (l : List α) (f : α → List (β × β)) :
    mapEdges e (l.flatMap f) = l.flatMap fun x => mapEdges e (f x) := by
  simp [mapEdges, List.map_flatMap]

/-- One quad of the model, after `ident`, is the coordinate quad under `enc`. -/
theorem quad_bridge {np secs j0 i0 : Nat} (hs : 0 < secs) (hj : j0 + 1 < np) (hi : i0 < secs) :
    (quadFaces (secs + 1) (j0 + 1) (i0 + 1)).map (mapTri (ident np secs {})) =
      [(enc secs (j0, i0), enc secs (j0 + 1, sm secs i0), enc secs (j0, sm secs i0)),
       (enc secs (j0, i0), enc secs (j0 + 1, i0), enc secs (j0 + 1, sm secs i0))] := by
  have e1 : j0 * (secs + 1) + (i0 + 1) - 1 = j0 * (secs + 1) + i0 := by omega
  have e2 : (j0 + 1 - 1) * (secs + 1) + (i0 + 1) = j0 * (secs + 1) + (i0 + 1) := by
    simp only [Nat.add_sub_cancel]
  have e3 : (j0 + 1) * (secs + 1) + (i0 + 1) - 1 = (j0 + 1) * (secs + 1) + i0 := by omega
  have p := ident_ring (np := np) (secs := secs) (j := j0) (i := i0) hs (by omega) (by omega)
  have q := ident_ring (np := np) (secs := secs) (j := j0) (i := i0 + 1) hs (by omega) (by omega)
  have r := ident_ring (np := np) (secs := secs) (j := j0 + 1) (i := i0) hs hj (by omega)
  have s := ident_ring (np := np) (secs := secs) (j := j0 + 1) (i := i0 + 1) hs hj (by omega)
  have hne : ¬ i0 = secs := by omega
  simp only [hne, if_false] at p r
  simp only [quadFaces, e2, e1, e3, List.map_cons, List.map_nil, mapTri, p, q, r, s, enc, sm]

end Retro.Lathe

namespace Retro.Lathe
open Retro.Surface Retro.Cyl

/-- Side surface of the model after `ident` = coordinate side surface under `enc` (edge lists equal). -/
theorem side_bridge {R secs : Nat} (hs : 0 < secs) :
    dirEdges ((sideFaces (R + 1) secs).map (mapTri (ident (R + 1) secs {}))) =
      mapEdges (enc secs) (sideEdges R secs) := by
  unfold sideFaces sideEdges rowEdges
  rw [Nat.add_sub_cancel, dirEdges_map_flatMap, mapEdges_flatMap]
  apply flatMap_congr'
  intro j0 hj0
  rw [List.mem_range] at hj0
  rw [dirEdges_map_flatMap, mapEdges_flatMap]
  apply flatMap_congr'
  intro i0 hi0
  rw [List.mem_range] at hi0
  rw [quad_bridge hs (by omega) hi0]
  simp [dirEdges, triEdges, mapEdges, quadEdges]

/-- All side faces stay non-degenerate after `ident` (needs at least two columns). -/
theorem side_nondegenerate {R secs : Nat} (hs : 2 ≤ secs) :
    ∀ t ∈ (sideFaces (R + 1) secs).map (mapTri (ident (R + 1) secs {})), nondegenerate t = true := by
  intro t ht
  unfold sideFaces at ht
  rw [Nat.add_sub_cancel, List.map_flatMap, List.mem_flatMap] at ht
  obtain ⟨j0, hj0, ht⟩ := ht
  rw [List.mem_range] at hj0
  rw [List.map_flatMap, List.mem_flatMap] at ht
  obtain ⟨i0, hi0, ht⟩ := ht
  rw [List.mem_range] at hi0
  rw [quad_bridge (by omega) (by omega) hi0] at ht
  have h1 : (j0 + 1) * (secs + 1) = j0 * (secs + 1) + (secs + 1) := by rw [Nat.add_mul, Nat.one_mul]
  have h2 : sm secs i0 < secs := sm_lt hi0
  have h3 : sm secs i0 ≠ i0 := sm_ne hs
  simp only [List.mem_cons, List.mem_nil_iff, or_false] at ht
  rcases ht with rfl | rfl <;> simp only [nondegenerate, enc, h1, bne_iff_ne, Bool.and_eq_true] <;>
    refine ⟨⟨?_, ?_⟩, ?_⟩ <;> omega

end Retro.Lathe
