/-
C15 helper (general closedness, all counts): the cap fans of the lathe model after `ident`.
-/
import Retro.Lemmas.ClosedBridge

namespace Retro.Lathe
open Retro.Surface Retro.Cyl

/-- Image of one bottom-cap face under `ident`. -/
theorem bottom_face_ident {np secs i0 : Nat} (hs : 0 < secs) (hi : i0 + 1 < secs) :
    mapTri (ident np secs {}) (np * (secs + 1), np * (secs + 1) + (i0 + 1), np * (secs + 1) + (i0 + 1) + 1) =
      (enc secs (0, 0), enc secs (0, i0 + 1), enc secs (0, if i0 + 2 = secs then 0 else i0 + 2)) := by
  have a := ident_cap_bottom (np := np) (secs := secs) (k := 0) hs (by omega)
  have b := ident_cap_bottom (np := np) (secs := secs) (k := i0 + 1) hs (by omega)
  have c := ident_cap_bottom (np := np) (secs := secs) (k := i0 + 2) hs (by omega)
  have e : np * (secs + 1) + (i0 + 1) + 1 = np * (secs + 1) + (i0 + 2) := by omega
  have h0 : ¬ (0 = secs) := by omega
  have h1 : ¬ (i0 + 1 = secs) := by omega
  simp only [Nat.add_zero, h0, h1, if_false] at a b
  simp only [mapTri, e, a, b, c, enc, Nat.add_zero]

/-- Image of one top-cap face under `ident`. -/
theorem top_face_ident {np secs i0 : Nat} (hs : 0 < secs) (hn : 1 ≤ np) (hi : i0 + 1 < secs) :
    mapTri (ident np secs {})
      (np * (secs + 1) + (secs + 1), np * (secs + 1) + (secs + 1) + (i0 + 1) + 1,
        np * (secs + 1) + (secs + 1) + (i0 + 1)) =
      (enc secs (np - 1, 0), enc secs (np - 1, if i0 + 2 = secs then 0 else i0 + 2),
        enc secs (np - 1, i0 + 1)) := by
  have a := ident_cap_top (np := np) (secs := secs) (k := 0) hs hn (by omega)
  have b := ident_cap_top (np := np) (secs := secs) (k := i0 + 1) hs hn (by omega)
  have c := ident_cap_top (np := np) (secs := secs) (k := i0 + 2) hs hn (by omega)
  have e : np * (secs + 1) + (secs + 1) + (i0 + 1) + 1 = np * (secs + 1) + (secs + 1) + (i0 + 2) := by omega
  have h0 : ¬ (0 = secs) := by omega
  have h1 : ¬ (i0 + 1 = secs) := by omega
  simp only [Nat.add_zero, h0, h1, if_false] at a b
  simp only [mapTri, e, a, b, c, enc, Nat.add_zero]

end Retro.Lathe

namespace Retro.Lathe
open Retro.Surface Retro.Cyl

/-- A list of `m + 1` faces whose first `m` are non-degenerate and whose last one is degenerate. -/
theorem cap_filter (m : Nat) (F G : Nat → Tri)
    (hG : ∀ k, k < m → F k = G k ∧ nondegenerate (G k) = true) (hlast : nondegenerate (F m) = false) :
    ((List.range (m + 1)).map F).filter nondegenerate = (List.range m).map G := by
  rw [List.range_succ, List.map_append, List.filter_append]
  have h1 : (List.map F (List.range m)) = List.map G (List.range m) :=
    List.map_congr_left (fun k hk => (hG k (List.mem_range.mp hk)).1)
  have h2 : List.filter nondegenerate (List.map G (List.range m)) = List.map G (List.range m) := by
    rw [List.filter_eq_self]
    intro t ht
    rw [List.mem_map] at ht
    obtain ⟨k, hk, rfl⟩ := ht
    exact (hG k (List.mem_range.mp hk)).2
  rw [h1, h2]
  simp [hlast]

theorem dirEdges_map_range (m : Nat) (G : Nat → Tri) :
    dirEdges ((List.range m).map G) = (List.range m).flatMap fun k => triEdges (G k) := by
  simp [dirEdges, List.flatMap_map]

/-- Bottom cap of the model after `ident`, degenerate last fan triangle dropped = forward fan on ring 0. -/
theorem bottom_bridge {np secs : Nat} (hs : 3 ≤ secs) :
    dirEdges (((bottomCap (np * (secs + 1)) secs).map (mapTri (ident np secs {}))).filter nondegenerate) =
      mapEdges (enc secs) (fanFwd 0 secs) := by
  obtain ⟨m, rfl⟩ : ∃ m, secs = m + 2 := ⟨secs - 2, by omega⟩
  unfold bottomCap
  rw [List.map_map, show m + 2 - 1 = m + 1 by omega]
  rw [cap_filter m _ (fun k => (enc (m + 2) (0, 0), enc (m + 2) (0, k + 1), enc (m + 2) (0, k + 2)))]
  · rw [dirEdges_map_range]
    unfold fanFwd
    rw [mapEdges_flatMap, show m + 2 - 2 = m by omega]
    apply flatMap_congr'
    intro k _
    simp [triEdges, mapEdges]
  · intro k hk
    have h := bottom_face_ident (np := np) (secs := m + 2) (i0 := k) (by omega) (by omega)
    have hne : ¬ (k + 2 = m + 2) := by omega
    simp only [hne, if_false] at h
    refine ⟨by simpa [Function.comp] using h, ?_⟩
    simp only [nondegenerate, enc, bne_iff_ne, Bool.and_eq_true]
    refine ⟨⟨?_, ?_⟩, ?_⟩ <;> omega
  · have h := bottom_face_ident (np := np) (secs := m + 2) (i0 := m) (by omega) (by omega)
    simp only [if_true] at h
    simp only [Function.comp, h, nondegenerate, enc]
    simp

end Retro.Lathe

namespace Retro.Lathe
open Retro.Surface Retro.Cyl

/-- Top cap of the model after `ident`, degenerate last fan triangle dropped = reversed fan on the last ring. -/
theorem top_bridge {np secs : Nat} (hs : 3 ≤ secs) (hn : 1 ≤ np) :
    dirEdges (((topCap (np * (secs + 1) + (secs + 1)) secs).map (mapTri (ident np secs {}))).filter
        nondegenerate) = mapEdges (enc secs) (fanBwd (np - 1) secs) := by
  obtain ⟨m, rfl⟩ : ∃ m, secs = m + 2 := ⟨secs - 2, by omega⟩
  unfold topCap
  rw [List.map_map, show m + 2 - 1 = m + 1 by omega]
  rw [cap_filter m _ (fun k => (enc (m + 2) (np - 1, 0), enc (m + 2) (np - 1, k + 2), enc (m + 2) (np - 1, k + 1)))]
  · rw [dirEdges_map_range]
    unfold fanBwd
    rw [mapEdges_flatMap, show m + 2 - 2 = m by omega]
    apply flatMap_congr'
    intro k _
    simp [triEdges, mapEdges]
  · intro k hk
    have h := top_face_ident (np := np) (secs := m + 2) (i0 := k) (by omega) hn (by omega)
    have hne : ¬ (k + 2 = m + 2) := by omega
    simp only [hne, if_false] at h
    refine ⟨by simpa [Function.comp] using h, ?_⟩
    simp only [nondegenerate, enc, bne_iff_ne, Bool.and_eq_true]
    refine ⟨⟨?_, ?_⟩, ?_⟩ <;> omega
  · have h := top_face_ident (np := np) (secs := m + 2) (i0 := m) (by omega) hn (by omega)
    simp only [if_true] at h
    simp only [Function.comp, h, nondegenerate, enc]
    simp

end Retro.Lathe

namespace Retro.Lathe
open Retro.Surface Retro.Cyl

theorem dirEdges_append (a b : List Tri) : dirEdges (a ++ b) = dirEdges a ++ dirEdges b := by
  simp [dirEdges, List.flatMap_append]

/-- **The capped lathe model after `ident` is the coordinate cylinder**: same directed edges, in
the same order, under the index encoding. -/
theorem capped_bridge {R secs : Nat} (hs : 3 ≤ secs) :
    dirEdges (mergedFaces (R + 1) secs true {}) = mapEdges (enc secs) (cylEdges R secs) := by
  unfold mergedFaces faces cylEdges
  have hc : hasCaps (R + 1) true = true := by simp [hasCaps]
  rw [hc, if_pos rfl]
  simp only [List.map_append, List.filter_append, dirEdges_append]
  have h1 : List.filter nondegenerate (List.map (mapTri (ident (R + 1) secs {})) (sideFaces (R + 1) secs)) =
      List.map (mapTri (ident (R + 1) secs {})) (sideFaces (R + 1) secs) := by
    rw [List.filter_eq_self]
    exact side_nondegenerate (by omega)
  rw [h1, side_bridge (by omega)]
  unfold ringVertCount
  rw [bottom_bridge hs, top_bridge hs (by omega), Nat.add_sub_cancel]
  simp [mapEdges]

/-- Every vertex of the coordinate cylinder has a column below `S`. -/
theorem cylEdges_cols {R S : Nat} (hS : 3 ≤ S) : ∀ e ∈ cylEdges R S, e.1.2 < S + 1 ∧ e.2.2 < S + 1 := by
  intro e he
  unfold cylEdges at he
  simp only [List.mem_append] at he
  have hfan : ∀ r (e : V × V), e ∈ fanFwd r S → e.1.2 < S + 1 ∧ e.2.2 < S + 1 := by
    intro r e he
    obtain ⟨k, hk, h | h | h⟩ := mem_fanFwd.mp he <;> subst h <;> simp <;> omega
  rcases he with he | he | he
  · obtain ⟨j, _, i, hi, hq⟩ := mem_sideEdges.mp he
    have := sm_lt hi
    simp only [quadEdges, List.mem_cons, List.mem_nil_iff, or_false] at hq
    rcases hq with rfl | rfl | rfl | rfl | rfl | rfl <;> simp <;> omega
  · exact hfan 0 e he
  · have := hfan R (e.2, e.1) (mem_fanBwd.mp he)
    exact ⟨this.2, this.1⟩

end Retro.Lathe

namespace Retro.Lathe
open Retro.Surface Retro.Cyl

/-- Membership is reflected by the encoding when all columns are in range. -/
theorem mem_mapEdges_enc {secs : Nat} {E : List (V × V)}
    (hE : ∀ e ∈ E, e.1.2 < secs + 1 ∧ e.2.2 < secs + 1) {a b : V}
    (ha : a.2 < secs + 1) (hb : b.2 < secs + 1) :
    (enc secs a, enc secs b) ∈ mapEdges (enc secs) E ↔ (a, b) ∈ E := by
  unfold mapEdges
  rw [List.mem_map]
  constructor
  · rintro ⟨x, hx, hxe⟩
    simp only [Prod.mk.injEq] at hxe
    obtain ⟨c1, c2⟩ := hE x hx
    have a1 := enc_inj secs x.1 a c1 ha hxe.1
    have a2 := enc_inj secs x.2 b c2 hb hxe.2
    have : x = (a, b) := Prod.ext a1 a2
    rw [← this]; exact hx
  · intro h; exact ⟨(a, b), h, rfl⟩

theorem fanFwd_cols {r S : Nat} (hS : 3 ≤ S) : ∀ e ∈ fanFwd r S, e.1.2 < S + 1 ∧ e.2.2 < S + 1 := by
  intro e he
  obtain ⟨k, hk, h | h | h⟩ := mem_fanFwd.mp he <;> subst h <;> simp <;> omega

theorem fanBwd_cols {r S : Nat} (hS : 3 ≤ S) : ∀ e ∈ fanBwd r S, e.1.2 < S + 1 ∧ e.2.2 < S + 1 := by
  intro e he
  have := fanFwd_cols hS (e.2, e.1) (mem_fanBwd.mp he)
  exact ⟨this.2, this.1⟩

end Retro.Lathe
